import KatdalModel.Lemmas.CatBasic
open Np Categorical
namespace C11
theorem placeholder : (1 : Nat) = 1 := rfl
end C11
