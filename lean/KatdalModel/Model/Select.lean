/-
  C02 / C03 model: katdal.dataset.DataSet.select and the scans()/compscans() generators.

  The state mirrors the code: three boolean masks (time, frequency, correlation product) and
  the insertion-ordered `_selection` dict.  `select` mirrors dataset.py:706-919 step by step:
  reset computation, mask clearing, popping selector keys, dict update, re-application of every
  stored criterion by AND.  `specStep` is the documented per-dimension rule with no dict.
-/
import KatdalModel.Model.Index
open Np Index

namespace Select

inductive Dim | T | F | B
  deriving DecidableEq, Repr, Inhabited

/-- the twelve selector keywords -/
inductive Key
  | dumps | timerange | scans | compscans | targets | targetTags
  | channels | freqrange
  | corrprods | ants | inputs | pol
  deriving DecidableEq, Repr, Inhabited

def Key.dim : Key → Dim
  | .dumps | .timerange | .scans | .compscans | .targets | .targetTags => .T
  | .channels | .freqrange => .F
  | .corrprods | .ants | .inputs | .pol => .B

/-- `and` of two masks (numpy `&=` on equal-length boolean arrays) -/
def andMask (a b : List Bool) : List Bool := List.zipWith (· && ·) a b

structure Masks where
  t : List Bool
  f : List Bool
  b : List Bool
  deriving DecidableEq, Repr, Inhabited

def Masks.get (m : Masks) : Dim → List Bool
  | .T => m.t | .F => m.f | .B => m.b

def Masks.set (m : Masks) (d : Dim) (v : List Bool) : Masks :=
  match d with
  | .T => { m with t := v } | .F => { m with f := v } | .B => { m with b := v }

/-- a stored criterion, already evaluated to the mask it keeps on its dimension -/
structure Crit where
  key : Key
  mask : List Bool
  deriving DecidableEq, Repr, Inhabited

structure St where
  masks : Masks
  sel : List Crit          -- `_selection` restricted to selector keys, insertion ordered
  deriving DecidableEq, Repr, Inhabited

inductive Reset
  | auto
  | explicit (dims : List Dim)
  deriving DecidableEq, Repr, Inhabited

structure Call where
  crits : List Crit        -- keyword criteria of this call (distinct keys)
  reset : Reset
  bare : Bool              -- `select()` with no keyword at all
  deriving DecidableEq, Repr, Inhabited

/-- dimensions cleared by a call (dataset.py:719-755) -/
def cleared (c : Call) (d : Dim) : Bool :=
  c.bare ||
  (match c.reset with
   | .explicit dims => dims.contains d
   | .auto => c.crits.any (fun k => k.key.dim == d))

/-- `dict.update` for one item: replace the value of an existing key in place, else append -/
def upsert (sel : List Crit) (c : Crit) : List Crit :=
  if sel.any (fun k => k.key == c.key) then sel.map (fun k => if k.key == c.key then c else k)
  else sel ++ [c]

def andAll (m : List Bool) (cs : List Crit) (d : Dim) : List Bool :=
  cs.foldl (fun acc c => if c.key.dim == d then andMask acc c.mask else acc) m

/-- one `select(**kwargs)` call, mirroring the code -/
def select (base : Masks) (σ : St) (c : Call) : St :=
  -- reset the masks of cleared dimensions and pop their selector keys
  let m1 : Masks :=
    { t := if cleared c .T then base.t else σ.masks.t
      f := if cleared c .F then base.f else σ.masks.f
      b := if cleared c .B then base.b else σ.masks.b }
  let sel1 := σ.sel.filter (fun k => !cleared c k.key.dim)
  -- self._selection.update(kwargs)
  let sel2 := c.crits.foldl upsert sel1
  -- re-apply every stored criterion
  { masks := { t := andAll m1.t sel2 .T, f := andAll m1.f sel2 .F, b := andAll m1.b sel2 .B }
    sel := sel2 }

/-- the documented rule, per dimension, with no memory of earlier criteria -/
def specStep (base : Masks) (m : Masks) (c : Call) : Masks :=
  let m1 : Masks :=
    { t := if cleared c .T then base.t else m.t
      f := if cleared c .F then base.f else m.f
      b := if cleared c .B then base.b else m.b }
  { t := andAll m1.t c.crits .T, f := andAll m1.f c.crits .F, b := andAll m1.b c.crits .B }

def init (base : Masks) : St := { masks := base, sel := [] }

/-! ### Criterion evaluation (what each keyword keeps), over an explicit observation context -/

inductive ScanItem
  | idx (i : Int)            -- integer: scan / compscan index
  | name (id : Nat)          -- state / label name
  | notName (id : Nat)       -- `~name`
  deriving DecidableEq, Repr, Inhabited

structure Ctx where
  nT : Nat
  nF : Nat
  nB : Nat
  ts : List Int            -- dump mid-times in half-dump units (dump period = 2·half)
  half : Int               -- half a dump period in the same units
  scanState : List Nat     -- per dump: id of the scan state
  scanIdx : List Nat       -- per dump: scan index
  label : List Nat         -- per dump: id of the compscan label
  csIdx : List Nat         -- per dump: compscan index
  tgtIdx : List Nat        -- per dump: target index
  tgtTags : List (List Nat)  -- per target: tag ids
  freqs : List Int         -- channel centre frequencies in half-channel units
  halfw : Int              -- half a channel width in the same units
  cpA : List (Nat × Nat)   -- per product: (antenna id, pol id) of first input
  cpB : List (Nat × Nat)   -- per product: (antenna id, pol id) of second input
  deriving Repr, Inhabited

/-- `keep = zeros(n); keep[index] = True` -/
def indexMask (n : Nat) (ix : Ix) : Except Err (List Bool) :=
  match ix with
  | .mask m => if m.length = n then .ok m else .error .value
  | _ => do
    let s ← ix.resolve n
    let ks := match s with | .one k => [k] | .many ks => ks
    pure ((List.range n).map fun i => ks.contains i)

/-- timerange / freqrange: keep the points whose whole extent lies inside `[a, b]` -/
def rangeMask (xs : List Int) (half a b : Int) : List Bool :=
  xs.map fun x => decide (a + half ≤ x) && decide (x ≤ b - half)

def scanItemMask (state idx : List Nat) (it : ScanItem) : List Bool :=
  match it with
  | .idx i => idx.map fun (k : Nat) => decide (Int.ofNat k = i)
  | .name id => state.map fun s => s == id
  | .notName id => state.map fun s => !(s == id)

def orMask (a b : List Bool) : List Bool := List.zipWith (· || ·) a b

def scansMask (n : Nat) (state idx : List Nat) (items : List ScanItem) : List Bool :=
  items.foldl (fun acc it => orMask acc (scanItemMask state idx it)) (List.replicate n false)

def targetsMask (tgtIdx : List Nat) (sel : List Int) : List Bool :=
  tgtIdx.map fun (k : Nat) => sel.any fun i => decide (Int.ofNat k = i)

def tagsMask (tgtIdx : List Nat) (tgtTags : List (List Nat)) (sel : List Nat) : List Bool :=
  tgtIdx.map fun k => ((tgtTags.getD k []).any fun t => sel.contains t)

/-- one antenna selector: (has tilde, antenna id) -/
def antsMask (cpA cpB : List (Nat × Nat)) (items : List (Bool × Nat)) : List Bool :=
  if items.all (·.1) then
    let names := items.map (·.2)
    List.zipWith (fun a b => !names.contains a.1 && !names.contains b.1) cpA cpB
  else
    -- names carrying a tilde never match an antenna when the selection is not a pure deselection
    let names := (items.filter (fun it => !it.1)).map (·.2)
    List.zipWith (fun a b => names.contains a.1 && names.contains b.1) cpA cpB

def inputsMask (cpA cpB : List (Nat × Nat)) (inps : List (Nat × Nat)) : List Bool :=
  List.zipWith (fun a b => inps.contains a && inps.contains b) cpA cpB

/-- a pol item is a string over pol ids; a single `h`/`v` means `hh`/`vv` -/
def polItemMask (cpA cpB : List (Nat × Nat)) (it : List Nat) : Except Err (List Bool) :=
  let it := if it.length = 1 then it ++ it else it
  match it with
  | p :: q :: _ => .ok (List.zipWith (fun a b => a.2 == p && b.2 == q) cpA cpB)
  | _ => .error .index

def polMask (n : Nat) (cpA cpB : List (Nat × Nat)) (items : List (List Nat)) : Except Err (List Bool) :=
  let items := items.filter (fun it => !it.isEmpty)
  if items.isEmpty then .ok (List.replicate n true)
  else items.foldlM (fun acc it => do let m ← polItemMask cpA cpB it; pure (orMask acc m)) (List.replicate n false)

def autoMask (cpA cpB : List (Nat × Nat)) : List Bool := List.zipWith (fun a b => a.1 == b.1) cpA cpB
def crossMask (cpA cpB : List (Nat × Nat)) : List Bool := List.zipWith (fun a b => !(a.1 == b.1)) cpA cpB
def pairsMask (cpA cpB : List (Nat × Nat)) (ps : List ((Nat × Nat) × (Nat × Nat))) : List Bool :=
  List.zipWith (fun a b => ps.contains (a, b)) cpA cpB

/-- raw criterion values as the user gives them -/
inductive Val
  | index (ix : Ix)
  | range (a b : Int)
  | scans (items : List ScanItem)
  | targets (idxs : List Int)
  | tags (ids : List Nat)
  | cpAuto | cpCross
  | cpPairs (ps : List ((Nat × Nat) × (Nat × Nat)))
  | ants (items : List (Bool × Nat))
  | inputs (inps : List (Nat × Nat))
  | pol (items : List (List Nat))
  deriving Repr, Inhabited

def evalCrit (c : Ctx) (k : Key) (v : Val) : Except Err (List Bool) :=
  match k, v with
  | .dumps, .index ix => indexMask c.nT ix
  | .timerange, .range a b => .ok (rangeMask c.ts c.half a b)
  | .scans, .scans items => .ok (scansMask c.nT c.scanState c.scanIdx items)
  | .compscans, .scans items => .ok (scansMask c.nT c.label c.csIdx items)
  | .targets, .targets idxs => .ok (targetsMask c.tgtIdx idxs)
  | .targetTags, .tags ids => .ok (tagsMask c.tgtIdx c.tgtTags ids)
  | .channels, .index ix => indexMask c.nF ix
  | .freqrange, .range a b => .ok (rangeMask c.freqs c.halfw a b)
  | .corrprods, .index ix => indexMask c.nB ix
  | .corrprods, .cpAuto => .ok (autoMask c.cpA c.cpB)
  | .corrprods, .cpCross => .ok (crossMask c.cpA c.cpB)
  | .corrprods, .cpPairs ps => .ok (pairsMask c.cpA c.cpB ps)
  | .ants, .ants items => .ok (antsMask c.cpA c.cpB items)
  | .inputs, .inputs inps => .ok (inputsMask c.cpA c.cpB inps)
  | .pol, .pol items => polMask c.nB c.cpA c.cpB items
  | _, _ => .error .type

def baseMasks (c : Ctx) : Masks :=
  { t := List.replicate c.nT true, f := List.replicate c.nF true, b := List.replicate c.nB true }

/-- raw call: keyword → raw value -/
structure RawCall where
  kws : List (Key × Val)
  reset : Reset
  bare : Bool
  deriving Repr, Inhabited

/-- evaluate a raw call's criteria; any failing criterion fails the call (the code would leave
    the masks half-updated; the property says nothing about that state) -/
def evalCall (c : Ctx) (r : RawCall) : Except Err Call := do
  let crits ← r.kws.mapM fun (k, v) => do
    let m ← evalCrit c k v
    pure ({ key := k, mask := m } : Crit)
  pure { crits := crits, reset := r.reset, bare := r.bare }

/-! ### scans() / compscans() generators (C03), over the same state machine -/

/-- mask of the dumps whose scan (compscan) index is `i` -/
def indexIs (idx : List Nat) (i : Nat) : List Bool := idx.map (· == i)

/-- indices present in the current time selection, ascending and de-duplicated:
    `sorted(set(sensor[index]))` -/
def selectedIndices (idx : List Nat) (tmask : List Bool) : List Nat :=
  let present := (List.zip idx tmask).filterMap fun (i, keep) => if keep then some i else none
  (List.range ((idx.foldl max 0) + 1)).filter fun i => present.contains i

/-- what the generator exposes while item `i` is current: `select(scans=i, reset='')` -/
def duringItem (base : Masks) (σ : St) (key : Key) (idx : List Nat) (i : Nat) : St :=
  select base σ { crits := [{ key := key, mask := indexIs idx i }], reset := .explicit [], bare := false }

/-- after exhaustion: `select(**preselection)` with `reset='T'` on the saved `_selection` -/
def afterIteration (base : Masks) (σ : St) : St :=
  select base σ { crits := σ.sel, reset := .explicit [.T], bare := false }

end Select
