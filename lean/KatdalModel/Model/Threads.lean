/-
  Threads: labelled transition systems for the lazily initialised shared state of katdal
  (property C20).  Import-free, executable (compiled into `kd_c20`).

  Threads are natural numbers; per-thread state is a function `Tid → Local`, so the number of
  threads is unbounded.  `step c s t` is the (deterministic) next state when the scheduler lets
  thread `t` execute one atomic action in state `s`; `none` = thread `t` cannot move (blocked on
  a lock, or finished).  A schedule is a list of thread ids; all nondeterminism is in the schedule.

  (i)   `Lazy`   — DaskLazyIndexer.dataset (lazy_indexer.py:519-531, clears its input after use) and
                   SpectralWindow.channel_freqs (spectral_window.py:80-89, input never cleared);
                   `locked := false` is the same code with `with self._lock:` removed.
  (ii)  `RCache` — SensorCache.get / __setitem__ under `threading.RLock` (sensordata.py:833-867,
                   902-904); virtual sensors call `get` recursively and store with `cache[name] = v`;
                   `reentrant := false` is the same code with a plain `Lock`.
  (iii) `Pool`   — chunkstore_s3._Pool.get/put (chunkstore_s3.py:398-409), the `__call__` context
                   manager drops the item when the body raises (no try/finally in the source).
  (iv)  `Load`   — block-wise store of pure block functions in any completion order.
-/
namespace Threads

abbrev Tid := Nat

/-- function update -/
def upd {α : Type} (f : Tid → α) (t : Tid) (v : α) : Tid → α := fun u => if u = t then v else f u

/-! ## (i) lazy initialisation of one attribute -/
namespace Lazy

/-- program counter of one thread inside the property getter

        with self._lock:                      acquiring
            if self._dataset is None:         check
                dataset = f(self._orig)       compute   (raises when the input was cleared)
                self._dataset = dataset       assign
                self._orig_dataset = None     clearInput   (DaskLazyIndexer only)
            return self._dataset              release  (reads the value, leaves the `with`) -/
inductive PC
  | idle | acquiring | check | compute | assign | clearInput | release | done
  deriving DecidableEq, Repr, Inhabited

structure Cfg where
  locked : Bool
  clears : Bool
  f : Nat → Nat
  i0 : Nat

structure Local where
  pc : PC := .idle
  tmp : Option Nat := none
  res : Option Nat := none
  raised : Bool := false
  deriving DecidableEq, Repr, Inhabited

structure State where
  owner : Option Tid
  value : Option Nat
  input : Option Nat
  /-- ghost: number of times the compute step ran to completion -/
  computes : Nat
  th : Tid → Local

def init (c : Cfg) : State := ⟨none, none, some c.i0, 0, fun _ => {}⟩

def unlock (c : Cfg) (o : Option Tid) : Option Tid := if c.locked then none else o

def step (c : Cfg) (s : State) (t : Tid) : Option State :=
  let l := s.th t
  match l.pc with
  | .idle => some { s with th := upd s.th t { l with pc := .acquiring } }
  | .acquiring =>
    if c.locked then
      match s.owner with
      | none => some { s with owner := some t, th := upd s.th t { l with pc := .check } }
      | some _ => none
    else some { s with th := upd s.th t { l with pc := .check } }
  | .check =>
    match s.value with
    | none => some { s with th := upd s.th t { l with pc := .compute } }
    | some _ => some { s with th := upd s.th t { l with pc := .release } }
  | .compute =>
    match s.input with
    | some i => some { s with computes := s.computes + 1,
                              th := upd s.th t { l with pc := .assign, tmp := some (c.f i) } }
    | none => some { s with owner := unlock c s.owner,
                            th := upd s.th t { l with pc := .done, raised := true } }
  | .assign => some { s with value := l.tmp,
                             th := upd s.th t { l with pc := if c.clears then .clearInput else .release } }
  | .clearInput => some { s with input := none, th := upd s.th t { l with pc := .release } }
  | .release => some { s with owner := unlock c s.owner,
                              th := upd s.th t { l with pc := .done, res := s.value } }
  | .done => none

def run (c : Cfg) : State → List Tid → Option State
  | s, [] => some s
  | s, t :: ts => match step c s t with
    | some s' => run c s' ts
    | none => none

/-- states reachable with threads `0..n-1` under any schedule -/
inductive Reach (c : Cfg) (n : Nat) : State → Prop
  | init : Reach c n (init c)
  | step {s s' : State} {t : Tid} : Reach c n s → t < n → step c s t = some s' → Reach c n s'

def inCS : PC → Bool
  | .check | .compute | .assign | .clearInput | .release => true
  | _ => false

/-- what the harness can see of a state -/
structure Obs where
  owner : Option Tid
  valueSet : Bool
  inputSet : Bool
  pcs : List PC
  deriving DecidableEq, Repr

def obs (n : Nat) (s : State) : Obs :=
  ⟨s.owner, s.value.isSome, s.input.isSome, (List.range n).map fun t => (s.th t).pc⟩

/-- smallest `k ≤ fuel` such that `k` steps of thread `t` lead to a state observed as `o` -/
def advance (c : Cfg) (n : Nat) (t : Tid) (o : Obs) : Nat → State → Option (Nat × State)
  | 0, s => if obs n s = o then some (0, s) else none
  | fuel + 1, s =>
    if obs n s = o then some (0, s) else
    match step c s t with
    | some s' => (advance c n t o fuel s').map fun (k, r) => (k + 1, r)
    | none => none

end Lazy

/-! ## (ii) sensor cache under a re-entrant lock -/
namespace RCache

inductive Kind
  | raw                      -- a SensorGetter is in the dict from the start
  | virt (deps : List Nat)   -- matches a virtual template; creation calls `get(d)` for each dep
  | missing                  -- neither in the dict nor matching a template: `get` raises KeyError
  deriving DecidableEq, Repr, Inhabited

inductive Entry
  | getter
  | val (v : Nat)
  deriving DecidableEq, Repr, Inhabited

/-- program counter of one activation of `SensorCache.get(name)` -/
inductive FPC
  | acq                                   -- `with self._lock:` (get)
  | lookup                                -- `sensor_data = self._raw[name]` / template search
  | deps (rem : List Nat) (acc : List Nat) -- inside `create_sensor`: `cache.get(d)` for each dep
  | setAcq (v : Nat)                      -- `cache[name] = v` → `__setitem__`: `with self._lock:`
  | setStore (v : Nat)                    -- `self._raw[key] = item`
  | setRel (v : Nat)                      -- leaving the `with` of `__setitem__`
  | extract                               -- `self._extract(getter, …)`
  | store (v : Nat)                       -- `self._raw[name] = sensor_data`
  | rel (v : Nat)                         -- leaving the `with` of `get`
  | ret (v : Nat)                         -- `return sensor_data` (lock level already given back)
  | relErr                                -- a KeyError leaves the `with` of `get`: the lock level is given back
  | retErr                                -- the KeyError arrives in the caller (creation function or program)
  deriving DecidableEq, Repr, Inhabited

structure Frame where
  key : Nat
  pc : FPC
  deriving DecidableEq, Repr, Inhabited

structure Cfg where
  reentrant : Bool
  kind : Nat → Kind
  ext : Nat → Nat
  vf : Nat → List Nat → Nat

structure Local where
  todo : List Nat := []
  stack : List Frame := []
  results : List (Nat × Nat) := []
  errs : List Nat := []          -- keys whose `get` raised KeyError into the thread's program (caught there)
  deriving DecidableEq, Repr, Inhabited

structure State where
  owner : Option Tid
  depth : Nat
  cache : Nat → Option Entry
  th : Tid → Local

def init (c : Cfg) (prog : Tid → List Nat) : State :=
  ⟨none, 0, fun k => match c.kind k with | .raw => some .getter | .virt _ => none | .missing => none,
   fun t => { todo := prog t }⟩

def canAcquire (c : Cfg) (s : State) (t : Tid) : Bool :=
  match s.owner with
  | none => true
  | some o => c.reentrant && o == t

def releaseOwner (s : State) : Option Tid := if s.depth - 1 = 0 then none else s.owner

def setTop (s : State) (t : Tid) (l : Local) (k : Nat) (below : List Frame) (pc : FPC) : State :=
  { s with th := upd s.th t { l with stack := ⟨k, pc⟩ :: below } }

def step (c : Cfg) (s : State) (t : Tid) : Option State :=
  let l := s.th t
  match l.stack with
  | [] =>
    match l.todo with
    | [] => none
    | k :: ks => some { s with th := upd s.th t { l with todo := ks, stack := [⟨k, .acq⟩] } }
  | ⟨k, pc⟩ :: below =>
    match pc with
    | .acq =>
      if canAcquire c s t then
        some { s with owner := some t, depth := s.depth + 1,
                      th := upd s.th t { l with stack := ⟨k, .lookup⟩ :: below } }
      else none
    | .lookup =>
      match s.cache k with
      | some (.val v) => some (setTop s t l k below (.rel v))
      | some .getter => some (setTop s t l k below .extract)
      | none =>
        match c.kind k with
        | .virt ds => some (setTop s t l k below (.deps ds []))
        | .missing => some (setTop s t l k below .relErr)
        | .raw => none
    | .deps rem acc =>
      match rem with
      | d :: _ => some { s with th := upd s.th t { l with stack := ⟨d, .acq⟩ :: ⟨k, .deps rem acc⟩ :: below } }
      | [] => some (setTop s t l k below (.setAcq (c.vf k acc)))
    | .setAcq v =>
      if canAcquire c s t then
        some { s with owner := some t, depth := s.depth + 1,
                      th := upd s.th t { l with stack := ⟨k, .setStore v⟩ :: below } }
      else none
    | .setStore v =>
      some { s with cache := upd s.cache k (some (.val v)),
                    th := upd s.th t { l with stack := ⟨k, .setRel v⟩ :: below } }
    | .setRel v =>
      some { s with owner := releaseOwner s, depth := s.depth - 1,
                    th := upd s.th t { l with stack := ⟨k, .rel v⟩ :: below } }
    | .extract => some (setTop s t l k below (.store (c.ext k)))
    | .store v =>
      some { s with cache := upd s.cache k (some (.val v)),
                    th := upd s.th t { l with stack := ⟨k, .rel v⟩ :: below } }
    | .rel v =>
      some { s with owner := releaseOwner s, depth := s.depth - 1,
                    th := upd s.th t { l with stack := ⟨k, .ret v⟩ :: below } }
    | .ret v =>
      match below with
      | [] => some { s with th := upd s.th t { l with stack := [], results := l.results ++ [(k, v)] } }
      | ⟨k', .deps (_ :: r) acc⟩ :: more =>
        some { s with th := upd s.th t { l with stack := ⟨k', .deps r (acc ++ [v])⟩ :: more } }
      | _ :: _ => none
    | .relErr =>
      some { s with owner := releaseOwner s, depth := s.depth - 1,
                    th := upd s.th t { l with stack := ⟨k, .retErr⟩ :: below } }
    | .retErr =>
      match below with
      | [] => some { s with th := upd s.th t { l with stack := [], errs := l.errs ++ [k] } }
      | ⟨k', .deps (_ :: _) _⟩ :: more =>
        -- the creation function does not catch it: the exception leaves the enclosing `get` as well
        some { s with th := upd s.th t { l with stack := ⟨k', .relErr⟩ :: more } }
      | _ :: _ => none

def run (c : Cfg) : State → List Tid → Option State
  | s, [] => some s
  | s, t :: ts => match step c s t with
    | some s' => run c s' ts
    | none => none

inductive Reach (c : Cfg) (n : Nat) (prog : Tid → List Nat) : State → Prop
  | init : Reach c n prog (init c prog)
  | step {s s' : State} {t : Tid} : Reach c n prog s → t < n → step c s t = some s' → Reach c n prog s'

/-- number of lock acquisitions an activation at this pc is holding -/
def holds : FPC → Nat
  | .acq => 0
  | .ret _ => 0
  | .retErr => 0
  | .setStore _ | .setRel _ => 2
  | _ => 1

def held : List Frame → Nat
  | [] => 0
  | f :: r => holds f.pc + held r

/-- thread `t` has work left -/
def active (s : State) (t : Tid) : Bool := !((s.th t).stack.isEmpty && (s.th t).todo.isEmpty)

/-- what the harness can see: owner, depth, which of the keys `ks` hold extracted values,
    per thread the keys of its active `get` calls (innermost first) -/
structure Obs where
  owner : Option Tid
  depth : Nat
  cached : List Bool
  stacks : List (List Nat)
  deriving DecidableEq, Repr

def obs (n : Nat) (ks : List Nat) (s : State) : Obs :=
  ⟨s.owner, s.depth,
   ks.map (fun k => match s.cache k with | some (.val _) => true | _ => false),
   (List.range n).map fun t => (s.th t).stack.map (·.key)⟩

def advance (c : Cfg) (n : Nat) (ks : List Nat) (t : Tid) (o : Obs) : Nat → State → Option (Nat × State)
  | 0, s => if obs n ks s = o then some (0, s) else none
  | fuel + 1, s =>
    if obs n ks s = o then some (0, s) else
    match step c s t with
    | some s' => (advance c n ks t o fuel s').map fun (k, r) => (k + 1, r)
    | none => none

/-- sequential meaning of a key, by fuel (for the driver and the examples) -/
def seqVal (c : Cfg) : Nat → Nat → Nat
  | 0, k => c.ext k
  | fuel + 1, k =>
    match c.kind k with
    | .raw => c.ext k
    | .virt ds => c.vf k (ds.map (seqVal c fuel))
    | .missing => 0

/-- sequential outcome of a key: does `get` raise -/
def seqBad (c : Cfg) : Nat → Nat → Bool
  | 0, k => match c.kind k with | .missing => true | _ => false
  | fuel + 1, k =>
    match c.kind k with
    | .raw => false
    | .virt ds => ds.any (seqBad c fuel)
    | .missing => true

end RCache

/-! ## (iii) pool of sessions -/
namespace Pool

/-- get():  with self._lock:               getAcq
                if not self._pool:         getCheck
                    return self._factory() getNew   (then leaves the `with`: getRel)
                else:
                    return self._pool.pop() getPop  (then getRel)
    body of `with pool() as item:`          using
    put():  with self._lock:               putAcq
                self._pool.append(item)    putAppend (then putRel) -/
inductive PC
  | idle | getAcq | getCheck | getNew | getPop | getRel | using | putAcq | putAppend | putRel | done
  deriving DecidableEq, Repr, Inhabited

structure Cfg where
  locked : Bool

structure Local where
  pc : PC := .idle
  /-- one entry per borrow: `true` = the body finishes and the item is put back,
      `false` = the body raises and the item is dropped (`__call__` has no try/finally) -/
  plan : List Bool := []
  cur : Bool := true
  held : Option Nat := none
  raised : Bool := false
  deriving DecidableEq, Repr, Inhabited

structure State where
  owner : Option Tid
  /-- `self._pool`, most recently returned item first (Python's list reversed: `pop()` takes the
      last element, `append` adds at the end) -/
  free : List Nat
  /-- the factory hands out 0, 1, 2, … -/
  next : Nat
  dropped : List Nat
  th : Tid → Local

def init (plan : Tid → List Bool) : State := ⟨none, [], 0, [], fun t => { plan := plan t }⟩

def unlock (c : Cfg) (o : Option Tid) : Option Tid := if c.locked then none else o

def acquire (c : Cfg) (s : State) (t : Tid) (l : Local) (pc : PC) : Option State :=
  if c.locked then
    match s.owner with
    | none => some { s with owner := some t, th := upd s.th t { l with pc := pc } }
    | some _ => none
  else some { s with th := upd s.th t { l with pc := pc } }

def step (c : Cfg) (s : State) (t : Tid) : Option State :=
  let l := s.th t
  match l.pc with
  | .idle =>
    match l.plan with
    | [] => some { s with th := upd s.th t { l with pc := .done } }
    | b :: r => some { s with th := upd s.th t { l with pc := .getAcq, plan := r, cur := b } }
  | .getAcq => acquire c s t l .getCheck
  | .getCheck =>
    some { s with th := upd s.th t { l with pc := if s.free.isEmpty then .getNew else .getPop } }
  | .getNew =>
    some { s with next := s.next + 1, th := upd s.th t { l with pc := .getRel, held := some s.next } }
  | .getPop =>
    match s.free with
    | i :: r => some { s with free := r, th := upd s.th t { l with pc := .getRel, held := some i } }
    | [] => some { s with owner := unlock c s.owner,
                          th := upd s.th t { l with pc := .done, raised := true } }
  | .getRel => some { s with owner := unlock c s.owner, th := upd s.th t { l with pc := .using } }
  | .using =>
    if l.cur then some { s with th := upd s.th t { l with pc := .putAcq } }
    else
      match l.held with
      | some i => some { s with dropped := i :: s.dropped, th := upd s.th t { l with pc := .idle, held := none } }
      | none => some { s with th := upd s.th t { l with pc := .idle } }
  | .putAcq => acquire c s t l .putAppend
  | .putAppend =>
    match l.held with
    | some i => some { s with free := i :: s.free, th := upd s.th t { l with pc := .putRel, held := none } }
    | none => some { s with th := upd s.th t { l with pc := .putRel } }
  | .putRel => some { s with owner := unlock c s.owner, th := upd s.th t { l with pc := .idle } }
  | .done => none

def run (c : Cfg) : State → List Tid → Option State
  | s, [] => some s
  | s, t :: ts => match step c s t with
    | some s' => run c s' ts
    | none => none

inductive Reach (c : Cfg) (n : Nat) (plan : Tid → List Bool) : State → Prop
  | init : Reach c n plan (init plan)
  | step {s s' : State} {t : Tid} : Reach c n plan s → t < n → step c s t = some s' → Reach c n plan s'

def inCS : PC → Bool
  | .getCheck | .getNew | .getPop | .getRel | .putAppend | .putRel => true
  | _ => false

structure Obs where
  owner : Option Tid
  free : List Nat
  next : Nat
  pcs : List PC
  helds : List (Option Nat)
  deriving DecidableEq, Repr

def obs (n : Nat) (s : State) : Obs :=
  ⟨s.owner, s.free, s.next, (List.range n).map (fun t => (s.th t).pc), (List.range n).map (fun t => (s.th t).held)⟩

def advance (c : Cfg) (n : Nat) (t : Tid) (o : Obs) : Nat → State → Option (Nat × State)
  | 0, s => if obs n s = o then some (0, s) else none
  | fuel + 1, s =>
    if obs n s = o then some (0, s) else
    match step c s t with
    | some s' => (advance c n t o fuel s').map fun (k, r) => (k + 1, r)
    | none => none

end Pool

/-! ## (iv) block-wise load -/
namespace Load

/-- a worker finishing block `i` stores `f i` into slot `i` of the output -/
def exec (f : Nat → Nat) : List Nat → (Nat → Option Nat) → (Nat → Option Nat)
  | [], out => out
  | i :: r, out => exec f r (upd out i (some (f i)))

end Load

end Threads
