/-
  C10 — Categorical sensors are mapped onto dumps by the documented rule.

  "A categorical (non-numeric) sensor converted to per-dump values assigns every dump exactly one
   value: the latest 'greedy' value among the values in effect at any moment of the dump if there
   is one, otherwise the value in effect at the end of the dump, where the last event before the
   first dump (or else the supplied initial value, or else the first event) defines the value at
   the start and events after the last dump are ignored.  The result always covers dumps 0..N-1
   with strictly increasing event boundaries, applies the optional transform before any
   comparison, and contains no repeated consecutive values unless repeats are allowed."

  Model (mirror of katdal/categorical.py): `Categorical.sensorToCategorical`, with the mutating
  generator `_single_event_per_dump` as `Categorical.sepd` (array `ev` updated in place).
  Spec: `Categorical.rule` (dump `d` = half-open interval `(end_{d-1}, end_d]`, per dump the
  values in effect = carried value followed by the dump's events, `winner`, `carry`).

  The theorems are about the *mirror itself* (no functional reformulation is left in the
  statements): `Lemmas/CatSepd.lean` proves that the mirror with its in-place `events[i] += 1`
  computes the array-free `fLoop` (simulation, `sepd_eq`) and that the yields of `fLoop` written
  out dump by dump are the rule (loop invariant `Inv`, `fLoop_rule`).

  Full statement: `c10_rule` holds for every input for which the rule defines a start value
  without looking past the last dump, i.e. (an event lies before the end of the last dump) OR (an
  initial value is given).  Two families in which the implementation used to depart from the rule
  were repaired in /repo commit d44506c (the initial value is now inserted whenever no event
  precedes the first dump) and are covered by the theorem; each has a kernel-checked example below:
    (a) no event before the first dump, an event inside dump 0, and a *greedy* initial value:
        the initial value now claims dump 0;
    (b) no event before the end of the last dump, initial value given: every dump carries the
        initial value (formerly IndexError).
  Still outside (treated as outside the text, "events after the last dump are ignored"): no event
  before the end of the last dump and NO initial value; the implementation and the mirror raise
  IndexError there (`c10_no_value_is_error`).
-/
import KatdalModel.Lemmas.CatMain
open Np Categorical

namespace C10

variable {V : Type} [DecidableEq V]

/-! ### the spec's notion of "dump d" -/

theorem filter_lt_take_drop (t : Int) : ∀ (E : List Int), E.Pairwise (· < ·) →
    (∀ x ∈ E.take (E.filter (· < t)).length, x < t) ∧ (∀ x ∈ E.drop (E.filter (· < t)).length, t ≤ x) := by
  intro E
  induction E with
  | nil => intro _; simp
  | cons a r ih =>
    intro hs
    have hs' := List.pairwise_cons.mp hs
    by_cases ha : a < t
    · have := ih hs'.2
      simp only [List.filter_cons, ha, decide_true, if_true, List.length_cons, List.take_succ_cons,
        List.drop_succ_cons, List.mem_cons]
      refine ⟨?_, this.2⟩
      rintro x (rfl | hx)
      · exact ha
      · exact this.1 x hx
    · have hnil : r.filter (· < t) = [] := by
        apply List.filter_eq_nil_iff.mpr
        intro x hx
        have := hs'.1 x hx
        simp only [decide_eq_true_eq]; omega
      simp only [List.filter_cons, ha, decide_false, Bool.false_eq_true, if_false, hnil, List.length_nil,
        List.take_zero, List.drop_zero, List.mem_cons]
      refine ⟨by simp, ?_⟩
      rintro x (rfl | hx)
      · omega
      · have := hs'.1 x hx; omega

/-- **Dump `d` is the half-open interval `(end_{d-1}, end_d]`** (with `end_{-1} = end_0 - period`):
    `dumpOf … t = k - 1` exactly when the first `k` boundaries lie strictly below `t` and all
    remaining boundaries are at or above `t`.  `k = 0` is "before the first dump", `k = N + 1` is
    "after the last dump". -/
theorem c10_dump_is_interval (ends : List Int) (period t : Int) (k : Nat)
    (hE : ((ends.headD 0 - period) :: ends).Pairwise (· < ·)) (hk : k ≤ ends.length + 1) :
    dumpOf ends period t = (k : Int) - 1 ↔
      (∀ x ∈ ((ends.headD 0 - period) :: ends).take k, x < t) ∧
      (∀ x ∈ ((ends.headD 0 - period) :: ends).drop k, t ≤ x) := by
  have hfl := filter_lt_take_drop t _ hE
  constructor
  · intro h
    have hk' : (((ends.headD 0 - period) :: ends).filter (· < t)).length = k := by
      simp only [dumpOf] at h; omega
    rw [hk'] at hfl
    exact hfl
  · rintro ⟨h1, h2⟩
    have hsplit : ((ends.headD 0 - period) :: ends) =
        ((ends.headD 0 - period) :: ends).take k ++ ((ends.headD 0 - period) :: ends).drop k :=
      (List.take_append_drop k _).symm
    have hlen : (((ends.headD 0 - period) :: ends).filter (· < t)).length = k := by
      rw [hsplit, List.filter_append]
      have e1 : (((ends.headD 0 - period) :: ends).take k).filter (· < t) = ((ends.headD 0 - period) :: ends).take k := by
        apply List.filter_eq_self.mpr
        intro x hx; simpa using h1 x hx
      have e2 : (((ends.headD 0 - period) :: ends).drop k).filter (· < t) = [] := by
        apply List.filter_eq_nil_iff.mpr
        intro x hx
        have := h2 x hx
        simp only [decide_eq_true_eq]; omega
      rw [e1, e2, List.append_nil, List.length_take]
      simp only [List.length_cons]
      omega
    simp only [dumpOf, hlen]

/-! ### the rule -/

theorem sorted_edges (e0 : Int) (es : List Int) (period : Int) (hends : (e0 :: es).Pairwise (· < ·))
    (hper : 0 < period) : ((e0 - period) :: e0 :: es).Pairwise (· ≤ ·) := by
  have h' := List.pairwise_cons.mp hends
  refine List.pairwise_cons.mpr ⟨?_, hends.imp (fun h => Int.le_of_lt h)⟩
  intro x hx
  simp only [List.mem_cons] at hx
  rcases hx with rfl | hx
  · omega
  · have := h'.1 x hx; omega

/-- **The documented rule.**
    For all non-decreasing event times, values, strictly increasing dump end times, transforms,
    initial values, greedy sets and `allow_repeats`: if some event lies before the end of the last
    dump or an initial value is given (i.e. a start value exists without looking past the last
    dump), then `sensor_to_categorical` succeeds and the per-dump list of the returned container
    is exactly the rule's.  No other restriction: in particular a greedy initial value with an
    event inside dump 0, and an initial value without any usable event, are covered. -/
theorem c10_rule (ts : List Int) (vals : List V) (e0 : Int) (es : List Int) (period : Int)
    (tr : Option (V → V)) (init : Option V) (greedyVals : List V) (allowRepeats : Bool)
    (hlen : ts.length = vals.length) (hts : ts.Pairwise (· ≤ ·))
    (hends : (e0 :: es).Pairwise (· < ·)) (hper : 0 < period)
    (hB : (∃ t ∈ ts, dumpOf (e0 :: es) period t < ((es.length + 1 : Nat) : Int)) ∨ init ≠ none) :
    ∃ c r, sensorToCategorical ts vals (e0 :: es) period tr init greedyVals allowRepeats = .ok c ∧
      rule ts vals (e0 :: es) period tr init greedyVals = some r ∧ c.perDump = r.map some := by
  obtain ⟨c, r, h1, h2, h3⟩ := s2c_main ts vals e0 es period tr init greedyVals allowRepeats hlen hts
    (sorted_edges e0 es period hends hper) hB
  exact ⟨c, r, h1, h2, h3.perDump⟩

/-- former deviation (a), repaired: one event inside dump 0, no earlier event, greedy initial value
    `7`: the initial value is in effect at the start of dump 0 and is greedy, so it claims dump 0;
    mirror and rule both give `[7, 1]` (the implementation used to give `[1, 1]`) -/
theorem c10_greedy_initial_claims_dump0 :
    (sensorToCategorical [3] [1] [4, 8] 4 none (some 7) [7] false).map Cat.perDump = .ok [some 7, some 1] ∧
      rule [3] [1] [4, 8] 4 none (some 7) [7] = some [7, 1] := by
  decide

/-- former deviation (b), repaired: the only event lies after the last dump and an initial value
    is supplied: mirror and rule give the initial value for every dump (formerly IndexError) -/
theorem c10_initial_value_without_event :
    (sensorToCategorical [9] [1] [4, 8] 4 none (some 7) [] false).map Cat.perDump = .ok [some 7, some 7] ∧
      rule [9] [1] [4, 8] 4 none (some 7) [] = some [7, 7] := by
  decide

/-- the hypothesis of `c10_rule` cannot be dropped: with no event before the end of the last dump
    and NO initial value the call still raises IndexError (`events[0] = 0` on an empty array),
    also with no events at all; the rule would extrapolate the first event (which lies after the
    last dump) resp. is undefined.  Treated as outside the text of the property. -/
theorem c10_no_value_is_error :
    sensorToCategorical [9] [1] [4, 8] 4 none none [] false = .error .index ∧
      rule [9] [1] [4, 8] 4 none none [] = some [1, 1] ∧
    sensorToCategorical ([] : List Int) ([] : List Nat) [4, 8] 4 none none [] false = .error .index ∧
      rule ([] : List Int) ([] : List Nat) [4, 8] 4 none none [] = none := by
  decide

/-! ### structure of the result -/

theorem getLastD_cons_snoc (a n d : Nat) (l : List Nat) : (a :: (l ++ [n])).getLastD d = n := by
  have : a :: (l ++ [n]) = (a :: l) ++ [n] := rfl
  rw [this, List.getLastD_eq_getLast?, List.getLast?_append]
  simp

theorem pairwise_lt_strictInc : ∀ (l : List Nat), l.Pairwise (· < ·) → strictIncNat l = true := by
  intro l
  induction l with
  | nil => intro _; rfl
  | cons a t ih =>
    intro h
    cases t with
    | nil => rfl
    | cons b u =>
      have h' := List.pairwise_cons.mp h
      simp only [strictIncNat, Bool.and_eq_true, decide_eq_true_eq]
      exact ⟨h'.1 b (List.mem_cons_self ..), ih h'.2⟩

theorem ruleFrom_length {α : Type} (g : α → Bool) (evs : List (Int × α)) :
    ∀ (k d : Nat) (c : α), (ruleFrom g evs d k c).length = k := by
  intro k
  induction k with
  | zero => intro d c; rfl
  | succ k ih => intro d c; simp [ruleFrom, ih]

/-- **The result always covers dumps 0..N-1 with strictly increasing event boundaries** (first
    boundary 0, last boundary N, one value per dump) and is a well-formed container (indices in
    range, unique values pairwise distinct), under the same hypotheses as `c10_rule`. -/
theorem c10_events_strict (ts : List Int) (vals : List V) (e0 : Int) (es : List Int) (period : Int)
    (tr : Option (V → V)) (init : Option V) (greedyVals : List V) (allowRepeats : Bool)
    (hlen : ts.length = vals.length) (hts : ts.Pairwise (· ≤ ·))
    (hends : (e0 :: es).Pairwise (· < ·)) (hper : 0 < period)
    (hB : (∃ t ∈ ts, dumpOf (e0 :: es) period t < ((es.length + 1 : Nat) : Int)) ∨ init ≠ none) :
    ∃ c, sensorToCategorical ts vals (e0 :: es) period tr init greedyVals allowRepeats = .ok c ∧
      c.WF ∧ c.ev.head? = some 0 ∧ c.numDumps = es.length + 1 ∧ c.perDump.length = es.length + 1 ∧
      (∀ v ∈ c.perDump, v ≠ none) := by
  obtain ⟨c, r, h1, h2, h3⟩ := s2c_main ts vals e0 es period tr init greedyVals allowRepeats hlen hts
    (sorted_edges e0 es period hends hper) hB
  obtain ⟨v, Pt, hc, hs, hlt, _⟩ := h3.shape
  have hrlen : r.length = es.length + 1 := by
    simp only [rule] at h2
    split at h2
    · simp at h2
    · split at h2
      · simp at h2
      · simp only [Option.some.injEq] at h2
        rw [← h2, ruleFrom_length]
        rfl
  refine ⟨c, h1, ?_, ?_, ?_, ?_, ?_⟩
  · obtain ⟨w1, w2, w3⟩ := new_wf_parts (((v, 0) :: Pt).map (·.1)) (((v, 0) :: Pt).map (·.2) ++ [es.length + 1])
    rw [← hc] at w1 w2 w3
    refine ⟨?_, ?_, w1, w2⟩
    · rw [hc, new_ev]
      apply pairwise_lt_strictInc
      rw [List.pairwise_append]
      refine ⟨hs, by simp, ?_⟩
      intro a ha b hb
      simp only [List.mem_singleton] at hb
      subst hb
      simp only [List.mem_map] at ha
      obtain ⟨p, hp, rfl⟩ := ha
      exact hlt p hp
    · rw [w3, hc, new_ev]; simp
  · rw [hc, new_ev]; simp
  · rw [hc]; simp only [Cat.numDumps, new_ev, List.map_cons, List.cons_append]; exact getLastD_cons_snoc _ _ _ _
  · rw [h3.perDump]; simp [hrlen]
  · rw [h3.perDump]; intro x hx; simp only [List.mem_map] at hx; obtain ⟨y, _, rfl⟩ := hx; simp

/-- **No repeated consecutive values unless repeats are allowed**: with `allow_repeats=False`
    neighbouring events of the result never carry the same value (same hypotheses as `c10_rule`). -/
theorem c10_no_repeats (ts : List Int) (vals : List V) (e0 : Int) (es : List Int) (period : Int)
    (tr : Option (V → V)) (init : Option V) (greedyVals : List V)
    (hlen : ts.length = vals.length) (hts : ts.Pairwise (· ≤ ·))
    (hends : (e0 :: es).Pairwise (· < ·)) (hper : 0 < period)
    (hB : (∃ t ∈ ts, dumpOf (e0 :: es) period t < ((es.length + 1 : Nat) : Int)) ∨ init ≠ none) :
    ∃ c, sensorToCategorical ts vals (e0 :: es) period tr init greedyVals false = .ok c ∧
      ∀ i x y, c.values[i]? = some x → c.values[i + 1]? = some y → x ≠ y := by
  obtain ⟨c, r, h1, _, h3⟩ := s2c_main ts vals e0 es period tr init greedyVals false hlen hts
    (sorted_edges e0 es period hends hper) hB
  obtain ⟨v, Pt, hc, _, _, hrep⟩ := h3.shape
  refine ⟨c, h1, ?_⟩
  intro i x y hx hy
  rw [hc, new_values, List.getElem?_map] at hx hy
  cases ha : (((v, 0) :: Pt).map (·.1))[i]? with
  | none => rw [ha] at hx; simp at hx
  | some a =>
    cases hb : (((v, 0) :: Pt).map (·.1))[i + 1]? with
    | none => rw [hb] at hy; simp at hy
    | some b =>
      rw [ha] at hx; rw [hb] at hy
      simp only [Option.map_some, Option.some.injEq] at hx hy
      subst hx hy
      have := hrep rfl i a b ha hb
      simpa using this

/-- **The transform is applied before any comparison**: converting with a transform is the same
    as converting the already transformed values without one (dump assignment does not look at
    values; greedy membership, initial value and repeat removal only see transformed values).
    Holds for all inputs, for the mirror and for the rule. -/
theorem c10_transform_first (ts : List Int) (vals : List V) (ends : List Int) (period : Int)
    (f : V → V) (init : Option V) (greedyVals : List V) (allowRepeats : Bool) :
    sensorToCategorical ts vals ends period (some f) init greedyVals allowRepeats =
      sensorToCategorical ts (vals.map f) ends period none init greedyVals allowRepeats ∧
    rule ts vals ends period (some f) init greedyVals = rule ts (vals.map f) ends period none init greedyVals := by
  constructor
  · simp only [sensorToCategorical, s2cCut, s2cCutEv, pySlice, List.map_take, List.map_drop]
  · simp only [rule, trFun, List.map_map, Function.id_comp]

/-! ### the generator and the spec, separately -/

/-- **`_single_event_per_dump` (mirror, with the in-place `events[i] += 1`) implements the
    one-pass rule.**  For event dumps `0 :: D` (non-decreasing, below `N`), terminator `N` and
    greedy flags `g0 :: G`: the generator succeeds, and writing its yields `(index, events[index])`
    out dump by dump gives, for every dump, the index of the event the rule selects. -/
theorem c10_generator (N : Nat) (hN : 0 < N) (D : List Nat) (g0 : Bool) (G : List Bool)
    (hlen : G.length = D.length) (hD : D.Pairwise (· ≤ ·)) (hDN : ∀ d ∈ D, d < N) :
    ∃ out ev' dumps, sepd (0 :: (D ++ [N])) (g0 :: G) = .ok (out, ev') ∧
      takeIdx ev' out = .ok dumps ∧
      ∀ cur, expandFrom N 0 cur (out.zip dumps) =
        ruleS (fun i => (g0 :: G).getD i false) N 0 (if g0 = true then some 0 else none) 0 (D.zipIdx 1) := by
  have hlenG : (g0 :: G).length = (D ++ [N]).length := by simp [hlen]
  obtain ⟨ev', hsepd, hev'⟩ := sepd_eq (D ++ [N]) (g0 :: G) hlenG
  have hinv : ∀ cur, Inv (fun i => (g0 :: G).getD i false) ⟨0, 0, 0⟩ 0 cur := by
    intro cur
    cases g0 with
    | true => left; simp
    | false => right; right; simp
  have hsorted0 : ((0 : Nat) :: D).Pairwise (· ≤ ·) := List.pairwise_cons.mpr ⟨fun _ _ => Nat.zero_le _, hD⟩
  have hgterm : (fun i => (g0 :: G).getD i false) (0 + 1 + D.length) = false := by
    simp only [List.getD]
    rw [List.getElem?_eq_none (by simp [hlen]; omega)]
    rfl
  refine ⟨_, ev', _, hsepd, takeIdx_pairs ev' _ hev', ?_⟩
  intro cur
  have := fLoop_rule _ N D 0 ⟨0, 0, 0⟩ cur 0 (hinv cur) (Nat.le_refl _) hN hDN hsorted0 hgterm
  have hz : ∀ l : List (Nat × Nat), (l.map Prod.fst).zip (l.map (·.2)) = l := by
    intro l; induction l <;> simp_all
  rw [hz]
  simp only [Nat.sub_self, List.replicate_zero, List.nil_append, Nat.zero_add, bestOf] at this
  rw [this]
  cases g0 <;> simp

/-- the dump-by-dump statement of the rule (with `filter`, `winner`, `carry`) is the one-pass
    formulation used in the proofs -/
theorem c10_rule_onepass {α : Type} (g : α → Bool) (k d : Nat) (c : α) (W : List (Int × α))
    (hs : W.Pairwise (fun a b => a.1 ≤ b.1)) (hW : ∀ e ∈ W, (d : Int) ≤ e.1 ∧ e.1 < ((d + k : Nat) : Int)) :
    ruleFrom g W d k c = ruleS g (d + k) d (bestV g c) c (natPairs W) :=
  ruleFrom_eq_ruleS g k d c W hs hW

/-! ### Non-vacuity -/

-- the repo's own example (test_categorical.py::test_dump_to_event_parsing)
example : sepd [0, 0, 1, 3, 3, 4, 4, 6, 8] [true, false, false, true, true, false, false, false]
    = .ok ([0, 2, 4, 6, 7], [0, 1, 1, 3, 3, 4, 5, 6, 8]) := by decide
-- prior event, several events per dump, greedy value 1 wins dump 1 although it is not the last
example : (sensorToCategorical [-3, 2, 9, 10, 15] [0, 1, 2, 1, 2] [8, 16, 24] 8 none (some 1) [1, 0] false).map
    Cat.perDump = .ok [some 1, some 1, some 2] := by decide
example : rule [-3, 2, 9, 10, 15] [0, 1, 2, 1, 2] [8, 16, 24] 8 none (some 1) [1, 0] = some [1, 1, 2] := by decide
-- the hypothesis of c10_rule is satisfiable on that input (left disjunct), and on the two repaired
-- families: greedy initial value with an event in dump 0 (both disjuncts), no usable event (right only)
example : (∃ t ∈ [-3, 2, 9, 10, 15], dumpOf [8, 16, 24] 8 t < ((2 + 1 : Nat) : Int)) ∨ (some 1 : Option Nat) ≠ none := by
  decide
example : ((∃ t ∈ [3], dumpOf [4, 8] 4 t < ((1 + 1 : Nat) : Int)) ∧ (some 7 : Option Nat) ≠ none) ∧
    (∀ t ∈ [3], 0 ≤ dumpOf [4, 8] 4 t) ∧ [7].contains 7 = true ∧ (∃ t ∈ [3], dumpOf [4, 8] 4 t = 0) := by decide
example : ¬ (∃ t ∈ [9], dumpOf [4, 8] 4 t < ((1 + 1 : Nat) : Int)) ∧ (some 7 : Option Nat) ≠ none := by decide
-- c10_rule instantiated on the two repaired inputs
example : ∃ c r, sensorToCategorical [3] [1] [4, 8] 4 none (some 7) [7] false = .ok c ∧
    rule [3] [1] [4, 8] 4 none (some 7) [7] = some r ∧ c.perDump = r.map some :=
  c10_rule [3] [1] 4 [8] 4 none (some 7) [7] false rfl (by decide) (by decide) (by decide) (Or.inr (by decide))
example : ∃ c r, sensorToCategorical [9] [1] [4, 8] 4 none (some 7) [] false = .ok c ∧
    rule [9] [1] [4, 8] 4 none (some 7) [] = some r ∧ c.perDump = r.map some :=
  c10_rule [9] [1] 4 [8] 4 none (some 7) [] false rfl (by decide) (by decide) (by decide) (Or.inr (by decide))
-- greedy initial value, event in dump 0 and a later non-greedy event in dump 0: the initial value wins
example : (sensorToCategorical [1, 3, 6] [1, 2, 3] [4, 8] 4 none (some 7) [7] false).map Cat.perDump =
    .ok [some 7, some 3] := by decide
-- non-greedy initial value with an event in dump 0: the event (value at the end of the dump) wins
example : (sensorToCategorical [3] [1] [4, 8] 4 none (some 7) [] false).map Cat.perDump = .ok [some 1, some 1] := by
  decide
-- a prior event takes precedence over the initial value (no insertion)
example : (sensorToCategorical [-1, 6] [2, 1] [4, 8] 4 none (some 7) [7] false).map Cat.perDump =
    .ok [some 2, some 1] := by decide
-- an event exactly on the closing edge belongs to that dump, on the opening edge to "before"
example : dumpOf [8, 16, 24] 8 8 = 0 ∧ dumpOf [8, 16, 24] 8 0 = -1 ∧ dumpOf [8, 16, 24] 8 9 = 1 ∧
    dumpOf [8, 16, 24] 8 25 = 3 := by decide

end C10
