/-
  C10 lemmas, part 5: assembly.  `sensorToCategorical` (mirror) against `rule` (spec).
-/
import KatdalModel.Lemmas.CatCut
open Np

namespace Categorical

set_option linter.unusedSimpArgs false

variable {V : Type} [DecidableEq V]

theorem expand_some {α : Type} (N : Nat) : ∀ (rest : List (α × Nat)) (d0 : Nat) (y0 : α),
    expand (d0 :: (rest.map (·.2) ++ [N])) (some y0 :: (rest.map (·.1)).map some) =
      (expandFrom N d0 y0 rest).map some := by
  intro rest
  induction rest with
  | nil => intro d0 y0; simp [expand, expandFrom]
  | cons y t ih =>
    intro d0 y0
    obtain ⟨v, d⟩ := y
    simp only [List.map_cons, List.cons_append, expand, expandFrom, List.map_append, List.map_replicate]
    rw [ih]

theorem perDump_pairs (N : Nat) (v : V) (Pt : List (V × Nat)) :
    (Cat.new (((v, 0) :: Pt).map (·.1)) (((v, 0) :: Pt).map (·.2) ++ [N])).perDump =
      (expandFrom N 0 v ((v, 0) :: Pt)).map some := by
  rw [new_perDump]
  simp only [List.map_cons, List.cons_append, List.headD_cons, List.replicate_zero, List.nil_append]
  rw [expand_some]
  simp [expandFrom]

/-- the spec only looks at the events inside the dumps, and there it is the one-pass rule -/
theorem rule_side {α : Type} (g : α → Bool) (N : Nat) (s : α) (P W A : List (Int × α))
    (hP : ∀ e ∈ P, e.1 < 0) (hW : ∀ e ∈ W, 0 ≤ e.1 ∧ e.1 < (N : Int)) (hA : ∀ e ∈ A, (N : Int) ≤ e.1)
    (hWs : W.Pairwise (fun a b => a.1 ≤ b.1)) :
    ruleFrom g (P ++ W ++ A) 0 N s = ruleS g N 0 (bestV g s) s (natPairs W) := by
  have h1 : ruleFrom g (P ++ W ++ A) 0 N s = ruleFrom g W 0 N s := by
    apply ruleFrom_congr
    intro d _ hd
    simp only [List.filter_append]
    have hPf : P.filter (fun e => decide (e.1 = (d : Int))) = [] := by
      apply List.filter_eq_nil_iff.mpr
      intro e he
      have := hP e he
      simp only [decide_eq_true_eq]; omega
    have hAf : A.filter (fun e => decide (e.1 = (d : Int))) = [] := by
      apply List.filter_eq_nil_iff.mpr
      intro e he
      have := hA e he
      simp only [decide_eq_true_eq]; omega
    simp [hPf, hAf]
  rw [h1, ruleFrom_eq_ruleS g N 0 s W hWs (by
    intro e he
    have := hW e he
    simp only [Nat.zero_add]
    omega)]
  simp

theorem startValue_split {α : Type} (init : Option α) (P Y : List (Int × α))
    (hP : ∀ e ∈ P, e.1 < 0) (hY : ∀ e ∈ Y, 0 ≤ e.1) :
    startValue (P ++ Y) init =
      match P.getLast? with
      | some e => some e.2
      | none => match init with
        | some v => some v
        | none => (P ++ Y).head?.map (·.2) := by
  have hf : (P ++ Y).filter (fun e => decide (e.1 < 0)) = P := by
    rw [List.filter_append]
    have h1 : P.filter (fun e => decide (e.1 < 0)) = P := by
      apply List.filter_eq_self.mpr
      intro e he; simpa using hP e he
    have h2 : Y.filter (fun e => decide (e.1 < 0)) = [] := by
      apply List.filter_eq_nil_iff.mpr
      intro e he
      have := hY e he
      simp only [decide_eq_true_eq]; omega
    rw [h1, h2, List.append_nil]
  unfold startValue
  rw [hf]
  cases P.getLast? <;> cases init <;> rfl

/-- what is established about a successful conversion: the per-dump list is `r`, the container
    was built from events `(v, 0) :: Pt` with strictly increasing dumps below `N`, and without
    repeated neighbours unless repeats are allowed -/
structure S2COk (N : Nat) (c : Cat V) (r : List V) (rep : Bool) : Prop where
  perDump : c.perDump = r.map some
  shape : ∃ (v : V) (Pt : List (V × Nat)),
    c = Cat.new (((v, 0) :: Pt).map (·.1)) (((v, 0) :: Pt).map (·.2) ++ [N]) ∧
    (((v, 0) :: Pt).map (·.2)).Pairwise (· < ·) ∧ (∀ p ∈ (v, 0) :: Pt, p.2 < N) ∧
    (rep = false → NoAdjacentRepeat (((v, 0) :: Pt).map (·.1)))

theorem clean_ok (N : Nat) (hN : 0 < N) (v0 : V) (Vs : List V) (d0 : Nat) (D : List Nat)
    (hlen : Vs.length = D.length) (hD : D.Pairwise (· ≤ ·)) (hDN : ∀ d ∈ D, d < N)
    (gvals : List V) (rep : Bool) :
    ∃ c, s2cClean N (v0 :: Vs) (d0 :: D) gvals rep = .ok c ∧
      S2COk N c (ruleS (fun x => gvals.contains x) N 0 (bestV (fun x => gvals.contains x) v0) v0 (D.zip Vs)) rep := by
  obtain ⟨P, v, Pt, hrun, hP, hs, hlt, hrep, hexp⟩ := clean_core N hN v0 Vs d0 D hlen hD hDN gvals rep
  subst hP
  refine ⟨_, hrun, ⟨?_, v, Pt, rfl, hs, hlt, hrep⟩⟩
  rw [perDump_pairs, hexp v]

theorem s2c_main_aux (ts : List Int) (vals : List V) (e0 : Int) (es : List Int) (period : Int)
    (tr : Option (V → V)) (init : Option V) (gvals : List V) (rep : Bool)
    (N : Nat) (hNdef : N = es.length + 1) (f : V → V) (hfdef : f = trFun tr)
    (gv : V → Bool) (hgvdef : gv = fun x => gvals.contains x)
    (hlen : ts.length = vals.length) (hts : ts.Pairwise (· ≤ ·))
    (hE : ((e0 - period) :: e0 :: es).Pairwise (· ≤ ·))
    (hB : (∃ t ∈ ts, dumpOf (e0 :: es) period t < (N : Int)) ∨ init ≠ none) :
    ∃ c r, sensorToCategorical ts vals (e0 :: es) period tr init gvals rep = .ok c ∧
      rule ts vals (e0 :: es) period tr init gvals = some r ∧ S2COk N c r rep := by
  have hN : 0 < N := by omega
  have hdo : ∀ t, dumpOf (e0 :: es) period t = dumpIndex (e0 :: es) period t :=
    fun t => dumpOf_eq_dumpIndex (e0 :: es) period t hE
  obtain ⟨L, hLdef⟩ : ∃ L : List (Int × V), L = (ts.zip vals).map (fun p => (dumpIndex (e0 :: es) period p.1, p.2)) :=
    ⟨_, rfl⟩
  have hLfst : L.map Prod.fst = ts.map (dumpIndex (e0 :: es) period) := by
    rw [hLdef, List.map_map]
    rw [show (Prod.fst ∘ fun p : Int × V => (dumpIndex (e0 :: es) period p.1, p.2)) =
      (dumpIndex (e0 :: es) period) ∘ Prod.fst from rfl, ← List.map_map, List.map_fst_zip (by omega)]
  have hLsnd : L.map Prod.snd = vals := by
    rw [hLdef, List.map_map]
    rw [show (Prod.snd ∘ fun p : Int × V => (dumpIndex (e0 :: es) period p.1, p.2)) = Prod.snd from rfl,
      List.map_snd_zip (by omega)]
  have hLs : L.Pairwise (fun a b => a.1 ≤ b.1) := by
    rw [hLdef, List.pairwise_map]
    exact (pairwise_zip_fst (· ≤ ·) ts vals hts).imp (fun h => dumpIndex_mono (e0 :: es) period _ _ h)
  obtain ⟨P, Y, hLPY, hP, hY⟩ := split_lt (0 : Int) L hLs
  have hYs : Y.Pairwise (fun a b => a.1 ≤ b.1) := by rw [hLPY] at hLs; exact (List.pairwise_append.mp hLs).2.1
  obtain ⟨W, A, hYWA, hWlt, hA'⟩ := split_lt (N : Int) Y hYs
  have hWs : W.Pairwise (fun a b => a.1 ≤ b.1) := by rw [hYWA] at hYs; exact (List.pairwise_append.mp hYs).1
  have hW : ∀ e ∈ W, 0 ≤ e.1 ∧ e.1 < (N : Int) :=
    fun e he => ⟨hY e (by rw [hYWA]; exact List.mem_append_left _ he), hWlt e he⟩
  have hL : L = P ++ W ++ A := by rw [hLPY, hYWA, List.append_assoc]
  -- the cut
  have hcut : s2cCut ts vals (e0 :: es) period tr =
      match P.getLast? with
      | none => (W.map (fun e => f e.2), W.map (fun e => e.1.toNat), false)
      | some pl => (f pl.2 :: W.map (fun e => f e.2), 0 :: W.map (fun e => e.1.toNat), true) := by
    have := cutEv_split N hN tr P W A hP hW hA'
    rw [← hL, hLfst, hLsnd, ← hfdef] at this
    simp only [s2cCut, List.length_cons, ← hNdef]
    exact this
  -- the spec side
  have hevs : List.zip (ts.map (dumpOf (e0 :: es) period)) (vals.map f) = L.map (fun e => (e.1, f e.2)) := by
    rw [hLdef, List.map_map, List.zip_map]
    apply List.map_congr_left
    intro p _
    simp only [Prod.map, hdo, Function.comp]
  have hLf : L.map (fun e => (e.1, f e.2)) =
      P.map (fun e => (e.1, f e.2)) ++ W.map (fun e => (e.1, f e.2)) ++ A.map (fun e => (e.1, f e.2)) := by
    rw [hL]; simp only [List.map_append]
  have hPf : ∀ e ∈ P.map (fun e => (e.1, f e.2)), e.1 < 0 := by
    intro e he; simp only [List.mem_map] at he; obtain ⟨x, hx, rfl⟩ := he; exact hP x hx
  have hWf : ∀ e ∈ W.map (fun e => (e.1, f e.2)), 0 ≤ e.1 ∧ e.1 < (N : Int) := by
    intro e he; simp only [List.mem_map] at he; obtain ⟨x, hx, rfl⟩ := he; exact hW x hx
  have hAf : ∀ e ∈ A.map (fun e => (e.1, f e.2)), (N : Int) ≤ e.1 := by
    intro e he; simp only [List.mem_map] at he; obtain ⟨x, hx, rfl⟩ := he; exact hA' x hx
  have hWfs : (W.map (fun e => (e.1, f e.2))).Pairwise (fun a b => a.1 ≤ b.1) := by
    rw [List.pairwise_map]; exact hWs
  have hnat : natPairs (W.map (fun e => (e.1, f e.2))) = (W.map (fun e => e.1.toNat)).zip (W.map (fun e => f e.2)) := by
    simp only [natPairs, List.zip_map', List.map_map]
    rfl
  have hrule : ∀ (init : Option V) s, startValue (L.map (fun e => (e.1, f e.2))) init = some s →
      rule ts vals (e0 :: es) period tr init gvals =
        some (ruleS gv N 0 (bestV gv s) s ((W.map (fun e => e.1.toNat)).zip (W.map (fun e => f e.2)))) := by
    intro init s hs
    have hne : (e0 :: es) ≠ [] := by simp
    simp only [rule, hne, if_false, ← hfdef, List.length_cons, ← hNdef]
    rw [hevs, hs]
    simp only
    rw [hLf, rule_side (fun v => gvals.contains v) N s _ _ _ hPf hWf hAf hWfs, hnat, hgvdef]
  have hstart := fun (init : Option V) => startValue_split init (P.map (fun e => (e.1, f e.2)))
    (W.map (fun e => (e.1, f e.2)) ++ A.map (fun e => (e.1, f e.2))) hPf (by
      intro e he
      simp only [List.mem_append] at he
      rcases he with he | he
      · exact (hWf e he).1
      · have := hAf e he; omega)
  rw [← List.append_assoc, ← hLf] at hstart
  -- the guard in terms of the split
  have hLmem : ∀ t ∈ ts, ∃ e ∈ L, e.1 = dumpOf (e0 :: es) period t := by
    intro t ht
    have : dumpIndex (e0 :: es) period t ∈ L.map Prod.fst := by rw [hLfst]; exact List.mem_map_of_mem ht
    simp only [List.mem_map] at this
    obtain ⟨e, he, hfst⟩ := this
    exact ⟨e, he, by rw [hdo]; exact hfst⟩
  have hsens : ∀ (init : Option V), sensorToCategorical ts vals (e0 :: es) period tr init gvals rep =
      s2cFinish N (s2cCut ts vals (e0 :: es) period tr).1 (s2cCut ts vals (e0 :: es) period tr).2.1
        (s2cCut ts vals (e0 :: es) period tr).2.2 init gvals rep := by
    intro init
    have hne : (e0 :: es) ≠ [] := by simp
    simp only [sensorToCategorical, hne, if_false, List.length_cons, ← hNdef]
  rw [hsens init, hcut]
  have hWnS : (W.map (fun e => e.1.toNat)).Pairwise (· ≤ ·) := by
    rw [List.pairwise_map]
    exact hWs.imp (fun h => Int.toNat_le_toNat h)
  have hWnN : ∀ d ∈ W.map (fun e => e.1.toNat), d < N := by
    intro d hd
    simp only [List.mem_map] at hd
    obtain ⟨e, he, rfl⟩ := hd
    have := hW e he
    omega
  have hclean := fun v0 Vs d0 D h1 h2 h3 => clean_ok N hN v0 Vs d0 D h1 h2 h3 gvals rep
  rw [← hgvdef] at hclean
  cases hPl : P.getLast? with
  | some pl =>
    -- a prior event exists: it defines the value at the start
    simp only [hPl] at hstart ⊢
    have hplf : (P.map (fun e => (e.1, f e.2))).getLast? = some (pl.1, f pl.2) := by
      rw [List.getLast?_map, hPl]; rfl
    rw [hplf] at hstart
    obtain ⟨c, hc, hok⟩ := hclean (f pl.2) (W.map (fun e => f e.2)) 0 (W.map (fun e => e.1.toNat))
      (by simp only [List.length_map]) hWnS hWnN
    refine ⟨c, _, ?_, hrule init _ (hstart init), hok⟩
    cases init <;> simp only [s2cFinish, hc]
  | none =>
    have hPnil : P = [] := by simpa using hPl
    subst hPnil
    simp only [hPl] at hstart ⊢
    simp only [List.map_nil, List.getLast?_nil] at hstart
    cases init with
    | some iv =>
      -- no prior event, initial value given: it is inserted at dump 0 (whatever the events are)
      replace hstart := hstart (some iv)
      simp only at hstart
      obtain ⟨c, hc, hok⟩ := hclean iv (W.map (fun e => f e.2)) 0 (W.map (fun e => e.1.toNat))
        (by simp only [List.length_map]) hWnS hWnN
      refine ⟨c, _, ?_, hrule _ _ hstart, hok⟩
      simp only [s2cFinish, hc]
    | none =>
      -- no prior event, no initial value: some event must lie inside the dumps
      have hWne : W ≠ [] := by
        intro hWnil
        rcases hB with hB | hB
        · obtain ⟨t, ht, hlt⟩ := hB
          obtain ⟨e, he, hed⟩ := hLmem t ht
          rw [hL, hWnil] at he
          simp only [List.nil_append, List.append_nil] at he
          have := hA' e he
          rw [hed] at this
          omega
        · exact hB rfl
      obtain ⟨w, W', hWeq⟩ := List.exists_cons_of_ne_nil hWne
      have hw := hW w (by rw [hWeq]; exact List.mem_cons_self ..)
      have hrule' := hrule
      rw [hWeq] at hWnS hWnN hL hrule' ⊢
      clear hrule
      simp only [List.map_cons] at hWnS hWnN hstart hrule' ⊢
      have hW'S : (W'.map (fun e => e.1.toNat)).Pairwise (· ≤ ·) := (List.pairwise_cons.mp hWnS).2
      have hW'N : ∀ d ∈ W'.map (fun e => e.1.toNat), d < N :=
        fun d hd => hWnN d (List.mem_cons_of_mem _ hd)
      have hwmin : ∀ d ∈ W'.map (fun e => e.1.toNat), w.1.toNat ≤ d := (List.pairwise_cons.mp hWnS).1
      have hlen' : (W'.map (fun e => f e.2)).length = (W'.map (fun e => e.1.toNat)).length := by
        simp only [List.length_map]
      replace hstart := hstart none
      simp only at hstart
      have hhead : (L.map (fun e => (e.1, f e.2))).head?.map (·.2) = some (f w.2) := by
        rw [hL]; simp only [List.nil_append, List.cons_append, List.map_cons, List.head?_cons, Option.map_some]
      rw [hhead] at hstart
      obtain ⟨c, hc, hok⟩ := hclean (f w.2) (W'.map (fun e => f e.2)) w.1.toNat
        (W'.map (fun e => e.1.toNat)) hlen' hW'S hW'N
      refine ⟨c, _, ?_, hrule' _ _ hstart, ?_⟩
      · simp only [s2cFinish]
        exact hc
      · -- the first event is extrapolated back to dump 0
        have : ruleS gv N 0 (bestV gv (f w.2)) (f w.2)
              ((w.1.toNat :: W'.map (fun e => e.1.toNat)).zip (f w.2 :: W'.map (fun e => f e.2))) =
              ruleS gv N 0 (bestV gv (f w.2)) (f w.2)
                ((W'.map (fun e => e.1.toNat)).zip (W'.map (fun e => f e.2))) := by
          simp only [List.zip_cons_cons, ruleS]
          by_cases hw0 : w.1.toNat ≤ 0
          · simp only [hw0, if_true, bestV]
            congr 1
            split <;> rfl
          · simp only [hw0, if_false]
            have hk := ruleS_skip gv N (f w.2) ((W'.map (fun e => e.1.toNat)).zip (W'.map (fun e => f e.2)))
              w.1.toNat 0 (by omega) (by
                intro e he
                have := (List.of_mem_zip he).1
                have := hwmin e.1 this
                omega)
            rw [hk]
            have hrep : (if gv (f w.2) = true then some (f w.2)
                else if gv (f w.2) = true then some (f w.2) else none) = bestV gv (f w.2) := by
              simp only [bestV]; split <;> simp_all
            rw [hrep]
            simp only [Nat.zero_add]
            have h1 : (bestV gv (f w.2)).getD (f w.2) = f w.2 := by
              simp only [bestV]; split <;> rfl
            rw [h1]
            rw [← List.cons_append, cons_replicate _ _ (w.1.toNat) (by omega)]
        rw [this]
        exact hok

/-- **Main lemma.**  On sorted times the mirror of `sensor_to_categorical` succeeds and its
    per-dump list is the documented rule, as soon as a start value is available without looking
    past the last dump: an event before the end of the last dump, or an initial value. -/
theorem s2c_main (ts : List Int) (vals : List V) (e0 : Int) (es : List Int) (period : Int)
    (tr : Option (V → V)) (init : Option V) (gvals : List V) (rep : Bool)
    (hlen : ts.length = vals.length) (hts : ts.Pairwise (· ≤ ·))
    (hE : ((e0 - period) :: e0 :: es).Pairwise (· ≤ ·))
    (hB : (∃ t ∈ ts, dumpOf (e0 :: es) period t < ((es.length + 1 : Nat) : Int)) ∨ init ≠ none) :
    ∃ c r, sensorToCategorical ts vals (e0 :: es) period tr init gvals rep = .ok c ∧
      rule ts vals (e0 :: es) period tr init gvals = some r ∧ S2COk (es.length + 1) c r rep :=
  s2c_main_aux ts vals e0 es period tr init gvals rep _ rfl _ rfl _ rfl hlen hts hE hB

end Categorical
