/-
  C10 lemmas, part 4: the window cut of `sensor_to_categorical` (`s2cCutEv`) on a list of events
  that is split into prior / inside / after parts, and the searchsorted facts behind `dumpIndex`.
-/
import KatdalModel.Lemmas.CatGlue
open Np

namespace Categorical

set_option linter.unusedSimpArgs false

variable {V : Type}

/-! ### takeWhile on split lists -/

theorem takeWhile_split {γ : Type} (p : γ → Bool) : ∀ (X Y : List γ), (∀ x ∈ X, p x = true) → (∀ y ∈ Y, p y = false) →
    (X ++ Y).takeWhile p = X := by
  intro X
  induction X with
  | nil =>
    intro Y _ hY
    cases Y with
    | nil => rfl
    | cons y t => simp [List.takeWhile, hY y (List.mem_cons_self ..)]
  | cons x t ih =>
    intro Y hX hY
    simp only [List.cons_append, List.takeWhile, hX x (List.mem_cons_self ..)]
    rw [ih Y (fun z hz => hX z (List.mem_cons_of_mem _ hz)) hY]

theorem take_append_len {γ : Type} (X Y : List γ) (n : Nat) (h : X.length = n) : (X ++ Y).take n = X := by
  subst h; simp

theorem drop_append_len {γ : Type} (X Y : List γ) (n : Nat) (h : X.length = n) : (X ++ Y).drop n = Y := by
  subst h; simp

/-! ### the cut -/

/-- events split into those before the first dump (`P`), inside the dumps (`W`) and after the last
    dump (`A`): the cut keeps the last of `P` (moved to dump 0) and all of `W`. -/
theorem cutEv_split (N : Nat) (hN : 0 < N) (tr : Option (V → V)) (P W A : List (Int × V))
    (hP : ∀ e ∈ P, e.1 < 0) (hW : ∀ e ∈ W, 0 ≤ e.1 ∧ e.1 < (N : Int)) (hA : ∀ e ∈ A, (N : Int) ≤ e.1) :
    s2cCutEv ((P ++ W ++ A).map (·.1)) ((P ++ W ++ A).map (·.2)) N tr =
      let f : V → V := match tr with | some f => f | none => id
      match P.getLast? with
      | none => (W.map (fun e => f e.2), W.map (fun e => e.1.toNat))
      | some pl => (f pl.2 :: W.map (fun e => f e.2), 0 :: W.map (fun e => e.1.toNat)) := by
  have hmapf : ∀ (l : List V), (match tr with | some f => l.map f | none => l) =
      l.map (match tr with | some f => f | none => id) := by
    intro l; cases tr <;> simp
  have hWA : ∀ y ∈ (W ++ A).map (·.1), decide (y ≤ (-1 : Int)) = false := by
    intro y hy
    simp only [List.mem_map, List.mem_append] at hy
    obtain ⟨e, he, rfl⟩ := hy
    simp only [decide_eq_false_iff_not]
    rcases he with he | he
    · have := (hW e he).1; omega
    · have := hA e he; omega
  have hWlt : ∀ x ∈ W.map (·.1), decide (x < (N : Int)) = true := by
    intro x hx
    simp only [List.mem_map] at hx
    obtain ⟨e, he, rfl⟩ := hx
    simpa using (hW e he).2
  have hAge : ∀ y ∈ A.map (·.1), decide (y < (N : Int)) = false := by
    intro y hy
    simp only [List.mem_map] at hy
    obtain ⟨e, he, rfl⟩ := hy
    have := hA e he
    simp only [decide_eq_false_iff_not]; omega
  rcases List.eq_nil_or_concat P with hPnil | ⟨P', pl, hPc⟩
  · subst hPnil
    have hfp0 : searchsortedRight (([] ++ W ++ A).map (·.1)) (-1) = 0 := by
      simp only [searchsortedRight, List.nil_append]
      rw [show (W ++ A).map (·.1) = [] ++ (W ++ A).map (·.1) by simp]
      rw [takeWhile_split _ [] _ (by simp) hWA]; rfl
    have hopl : searchsortedLeft (([] ++ W ++ A).map (·.1)) (N : Int) = W.length := by
      simp only [searchsortedLeft, List.nil_append, List.map_append]
      rw [takeWhile_split _ _ _ hWlt hAge]; simp
    simp only [s2cCutEv, hfp0, Nat.lt_irrefl, gt_iff_lt, if_false, hopl, pySlice, List.getLast?_nil, hmapf]
    simp only [List.nil_append, List.map_append, List.drop_zero]
    rw [take_append_len _ _ _ (by simp), take_append_len _ _ _ (by simp)]
    simp [List.map_map, Function.comp]
  · subst hPc
    have hP'neg : ∀ x ∈ P'.map (·.1), decide (x ≤ (-1 : Int)) = true := by
      intro x hx
      simp only [List.mem_map] at hx
      obtain ⟨e, he, rfl⟩ := hx
      have := hP e (by simp [he])
      simp only [decide_eq_true_eq]; omega
    have hplneg : pl.1 < 0 := hP pl (by simp)
    have hfp0 : searchsortedRight ((P'.concat pl ++ W ++ A).map (·.1)) (-1) = P'.length + 1 := by
      simp only [searchsortedRight, List.concat_eq_append, List.append_assoc, List.map_append]
      rw [← List.append_assoc]
      have hX : ∀ x ∈ List.map (·.1) P' ++ List.map (·.1) [pl], decide (x ≤ (-1 : Int)) = true := by
        intro x hx
        simp only [List.mem_append, List.map_cons, List.map_nil, List.mem_singleton] at hx
        rcases hx with hx | rfl
        · exact hP'neg x hx
        · simp only [decide_eq_true_eq]; omega
      have hY : ∀ y ∈ List.map (·.1) W ++ List.map (·.1) A, decide (y ≤ (-1 : Int)) = false := by
        intro y hy
        apply hWA
        simpa using hy
      rw [takeWhile_split _ _ _ hX hY]
      simp
    have hset : ((P'.concat pl ++ W ++ A).map (·.1)).set P'.length 0 =
        (P'.map (·.1) ++ 0 :: W.map (·.1)) ++ A.map (·.1) := by
      simp only [List.concat_eq_append, List.append_assoc, List.map_append, List.map_cons, List.map_nil,
        List.cons_append, List.nil_append]
      rw [show P'.length = (P'.map (·.1)).length by simp, List.set_append_right _ _ (Nat.le_refl _)]
      simp
    have hXlt : ∀ x ∈ P'.map (·.1) ++ 0 :: W.map (·.1), decide (x < (N : Int)) = true := by
      intro x hx
      simp only [List.mem_append, List.mem_cons] at hx
      rcases hx with hx | rfl | hx
      · have := hP'neg x hx
        simp only [decide_eq_true_eq] at this ⊢; omega
      · simp only [decide_eq_true_eq]; omega
      · exact hWlt x hx
    have hopl : searchsortedLeft (((P'.concat pl ++ W ++ A).map (·.1)).set P'.length 0) (N : Int) =
        P'.length + 1 + W.length := by
      rw [hset]
      simp only [searchsortedLeft]
      rw [takeWhile_split _ _ _ hXlt hAge]
      simp; omega
    have hpos : P'.length + 1 > 0 := by omega
    simp only [s2cCutEv, hfp0, hpos, if_true, Nat.add_sub_cancel, hopl, pySlice, hmapf]
    rw [hset]
    have hgl : (P'.concat pl).getLast? = some pl := by simp
    simp only [hgl]
    have hvals : (P'.concat pl ++ W ++ A).map (·.2) = (P'.map (·.2) ++ pl.2 :: W.map (·.2)) ++ A.map (·.2) := by
      simp
    rw [hvals]
    rw [take_append_len _ _ _ (by simp; omega), take_append_len _ _ _ (by simp; omega)]
    rw [drop_append_len _ _ _ (by simp), drop_append_len _ _ _ (by simp)]
    simp [List.map_map, Function.comp]

end Categorical
