/-
  ConcatenatedLazyIndexer head axis: locating a global position among the parts.
-/
import KatdalModel.Lemmas.FirstStage
open Np Index LazyIx

namespace LazyIx

/-- recursive description of `partStarts` with a running offset -/
def startsFrom : Nat → List Nat → List Nat
  | _, [] => []
  | off, l :: t => off :: startsFrom (off + l) t

theorem partStarts_foldl (lens : List Nat) : ∀ (acc : List Nat) (off : Nat),
    (lens.foldl (fun (a : List Nat × Nat) x => (a.1 ++ [a.2], a.2 + x)) (acc, off)).1 = acc ++ startsFrom off lens := by
  induction lens with
  | nil => intro acc off; simp [startsFrom]
  | cons l t ih =>
    intro acc off
    simp only [List.foldl_cons, startsFrom]
    rw [ih]
    simp

theorem partStarts_eq (lens : List Nat) : partStarts lens = startsFrom 0 lens := by
  unfold partStarts
  rw [partStarts_foldl]; simp

theorem total_cons (l : Nat) (t : List Nat) : total (l :: t) = l + total t := by
  simp only [total, List.foldl_cons, Nat.zero_add]
  have gen : ∀ (xs : List Nat) (a : Nat), xs.foldl (· + ·) a = a + xs.foldl (· + ·) 0 := by
    intro xs
    induction xs with
    | nil => intro a; simp
    | cons x xs ihx => intro a; simp only [List.foldl_cons]; rw [ihx (a + x), ihx (0 + x)]; omega
  exact gen t l

theorem startsFrom_ge : ∀ (lens : List Nat) (off : Nat), ∀ s ∈ startsFrom off lens, off ≤ s := by
  intro lens
  induction lens with
  | nil => intro off s hs; simp [startsFrom] at hs
  | cons l t ih =>
    intro off s hs
    simp only [startsFrom, List.mem_cons] at hs
    rcases hs with rfl | hs
    · omega
    · have := ih (off + l) s hs; omega

theorem ssr_cons_le (a : Int) (t : List Int) (g : Int) (h : a ≤ g) :
    searchsortedRight (a :: t) g = searchsortedRight t g + 1 := by
  unfold searchsortedRight
  rw [List.takeWhile_cons]
  have : decide (a ≤ g) = true := by simpa using h
  rw [this]; simp

theorem ssr_cons_gt (a : Int) (t : List Int) (g : Int) (h : g < a) :
    searchsortedRight (a :: t) g = 0 := by
  unfold searchsortedRight
  rw [List.takeWhile_cons]
  have : decide (a ≤ g) = false := by simp; omega
  rw [this]; simp

theorem ssr_startsFrom_gt (t : List Nat) (off g : Nat) (h : g < off) :
    searchsortedRight ((startsFrom off t).map Int.ofNat) (g : Int) = 0 := by
  cases t with
  | nil => simp [startsFrom, searchsortedRight]
  | cons l t' =>
    simp only [startsFrom, List.map_cons]
    exact ssr_cons_gt _ _ _ (by simp only [Int.ofNat_eq_natCast]; omega)

/-- number of part starts that are `≤ g`, minus one, is the part holding `g`; the remainder is
    the local position: `find_indexer` agrees with walking the parts -/
theorem findIndexer_locate : ∀ (lens : List Nat) (off p0 g : Nat), off ≤ g → g - off < total lens →
    ∃ k l, locate lens p0 (g - off) = some (p0 + k, l) ∧
      findIndexer (startsFrom off lens) (g : Int) = (k : Int) ∧
      k < lens.length ∧ (startsFrom off lens)[k]? = some (g - l) ∧ l ≤ g ∧ l < lens.getD k 0 := by
  intro lens
  induction lens with
  | nil => intro off p0 g _ h; simp [total] at h
  | cons len t ih =>
    intro off p0 g hg hlt
    rw [total_cons] at hlt
    by_cases hin : g - off < len
    · refine ⟨0, g - off, by simp [locate, hin], ?_, by simp, ?_, by omega, by simpa using hin⟩
      · unfold findIndexer
        simp only [startsFrom, List.map_cons]
        rw [ssr_cons_le _ _ _ (by simp only [Int.ofNat_eq_natCast]; omega),
          ssr_startsFrom_gt t (off + len) g (by omega)]
        simp
      · simp only [startsFrom, List.getElem?_cons_zero]; congr 1; omega
    · have hg' : off + len ≤ g := by omega
      obtain ⟨k, l, h1, h2, h3, h4, h5, h7⟩ := ih (off + len) (p0 + 1) g hg' (by omega)
      refine ⟨k + 1, l, ?_, ?_, by simpa using h3, ?_, h5, ?_⟩
      · simp only [locate, hin, if_false]
        have e : g - off - len = g - (off + len) := by omega
        rw [e, h1]; congr 2; omega
      · unfold findIndexer at h2 ⊢
        simp only [startsFrom, List.map_cons]
        rw [ssr_cons_le _ _ _ (by simp only [Int.ofNat_eq_natCast]; omega)]
        omega
      · simpa [startsFrom] using h4
      · simpa using h7

end LazyIx

namespace LazyIx

theorem mkLookup_full (n : Nat) : mkLookup n (.slice none none none) = .ok none := by
  simp [mkLookup, sliceIndices]

theorem getNat_getD (lens : List Nat) (k : Nat) (h : k < lens.length) : getNat lens k = .ok (lens.getD k 0) := by
  unfold getNat
  simp [List.getD_eq_getElem?_getD, List.getElem?_eq_getElem h]

/-- a part answers an in-range integer with that local position -/
theorem runPart_int (lens : List Nat) (k l : Nat) (hk : k < lens.length) (hl : l < lens.getD k 0) :
    runPart lens k (.int (l : Int)) = .ok [(k, l)] := by
  unfold runPart
  rw [getNat_getD lens k hk]
  simp only [bind, Except.bind, getitem1, mkLookup_full, mapThrough, axisSelect]
  have : normInt (lens.getD k 0) (l : Int) = .ok l := by
    unfold normInt
    have h : (0 : Int) ≤ (l : Int) ∧ (l : Int) < ((lens.getD k 0 : Nat) : Int) := by omega
    rw [if_pos h]; simp
  rw [this]
  rfl

/-- **Concatenated indexer, integer head index** (incl. negative): the part and local position it
    reads are those of the same index applied to the concatenation. -/
theorem concatHead_int (lens : List Nat) (i : Int) (h : -(total lens : Int) ≤ i ∧ i < total lens) :
    concatHead lens (.int i) = concatSpec lens (.int i) := by
  -- the normalised global position
  obtain ⟨gN, hgN, hlt⟩ : ∃ gN : Nat, (if i < 0 then (total lens : Int) + i else i) = (gN : Int) ∧ gN < total lens := by
    by_cases hneg : i < 0
    · exact ⟨(total lens + i).toNat, by simp only [hneg, if_true]; omega, by omega⟩
    · exact ⟨i.toNat, by simp only [hneg, if_false]; omega, by omega⟩
  obtain ⟨k, l, h1, h2, h3, h4, h5, h6⟩ := findIndexer_locate lens 0 0 gN (by omega) (by simpa using hlt)
  simp only [Nat.sub_zero, Nat.zero_add] at h1
  rw [← partStarts_eq] at h2 h4
  have hnorm : normInt (total lens) i = .ok gN := by
    unfold normInt
    by_cases hneg : i < 0
    · simp only [hneg, if_true] at hgN
      have h0 : ¬ (0 ≤ i ∧ i < (total lens : Int)) := by omega
      have h1' : -(total lens : Int) ≤ i ∧ i < 0 := by omega
      rw [if_neg h0, if_pos h1']
      congr 1; omega
    · simp only [hneg, if_false] at hgN
      have h0 : (0 ≤ i ∧ i < (total lens : Int)) := by omega
      rw [if_pos h0]; congr 1; omega
  -- specification side
  have hspec : concatSpec lens (.int i) = .ok (true, [(k, l)]) := by
    simp only [concatSpec, Ix.resolve, hnorm, bind, Except.bind, pure, Except.pure, h1]
  rw [hspec]
  -- implementation side
  have hst : ((partStarts lens).getD k 0 : Nat) = gN - l := by
    simp [List.getD_eq_getElem?_getD, h4]
  have hidx : pyListIdx lens.length ((k : Nat) : Int) = .ok k := by
    unfold pyListIdx normInt
    have : (0 : Int) ≤ (k : Int) ∧ (k : Int) < (lens.length : Int) := by omega
    rw [if_pos this]; simp
  simp only [concatHead, hgN, h2, hidx, bind, Except.bind, hst]
  have hloc : ((gN : Int) - ((gN - l : Nat) : Int)) = (l : Int) := by omega
  rw [hloc, runPart_int lens k l h3 h6]
  rfl

end LazyIx

namespace LazyIx

theorem nonzeroFrom_append (a b : List Bool) : ∀ (off : Nat),
    nonzeroFrom off (a ++ b) = nonzeroFrom off a ++ nonzeroFrom (off + a.length) b := by
  induction a with
  | nil => intro off; simp [nonzeroFrom]
  | cons x t ih =>
    intro off
    have e : off + 1 + t.length = off + (t.length + 1) := by omega
    cases x <;> simp [nonzeroFrom, ih (off + 1), e]

theorem nonzeroFrom_shift (m : List Bool) : ∀ (off : Nat),
    nonzeroFrom off m = (nonzeroFrom 0 m).map (· + off) := by
  induction m with
  | nil => intro off; simp [nonzeroFrom]
  | cons x t ih =>
    intro off
    cases x
    · simp only [nonzeroFrom]; rw [ih (off + 1), ih 1]; simp [List.map_map]; intro a _; omega
    · simp only [nonzeroFrom, List.map_cons]; rw [ih (off + 1), ih 1]; simp [List.map_map]; intro a _; omega

/-- locating a global position that lies `j` into part `p` -/
theorem locate_at : ∀ (lens : List Nat) (p0 p j : Nat), p < lens.length → j < lens.getD p 0 →
    locate lens p0 (total (lens.take p) + j) = some (p0 + p, j) := by
  intro lens
  induction lens with
  | nil => intro p0 p j h; simp at h
  | cons l t ih =>
    intro p0 p j hp hj
    cases p with
    | zero =>
      simp only [List.take_zero, total, List.foldl_nil, Nat.zero_add, List.getD_cons_zero] at hj ⊢
      simp [locate, hj]
    | succ p =>
      simp only [List.take_succ_cons, total_cons, List.getD_cons_succ] at hj ⊢
      have hge : ¬ (l + total (t.take p) + j < l) := by omega
      simp only [locate, hge, if_false]
      have e : l + total (t.take p) + j - l = total (t.take p) + j := by omega
      rw [e, ih (p0 + 1) p j (by simpa using hp) hj]
      congr 2; omega

/-- a part answers a full-length mask with the positions it marks -/
theorem runPart_mask (lens : List Nat) (k : Nat) (mm : List Bool) (hk : k < lens.length)
    (hl : mm.length = lens.getD k 0) :
    runPart lens k (.mask mm) = .ok ((nonzero mm).map fun j => (k, j)) := by
  unfold runPart
  rw [getNat_getD lens k hk]
  have h2 := second_stage_full (lens.getD k 0) (.mask mm) (by simp [stage2InG, hl])
  simp only [bind, Except.bind] at h2
  simp only [bind, Except.bind, getitem1, mkLookup_full]
  simp only [mapThrough] at h2 ⊢
  rw [h2]
  simp [Ix.resolve, hl, pure, Except.pure]

theorem mapM_locate_part (lens : List Nat) (k off : Nat) (js : List Nat) (hk : k < lens.length)
    (hoff : off = total (lens.take k)) (hj : ∀ j ∈ js, j < lens.getD k 0) :
    (js.map (· + off)).mapM (fun g => match locate lens 0 g with
      | some pr => Except.ok pr
      | none => Except.error Err.index) = .ok (js.map fun j => (k, j)) := by
  induction js with
  | nil => rfl
  | cons j t ih =>
    rw [List.map_cons, List.mapM_cons]
    have hl := locate_at lens 0 k j hk (hj j (List.mem_cons_self ..))
    have e : j + off = total (lens.take k) + j := by omega
    simp only [e, hl, Nat.zero_add]
    rw [show (List.map (fun x => x + off) t) = (List.map (· + off) t) from rfl,
      ih (fun x hx => hj x (List.mem_cons_of_mem _ hx))]
    rfl

end LazyIx

namespace LazyIx

def locateF (lens : List Nat) (g : Nat) : Except Err (Nat × Nat) :=
  match locate lens 0 g with
  | some pr => .ok pr
  | none => .error .index

theorem total_take_succ (lens : List Nat) (p : Nat) (hp : p < lens.length) :
    total (lens.take (p + 1)) = total (lens.take p) + lens.getD p 0 := by
  induction lens generalizing p with
  | nil => simp at hp
  | cons l t ih =>
    cases p with
    | zero => simp [total]
    | succ p =>
      simp only [List.take_succ_cons, total_cons, List.getD_cons_succ]
      rw [ih p (by simpa using hp)]; omega

theorem go_spec (lens : List Nat) : ∀ (ls : List Nat) (p : Nat) (m : List Bool),
    ls = lens.drop p → m.length = total ls →
    concatHead.go lens ls p m = (nonzeroFrom (total (lens.take p)) m).mapM (locateF lens) := by
  intro ls
  induction ls with
  | nil =>
    intro p m _ hm
    have : m = [] := List.eq_nil_of_length_eq_zero (by simpa [total] using hm)
    subst this
    simp [concatHead.go, nonzeroFrom]
    rfl
  | cons l t ih =>
    intro p m hls hm
    have hp : p < lens.length := by
      by_cases hlt : p < lens.length
      · exact hlt
      · have : lens.drop p = [] := List.drop_eq_nil_of_le (by omega)
        rw [this] at hls; simp at hls
    have hget : lens.getD p 0 = l := by
      have h := congrArg List.head? hls
      simp only [List.head?_cons, List.head?_drop] at h
      simp [List.getD_eq_getElem?_getD, ← h]
    have ht : t = lens.drop (p + 1) := by
      have h := congrArg List.tail hls
      simp only [List.tail_cons, List.tail_drop] at h
      exact h
    rw [total_cons] at hm
    have hlm : l ≤ m.length := by omega
    have htake : (m.take l).length = lens.getD p 0 := by rw [hget, List.length_take]; omega
    have hdrop : (m.drop l).length = total t := by simp; omega
    unfold concatHead.go
    rw [runPart_mask lens p (m.take l) hp htake, ih (p + 1) (m.drop l) ht hdrop]
    simp only [bind, Except.bind]
    -- specification side: split the mask at the part boundary
    have hsplit : nonzeroFrom (total (lens.take p)) m =
        (nonzero (m.take l)).map (· + total (lens.take p)) ++
        nonzeroFrom (total (lens.take (p + 1))) (m.drop l) := by
      conv => lhs; rw [← List.take_append_drop l m]
      rw [nonzeroFrom_append, nonzeroFrom_shift (m.take l) (total (lens.take p)), total_take_succ lens p hp, hget]
      simp only [nonzero]
      congr 2
      simp; omega
    rw [hsplit, List.mapM_append]
    have hpart := mapM_locate_part lens p (total (lens.take p)) (nonzero (m.take l)) hp rfl (by
      intro j hj
      have := (nonzero_spec (m.take l)).2 j hj
      omega)
    unfold locateF
    rw [hpart]
    simp only [bind, Except.bind]

/-- **Concatenated indexer, boolean-mask head index**: partitioning the mask over the parts reads
    exactly what the mask applied to the concatenation reads, in the same order. -/
theorem concatHead_mask (lens : List Nat) (m : List Bool) (h : m.length = total lens) :
    concatHead lens (.mask m) = concatSpec lens (.mask m) := by
  have hgo := go_spec lens lens 0 m (by simp) h
  simp only [List.take_zero, total, List.foldl_nil] at hgo
  simp only [concatHead, h, if_true, bind, Except.bind, concatSpec, Ix.resolve, nonzero]
  have : total lens = List.foldl (· + ·) 0 lens := rfl
  rw [hgo]
  unfold locateF
  cases (nonzeroFrom 0 m).mapM (fun g => match locate lens 0 g with
      | some pr => Except.ok pr
      | none => Except.error Err.index) <;> rfl

end LazyIx
