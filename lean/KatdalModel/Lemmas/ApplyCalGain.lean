/-
  C14 lemmas about `complex_interp`, `calc_gain_correction`, `calc_bandpass_correction`,
  `calibrate_flux`: the loops of the code equal their pointwise reading, and the pointwise reading
  has the documented properties (exact at solutions, hold at the ends, invalid solutions ignored,
  self-calibration isolation, no extrapolation of bandpasses).
-/
import Mathlib.Tactic.LinearCombination
import Mathlib.Tactic.Ring
import KatdalModel.Lemmas.ApplyCalInterp
import KatdalModel.Lemmas.ApplyCalCalc
open Np

set_option linter.unusedSectionVars false

namespace ApplyCal

/-! ### `complex_interp` -/

section cinterp
variable {S F : Type} [Field F] [LinearOrder F] [BEq F]

theorem unwrapGo_length (R : ROps F) : ∀ (l : List F) (prev cum : F), (unwrapGo R prev cum l).length = l.length
  | [], _, _ => rfl
  | p :: t, prev, cum => by simp [unwrapGo, unwrapGo_length R t]

theorem unwrap_length (R : ROps F) (l : List F) : (unwrap R l).length = l.length := by
  cases l with
  | nil => rfl
  | cons p t => simp [unwrap, unwrapGo_length]

/-- one phase correction of `np.unwrap` is a whole number of turns, provided `np.mod(a, b)` differs
    from `a` by a whole multiple of `b` -/
theorem unwrap_corr_turns [LawfulBEq F] (R : ROps F) (hmod : ∀ a b : F, ∃ n : ℤ, R.fmod a b = a - n * b) (dd : F) :
    ∃ j : ℤ, (if absF dd < R.pi then (0 : F) else
        (if (R.fmod (dd + R.pi) (R.pi + R.pi) - R.pi == -R.pi) && decide (0 < dd) then R.pi
         else R.fmod (dd + R.pi) (R.pi + R.pi) - R.pi) - dd) = j * (R.pi + R.pi) := by
  obtain ⟨n, hn⟩ := hmod (dd + R.pi) (R.pi + R.pi)
  split
  · exact ⟨0, by simp⟩
  · split
    · rename_i hc
      simp only [Bool.and_eq_true, beq_iff_eq, decide_eq_true_eq] at hc
      refine ⟨1 - n, ?_⟩
      have h := hc.1
      rw [hn] at h
      push_cast
      linear_combination (-1 : F) * h
    · refine ⟨-n, ?_⟩
      rw [hn]
      push_cast
      ring

theorem unwrapGo_shift [LawfulBEq F] (R : ROps F) (hmod : ∀ a b : F, ∃ n : ℤ, R.fmod a b = a - n * b) :
    ∀ (l : List F) (prev cum : F) (m : ℤ), cum = m * (R.pi + R.pi) →
      ∀ k (hk : k < l.length), ∃ n : ℤ,
        (unwrapGo R prev cum l)[k]'(by simp [unwrapGo_length, hk]) = l[k] + n * (R.pi + R.pi)
  | [], _, _, _, _, k, hk => by simp at hk
  | p :: t, prev, cum, m, hcum, k, hk => by
    obtain ⟨j, hj⟩ := unwrap_corr_turns R hmod (p - prev)
    have hcum' : cum + (if absF (p - prev) < R.pi then (0 : F) else
        (if (R.fmod (p - prev + R.pi) (R.pi + R.pi) - R.pi == -R.pi) && decide (0 < p - prev) then R.pi
         else R.fmod (p - prev + R.pi) (R.pi + R.pi) - R.pi) - (p - prev)) = ((m + j : ℤ) : F) * (R.pi + R.pi) := by
      rw [hj, hcum]; push_cast; ring
    cases k with
    | zero =>
      refine ⟨m + j, ?_⟩
      simp only [unwrapGo, List.getElem_cons_zero]
      rw [hcum']
    | succ k =>
      simp only [List.length_cons] at hk
      obtain ⟨n, hn⟩ := unwrapGo_shift R hmod t p _ (m + j) hcum' k (by omega)
      exact ⟨n, by simpa [unwrapGo] using hn⟩

/-- **`np.unwrap` only adds whole turns** -/
theorem unwrap_shift [LawfulBEq F] (R : ROps F) (hmod : ∀ a b : F, ∃ n : ℤ, R.fmod a b = a - n * b)
    (ps : List F) (k : Nat) (hk : k < ps.length) :
    ∃ n : ℤ, (unwrap R ps)[k]'(by simp [unwrap_length, hk]) = ps[k] + n * (R.pi + R.pi) := by
  cases ps with
  | nil => simp at hk
  | cons p t =>
    cases k with
    | zero => exact ⟨0, by simp [unwrap]⟩
    | succ k =>
      simp only [List.length_cons] at hk
      obtain ⟨n, hn⟩ := unwrapGo_shift R hmod t p 0 0 (by simp) k (by omega)
      exact ⟨n, by simpa [unwrap] using hn⟩

/-- the unwrapped phases of the nodes of `pts` -/
def phasesOf (A : CAlg S F) (R : ROps F) (pts : List (F × S)) : List F := unwrap R (pts.map fun p => A.angle p.2)

/-- nodes strictly increasing in `x` -/
def SortedPts (pts : List (F × S)) : Prop := pts.Pairwise (fun p q => p.1 < q.1)

theorem sortedX_zip (xs : List F) (ys : List F) (hl : ys.length = xs.length) (hs : xs.Pairwise (· < ·)) :
    SortedX (xs.zip ys) := by
  unfold SortedX
  have : ((xs.zip ys).map Prod.fst) = xs := List.map_fst_zip (by omega)
  rw [← this] at hs
  exact (List.pairwise_map.mp hs)

theorem sorted_fst (pts : List (F × S)) (hs : SortedPts pts) : (pts.map (·.1)).Pairwise (· < ·) :=
  List.pairwise_map.mpr hs

/-- `complex_interp` unfolded for a non-empty table: polar recombination of the two interpolations -/
theorem complexInterp_eq (A : CAlg S F) (R : ROps F) (edge : Edge) (pts : List (F × S)) (x m ph : F)
    (hm : interp x ((pts.map (·.1)).zip (pts.map fun p => A.abs p.2)) = some m)
    (hp : interp x ((pts.map (·.1)).zip (phasesOf A R pts)) = some ph) :
    complexInterp A R edge pts x
      = if edge = .invalid ∧ outside x (pts.map (·.1)) = true then A.nan else A.polar m ph := by
  unfold complexInterp
  simp only [phasesOf] at hp
  simp only [hm, hp]

/-- **exact at a node**: the interpolated magnitude is the node's magnitude and the interpolated phase
    is the node's unwrapped phase -/
theorem complexInterp_node (A : CAlg S F) (R : ROps F) (pts : List (F × S)) (hs : SortedPts pts)
    (k : Nat) (hk : k < pts.length) :
    complexInterp A R .hold pts (pts[k].1)
      = A.polar (A.abs pts[k].2) ((phasesOf A R pts)[k]'(by simp [phasesOf, unwrap_length, hk])) := by
  have hxs := sorted_fst pts hs
  have hlen : (phasesOf A R pts).length = (pts.map (·.1)).length := by simp [phasesOf, unwrap_length]
  have hm : interp pts[k].1 ((pts.map (·.1)).zip (pts.map fun p => A.abs p.2)) = some (A.abs pts[k].2) := by
    apply interp_node _ _ _ (sortedX_zip _ _ (by simp) hxs)
    rw [List.mem_iff_getElem]
    exact ⟨k, by simp [hk], by simp⟩
  have hp : interp pts[k].1 ((pts.map (·.1)).zip (phasesOf A R pts))
      = some ((phasesOf A R pts)[k]'(by simp [phasesOf, unwrap_length, hk])) := by
    apply interp_node _ _ _ (sortedX_zip _ _ hlen hxs)
    rw [List.mem_iff_getElem]
    exact ⟨k, by simp [hk, phasesOf, unwrap_length], by simp⟩
  rw [complexInterp_eq A R .hold pts _ _ _ hm hp]
  simp

/-- **held before the first node** -/
theorem complexInterp_before (A : CAlg S F) (R : ROps F) (p0 : F × S) (t : List (F × S)) (x : F)
    (hx : x < p0.1) :
    complexInterp A R .hold (p0 :: t) x
      = A.polar (A.abs p0.2) ((phasesOf A R (p0 :: t))[0]'(by simp [phasesOf, unwrap_length])) := by
  have hm : interp x (((p0 :: t).map (·.1)).zip ((p0 :: t).map fun p => A.abs p.2)) = some (A.abs p0.2) := by
    simp [interp, hx]
  have hp : interp x (((p0 :: t).map (·.1)).zip (phasesOf A R (p0 :: t)))
      = some ((phasesOf A R (p0 :: t))[0]'(by simp [phasesOf, unwrap_length])) := by
    simp only [phasesOf, List.map_cons, unwrap, List.zip_cons_cons, interp, hx, if_true, List.getElem_cons_zero]
  rw [complexInterp_eq A R .hold _ _ _ _ hm hp]
  simp

theorem getLast_zip_snd {α β : Type} (xs : List α) (ys : List β) (hl : ys.length = xs.length) (hne : xs.zip ys ≠ [])
    (hy : ys ≠ []) : ((xs.zip ys).getLast hne).2 = ys.getLast hy := by
  have h1 : (xs.zip ys).getLast hne = (xs.zip ys)[(xs.zip ys).length - 1]'(by
      have := List.length_pos_iff.mpr hne; omega) := List.getLast_eq_getElem ..
  rw [h1, List.getLast_eq_getElem]
  simp only [List.getElem_zip, List.length_zip]
  congr 1
  omega

/-- **held after the last node** -/
theorem complexInterp_after (A : CAlg S F) (R : ROps F) (pts : List (F × S)) (hne : pts ≠ []) (x : F)
    (hx : ∀ p ∈ pts, p.1 ≤ x) :
    complexInterp A R .hold pts x
      = A.polar (A.abs (pts.getLast hne).2)
          ((phasesOf A R pts).getLast (by
            intro h
            have := congrArg List.length h
            simp [phasesOf, unwrap_length] at this
            exact hne this)) := by
  have hpne : phasesOf A R pts ≠ [] := by
    intro h
    have := congrArg List.length h
    simp [phasesOf, unwrap_length] at this
    exact hne this
  have hz1 : (pts.map (·.1)).zip (pts.map fun p => A.abs p.2) ≠ [] := by
    cases pts with
    | nil => exact absurd rfl hne
    | cons a t => simp
  have hz2 : (pts.map (·.1)).zip (phasesOf A R pts) ≠ [] := by
    cases pts with
    | nil => exact absurd rfl hne
    | cons a t => simp [phasesOf, unwrap]
  have hle1 : ∀ p ∈ (pts.map (·.1)).zip (pts.map fun p => A.abs p.2), p.1 ≤ x := by
    intro p hp
    have := (List.of_mem_zip hp).1
    simp only [List.mem_map] at this
    obtain ⟨q, hq, hqp⟩ := this
    rw [← hqp]
    exact hx q hq
  have hle2 : ∀ p ∈ (pts.map (·.1)).zip (phasesOf A R pts), p.1 ≤ x := by
    intro p hp
    have := (List.of_mem_zip hp).1
    simp only [List.mem_map] at this
    obtain ⟨q, hq, hqp⟩ := this
    rw [← hqp]
    exact hx q hq
  have hm := interp_after x _ hz1 hle1
  have hp := interp_after x _ hz2 hle2
  rw [getLast_zip_snd _ _ (by simp) hz1 (by simpa using hne)] at hm
  rw [getLast_zip_snd _ _ (by simp [phasesOf, unwrap_length]) hz2 hpne] at hp
  rw [complexInterp_eq A R .hold _ _ _ _ hm hp]
  simp [List.getLast_map]

/-- **no extrapolation** with `left = right = INVALID_GAIN` -/
theorem complexInterp_outside (A : CAlg S F) (R : ROps F) (pts : List (F × S)) (x : F)
    (hout : outside x (pts.map (·.1)) = true) : complexInterp A R .invalid pts x = A.nan := by
  simp only [complexInterp]
  split
  · simp [hout]
  · rfl

end cinterp

/-! ### `calc_gain_correction`: the target loop is the pointwise function -/

section gain
variable {S F : Type} [Add F] [Sub F] [Mul F] [Div F] [Neg F] [Zero F] [LT F] [DecidableLT F] [BEq F]

theorem mem_uniq {x : Nat} : ∀ {l : List Nat}, x ∈ uniq l ↔ x ∈ l
  | [] => by simp [uniq]
  | a :: t => by
    unfold uniq
    split
    · rename_i h
      have ih := mem_uniq (x := x) (l := t)
      have ha : a ∈ t := (mem_uniq (x := a) (l := t)).mp (by simpa using h)
      simp only [ih, List.mem_cons]
      constructor
      · exact Or.inr
      · rintro (rfl | h')
        · exact ha
        · exact h'
    · simp [mem_uniq (x := x) (l := t)]

/-- table of a function of (dump, channel) -/
def gtab (n nChan : Nat) (a : Nat → Nat → S) : List (List S) :=
  (List.range n).map fun d => (List.range nChan).map (a d)

/-- what one pass of the target loop computes at `(d, c)` -/
def passAt (A : CAlg S F) (R : ROps F) (evs : List (Nat × List S)) (tg : List Nat) (τ : Nat)
    (a : Nat → Nat → S) (d c : Nat) : S :=
  if tg.getD d 0 = τ then
    (if (validPts A R evs tg τ c).isEmpty then a d c
     else complexInterp A R .hold (validPts A R evs tg τ c) (R.ofNat d))
  else a d c

theorem gainPass_gtab (A : CAlg S F) (R : ROps F) (evs : List (Nat × List S)) (tg : List Nat) (n nChan τ : Nat)
    (a : Nat → Nat → S) :
    gainPass A R evs tg nChan (gtab n nChan a) τ = gtab n nChan (passAt A R evs tg τ a) := by
  unfold gainPass gtab
  simp only [List.length_map, List.length_range]
  apply List.map_congr_left
  intro d hd
  have hd' : d < n := List.mem_range.mp hd
  have hrow : ((List.range n).map fun d => (List.range nChan).map (a d)).getD d [] = (List.range nChan).map (a d) := by
    simp [List.getD_eq_getElem?_getD, hd']
  simp only [hrow]
  by_cases hτ : tg.getD d 0 = τ
  · simp only [hτ, beq_self_eq_true, if_true]
    apply List.map_congr_left
    intro c hc
    have hc' : c < nChan := List.mem_range.mp hc
    have : ((List.range nChan).map (a d)).getD c A.nan = a d c := by
      simp [List.getD_eq_getElem?_getD, hc']
    simp only [passAt, hτ, if_true, this]
  · have hb : (tg.getD d 0 == τ) = false := by simpa using hτ
    simp only [hb, Bool.false_eq_true, if_false]
    apply List.map_congr_left
    intro c _
    simp only [passAt, hτ, if_false]

/-- the whole target loop at `(d, c)` -/
def foldAt (A : CAlg S F) (R : ROps F) (evs : List (Nat × List S)) (tg : List Nat) (us : List Nat)
    (a : Nat → Nat → S) (d c : Nat) : S :=
  if tg.getD d 0 ∈ us then
    (if (validPts A R evs tg (tg.getD d 0) c).isEmpty then a d c
     else complexInterp A R .hold (validPts A R evs tg (tg.getD d 0) c) (R.ofNat d))
  else a d c

theorem gainFold_gtab (A : CAlg S F) (R : ROps F) (evs : List (Nat × List S)) (tg : List Nat) (n nChan : Nat) :
    ∀ (us : List Nat) (a : Nat → Nat → S),
      us.foldl (gainPass A R evs tg nChan) (gtab n nChan a) = gtab n nChan (foldAt A R evs tg us a)
  | [], a => by
    have : foldAt A R evs tg [] a = a := by
      funext d c
      simp [foldAt]
    rw [this, List.foldl_nil]
  | τ :: rest, a => by
    rw [List.foldl_cons, gainPass_gtab, gainFold_gtab A R evs tg n nChan rest]
    unfold gtab
    apply List.map_congr_left
    intro d _
    apply List.map_congr_left
    intro c _
    simp only [foldAt, passAt, List.mem_cons]
    generalize tg.getD d 0 = x
    by_cases h1 : x = τ <;> by_cases h2 : x ∈ rest
    · subst h1; simp only [h2, if_true, true_or]; split <;> rfl
    · subst h1; simp [h2]
    · simp [h1, h2]
    · simp [h1, h2]

/-- **`calc_gain_correction` is the pointwise function**: reciprocal of `specGain` at every dump and
    channel (`tg` covers every dump). -/
theorem gainCorrection_eq (A : CAlg S F) (R : ROps F) (segs : List (Nat × Option (List S))) (nDumps : Nat)
    (targets : Option (List Nat)) (e0 : Nat × List S) (rest : List (Nat × List S))
    (hevs : (segs.filterMap fun sg => sg.2.map fun g => (sg.1, g)) = e0 :: rest)
    (htg : (targets.getD (List.replicate nDumps 0)).length = nDumps) :
    gainCorrection A R segs nDumps targets
      = gtab nDumps e0.2.length fun d c =>
          A.inv (specGain A R (e0 :: rest) (targets.getD (List.replicate nDumps 0)) d c) := by
  unfold gainCorrection
  simp only [hevs]
  have hinit : List.replicate nDumps (List.replicate e0.2.length A.nan)
      = gtab nDumps e0.2.length (fun _ _ => A.nan) := by
    simp [gtab, List.map_const']
  rw [hinit, gainFold_gtab]
  unfold gtab
  rw [List.map_map]
  apply List.map_congr_left
  intro d hd
  have hd' : d < nDumps := List.mem_range.mp hd
  simp only [Function.comp, List.map_map]
  apply List.map_congr_left
  intro c _
  simp only [Function.comp, foldAt, specGain]
  have hmem : (targets.getD (List.replicate nDumps 0)).getD d 0 ∈ uniq (targets.getD (List.replicate nDumps 0)) := by
    rw [mem_uniq, List.getD_eq_getElem?_getD, List.getElem?_eq_getElem (by omega)]
    simp
  simp only [hmem, if_true]

/-! ### properties of the valid-solution filter -/

theorem filterMap_congr' {α β : Type} {f g : α → Option β} : ∀ {l : List α}, (∀ x ∈ l, f x = g x) →
    l.filterMap f = l.filterMap g
  | [], _ => rfl
  | a :: t, h => by
    simp only [List.filterMap_cons, h a (List.mem_cons_self ..)]
    rw [filterMap_congr' (l := t) (fun x hx => h x (List.mem_cons_of_mem _ hx))]

theorem validPts_congr (A : CAlg S F) (R : ROps F) (evs evs' : List (Nat × List S)) (tg : List Nat) (τ c : Nat)
    (h : evs.filter (fun e => tg.getD e.1 0 == τ) = evs'.filter (fun e => tg.getD e.1 0 == τ)) :
    validPts A R evs tg τ c = validPts A R evs' tg τ c := by
  have key : ∀ l : List (Nat × List S), validPts A R l tg τ c
      = validPts A R (l.filter (fun e => tg.getD e.1 0 == τ)) tg τ c := by
    intro l
    unfold validPts
    rw [List.filterMap_filter]
    apply filterMap_congr'
    intro e _
    generalize (tg.getD e.1 0 == τ) = b
    cases b <;> simp
  rw [key evs, key evs', h]

theorem validPts_drop_invalid (A : CAlg S F) (R : ROps F) (evs : List (Nat × List S)) (tg : List Nat) (τ c : Nat) :
    validPts A R (evs.filter fun e => A.isFinite (e.2.getD c A.nan)) tg τ c = validPts A R evs tg τ c := by
  unfold validPts
  rw [List.filterMap_filter]
  apply filterMap_congr'
  intro e _
  dsimp only
  generalize A.isFinite (e.2.getD c A.nan) = b
  cases b <;> simp

theorem mem_validPts (A : CAlg S F) (R : ROps F) (evs : List (Nat × List S)) (tg : List Nat) (τ c : Nat)
    (x : F) (z : S) :
    (x, z) ∈ validPts A R evs tg τ c ↔
      ∃ e ∈ evs, A.isFinite (e.2.getD c A.nan) = true ∧ tg.getD e.1 0 = τ ∧ x = R.ofNat e.1 ∧ z = e.2.getD c A.nan := by
  unfold validPts
  simp only [List.mem_filterMap]
  constructor
  · rintro ⟨e, he, h⟩
    by_cases hc : (A.isFinite (e.2.getD c A.nan) && (tg.getD e.1 0 == τ)) = true
    · rw [if_pos hc] at h
      have hc' := hc
      rw [Bool.and_eq_true, beq_iff_eq] at hc'
      have h' := Option.some.inj h
      exact ⟨e, he, hc'.1, hc'.2, (Prod.mk.inj h').1.symm, (Prod.mk.inj h').2.symm⟩
    · rw [if_neg hc] at h
      cases h
  · rintro ⟨e, he, hf, ht, rfl, rfl⟩
    refine ⟨e, he, ?_⟩
    have hc : (A.isFinite (e.2.getD c A.nan) && (tg.getD e.1 0 == τ)) = true := by
      rw [Bool.and_eq_true, beq_iff_eq]; exact ⟨hf, ht⟩
    rw [if_pos hc]

end gain

/-! ### bandpass and flux -/

section bandpass
variable {S F : Type} [Field F] [LinearOrder F] [BEq F]

/-- **`calc_bandpass_correction` pointwise** -/
theorem bandpassCorrection_eq (A : CAlg S F) (R : ROps F) (dataFreqs calFreqs : List F) (bp : List S) :
    bandpassCorrection A R dataFreqs calFreqs bp
      = dataFreqs.map fun f =>
          A.inv (if ((calFreqs.zip bp).filter fun p => A.isFinite p.2).isEmpty then A.nan
                 else complexInterp A R .invalid ((calFreqs.zip bp).filter fun p => A.isFinite p.2) f) := by
  by_cases h : ((calFreqs.zip bp).filter fun p => A.isFinite p.2).isEmpty = true
  · simp only [bandpassCorrection, h, if_true, List.map_map, Function.comp_def]
  · simp only [bandpassCorrection, h, if_false, List.map_map, Function.comp_def, Bool.false_eq_true]

end bandpass

section flux
variable {F : Type} [Zero F] [LT F] [DecidableLT F]

/-- **the alias loop of `calibrate_flux`**: the first name whose flux is known and positive -/
theorem firstFlux_eq (table : List (String × Option F)) : ∀ (names : List String),
    firstFlux table names
      = (names.filterMap fun n => (fluxOf table n).bind fun v => if 0 < v then some v else none).head?
  | [] => rfl
  | n :: rest => by
    unfold firstFlux
    cases h : fluxOf table n with
    | none => simp [h, firstFlux_eq table rest]
    | some v =>
      by_cases hv : 0 < v
      · simp [h, hv]
      · simp [h, hv, firstFlux_eq table rest]

theorem fluxOf_append (a b : List (String × Option F)) (n : String) :
    fluxOf (a ++ b) n = if (a.any (·.1 == n)) then fluxOf a n else fluxOf b n := by
  unfold fluxOf
  rw [List.find?_append]
  cases h : a.find? (·.1 == n) with
  | none =>
    have : a.any (·.1 == n) = false := by
      rw [List.find?_eq_none] at h
      simp only [List.any_eq_false]
      intro x hx
      exact h x hx
    simp [this]
  | some p =>
    have : a.any (·.1 == n) = true := by
      simp only [List.any_eq_true]
      exact ⟨p, List.mem_of_find?_eq_some h, by have := List.find?_some h; simpa using this⟩
    simp [this]

end flux

end ApplyCal
