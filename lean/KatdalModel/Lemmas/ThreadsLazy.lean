/-
  Invariant of the locked lazy-initialisation protocol (Threads.Lazy) and its preservation by
  every step of every thread.
-/
import KatdalModel.Model.Threads
open Threads

namespace Threads

@[simp] theorem upd_same {α : Type} (f : Tid → α) (t : Tid) (v : α) : upd f t v t = v := by
  simp [upd]

@[simp] theorem upd_other {α : Type} (f : Tid → α) {t u : Tid} (v : α) (h : u ≠ t) : upd f t v u = f u := by
  simp [upd, h]

namespace Lazy

/-- nothing computed yet -/
def Fresh (c : Cfg) (s : State) : Prop := s.value = none ∧ s.input = some c.i0 ∧ s.computes = 0

/-- the value has been computed once from the original input and published -/
def Ready (c : Cfg) (s : State) : Prop :=
  s.value = some (c.f c.i0) ∧ s.computes = 1 ∧ s.input = (if c.clears then none else some c.i0)

/-- what is known about the shared state when thread `t` stands at its pc -/
def ThInv (c : Cfg) (s : State) (t : Tid) : Prop :=
  (s.th t).raised = false ∧
  match (s.th t).pc with
  | .idle => s.owner ≠ some t
  | .acquiring => s.owner ≠ some t
  | .done => s.owner ≠ some t ∧ (s.th t).res = some (c.f c.i0)
  | .check => s.owner = some t ∧ (Fresh c s ∨ Ready c s)
  | .compute => s.owner = some t ∧ Fresh c s
  | .assign => s.owner = some t ∧ s.value = none ∧ s.input = some c.i0 ∧ s.computes = 1 ∧
      (s.th t).tmp = some (c.f c.i0)
  | .clearInput => s.owner = some t ∧ s.value = some (c.f c.i0) ∧ s.input = some c.i0 ∧
      s.computes = 1 ∧ c.clears = true
  | .release => s.owner = some t ∧ Ready c s

structure Inv (c : Cfg) (n : Nat) (s : State) : Prop where
  th : ∀ t, ThInv c s t
  free : s.owner = none → Fresh c s ∨ Ready c s
  own : ∀ t, s.owner = some t → t < n

theorem inv_init (c : Cfg) (n : Nat) : Inv c n (init c) := by
  refine ⟨?_, ?_, ?_⟩
  · intro t; simp [ThInv, init]
  · intro _; left; simp [Fresh, init]
  · intro t h; simp [init] at h

/-- a thread other than the owner is outside the critical section -/
theorem other_outside {c : Cfg} {s : State} {t u : Tid} (hu : ThInv c s u) (ho : s.owner = some t)
    (hne : u ≠ t) : inCS (s.th u).pc = false := by
  unfold ThInv at hu
  cases hpc : (s.th u).pc <;> simp [hpc] at hu <;> simp [inCS] <;> simp_all

theorem inv_step {c : Cfg} {n : Nat} {s s' : State} {t : Tid} (hl : c.locked = true)
    (h : Inv c n s) (ht : t < n) (hs : step c s t = some s') : Inv c n s' := by
  have hT := h.th t
  have hfree := h.free
  have hown := h.own
  have hoth : ∀ u, u ≠ t → ThInv c s u := fun u _ => h.th u
  unfold step at hs
  unfold ThInv at hT
  cases hpc : (s.th t).pc <;> simp only [hpc, hl, if_true, unlock] at hs hT
  all_goals (try (split at hs)) 
  all_goals (try (injection hs with hs; subst hs))
  all_goals (try (simp at hs))
  all_goals
    refine ⟨?_, ?_, ?_⟩
  all_goals (try (
    intro u
    by_cases hu : u = t
    · subst hu
      simp_all [ThInv, Fresh, Ready]
    · have hU := hoth u hu
      unfold ThInv at hU ⊢
      simp only [upd_other _ _ hu]
      cases hpu : (s.th u).pc <;> simp_all [Fresh, Ready]))
  all_goals (try (intro ho; simp_all [Fresh, Ready]; done))
  all_goals (try (intro u hu; simp_all; done))
  · have hfr := hfree ‹_›
    intro u
    by_cases hu : u = t
    · subst hu
      unfold ThInv
      simp [hT.1]
      rcases hfr with hf | hr
      · left; exact hf
      · right; exact hr
    · have hU := hoth u hu
      unfold ThInv at hU ⊢
      simp only [upd_other _ _ hu]
      have ho : s.owner = none := ‹_›
      cases hpu : (s.th u).pc <;> simp [hpu, ho] at hU ⊢ <;> grind

theorem reach_inv {c : Cfg} {n : Nat} (hl : c.locked = true) {s : State} (h : Reach c n s) : Inv c n s := by
  induction h with
  | init => exact inv_init c n
  | step _ ht hs ih => exact inv_step hl ih ht hs

/-- executions along an explicit schedule are reachable states -/
theorem reach_of_run {c : Cfg} {n : Nat} : ∀ (sched : List Tid) (s s' : State), Reach c n s →
    (∀ t ∈ sched, t < n) → run c s sched = some s' → Reach c n s' := by
  intro sched
  induction sched with
  | nil => intro s s' hr _ h; simp [run] at h; subst h; exact hr
  | cons t ts ih =>
    intro s s' hr hn h
    unfold run at h
    cases hs : step c s t with
    | none => simp [hs] at h
    | some s1 =>
      simp only [hs] at h
      exact ih s1 s' (Reach.step hr (hn t (by simp)) hs) (fun u hu => hn u (by simp [hu])) h

/-- a thread inside the critical section owns the lock -/
theorem cs_owner {c : Cfg} {s : State} {t : Tid} (h : ThInv c s t) (hcs : inCS (s.th t).pc = true) :
    s.owner = some t := by
  unfold ThInv at h
  cases hpc : (s.th t).pc <;> simp [hpc, inCS] at h hcs <;> simp_all

/-- the owner is inside the critical section -/
theorem owner_cs {c : Cfg} {s : State} {t : Tid} (h : ThInv c s t) (ho : s.owner = some t) :
    inCS (s.th t).pc = true := by
  unfold ThInv at h
  cases hpc : (s.th t).pc <;> simp [hpc, inCS] at h ⊢ <;> simp_all

end Lazy
end Threads
