/-
  C11 — Categorical container operations preserve the per-dump sequence as documented.

  "For any categorical series, indexing by integer, slice, mask or list and comparing with a value
   give the same answers as the explicit per-dump list of values; adding, removing, aligning,
   partitioning, concatenating and de-duplicating events change that per-dump list exactly as
   documented (partition followed by concatenation is the identity, removing repeats never changes
   any dump's value, alignment only moves boundaries onto the given segment starts).  Every
   operation leaves strictly increasing event boundaries that end at the number of dumps and
   indices that refer to distinct unique values, including for array-valued and unhashable values."

  Model (mirror of katdal/categorical.py, Part 1 and 3 of Model/Categorical.lean): `Cat`
  (unique_values / indices / events), `Cat.new`, `lookup1`, `getitem`, `cmpPerDump`, `add`, `remove`,
  `addUnmatched`, `align`, `partition`, `removeRepeats`, `concatenate`.
  Spec: `Cat.perDump` (the explicit per-dump list, `none` before the first event) and `Cat.WF`.

  Values are an arbitrary type with decidable equality: Python's `==`, hashing and dask tokenize
  are assumed to agree (NaN is outside; the harness tests it for well-formedness only).
  What is proved about the per-dump list: indexing, comparison, the constructor, add (with and
  without a value), remove, add_unmatched, remove_repeats, concatenate, partition,
  partition ∘ concatenate.  For align the theorems give well-formedness for arbitrary segments,
  boundaries ⊆ segment starts and (c11_align_values) which boundaries survive and which value each
  aligned segment carries: that of the last boundary that landed on its start.

  Float values with NaN (Model Part 4, section "float values with NaN" below): `FV` = number or NaN
  *object*; its structural equality is Python's identity-then-`==` (dict keys, `list.index`, the
  constructor's `unique_in_order`), `FV.cmp` is the rich comparison every `ComparableArrayWrapper`
  delegates to (IEEE: a NaN is unordered with everything, itself included).  All theorems above are
  for an arbitrary value type and therefore hold for `Cat FV` as they stand (indexing, add without
  a value, add_unmatched, align, partition, remove_repeats never compare values).  Proved in
  addition: the six comparison operators against the IEEE relation per dump (`c11_cmp_nan`, no
  assumption on the series), `remove` (a NaN matches no dump), `add` with any value (per-dump
  effect as documented, structure well-formed), `concatenate_categorical` and partition followed by
  concatenation with any NaN among the values (per-dump list as documented, structure well-formed:
  `c11_concat_nan`, `c11_partition_concat_nan_id`).  Where the code compares through fresh wrappers a
  NaN object never equals itself: `add` of a NaN that is already a unique value and
  `concatenate_categorical` of parts that share a NaN enter the same object a second time into the
  unique values (`c11_add_nan_wf_full_is_false`, `c11_concat_nan_full_is_false`; known finding
  C11-nan-entered-twice); the partial theorems say exactly when distinctness survives.
-/
import KatdalModel.Lemmas.CatRemove
import KatdalModel.Lemmas.CatNaN
import KatdalModel.Lemmas.CatNaNConcat
import KatdalModel.Lemmas.CatAlign
open Np Categorical

namespace C11

variable {V : Type} [DecidableEq V]

/-! ### the constructor -/

/-- `CategoricalData(values, events)`: the per-dump list is the values written out segment by
    segment (nothing before the first event), the indices refer to pairwise distinct unique
    values; with strictly increasing events and one more event than values it is well-formed. -/
theorem c11_new (vs : List V) (es : List Nat) (hlen : es.length = vs.length + 1) (hs : strictIncNat es = true) :
    (Cat.new vs es).WF ∧
    (Cat.new vs es).perDump = List.replicate (es.headD 0) none ++ expand es (vs.map some) := by
  obtain ⟨w1, w2, w3⟩ := new_wf_parts vs es
  exact ⟨⟨hs, by rw [new_ev, w3, hlen], w1, w2⟩, new_perDump vs es⟩

/-! ### queries -/

/-- **Indexing by integer, slice, mask or list gives the same answers as the explicit per-dump
    list** (`specGetitem` reads the answer off `perDump`; IndexError exactly where the per-dump
    list has no value), for every well-formed series and every key. -/
theorem c11_getitem_perDump (c : Cat V) (h : c.WF) (key : Key) :
    c.getitem key = specGetitem c.perDump key :=
  getitem_perDump c h key

/-- **Comparing with a value answers dump by dump on the per-dump list** (`==`, `!=`, `<`, … are
    all `_bool_per_dump` of a predicate on the unique values), for every series. -/
theorem c11_cmp_perDump (c : Cat V) (p : V → Bool) :
    c.cmpPerDump p = c.perDump.map (fun o => o.map p) :=
  cmp_perDump c p

/-- the per-dump list has one entry per dump -/
theorem c11_perDump_length (c : Cat V) (h : c.WF) : c.perDump.length = c.numDumps :=
  perDump_length c h

/-! ### mutators: effect on the per-dump list -/

/-- **Removing repeats never changes any dump's value**; the result is well-formed, covers the
    same dumps, keeps the unique values and has no equal neighbouring indices. -/
theorem c11_remove_repeats (c : Cat V) (h : c.WF) (hne : c.idx ≠ []) :
    ∃ c', c.removeRepeats = .ok c' ∧ c'.WF ∧ c'.perDump = c.perDump ∧ c'.numDumps = c.numDumps ∧
      c'.uniq = c.uniq ∧ (∀ k x y, c'.idx[k]? = some x → c'.idx[k + 1]? = some y → x ≠ y) :=
  removeRepeats_spec c h hne

/-- **concatenate_categorical**: the per-dump list of the result is the concatenation of the
    per-dump lists of the parts (series starting at dump 0), with or without repeat removal; the
    result is well-formed, starts at dump 0 and covers the sum of the dumps. -/
theorem c11_concatenate (parts : List (Cat V)) (hparts : ∀ p ∈ parts, p.Part) (hne : parts ≠ []) (rep : Bool) :
    ∃ c, concatenate parts rep = .ok c ∧ c.Part ∧
      c.perDump = (parts.map Cat.perDump).flatten ∧ c.numDumps = (parts.map Cat.numDumps).sum :=
  concat_spec parts hparts hne rep

/-- **partition**: every part is well-formed, starts at dump 0 and shares the unique values; the
    per-dump lists of the parts are the consecutive slices of the parent's per-dump list. -/
theorem c11_partition (c : Cat V) (h : c.Part) (s0 : Nat) (ss : List Nat)
    (hs : (s0 :: ss).Pairwise (· < ·)) (hN : (s0 :: ss).getLastD 0 ≤ c.numDumps) :
    ∃ parts, c.partition (s0 :: ss) = .ok parts ∧
      (∀ p ∈ parts, p.Part ∧ p.uniq = c.uniq) ∧ parts.length = ss.length ∧
      (parts.map Cat.perDump).flatten = (c.perDump.drop s0).take ((s0 :: ss).getLastD 0 - s0) :=
  partition_spec c h s0 ss hs hN

/-- one part of a partition is exactly the slice `[start, stop)` of the per-dump list -/
theorem c11_partition_segment (c : Cat V) (h : c.Part) (start stop : Nat) (hlt : start < stop)
    (hN : stop ≤ c.numDumps) :
    ∃ part : Cat V, part.Part ∧ part.uniq = c.uniq ∧ part.numDumps = stop - start ∧
      part.perDump = (c.perDump.drop start).take (stop - start) ∧
      ∀ (more : List Nat), Cat.partition.go c c.ev.dropLast (start :: stop :: more) =
        (do let r ← Cat.partition.go c c.ev.dropLast (stop :: more); pure (part :: r)) :=
  segment_spec c h start stop hlt hN

/-- **Partition followed by concatenation is the identity** on the per-dump list (with or
    without repeat removal). -/
theorem c11_partition_concat_id (c : Cat V) (h : c.Part) (s1 : Nat) (ss : List Nat)
    (hs : (0 :: s1 :: ss).Pairwise (· < ·)) (hN : (0 :: s1 :: ss).getLastD 0 = c.numDumps) (rep : Bool) :
    ∃ parts c', c.partition (0 :: s1 :: ss) = .ok parts ∧ concatenate parts rep = .ok c' ∧
      c'.Part ∧ c'.perDump = c.perDump ∧ c'.numDumps = c.numDumps :=
  partition_concat_id c h s1 ss hs hN rep

/-- **add(event, value) overrides the per-dump list on `[event, next boundary)`** and leaves every
    other dump unchanged (value already known or new; event inside the series). -/
theorem c11_add_perDump (c : Cat V) (h : c.WF) (e : Nat) (v : V) (he : e < c.numDumps) (c' : Cat V)
    (hadd : c.add e (some v) = .ok c') :
    c'.perDump = c.perDump.take e ++
      List.replicate ((c.ev.filter (fun x => decide (e < x))).headD 0 - e) (some v) ++
      c.perDump.drop ((c.ev.filter (fun x => decide (e < x))).headD 0) :=
  add_perDump c h e v he c' hadd

/-- **add(event) without a value** (duplicate the current value) changes no dump's value. -/
theorem c11_add_none_perDump (c : Cat V) (h : c.WF) (e : Nat) (c' : Cat V) (hadd : c.add e none = .ok c') :
    c'.perDump = c.perDump :=
  add_none_perDump c h e c' hadd

/-- **add_unmatched changes no dump's value.** -/
theorem c11_add_unmatched_perDump (c : Cat V) (h : c.WF) (segs : List Nat) (dist : Nat) (c' : Cat V)
    (hau : c.addUnmatched segs dist = .ok c') : c'.perDump = c.perDump :=
  addUnmatched_perDump c h segs dist c' hau

/-- **remove(value)**: every dump that carried the value takes the value of the last earlier dump
    that did not (nothing if there is none), all other dumps keep their value. -/
theorem c11_remove_perDump (c : Cat V) (h : c.WF) (v : V) (c' : Cat V) (hrem : c.remove v = .ok c') :
    c'.perDump = fillPrevG (some v) none c.perDump :=
  remove_perDump c h v c' hrem

/-- **Alignment only moves boundaries onto the given segment starts.** -/
theorem c11_align_boundaries (c : Cat V) (segs : List Nat) (c' : Cat V) (h : c.align segs = .ok c') :
    ∀ e ∈ c'.ev, e ∈ segs :=
  align_boundaries c segs c' h

/-- **What alignment keeps.**  With `moved` the nearest segment start of every boundary (the one-past-the-end
    boundary included): `moved` is non-decreasing, the aligned series has a boundary at every entry of `moved` that
    is smaller than its successor - i.e. at the *last* boundary that landed on that start - carrying the value of
    exactly that boundary, and ends at the last entry of `moved`.  Earlier boundaries that landed on the same start
    are dropped together with their values. -/
theorem c11_align_values (c : Cat V) (h : c.WF) (segs : List Nat) (c' : Cat V) (hal : c.align segs = .ok c') :
    let moved := c.ev.map (nearest segs)
    moved.Pairwise (· ≤ ·) ∧
    c'.values = ((c.values.zip (moved.zip moved.tail)).filter (fun p => decide (p.2.1 < p.2.2))).map (·.1) ∧
    c'.ev = ((moved.zip (moved.zip moved.tail)).filter (fun p => decide (p.2.1 < p.2.2))).map (·.1)
              ++ [moved.getLastD 0] := by
  intro moved
  have hne : segs ≠ [] := by
    intro hs; simp [Cat.align, hs] at hal
  obtain ⟨hv, he⟩ := align_values c h segs c' hal
  refine ⟨?_, ?_, ?_⟩
  · show (c.ev.map (nearest segs)).Pairwise (· ≤ ·)
    rw [List.pairwise_map]
    exact (WF.sorted h).imp (fun hab => nearest_mono segs hne _ _ hab)
  · rw [hv, keptRise_eq_filter]
  · rw [he, keptRise_eq_filter]

/-! ### every operation keeps the series well-formed -/

theorem c11_add_wf (c : Cat V) (h : c.WF) (e : Nat) (value : Option V) (he : e < c.numDumps) (c' : Cat V)
    (hadd : c.add e value = .ok c') : c'.WF ∧ c'.numDumps = c.numDumps :=
  add_wf c h e value he c' hadd

theorem c11_remove_wf (c : Cat V) (h : c.WF) (v : V) (c' : Cat V) (hrem : c.remove v = .ok c') :
    c'.WF ∧ c'.numDumps = c.numDumps ∧ c'.ev.Sublist c.ev :=
  remove_wf c h v c' hrem

theorem c11_add_unmatched_wf (c : Cat V) (h : c.WF) (segs : List Nat) (dist : Nat) (c' : Cat V)
    (hau : c.addUnmatched segs dist = .ok c') : c'.WF ∧ c'.numDumps = c.numDumps :=
  addUnmatched_wf c h segs dist c' hau

theorem c11_align_wf (c : Cat V) (h : c.WF) (segs : List Nat) (c' : Cat V) (hal : c.align segs = .ok c') :
    c'.WF :=
  align_wf c h segs c' hal

/-- one documented operation inside its domain -/
inductive Step : Cat V → Cat V → Prop
  | add (c c' : Cat V) (e : Nat) (v : Option V) : e < c.numDumps → c.add e v = .ok c' → Step c c'
  | remove (c c' : Cat V) (v : V) : c.remove v = .ok c' → Step c c'
  | addUnmatched (c c' : Cat V) (segs : List Nat) (d : Nat) : c.addUnmatched segs d = .ok c' → Step c c'
  | align (c c' : Cat V) (segs : List Nat) : c.align segs = .ok c' → Step c c'
  | removeRepeats (c c' : Cat V) : c.idx ≠ [] → c.removeRepeats = .ok c' → Step c c'
  | partitionPart (c : Cat V) (parts : List (Cat V)) (p : Cat V) (s0 : Nat) (ss : List Nat) :
      c.Part → (s0 :: ss).Pairwise (· < ·) → (s0 :: ss).getLastD 0 ≤ c.numDumps →
      c.partition (s0 :: ss) = .ok parts → p ∈ parts → Step c p
  | concat (c c' : Cat V) (others : List (Cat V)) (rep : Bool) :
      c.Part → (∀ p ∈ others, p.Part) → concatenate (c :: others) rep = .ok c' → Step c c'

inductive Reach : Cat V → Cat V → Prop
  | refl (c : Cat V) : Reach c c
  | step (a b c : Cat V) : Reach a b → Step b c → Reach a c

/-- **Every operation sequence leaves a well-formed series**: strictly increasing event
    boundaries, one index per segment, indices inside the unique values, unique values pairwise
    distinct — for every history of add / remove / add_unmatched / align / remove_repeats /
    partition (taking a part) / concatenate from a well-formed start. -/
theorem c11_reachable_wf (c c' : Cat V) (h : c.WF) (r : Reach c c') : c'.WF := by
  induction r with
  | refl => exact h
  | step b d _ hs ih =>
    cases hs with
    | add _ e v he ha => exact (add_wf b ih e v he d ha).1
    | remove _ v hr => exact (remove_wf b ih v d hr).1
    | addUnmatched _ segs dd ha => exact (addUnmatched_wf b ih segs dd d ha).1
    | align _ segs ha => exact align_wf b ih segs d ha
    | removeRepeats _ hne hr =>
      obtain ⟨x, hx, hw, _⟩ := removeRepeats_spec b ih hne
      rw [hx] at hr
      simp only [Except.ok.injEq] at hr
      subst hr; exact hw
    | partitionPart _ parts s0 ss hp hs hN hpart hmem =>
      obtain ⟨ps, hps, hall, _⟩ := partition_spec b hp s0 ss hs hN
      rw [hps] at hpart
      simp only [Except.ok.injEq] at hpart
      subst hpart
      exact (hall d hmem).1.1
    | concat _ others rep hp hothers hc =>
      obtain ⟨x, hx, hxp, _⟩ := concat_spec (b :: others) (by
        intro p hp'
        rcases List.mem_cons.mp hp' with rfl | hp'
        · exact hp
        · exact hothers p hp') (by simp) rep
      rw [hx] at hc
      simp only [Except.ok.injEq] at hc
      subst hc; exact hxp.1

/-! ### float values with NaN -/

/-- **Comparing a float series with a value gives the same answers as the explicit per-dump list
    compared element by element under IEEE 754** — for `==`, `!=`, `<`, `>`, `<=`, `>=`, for every
    series (NaN among the values or not, well-formed or not) and every operand (NaN or not).
    Mirror side: `_bool_per_dump([wrapper <op> other for wrapper in _comparable_values])` with the
    wrapper's operators (`FV.cmp`); spec side: the relation less / equal / greater / unordered
    (`FV.order`) read through the operator (`CmpOp.holds`: on an unordered pair only `!=` holds),
    `none` for the dumps before the first event. -/
theorem c11_cmp_nan (c : Cat FV) (op : CmpOp) (other : FV) :
    c.cmpOp op other = specCmp c.perDump op other :=
  cmpOp_spec c op other

/-- the same for the coded series the driver works on (codes decoded by `FV.ofCode`) -/
theorem c11_cmp_nan_coded (c : Cat Nat) (op : CmpOp) (other : FV) :
    c.cmpPerDump (fun x => FV.cmp op (FV.ofCode x) other) =
      specCmp (c.perDump.map (fun o => o.map FV.ofCode)) op other := by
  rw [← cmpOp_mapV, cmpOp_spec, perDump_mapV]

/-- **every comparison with NaN is False and `!=` is True**: at a dump that carries a NaN, or for a
    NaN operand, whatever the dump carries -/
theorem c11_cmp_nan_unordered (c : Cat FV) (op : CmpOp) (other : FV) (d : Nat) (x : FV)
    (hd : c.perDump[d]? = some (some x)) (hnan : x.isNaN = true ∨ other.isNaN = true) :
    (c.cmpOp op other)[d]? = some (some (decide (op = .ne))) := by
  rw [cmpOp_spec]
  simp only [specCmp, List.getElem?_map, hd, Option.map_some]
  rw [← FV.cmp_eq_holds, FV.cmp_unordered op x other hnan]

/-- `<=` may be computed as `not >` (and `>=` as `not <`) on numbers, and on no unordered pair:
    there the negation answers True where IEEE says False -/
theorem c11_le_is_not_not_gt :
    (∀ a b : Nat, FV.cmp .le (.num a) (.num b) = !(FV.cmp .gt (.num a) (.num b))) ∧
    (∀ a b : Nat, FV.cmp .ge (.num a) (.num b) = !(FV.cmp .lt (.num a) (.num b))) ∧
    (∀ x y : FV, x.isNaN = true ∨ y.isNaN = true →
      FV.cmp .le x y ≠ !(FV.cmp .gt x y) ∧ FV.cmp .ge x y ≠ !(FV.cmp .lt x y)) :=
  ⟨FV.le_eq_not_gt_num, FV.ge_eq_not_lt_num,
   fun x y h => ⟨FV.le_ne_not_gt_unordered x y h, FV.ge_ne_not_lt_unordered x y h⟩⟩

/-- `_comparable_values.index(value)` (used by `add` and `remove`) finds the first unique value
    that compares `==` to the value under IEEE: nothing for a NaN -/
theorem c11_index_ieee (l : List FV) (v : FV) :
    indexOfN? FV.isNaN l v =
      (if l.findIdx (fun x => FV.cmp .eq x v) < l.length then some (l.findIdx (fun x => FV.cmp .eq x v)) else none) :=
  indexOfN_ieee l v

/-- **remove(value) on a float series**: the dumps that compare `==` to the value take the value
    of the last earlier dump that does not (`fillPrevP`); for a NaN no dump does and nothing
    changes; the series stays well-formed with the same number of dumps -/
theorem c11_remove_nan (c : Cat FV) (h : c.WF) (v : FV) (c' : Cat FV) (hrem : c.removeN FV.isNaN v = .ok c') :
    c'.perDump = fillPrevP (eqDump v) none c.perDump ∧ c'.WF ∧ c'.numDumps = c.numDumps ∧
      (v.isNaN = true → c' = c) := by
  obtain ⟨a, b, d⟩ := removeN_spec c h v c' hrem
  refine ⟨a, b, d, ?_⟩
  intro hv
  rw [removeN_nan FV.isNaN c v hv] at hrem
  exact (Except.ok.inj hrem).symm

/-- **add(event, value) with any value, NaN included** (already among the unique values or not):
    the per-dump list is overridden on `[event, next boundary)` and unchanged elsewhere; event
    boundaries stay strictly increasing and end at the number of dumps; indices stay inside the
    unique values -/
theorem c11_add_nan (nan : V → Bool) (c : Cat V) (h : c.WF) (e : Nat) (v : V) (he : e < c.numDumps) (c' : Cat V)
    (hadd : c.addN nan e (some v) = .ok c') :
    c'.perDump = c.perDump.take e ++
      List.replicate ((c.ev.filter (fun x => decide (e < x))).headD 0 - e) (some v) ++
      c.perDump.drop ((c.ev.filter (fun x => decide (e < x))).headD 0) ∧
    c'.WFi ∧ c'.numDumps = c.numDumps :=
  addN_spec nan c h e v he c' hadd

/-- the unique values stay pairwise distinct under `add` unless the value is a NaN that is among
    them already (partial: see `c11_add_nan_wf_full_is_false`) -/
theorem c11_add_nan_wf_partial (nan : V → Bool) (c : Cat V) (h : c.WF) (e : Nat) (value : Option V)
    (he : e < c.numDumps) (hv : ∀ v, value = some v → nan v = false ∨ v ∉ c.uniq) (c' : Cat V)
    (hadd : c.addN nan e value = .ok c') : c'.WF ∧ c'.numDumps = c.numDumps :=
  addN_wf nan c h e value he hv c' hadd

/-- in the remaining case they never do: a NaN that is a unique value already is entered again -/
theorem c11_add_nan_duplicates (nan : V → Bool) (c : Cat V) (e : Nat) (v : V) (hn : nan v = true)
    (hv : v ∈ c.uniq) (c' : Cat V) (hadd : c.addN nan e (some v) = .ok c') : ¬ c'.uniq.Nodup :=
  addN_dup nan c e v hn hv c' hadd

/-- witness: series NaN, 1.0 on events 0, 2, 4; `add(3, that NaN)` -/
theorem c11_add_nan_wf_full_is_false :
    ∃ (c c' : Cat FV), c.uniq.Nodup ∧ c.addN FV.isNaN 3 (some (.nan 0)) = .ok c' ∧ ¬ c'.uniq.Nodup :=
  ⟨{ uniq := [.nan 0, .num 1], idx := [0, 1], ev := [0, 2, 4] },
   { uniq := [.nan 0, .num 1, .nan 0], idx := [0, 1, 2], ev := [0, 2, 3, 4] }, by decide, by decide, by decide⟩

/-- **concatenate_categorical of parts without NaN among their unique values** is the
    concatenation of the per-dump lists, well-formed (partial: see `c11_concat_nan_full_is_false`) -/
theorem c11_concat_nan_partial (nan : V → Bool) (parts : List (Cat V)) (hparts : ∀ p ∈ parts, p.Part)
    (hne : parts ≠ []) (rep : Bool) (hnan : ∀ p ∈ parts, ∀ x ∈ p.uniq, nan x = false) :
    ∃ c, concatenateN nan parts rep = .ok c ∧ c.Part ∧
      c.perDump = (parts.map Cat.perDump).flatten ∧ c.numDumps = (parts.map Cat.numDumps).sum := by
  rw [concatenateN_eq nan parts rep hnan]
  exact concat_spec parts hparts hne rep

/-- **NaN-aware concatenate_categorical, any NaN among the unique values of the parts**: the
    per-dump list of the result is the concatenation of the per-dump lists of the parts (with or
    without repeat removal); the result starts at dump 0, its boundaries are strictly increasing
    and end at the sum of the dumps, its indices lie inside the unique values (`Parti`: everything
    but the distinctness of the unique values, which `c11_concat_nan_full_is_false` refutes). -/
theorem c11_concat_nan (nan : V → Bool) (parts : List (Cat V)) (hparts : ∀ p ∈ parts, p.Part) (hne : parts ≠ [])
    (rep : Bool) :
    ∃ c, concatenateN nan parts rep = .ok c ∧ c.Parti ∧
      c.perDump = (parts.map Cat.perDump).flatten ∧ c.numDumps = (parts.map Cat.numDumps).sum :=
  concatN_spec nan parts hparts hne rep

/-- **Partition followed by concatenation is the identity on the per-dump list of every series,
    NaN included** (with or without repeat removal). -/
theorem c11_partition_concat_nan_id (nan : V → Bool) (c : Cat V) (h : c.Part) (s1 : Nat) (ss : List Nat)
    (hs : (0 :: s1 :: ss).Pairwise (· < ·)) (hN : (0 :: s1 :: ss).getLastD 0 = c.numDumps) (rep : Bool) :
    ∃ parts c', c.partition (0 :: s1 :: ss) = .ok parts ∧ concatenateN nan parts rep = .ok c' ∧
      c'.Parti ∧ c'.perDump = c.perDump ∧ c'.numDumps = c.numDumps :=
  partition_concatN_id nan c h s1 ss hs hN rep

/-- **Removing repeats never changes any dump's value**, also after a NaN has been entered twice
    (unique values not pairwise distinct): same per-dump list, same number of dumps, same unique
    values, structure well-formed. -/
theorem c11_remove_repeats_wfi (c : Cat V) (h : c.WFi) (hne : c.idx ≠ []) :
    ∃ c', c.removeRepeats = .ok c' ∧ c'.WFi ∧ c'.perDump = c.perDump ∧ c'.numDumps = c.numDumps ∧
      c'.uniq = c.uniq ∧ c'.idx ≠ [] ∧ c'.ev.head? = c.ev.head? :=
  removeRepeats_wfi c h hne

/-- witness: the series "NaN on dumps 0..3" partitioned at 0, 2, 4 and concatenated again has the
    NaN object twice among its unique values (and two events where one was), although the per-dump
    list is the original one -/
theorem c11_concat_nan_full_is_false :
    ∃ (c c' : Cat FV) (parts : List (Cat FV)), c.WF ∧ c.partition [0, 2, 4] = .ok parts ∧
      concatenateN FV.isNaN parts false = .ok c' ∧ ¬ c'.uniq.Nodup ∧ c'.perDump = c.perDump ∧ c'.ev ≠ c.ev :=
  ⟨{ uniq := [.nan 0], idx := [0], ev := [0, 4] },
   { uniq := [.nan 0, .nan 0], idx := [0, 1], ev := [0, 2, 4] },
   [{ uniq := [.nan 0], idx := [0], ev := [0, 2] }, { uniq := [.nan 0], idx := [0], ev := [0, 2] }],
   ⟨by decide, by decide, by decide, by decide⟩, by decide, by decide, by decide, by decide, by decide⟩

/-! ### Non-vacuity -/

-- values 3,4,3,5 on events 0,2,5,6,9: unique values in order of appearance, per-dump list
example : Cat.new [3, 4, 3, 5] [0, 2, 5, 6, 9] = { uniq := [3, 4, 5], idx := [0, 1, 0, 2], ev := [0, 2, 5, 6, 9] } := by
  decide
example : (Cat.new [3, 4, 3, 5] [0, 2, 5, 6, 9]).perDump =
    [some 3, some 3, some 4, some 4, some 4, some 3, some 5, some 5, some 5] := by decide
example : (Cat.new [3, 4, 3, 5] [0, 2, 5, 6, 9]).getitem (.slice none none (some 2)) = .ok (.many [3, 4, 4, 5, 5]) := by
  decide
example : (Cat.new [3, 4, 3, 5] [0, 2, 5, 6, 9]).getitem (.int (-1)) = .error .index := by decide
-- partition at 0,4,9 then concatenation gives the per-dump list back
example : ((Cat.new [3, 4, 3, 5] [0, 2, 5, 6, 9]).partition [0, 4, 9]).map (fun ps => ps.map Cat.perDump) =
    .ok [[some 3, some 3, some 4, some 4], [some 4, some 3, some 5, some 5, some 5]] := by decide
example : (do let ps ← (Cat.new [3, 4, 3, 5] [0, 2, 5, 6, 9]).partition [0, 4, 9]
              let c ← concatenate ps false
              pure c.perDump) = .ok (Cat.new [3, 4, 3, 5] [0, 2, 5, 6, 9]).perDump := by decide
-- add overrides [3, 5): dumps 3 and 4 take the new value 7
example : ((Cat.new [3, 4, 3, 5] [0, 2, 5, 6, 9]).add 3 (some 7)).map Cat.perDump =
    .ok [some 3, some 3, some 4, some 7, some 7, some 3, some 5, some 5, some 5] := by decide
example : fillPrevG (some 3) none [some 3, some 3, some 4, some 4, some 4, some 3, some 5, some 5, some 5] =
    [none, none, some 4, some 4, some 4, some 4, some 5, some 5, some 5] := by decide
-- remove the first value: the first dumps lose their value, later segments merge
example : ((Cat.new [3, 4, 3, 5] [0, 2, 5, 6, 9]).remove 3).map Cat.perDump =
    .ok [none, none, some 4, some 4, some 4, some 4, some 5, some 5, some 5] := by decide
-- align moves 2 -> 3, 5 and 6 -> 6 (only the last event landing on 6 is kept)
example : ((Cat.new [3, 4, 3, 5] [0, 2, 5, 6, 9]).align [0, 3, 6, 9]).map (fun c => (c.ev, c.perDump)) =
    .ok ([0, 3, 6, 9], [some 3, some 3, some 3, some 4, some 4, some 4, some 5, some 5, some 5]) := by decide

-- float series NaN(object 0), 1.0, 2.5, NaN(object 1) on events 0,2,4,5,7; operand 1.0 = `num 1`
example : (Cat.new [FV.nan 0, .num 1, .num 2, .nan 1] [0, 2, 4, 5, 7]).cmpOp .le (.num 1) =
    [some false, some false, some true, some true, some false, some false, some false] := by decide
example : (Cat.new [FV.nan 0, .num 1, .num 2, .nan 1] [0, 2, 4, 5, 7]).cmpOp .ge (.num 1) =
    [some false, some false, some true, some true, some true, some false, some false] := by decide
example : (Cat.new [FV.nan 0, .num 1, .num 2, .nan 1] [0, 2, 4, 5, 7]).cmpOp .ne (.nan 0) =
    List.replicate 7 (some true) := by decide
example : (Cat.new [FV.nan 0, .num 1, .num 2, .nan 1] [0, 2, 4, 5, 7]).cmpOp .eq (.nan 0) =
    List.replicate 7 (some false) := by decide
example : specCmp [none, some (.nan 0), some (.num 1)] .ge (.num 1) = [none, some false, some true] := by decide
-- the same NaN object twice is one unique value, another NaN object is another
example : Cat.new [FV.nan 0, .num 1, .nan 0, .nan 1] [0, 2, 4, 5, 7] =
    { uniq := [.nan 0, .num 1, .nan 1], idx := [0, 1, 0, 2], ev := [0, 2, 4, 5, 7] } := by decide
-- indexing a series with NaN, removing a NaN (nothing happens) and a number
example : (Cat.new [FV.nan 0, .num 1, .nan 0] [0, 2, 4, 6]).getitem (.list [1, 5, 3]) =
    .ok (.many [.nan 0, .nan 0, .num 1]) := by decide
example : (Cat.new [FV.nan 0, .num 1, .nan 0] [0, 2, 4, 6]).removeN FV.isNaN (.nan 0) =
    .ok (Cat.new [FV.nan 0, .num 1, .nan 0] [0, 2, 4, 6]) := by decide
example : ((Cat.new [FV.nan 0, .num 1, .nan 0] [0, 2, 4, 6]).removeN FV.isNaN (.num 1)).map Cat.perDump =
    .ok (List.replicate 6 (some (.nan 0))) := by decide
-- partition at 0,3,6 and NaN-aware concatenation: per-dump list unchanged, the NaN object twice
example : (do let ps ← (Cat.new [FV.nan 0, .num 1, .nan 0] [0, 2, 4, 6]).partition [0, 3, 6]
              concatenateN FV.isNaN ps false) =
    .ok { uniq := [.nan 0, .num 1, .nan 0], idx := [0, 1, 2], ev := [0, 2, 4, 6] } := by decide
example : FV.ofCode 4 = .num 2 ∧ FV.ofCode 5 = .nan 2 := by decide

end C11
