/-
  dask's normalize_slice preserves the meaning of a slice, except for the one family of
  slices recorded as a known finding (negative step, explicit start below `-n`).
-/
import KatdalModel.Lemmas.RangeToSlice
open Np Index DaskIx

namespace DaskIx

/-- closed form of `sliceIndices` for a non-zero explicit step -/
theorem sliceIndices_eq (n : Nat) (a b : Option Int) (c : Option Int) (st : Int)
    (hst : c.getD 1 = st) (h0 : st ≠ 0) :
    sliceIndices n a b c =
      some ((match a with
              | none => if st < 0 then (n : Int) - 1 else 0
              | some v => if v < 0 then (if v + n < (if st < 0 then -1 else 0) then (if st < 0 then -1 else 0) else v + n)
                          else (if v > (if st < 0 then (n : Int) - 1 else n) then (if st < 0 then (n : Int) - 1 else n) else v)),
            (match b with
              | none => if st < 0 then -1 else (n : Int)
              | some v => if v < 0 then (if v + n < (if st < 0 then -1 else 0) then (if st < 0 then -1 else 0) else v + n)
                          else (if v > (if st < 0 then (n : Int) - 1 else n) then (if st < 0 then (n : Int) - 1 else n) else v)),
            st) := by
  unfold sliceIndices
  simp only [hst, h0, if_false]
  by_cases hneg : st < 0 <;> cases a <;> cases b <;> simp [hneg]

theorem rangeList_empty_of_ge_pos {s e st : Int} (h : 0 < st) (h2 : e ≤ s) : rangeList s e st = [] :=
  rangeList_pos_nil h h2

/-- **normalize_slice is meaning-preserving** outside the known-finding family. -/
theorem normalizeSlice_sound (n : Nat) (a b c a' b' c' : Option Int)
    (h : normalizeSlice n a b c = some (a', b', c'))
    (hbug : ∀ v, a = some v → c.getD 1 < 0 → 0 ≤ v + n) :
    sliceList n a' b' c' = sliceList n a b c := by
  unfold normalizeSlice at h
  cases hi : sliceIndices n a b c with
  | none => simp [hi] at h
  | some t =>
    obtain ⟨s, e, st⟩ := t
    simp only [hi] at h
    obtain ⟨hne, hp, hn⟩ := sliceIndices_bounds hi
    have hstc : c.getD 1 = st := by
      unfold sliceIndices at hi
      simp only at hi
      split at hi
      · simp at hi
      · simp only [Option.some.injEq, Prod.mk.injEq] at hi
        exact hi.2.2
    unfold sliceList
    rw [hi]
    simp only [Option.map]
    by_cases hpos : 0 < st
    · have ⟨hs0, hsn, he0, hen⟩ := hp hpos
      simp only [hpos, if_true] at h
      -- compute the normalised triple
      have hst' : c'.getD 1 = st := by
        simp only [Option.some.injEq, Prod.mk.injEq] at h
        rw [← h.2.2]; split
        · rename_i h1; simp [h1]
        · simp
      rw [sliceIndices_eq n a' b' c' st hst' hne]
      simp only [Option.some.injEq, Prod.mk.injEq] at h
      obtain ⟨ha, hb, _⟩ := h
      have hnn : ¬ (st < 0) := by omega
      simp only [hnn, if_false]
      congr 1
      subst ha
      by_cases hs : s = 0
      · subst hs
        simp only [if_true] at hb ⊢
        by_cases hge : e ≥ (n : Int)
        · simp only [hge, if_true] at hb
          subst hb
          simp only
          have : e = n := by omega
          rw [this]
        · simp only [hge, if_false] at hb
          subst hb
          simp only
          have h1 : ¬ (e < 0) := by omega
          have h2 : ¬ (e > (n : Int)) := by omega
          simp only [h1, h2, if_false]
      · simp only [hs, if_false] at hb ⊢
        have h1 : ¬ (s < 0) := by omega
        have h2 : ¬ (s > (n : Int)) := by omega
        simp only [h1, h2, if_false]
        by_cases hge : e ≥ (n : Int)
        · simp only [hge, if_true] at hb
          subst hb
          simp only
          have : e = n := by omega
          rw [this]
        · simp only [hge, if_false] at hb
          by_cases hes : e < s
          · simp only [hes, if_true] at hb
            subst hb
            simp only [h1, h2, if_false]
            rw [rangeList_pos_nil hpos (by omega), rangeList_pos_nil hpos (by omega)]
          · simp only [hes, if_false] at hb
            subst hb
            have h3 : ¬ (e < 0) := by omega
            have h4 : ¬ (e > (n : Int)) := by omega
            simp only [h3, h4, if_false]
    · have hneg : st < 0 := by omega
      have ⟨hs0, hsn, he0, hen⟩ := hn hneg
      simp only [hpos, if_false] at h
      simp only [Option.some.injEq, Prod.mk.injEq] at h
      obtain ⟨ha, hb, hc⟩ := h
      have hst' : c'.getD 1 = st := by rw [← hc]; rfl
      rw [sliceIndices_eq n a' b' c' st hst' hne]
      simp only [hneg, if_true]
      congr 1
      -- the start is never the clamped -1 outside the excluded family, unless the axis is empty
      have hsok : 0 ≤ s ∨ s ≥ (n : Int) - 1 := by
        rw [sliceIndices_eq n a b c st hstc hne] at hi
        simp only [Option.some.injEq, Prod.mk.injEq, hneg, if_true] at hi
        obtain ⟨hs, _, _⟩ := hi
        cases a with
        | none => simp only at hs; omega
        | some v =>
          have hv := hbug v rfl (by omega)
          simp only at hs
          split at hs <;> split at hs <;> omega
      subst ha hb
      by_cases hs : s ≥ (n : Int) - 1
      · simp only [hs, if_true]
        have hsn' : s = (n : Int) - 1 := by omega
        by_cases he : e < 0
        · simp only [he, if_true]
          have : e = -1 := by omega
          rw [hsn', this]
        · simp only [he, if_false]
          have h1 : ¬ (e > (n : Int) - 1) := by omega
          simp only [h1, if_false]
          rw [hsn']
      · simp only [hs, if_false]
        have h1 : ¬ (s < 0) := by omega
        have h2 : ¬ (s > (n : Int) - 1) := by omega
        simp only [h1, h2, if_false]
        by_cases he : e < 0
        · simp only [he, if_true]
          have : e = -1 := by omega
          rw [this]
        · simp only [he, if_false]
          have h3 : ¬ (e > (n : Int) - 1) := by omega
          simp only [h3, if_false]

end DaskIx
