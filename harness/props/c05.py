"""C05 - HDF5-era LazyIndexer and ConcatenatedLazyIndexer equal composed outer indexing."""
import json
import os

import h5py
import numpy as np

from harness import common, ixgen

RULE = ('single cases = (source kind ndarray|h5py core-driver dataset, shape 1-4 dims sizes 1-9, first-stage index tuple, '
        'second-stage index tuple, 0-2 LazyTransforms); grammar stream (80%): first stage from positive-step slices / '
        'full-length masks / strictly increasing lists, second stage from ints incl. negative, positive-step slices, masks '
        'incl. all-False, strictly increasing lists, biased to both sides of the 20% span-and-postselect threshold and to '
        '1 / 2 / many contiguous segments; malformed stream (20%): negative-step slices, unsorted / repeated / negative '
        'lists (must be error or numpy-equal).  concat cases = 1-4 parts with equal tails, head index of every kind '
        'spanning part boundaries + tail indices.  non-trivial = non-empty result with at least one non-full index; '
        'distinct = hash of the encoded request.')
TRUSTED = ['Lean 4.33 kernel', 'axioms: propext, Classical.choice, Quot.sound only',
           'hand-written model KatdalModel/Model/LazyIndexer.lean tied to /repo by this differential run',
           'numpy / h5py basic slicing of the underlying source (dataset[slice, int, ...]) is assumed correct',
           'Np layer vs CPython/numpy: exhaustive small-scope comparison (harness/np_glue.py)']
CHECKER = 'lake build KatdalModel.Props.C05 kd_c05 && lake env lean <#print axioms audit>'
FULL = ('s', None, None, None)


# ------------------------------------------------------------------ generation

def gen_stage1(rng, n, grammar):
    r = rng.random()
    if r < 0.25:
        return FULL
    if r < 0.5:
        return ixgen.gen_slice(rng, n, allow_neg_step=not grammar)
    if r < 0.75:
        m = ixgen.gen_mask(rng, n)
        if grammar and not any(m[1]) and rng.random() < 0.7:
            m = ('m', [True] + list(m[1][1:]))
        return m
    if grammar:
        return ixgen.gen_inc_list(rng, n)
    return ixgen.gen_any_list(rng, n)


def gen_out_of_range(rng, n):
    """requests numpy itself refuses: an entry equal to or beyond the axis length (the run [n-1, n] included), an
    integer outside [-n, n), a mask of another length"""
    r = rng.random()
    if r < 0.5:
        head = sorted(rng.sample(range(n), rng.randint(0, min(n, 3)))) if n else []
        if n and rng.random() < 0.5 and (n - 1) not in head:
            head.append(n - 1)
        return ('l', head + [n + rng.choice([0, 0, 0, 1, 2])])
    if r < 0.7:
        return ('i', rng.choice([n, n + 1, -n - 1]))
    if r < 0.85:
        return ('l', [-n - 1] + ([0] if n else []))
    return ('m', [rng.random() < 0.6 for _ in range(n + rng.choice([-1, 1, 2]) if n else 1)])


def gen_stage2(rng, n, grammar):
    r = rng.random()
    if not grammar and r < 0.12:
        return gen_out_of_range(rng, n)
    if r < 0.15:
        return FULL
    if r < 0.3 and n > 0:
        return ixgen.gen_int(rng, n)
    if r < 0.5:
        return ixgen.gen_slice(rng, n, allow_neg_step=not grammar)
    if r < 0.7:
        return ixgen.gen_mask(rng, n)
    if grammar or rng.random() < 0.3:
        return ixgen.gen_inc_list(rng, n)
    return ixgen.gen_any_list(rng, n)


def maybe_trunc(rng, ixs):
    if ixs and rng.random() < 0.2:
        return ixs[:rng.randint(0, len(ixs))]
    return ixs


def gen_single(rng):
    grammar = rng.random() < 0.8
    ndim = rng.choice([1, 1, 2, 2, 3, 4])
    shape = [rng.randint(1, 9) for _ in range(ndim)]
    k1 = [gen_stage1(rng, n, grammar) for n in shape]
    sh1 = [ixgen.np_len(n, ix) for n, ix in zip(shape, k1)]
    k2 = [gen_stage2(rng, n, grammar) for n in sh1]
    tf = [rng.choice(['x2', 'f32', 'rint2']) for _ in range(rng.choice([0, 0, 1, 2]))]
    return dict(kind='single', src=rng.choice(['np', 'h5']), sdtype=rng.choice(['i8', 'i8', 'f8']), shape=shape,
                k1=maybe_trunc(rng, k1),
                k2=maybe_trunc(rng, k2), transforms=tf, arr=[rng.random() < 0.5 for _ in range(16)])


def gen_concat(rng):
    grammar = rng.random() < 0.8
    nparts = rng.randint(1, 4)
    tail = [rng.randint(1, 4) for _ in range(rng.choice([0, 1, 2]))]
    lens = [rng.randint(0 if rng.random() < 0.15 else 1, 5) for _ in range(nparts)]
    total = sum(lens)
    head = gen_stage2(rng, total, grammar)
    if nparts >= 2 and total >= 3 and rng.random() < 0.08:
        # an integer list that is increasing inside every part but comes back to an earlier part after a later one:
        # outside the supported (strictly increasing) form, so it must be refused or answered as numpy answers it
        groups, off = [], 0
        for n in lens:
            groups.append([off + i for i in range(n) if rng.random() < 0.7])
            off += n
        groups = [g for g in groups if g]
        if len(groups) >= 2:
            merged = []
            while any(groups):
                g = rng.choice([g for g in groups if g])
                merged.append(g.pop(0))
            if merged != sorted(merged):
                head = ('l', merged)
    if total >= 2 and rng.random() < 0.05:
        # a negative entry that is not the first one of the sequence (negative entries are refused wherever they stand)
        k = rng.randint(1, min(3, total - 1))
        head = ('l', sorted(rng.sample(range(total), k)) + [-rng.randint(1, total)])
    tails = []
    for n in tail:
        ix = gen_stage2(rng, n, True)
        # integer and empty tail selections hit recorded findings of the concatenated indexer: keep them rare
        if (ix[0] == 'i' or ixgen.np_len(n, ix) == 0) and rng.random() < 0.8:
            ix = FULL
        tails.append(ix)
    case = dict(kind='concat', lens=lens, tail=tail, head=head, tails=maybe_trunc(rng, tails),
                wrap=[rng.random() < 0.5 for _ in range(nparts)], arr=[rng.random() < 0.5 for _ in range(16)],
                part_tf=rng.random() < 0.15)
    # the concatenation's own transform chain (the HDF5 v1 reader's vis parts are concatenated under one):
    # applied to every answer, whatever the form of the head index
    case['cat_tf'] = [] if case['part_tf'] else \
        [rng.choice(['x2', 'f32', 'rint2']) for _ in range(rng.choice([0, 0, 0, 1, 2]))]
    if tail and rng.random() < 0.25:
        # every part is a LazyIndexer with the same first-stage selection on the tail axes (sometimes empty):
        # shape / len of the concatenation and scalar / list head indices
        k1t = []
        for n in tail:
            ix = gen_stage1(rng, n, True)
            if rng.random() < 0.35:
                ix = ('m', [False] * n)
            k1t.append(ix)
        t1 = [ixgen.np_len(n, ix) for n, ix in zip(tail, k1t)]
        r = rng.random()
        head = ixgen.gen_int(rng, total) if (r < 0.5 and total) else ixgen.gen_inc_list(rng, total)
        case.update(k1tail=k1t, tail1=t1, head=head, tails=[], wrap=[True] * nparts)
    return case


# ------------------------------------------------------------------ implementation side

def make_src(case):
    """coordinate codes; the float flavour carries a half so that a cast to an integer type is visible"""
    shape = tuple(case['shape'])
    src = np.arange(int(np.prod(shape)), dtype=np.int64).reshape(shape)
    return src + 0.5 if case.get('sdtype') == 'f8' else src


def transforms_for(names):
    from katdal.lazy_indexer import LazyTransform
    out = []
    for t in names:
        if t == 'x2':
            out.append(LazyTransform('x2', lambda d, k: d * 2))
        elif t == 'rint2':
            # declared dtype narrower than a float source: the transform must see the source values
            out.append(LazyTransform('rint2', lambda d, k: np.rint(d * 2).astype(np.int64), dtype=np.int64))
        else:
            out.append(LazyTransform('f32', lambda d, k: d.astype(np.float32), dtype=np.float32))
    return out


def apply_tf(names, a):
    for t in names:
        a = a * 2 if t == 'x2' else (np.rint(a * 2).astype(np.int64) if t == 'rint2' else a.astype(np.float32))
    return a


def py_tuple(ixs, arr, off=0):
    t = tuple(ixgen.to_py(ix, as_array=arr[(off + j) % len(arr)]) for j, ix in enumerate(ixs))
    return t


def run_single_impl(case):
    from katdal.lazy_indexer import LazyIndexer
    src = make_src(case)
    h5 = None
    res = dict(out=None, err=None, shape=None, dtype=None, full_shape=None, full_dtype=None)
    try:
        if case['src'] == 'h5':
            h5 = h5py.File(f'c05_{os.getpid()}.h5', 'w', driver='core', backing_store=False)
            ds = h5.create_dataset('x', data=src)
        else:
            ds = src
        k1 = py_tuple(case['k1'], case['arr'])
        k2 = py_tuple(case['k2'], case['arr'], 5)
        if len(k2) == 1 and case['arr'][3]:
            k2 = k2[0]          # bare (non-tuple) index form
        ind = LazyIndexer(ds, k1, transforms_for(case['transforms']))
        res['shape'], res['dtype'] = tuple(ind.shape), str(ind.dtype)
        import copy
        k2_before = copy.deepcopy(k2)
        out = ind[k2]
        res['out'] = np.asarray(out)
        # the caller's index objects are not modified by the request
        res['k2_mutated'] = repr(k2_before) != repr(k2)
        try:
            full = np.asarray(ind[:])
            res['full_shape'], res['full_dtype'] = full.shape, str(full.dtype)
            res['full'] = full
        except Exception as e:   # noqa: BLE001
            res['full_err'] = type(e).__name__
        # the same request on the same indexer object answers the same again (no state is left behind)
        try:
            again = np.asarray(ind[k2])
            res['again_ok'] = again.shape == res['out'].shape and again.dtype == res['out'].dtype and \
                np.array_equal(again, res['out'])
        except Exception as e:   # noqa: BLE001
            res['again_ok'] = False
            res['again_err'] = type(e).__name__
    except Exception as e:   # noqa: BLE001
        res['err'] = type(e).__name__
        res['errmsg'] = str(e)[:100]
    finally:
        if h5 is not None:
            h5.close()
    return res


def run_concat_impl(case):
    from katdal.concatdata import ConcatenatedLazyIndexer
    from katdal.lazy_indexer import LazyIndexer
    tail = tuple(case['tail'])
    parts, off = [], 0
    rowsz = int(np.prod(tail)) if tail else 1
    for n in case['lens']:
        a = (np.arange(n * rowsz, dtype=np.int64) + off * rowsz).reshape((n,) + tail)
        parts.append(a)
        off += n
    res = dict(out=None, err=None)
    try:
        if case.get('k1tail') is not None:
            k1 = (slice(None),) + py_tuple(case['k1tail'], case['arr'], 7)
            inds = [LazyIndexer(p, k1) for p in parts]
        elif case.get('part_tf'):
            # every part is a LazyIndexer with its own dtype-changing transform (as the v1 reader's vis parts):
            # what the concatenation delivers, and advertises as dtype, is the transformed data
            from katdal.lazy_indexer import LazyTransform
            tf = LazyTransform('to_c8', lambda x, keep: x.astype(np.complex64) * np.complex64(1 + 0.5j), dtype=np.complex64)
            inds = [LazyIndexer(p, transforms=[tf]) for p in parts]
            parts = [p.astype(np.complex64) * np.complex64(1 + 0.5j) for p in parts]
            res['dtype'] = str(ConcatenatedLazyIndexer(inds).dtype)
        else:
            inds = [LazyIndexer(p) if w else p for p, w in zip(parts, case['wrap'])]
        cat = ConcatenatedLazyIndexer(inds, transforms_for(case.get('cat_tf') or []))
        if case.get('cat_tf'):
            res['cat_dtype'] = str(cat.dtype)
        res['shape'] = tuple(cat.shape)
        res['len'] = len(cat)
        k = (ixgen.to_py(case['head'], as_array=case['arr'][0]),) + py_tuple(case['tails'], case['arr'], 1)
        res['out'] = np.asarray(cat[k])
    except Exception as e:   # noqa: BLE001
        res['err'] = type(e).__name__
        res['errmsg'] = str(e)[:100]
    whole = np.concatenate(parts) if parts else None
    if whole is not None and case.get('k1tail') is not None:
        for ax, ix in enumerate(case['k1tail']):
            whole = whole[(slice(None),) * (ax + 1) + (ixgen.to_py(ix, as_array=True),)]
    return res, whole


# ------------------------------------------------------------------ judging

def single_lines(c):
    sh, k1, k2 = ixgen.enc_shape(c['shape']), ixgen.enc_tuple(c['k1']), ixgen.enc_tuple(c['k2'])
    return [f'get {sh} {k1} {k2}', f'spec {sh} {k1} {k2}', f'spec {sh} {k1} -']


def concat_lines(c):
    lens = ','.join(map(str, c['lens']))
    sh = ixgen.enc_shape([sum(c['lens'])] + (c['tail1'] if c.get('k1tail') is not None else c['tail']))
    k2 = ixgen.enc_tuple([c['head']] + c['tails'])
    return [f'concat {lens} {ixgen.enc_ix(c["head"])}', f'spec {sh} - {k2}',
            f'concatspec {lens} {ixgen.enc_ix(c["head"])}']


def entry_out_of_range(c):
    """some integer of the second-stage key (alone or in a sequence) lies outside the axis it indexes, every
    first-stage entry and every mask being well-formed"""
    shape = c['shape']
    k1 = list(c['k1']) + [FULL] * (len(shape) - len(c['k1']))
    try:
        sh1 = [ixgen.np_len(n, ix) for n, ix in zip(shape, k1)]
    except Exception:   # noqa: BLE001
        return False
    k1_scalar = [ix[0] == 'i' for ix in k1]
    axes = [n for n, sc in zip(sh1, k1_scalar) if not sc]
    if len(c['k2']) > len(axes):
        return False
    found = False
    for n, ix in zip(axes, c['k2']):
        if ix[0] == 'm' and len(ix[1]) != n:
            return False
        if ix[0] == 'i' and not -n <= ix[1] < n:
            found = True
        if ix[0] == 'l' and any(not -n <= v < n for v in ix[1]):
            found = True
    return found


def judge_single(ctx, c, replies, impl):
    mrep, srep, fullrep = replies
    g, srep = srep[:2], srep[3:]
    src = make_src(c)
    sels = ixgen.parse_sels(srep)
    if isinstance(sels, tuple):       # spec itself is an error: invalid request per numpy
        ctx.tag('invalid-request')
        if impl['err'] is None and not entry_out_of_range(c):
            ctx.tag('invalid-request-answered-other')      # e.g. a mask of another length: the text is silent
        elif impl['err'] is None:
            # an integer (alone or in a sequence) outside the axis: source[first stage][second stage] refuses it, so
            # answering with data is answering with different data (model: c05_list_out_of_bounds)
            ctx.tag('invalid-request-answered')
            return (f"a request that source[first stage][second stage] refuses ({srep}) was answered with data of shape "
                    f"{impl['out'].shape} {impl['out'].ravel()[:8].tolist()}")
        ctx.tag('invalid-request-rejected')
        return None
    exp = apply_tf(c['transforms'], ixgen.apply_sels(src, sels))
    ctx.tag('grammar' if g == 'G1' else 'malformed')
    if impl['err'] is not None:
        if g == 'G1':
            return (f"implementation raised {impl['err']} ({impl.get('errmsg', '')}) on a supported index; "
                    f"outer indexing gives shape {exp.shape}")
        ctx.tag('malformed-rejected')
        return None
    out = impl['out']
    if out.shape != exp.shape or not np.array_equal(out, exp):
        kind = 'supported' if g == 'G1' else 'unsupported (must be rejected or numpy-equal)'
        return (f'{kind} index answered with different data: got shape {out.shape} '
                f'{out.ravel()[:8].tolist()} expected shape {exp.shape} {exp.ravel()[:8].tolist()}')
    if g == 'G0':
        ctx.tag('malformed-answered-correctly')
    if str(out.dtype) != impl['dtype']:
        return f"dtype property {impl['dtype']} != result dtype {out.dtype}"
    # shape / dtype properties equal those of the full result
    fsels = ixgen.parse_sels(fullrep[3:])
    if not isinstance(fsels, tuple) and fullrep[:2] == 'G1':
        fexp = ixgen.apply_sels(src, fsels)
        if impl['shape'] != fexp.shape:
            return f"shape property {impl['shape']} != shape of the full result {fexp.shape}"
        if impl.get('full_shape') is not None and impl['full_shape'] != fexp.shape:
            return f"indexer[:] has shape {impl['full_shape']} != {fexp.shape}"
        if impl.get('full') is not None and not np.array_equal(impl['full'], apply_tf(c['transforms'], fexp)):
            return ('indexer[:] requested after another request on the same indexer object differs from '
                    'transform(array[first stage])')
    if impl.get('again_ok') is False:
        return ('the same request repeated on the same indexer object ' +
                (f"raised {impl['again_err']}" if impl.get('again_err') else 'returned different data'))
    if impl.get('k2_mutated'):
        return "the request modified the caller's index arrays"
    m = ixgen.parse_sels(mrep)
    if isinstance(m, tuple):
        ctx.advise(f'mirror model predicts {mrep} but implementation answered: {single_lines(c)[0]}')
    return None


def judge_concat(ctx, c, replies, impl, whole):
    mrep, srep, csrep = replies
    g_tail, srep = srep[:2], srep[3:]
    sels = ixgen.parse_sels(srep)
    if isinstance(sels, tuple):
        ctx.tag('invalid-request')
        return None
    exp = apply_tf(c.get('cat_tf') or [], ixgen.apply_sels(whole, sels))
    if c.get('cat_tf'):
        ctx.tag('concat-own-transforms')
    head = c['head']
    total = sum(c['lens'])
    if c.get('k1tail') is not None:
        ctx.tag('concat-first-stage-tail' + ('-empty' if 0 in c['tail1'] else ''))
        if impl.get('shape') is not None and impl['shape'] != tuple(whole.shape):
            return (f"concatenated indexer over parts with a first-stage tail selection advertises shape "
                    f"{impl['shape']}, the concatenation of the parts' results has shape {tuple(whole.shape)}")
        if impl.get('len') is not None and impl['len'] != whole.shape[0]:
            return f"len() of the concatenated indexer is {impl['len']}, the concatenation has {whole.shape[0]} rows"
    from harness.props import c05 as me  # noqa: F401
    in_g = head_in_grammar(head, total)
    ctx.tag('concat-grammar' if in_g else 'concat-malformed')
    if impl.get('dtype') is not None:
        ctx.tag('concat-part-transforms')
        if impl['dtype'] != str(whole.dtype):
            return (f"concatenated indexer over parts with a dtype-changing transform advertises dtype {impl['dtype']}, "
                    f'its parts deliver {whole.dtype}')
        if impl['err'] is None and in_g and impl['out'].dtype != whole.dtype:
            return (f"concatenated indexer over parts with a dtype-changing transform returns dtype {impl['out'].dtype}, "
                    f'its parts deliver {whole.dtype}')
    if impl['err'] is not None:
        if in_g:
            return (f"concatenated indexer raised {impl['err']} ({impl.get('errmsg', '')}) on a supported head index; "
                    f'indexing the concatenation gives shape {exp.shape}')
        return None
    out = impl['out']
    if out.shape != exp.shape or not np.array_equal(out, exp):
        kind = 'supported' if in_g else 'unsupported (must be rejected or numpy-equal)'
        return (f'concatenated indexer, {kind} head index: got shape {out.shape} {out.ravel()[:8].tolist()} '
                f'expected shape {exp.shape} {exp.ravel()[:8].tolist()}')
    if c.get('cat_tf') and (out.dtype != exp.dtype or impl.get('cat_dtype') != str(exp.dtype)):
        return (f"concatenated indexer with its own transform chain {c['cat_tf']}: result dtype {out.dtype}, advertised "
                f"dtype {impl.get('cat_dtype')}, the transforms applied to the indexed concatenation give {exp.dtype}")
    if mrep.startswith('E:') and in_g:
        ctx.advise(f'concat mirror model predicts {mrep} but implementation answered: {concat_lines(c)[0]}')
    return None


def head_in_grammar(ix, n):
    k = ix[0]
    if k == 'i':
        return -n <= ix[1] < n
    if k == 's':
        return (ix[3] or 1) > 0
    if k == 'm':
        return len(ix[1]) == n
    l = ix[1]
    return all(0 <= v < n for v in l) and all(a < b for a, b in zip(l[:-1], l[1:]))


def concat_full_line(c):
    """whole request (head and tail axes) for the mirror's `concatFull`; None where the model does not apply
    (integer tail indices, parts with a first stage or a transform)"""
    if c.get('k1tail') is not None or c.get('part_tf') or c.get('cat_tf') or any(ix[0] == 'i' for ix in c['tails']):
        return None
    tails = list(c['tails']) + [FULL] * (len(c['tail']) - len(c['tails']))
    enc = []
    for n, ix in zip(c['tail'], tails):
        try:
            pos = np.arange(n)[ixgen.to_py(ix, as_array=True)]
        except Exception:   # noqa: BLE001  (a malformed tail key: numpy's own refusal, nothing to mirror)
            return None
        enc.append(','.join(map(str, pos.tolist())) if len(pos) else 'e')
    lens = ','.join(map(str, c['lens']))
    return f"concatfull {lens} {ixgen.enc_shape(c['tail'])} {ixgen.enc_ix(c['head'])} {';'.join(enc) if enc else '-'}"


def compare_full(ctx, c, mrep, impl):
    """mirror of the whole request against the implementation's answer (error class or shape and values)"""
    if mrep.startswith('E:'):
        same = impl['err'] is not None
        got = f"{impl['err']}" if same else f"an array of shape {impl['out'].shape}"
    elif impl['err'] is not None:
        same, got = False, f"{impl['err']} ({impl.get('errmsg', '')})"
    else:
        msh, mvals = mrep.split(' ')
        msh = () if msh == '-' else tuple(int(x) for x in msh.split('x'))
        mvals = [] if mvals == '-' else [int(x) for x in mvals.split(',')]
        out = impl['out']
        same = tuple(out.shape) == msh and out.ravel().tolist() == mvals
        got = f'shape {tuple(out.shape)} {out.ravel()[:8].tolist()}'
    ctx.tag('concat-full-agrees' if same else 'concat-full-model-differs')
    if not same:
        ctx.advise(f'concat mirror (whole request) predicts {mrep[:80]} but implementation answered {got}: {concat_full_line(c)}')


def evaluate(ctx, cases):
    lines = []
    for c in cases:
        lines += single_lines(c) if c['kind'] == 'single' else concat_lines(c)
    replies = common.run_model('C05', lines)
    full_lines = {i: concat_full_line(c) for i, c in enumerate(cases) if c['kind'] == 'concat'}
    full_lines = {i: l for i, l in full_lines.items() if l is not None}
    full_replies = dict(zip(full_lines, common.run_model('C05', list(full_lines.values())))) if full_lines else {}
    bad = []
    for i, c in enumerate(cases):
        rep = replies[3 * i:3 * i + 3]
        if c['kind'] == 'single':
            impl = run_single_impl(c)
            v = judge_single(ctx, c, rep, impl)
            for ix in c['k1'] + c['k2']:
                ctx.tag('ix-' + ix[0])
            nontriv = impl['out'] is not None and impl['out'].size > 0 and any(ix != FULL for ix in c['k1'] + c['k2'])
            ctx.tag('src-' + c['src'])
            ctx.count(lines[3 * i], nontriv, sample={'request': lines[3 * i], 'model': rep[0][:100]})
        else:
            impl, whole = run_concat_impl(c)
            v = judge_concat(ctx, c, rep, impl, whole)
            if i in full_replies and not v:
                compare_full(ctx, c, full_replies[i], impl)
            elif i in full_replies:
                # the implementation departs from numpy here: does the mirror of the code depart the same way?
                ctx.tag('concat-full-on-deviation')
                compare_full(ctx, c, full_replies[i], impl)
            ctx.tag('concat-head-' + c['head'][0], f"parts-{len(c['lens'])}")
            nontriv = impl['out'] is not None and impl['out'].size > 0
            ctx.count(lines[3 * i], nontriv, sample={'request': lines[3 * i], 'model': rep[0][:100]})
        if v:
            bad.append((c, v))
    return bad


def normalise(c):
    c = json.loads(json.dumps(c))
    for k in ('k1', 'k2', 'tails'):
        if k in c:
            c[k] = [tuple(i) for i in c[k]]
    if 'head' in c:
        c['head'] = tuple(c['head'])
    return c


def still_fails(ctx, case):
    try:
        return bool(evaluate(common.Ctx(ctx.prop, ctx.tier, ctx.seed), [case]))
    except Exception:   # noqa: BLE001
        return False


def shrink(ctx, case, what):
    cur = normalise(case)
    changed = True
    while changed:
        changed = False
        cands = []
        if cur.get('transforms'):
            cands.append(dict(cur, transforms=[]))
        if cur['kind'] == 'single':
            if cur['src'] == 'h5':
                cands.append(dict(cur, src='np'))
            for key in ('k1', 'k2'):
                for ai, ix in enumerate(cur[key]):
                    if tuple(ix) != FULL:
                        k = [list(x) for x in cur[key]]
                        k[ai] = list(FULL)
                        cands.append(dict(cur, **{key: k}))
        else:
            for ai, ix in enumerate(cur['tails']):
                if tuple(ix) != FULL:
                    k = [list(x) for x in cur['tails']]
                    k[ai] = list(FULL)
                    cands.append(dict(cur, tails=k))
            if cur['tail']:
                cands.append(dict(cur, tail=[], tails=[]))
        for cand in cands:
            cand = normalise(cand)
            if still_fails(ctx, cand):
                cur, changed = cand, True
                break
    bad = evaluate(common.Ctx(ctx.prop, ctx.tier, ctx.seed), [cur])
    return cur, (bad[0][1] if bad else what)


# ------------------------------------------------------------------ known-finding matchers

def m_concat_scalar_tail(case, what):
    """non-scalar head index combined with an integer on a tail axis"""
    return (case.get('kind') == 'concat' and case['head'][0] != 'i'
            and any(ix[0] == 'i' for ix in case['tails']))


def m_concat_empty_tail(case, what):
    """slice/mask head index with an empty selection on a tail axis -> reshape(-1, ..., 0) is ambiguous"""
    if case.get('kind') != 'concat' or 'reshape' not in what:
        return False
    return any(ixgen.np_len(n, ix) == 0 for n, ix in zip(case['tail'], case['tails']))


def m_concat_empty_slice(case, what):
    """empty head slice whose start lies in a later part than its stop -> np.concatenate([])"""
    if case.get('kind') != 'concat' or case['head'][0] != 's' or 'need at least one array' not in what:
        return False
    total = sum(case['lens'])
    s, e, st = slice(*case['head'][1:]).indices(total)
    return st > 0 and len(range(s, e, st)) == 0


def m_concat_negstep(case, what):
    return (case.get('kind') == 'concat' and case['head'][0] == 's' and (case['head'][3] or 1) < 0
            and 'unsupported' in what)


MATCHERS = {
    'c05_concat_negative_step_slice': m_concat_negstep,
    'c05_concat_scalar_tail_index': m_concat_scalar_tail,
    'c05_concat_empty_tail_selection': m_concat_empty_tail,
    'c05_concat_empty_slice_across_parts': m_concat_empty_slice,
}


def directed_out_of_range(rng):
    """in every run whatever the seed: sequences ending in the run [n-1, n] (and [n], [k, n+1], the integers n and
    -n-1) on an axis without first stage, read per run (short) and densely, ndarray and HDF5 sources, with and
    without another indexed axis"""
    out = []
    for src in ('np', 'h5'):
        for n in (3, 10):
            for lst in ([n - 1, n], [0, n - 1, n], [n], [1, n + 1], list(range(n + 1))):
                for shape, k2 in (([n], [('l', lst)]), ([n, 4], [('l', lst), ('s', 1, 3, None)]),
                                  ([2, n], [('i', 1), ('l', lst)])):
                    out.append(dict(kind='single', src=src, sdtype='i8', shape=shape, k1=[], k2=k2, transforms=[],
                                    arr=[rng.random() < 0.5 for _ in range(16)]))
            for v in (n, -n - 1):
                out.append(dict(kind='single', src=src, sdtype='i8', shape=[n, 2], k1=[], k2=[('i', v)], transforms=[],
                                arr=[False] * 16))
            # negative entries of a sequence on a NON-first axis without first stage, axis 0 shorter / longer than it
            for shape in ([2, n + 3], [n + 3, n], [2, 3, n + 2]):
                m = shape[-1]
                for lst in ([-1], [-3, -1], [0, -2], [-m, -1]):
                    k2 = [('s', None, None, None)] * (len(shape) - 1) + [('l', lst)]
                    out.append(dict(kind='single', src=src, sdtype='i8', shape=shape, k1=[], k2=k2, transforms=[],
                                    arr=[(len(out) + j) % 2 == 0 for j in range(16)]))
    return out


def corpus_cases():
    d = os.path.join(common.VERIF, 'corpus', 'C05')
    out = []
    if os.path.isdir(d):
        for nm in sorted(os.listdir(d)):
            out.append(normalise(json.load(open(os.path.join(d, nm)))['case']))
    return out


def run(ctx):
    ctx.matchers.update(MATCHERS)
    build = common.build_and_audit('C05', ctx.tier)
    cases = corpus_cases()
    cases += directed_out_of_range(ctx.rng)
    cases += [gen_single(ctx.rng) for _ in range(ctx.q(1000, 40000))]
    cases += [gen_concat(ctx.rng) for _ in range(ctx.q(400, 15000))]
    bad = evaluate(ctx, cases)
    if not bad and not build['build_ok']:
        bad = evaluate(ctx, [gen_single(ctx.rng) for _ in range(10000)] + [gen_concat(ctx.rng) for _ in range(4000)])
    for c, v in bad:
        ctx.violation(c, v)
    ctx.assumptions = ['source arrays hold coordinate codes, so element identity is visible in values',
                       'basic (slice / int) indexing of numpy arrays and h5py datasets is correct']
    return common.finish(ctx, build, RULE, CHECKER, TRUSTED, shrink=lambda c, w: shrink(ctx, c, w))


def replay(ctx, rep):
    ctx.matchers.update(MATCHERS)
    build = common.build_and_audit('C05', 'quick')
    for cc, v in evaluate(ctx, [normalise(rep['case'])]):
        ctx.violation(cc, v)
    return common.finish(ctx, build, RULE, CHECKER, TRUSTED)
