import Driver.Common
import KatdalModel.Model.Flags
open Np Drv Flags

/-! line protocol of the C16 model driver

  strings   : code points joined by '.', the empty string is `e`            (`99.97.109` = "cam")
  lists     : strings joined by ',', the empty list is `-`
  selection : `s:<string>` | `l:<list>`
  masks     : `1011`, the empty mask is `-`

  mask <lsb|msb> <names> <sel>        -> `<setter result> <documented value>` | `E:Error`
  list <names> <sel>                  -> selection list
  keep <lsb|msb> <names> <mask>       -> getter result (list)
  flagtable <v4|h5> <mask>            -> `<256 x 0/1 by the mirror> <256 x 0/1 by the spec>`
  raw <stored|_> <0|1> <0|1>          -> raw byte
  hist <lsb|msb> <names> <nT> <nF> <nB> <call>|<call>...
        call = r=<_|0|TFB..>;<key>=<mask>;...;f=<sel>;w=<sel>   keys: d t (time) c q (freq) p a o (corrprod)
     -> per call `T=..;F=..;B=..;m=<flag mask>;w=<weights sel>` joined by `|`, then ` # ` and the same
        for the history with all flag / weight selections erased (final state only) -/

namespace C16Drv

def parseStr (s : String) : Option Name :=
  if s = "e" then some [] else (s.splitOn ".").mapM fun t => (t.toNat?).map Char.ofNat

def parseList (s : String) : Option (List Name) :=
  if s = "-" then some [] else (s.splitOn ",").mapM parseStr

def parseSel (s : String) : Option Selection :=
  if s.startsWith "s:" then (parseStr (s.drop 2).toString).map Selection.str
  else if s.startsWith "l:" then (parseList (s.drop 2).toString).map Selection.seq
  else none

def parseBits (s : String) : Option (List Bool) := if s = "-" then some [] else parseMask s

def showStr (n : Name) : String := if n.isEmpty then "e" else ".".intercalate (n.map fun c => toString c.toNat)
def showList (l : List Name) : String := if l.isEmpty then "-" else ",".intercalate (l.map showStr)
def showSel : Selection → String
  | .str s => "s:" ++ showStr s
  | .seq l => "l:" ++ showList l
def showBits (m : List Bool) : String :=
  if m.isEmpty then "-" else String.ofList (m.map fun b => if b then '1' else '0')

def parseDims (s : String) : Option (List Dim) :=
  if s = "0" then some [] else s.toList.mapM fun c =>
    if c = 'T' then some Dim.T else if c = 'F' then some Dim.F else if c = 'B' then some Dim.B else none

def keyOf (s : String) : Option Key :=
  match s with
  | "d" => some .dumps | "t" => some .timerange
  | "c" => some .channels | "q" => some .freqrange
  | "p" => some .corrprods | "a" => some .ants | "o" => some .pol
  | _ => none

def parseCall (s : String) : Option Call :=
  (s.splitOn ";").foldlM (fun (c : Call) item =>
    match item.splitOn "=" with
    | ["r", v] => if v = "_" then some c else (parseDims v).map fun d => { c with reset := some d }
    | ["f", v] => (parseSel v).map fun x => { c with flags := some x }
    | ["w", v] => (parseSel v).map fun x => { c with weights := some x }
    | [k, v] => do
      let key ← keyOf k
      let m ← parseBits v
      pure { c with crits := c.crits ++ [(key, m)] }
    | _ => none) ⟨none, [], none, none⟩

def showSt (s : St) : String :=
  s!"T={showBits s.tKeep};F={showBits s.fKeep};B={showBits s.bKeep};m={s.flagsSelect};w={showSel s.weightsKeep}"

def states (f : Fmt) : St → List Call → List St
  | _, [] => []
  | s, c :: t => let s' := step f s c; s' :: states f s' t

def step (line : String) : String :=
  match line.splitOn " " with
  | ["mask", ord, names, sel] =>
    match parseList names, parseSel sel with
    | some names, some sel =>
      let chosen := selectionToList names sel
      if ord = "lsb" then
        showExcept (fun m => s!"{m} {specMaskLSB names chosen}") (flagMaskLSB names sel)
      else
        showExcept (fun m => s!"{m} {specMaskMSB names chosen}") (flagMaskMSB names sel)
    | _, _ => "bad-op"
  | ["list", names, sel] =>
    match parseList names, parseSel sel with
    | some names, some sel => showList (selectionToList names sel)
    | _, _ => "bad-op"
  | ["keep", ord, names, m] =>
    match parseList names, m.toNat? with
    | some names, some m => showList (keepNames (ord = "lsb") names m)
    | _, _ => "bad-op"
  | ["flagtable", kind, m] =>
    match m.toNat? with
    | some m =>
      let f := if kind = "v4" then flagOfV4 m else flagOf m
      let bits (g : Nat → Bool) := String.ofList ((List.range 256).map fun r => if g r then '1' else '0')
      s!"{bits f} {bits (specFlag m)}"
    | none => "bad-op"
  | ["raw", st, lost, pp] =>
    match (if st = "_" then some none else (st.toNat?).map some) with
    | some st => toString (rawV4 st (lost = "1") (pp = "1"))
    | none => "bad-op"
  | ["hist", ord, names, nT, nF, nB, calls] =>
    match parseList names, nT.toNat?, nF.toNat?, nB.toNat?,
          (if calls = "-" then some [] else (calls.splitOn "|").mapM parseCall) with
    | some names, some nT, some nF, some nB, some calls =>
      let f : Fmt := ⟨names, ord = "lsb"⟩
      let s0 := init f nT nF nB
      let sts := states f s0 calls
      let e := run f s0 (eraseFW calls)
      "|".intercalate (sts.map showSt) ++ " # " ++ showSt e
    | _, _, _, _, _ => "bad-op"
  | _ => "bad-op"

end C16Drv

def main : IO Unit := Drv.loop C16Drv.step
