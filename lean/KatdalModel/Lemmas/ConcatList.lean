/-
  ConcatenatedLazyIndexer head axis, integer-list index (strictly increasing, in range): the entries
  are scattered over the parts by `find_indexer`, each part is asked for its local indices, and the
  answers are gathered back slot by slot (concatdata.py:162-174).
-/
import KatdalModel.Lemmas.ConcatSlice
open Np Index LazyIx
namespace LazyIx

/-- a part answers a strictly increasing in-range integer list with those local positions -/
theorem runPart_list (lens : List Nat) (k : Nat) (locals : List Int) (hk : k < lens.length)
    (hinc : locals.Pairwise (· < ·)) (hb : ∀ v ∈ locals, 0 ≤ v ∧ v < (lens.getD k 0 : Nat)) :
    runPart lens k (.list locals) = .ok (locals.map fun v => (k, v.toNat)) := by
  unfold runPart
  rw [getNat_getD lens k hk]
  have hG : stage2InG (lens.getD k 0) (.list locals) = true := by
    simp only [stage2InG, Bool.and_eq_true, List.all_eq_true, decide_eq_true_eq]
    exact ⟨(strictInc_iff_pairwise _).mpr hinc, hb⟩
  have h2 := second_stage_full (lens.getD k 0) (.list locals) hG
  simp only [bind, Except.bind] at h2
  simp only [bind, Except.bind, getitem1, mkLookup_full]
  simp only [mapThrough] at h2 ⊢
  rw [h2]
  simp only [Ix.resolve, normList_nonneg _ locals hb, bind, Except.bind, pure, Except.pure, List.map_map]
  rfl

/-- `find?` on a `flatMap` when every match is the same element and it occurs somewhere -/
theorem find?_flatMap_unique {α β} (L : List α) (F : α → List β) (q : β → Bool) (target : β)
    (hex : ∃ p ∈ L, target ∈ F p) (hq : q target = true)
    (huniq : ∀ p ∈ L, ∀ e ∈ F p, q e = true → e = target) :
    (L.flatMap F).find? q = some target := by
  cases h : (L.flatMap F).find? q with
  | none =>
    rw [List.find?_eq_none] at h
    obtain ⟨p, hp, ht⟩ := hex
    have := h target (List.mem_flatMap.mpr ⟨p, hp, ht⟩)
    simp [hq] at this
  | some e =>
    have hm := List.mem_of_find?_eq_some h
    have hqe := List.find?_some h
    obtain ⟨p, hp, he⟩ := List.mem_flatMap.mp hm
    rw [huniq p hp e he hqe]

theorem zip_map_self {α β} (l : List α) (f : α → β) : l.zip (l.map f) = l.map fun x => (x, f x) := by
  induction l with
  | nil => rfl
  | cons a t ih => simp [ih]

theorem map_getD_range (l : List Int) {β} (h : Int → β) :
    (List.range l.length).map (fun j => h (l.getD j 0)) = l.map h := by
  apply List.ext_getElem
  · simp
  · intro i h1 h2
    simp at h1
    simp [List.getD_eq_getElem?_getD, List.getElem?_eq_getElem h1]

end LazyIx

namespace LazyIx

/-- the part holding global position `v` and the position inside it -/
def partOf (lens : List Nat) (v : Int) : Nat := (findIndexer (partStarts lens) v).toNat
def locOf (lens : List Nat) (v : Int) : Nat := (v - (((partStarts lens).getD (partOf lens v) 0 : Nat) : Int)).toNat

theorem entry_facts (lens : List Nat) (v : Int) (h0 : 0 ≤ v) (h1 : v < total lens) :
    findIndexer (partStarts lens) v = (partOf lens v : Int) ∧ partOf lens v < lens.length ∧
    locate lens 0 v.toNat = some (partOf lens v, locOf lens v) ∧
    v - (((partStarts lens).getD (partOf lens v) 0 : Nat) : Int) = (locOf lens v : Int) ∧
    locOf lens v < lens.getD (partOf lens v) 0 := by
  obtain ⟨g, rfl⟩ := Int.eq_ofNat_of_zero_le h0
  obtain ⟨k, loc, e1, e2, e3, e4, e5, e6⟩ := findIndexer_locate lens 0 0 g (by omega) (by omega)
  rw [← partStarts_eq] at e2 e4
  simp only [Nat.sub_zero, Nat.zero_add] at e1
  have hp : partOf lens (g : Int) = k := by simp [partOf, e2]
  have hst : (partStarts lens).getD k 0 = g - loc := by simp [List.getD_eq_getElem?_getD, e4]
  have hl : locOf lens (g : Int) = loc := by
    simp only [locOf, hp, hst]; omega
  refine ⟨by rw [hp]; exact e2, by rw [hp]; exact e3, by simpa [hp, hl] using e1, ?_, by rw [hp, hl]; exact e6⟩
  rw [hp, hl, hst]; omega

end LazyIx

namespace LazyIx

def slotsOf (lens : List Nat) (l : List Int) (p : Nat) : List Nat :=
  (List.range l.length).filter fun j => (l.map (findIndexer (partStarts lens))).getD j 0 = Int.ofNat p

theorem getD_map_lt (l : List Int) (f : Int → Int) (j : Nat) (hj : j < l.length) :
    (l.map f).getD j 0 = f (l.getD j 0) := by
  simp [List.getD_eq_getElem?_getD, List.getElem?_eq_getElem hj]

theorem mem_slotsOf (lens : List Nat) (l : List Int) (p j : Nat)
    (hb : ∀ v ∈ l, 0 ≤ v ∧ v < total lens) :
    j ∈ slotsOf lens l p ↔ j < l.length ∧ partOf lens (l.getD j 0) = p := by
  simp only [slotsOf, List.mem_filter, List.mem_range, decide_eq_true_eq]
  constructor
  · rintro ⟨hj, h⟩
    refine ⟨hj, ?_⟩
    rw [getD_map_lt l _ j hj] at h
    unfold partOf
    rw [h]; rfl
  · rintro ⟨hj, h⟩
    refine ⟨hj, ?_⟩
    rw [getD_map_lt l _ j hj]
    have hv : l.getD j 0 ∈ l := by
      simp [List.getD_eq_getElem?_getD, List.getElem?_eq_getElem hj]
    obtain ⟨e1, _⟩ := entry_facts lens (l.getD j 0) (hb _ hv).1 (hb _ hv).2
    rw [e1, h]; rfl

theorem slotsOf_pairwise (lens : List Nat) (l : List Int) (p : Nat) : (slotsOf lens l p).Pairwise (· < ·) :=
  List.Pairwise.filter _ List.pairwise_lt_range

theorem listPart_spec (lens : List Nat) (l : List Int) (p : Nat) (hp : p < lens.length)
    (hinc : l.Pairwise (· < ·)) (hb : ∀ v ∈ l, 0 ≤ v ∧ v < total lens) :
    listPart lens l p = .ok ((slotsOf lens l p).map fun j => (j, p, locOf lens (l.getD j 0))) := by
  have hmem := mem_slotsOf lens l p
  unfold listPart
  simp only []
  change (if (slotsOf lens l p).isEmpty = true then _ else _) = _
  by_cases hemp : (slotsOf lens l p).isEmpty = true
  · rw [if_pos hemp]
    have : slotsOf lens l p = [] := List.isEmpty_iff.mp hemp
    rw [this]; rfl
  · rw [if_neg hemp]
    change (do
      let r ← runPart lens p (.list ((slotsOf lens l p).map fun j => l.getD j 0 - (((partStarts lens).getD p 0 : Nat) : Int)))
      if r.length = (slotsOf lens l p).length then pure ((slotsOf lens l p).zip r) else Except.error Err.value) = _
    have hvmem : ∀ j, j < l.length → l.getD j 0 ∈ l := by
      intro j hj; simp [List.getD_eq_getElem?_getD, List.getElem?_eq_getElem hj]
    -- the local indices are strictly increasing and inside the part
    have hlocal : ∀ j ∈ slotsOf lens l p,
        l.getD j 0 - (((partStarts lens).getD p 0 : Nat) : Int) = (locOf lens (l.getD j 0) : Int) ∧
        locOf lens (l.getD j 0) < lens.getD p 0 := by
      intro j hj
      obtain ⟨hjl, hpj⟩ := (hmem j hb).mp hj
      obtain ⟨_, _, _, e4, e5⟩ := entry_facts lens (l.getD j 0) (hb _ (hvmem j hjl)).1 (hb _ (hvmem j hjl)).2
      rw [hpj] at e4 e5
      exact ⟨e4, e5⟩
    have hincL : ((slotsOf lens l p).map fun j => l.getD j 0 - (((partStarts lens).getD p 0 : Nat) : Int)).Pairwise (· < ·) := by
      rw [List.pairwise_map]
      refine List.Pairwise.imp_of_mem ?_ (slotsOf_pairwise lens l p)
      intro a b ha hb' hab
      have hal := ((hmem a hb).mp ha).1
      have hbl := ((hmem b hb).mp hb').1
      have := List.pairwise_iff_getElem.mp hinc a b hal hbl hab
      simp only [List.getD_eq_getElem?_getD, List.getElem?_eq_getElem hal, List.getElem?_eq_getElem hbl,
        Option.getD_some]
      omega
    have hbL : ∀ v ∈ ((slotsOf lens l p).map fun j => l.getD j 0 - (((partStarts lens).getD p 0 : Nat) : Int)),
        0 ≤ v ∧ v < (lens.getD p 0 : Nat) := by
      intro v hv
      obtain ⟨j, hj, rfl⟩ := List.mem_map.mp hv
      obtain ⟨e, hlt⟩ := hlocal j hj
      rw [e]; omega
    rw [runPart_list lens p _ hp hincL hbL]
    simp only [bind, Except.bind, List.length_map, if_true, pure, Except.pure, List.map_map]
    rw [show (List.map ((fun v => (p, v.toNat)) ∘ fun j => l.getD j 0 - (((partStarts lens).getD p 0 : Nat) : Int))
        (slotsOf lens l p)) = (slotsOf lens l p).map (fun j => (p, locOf lens (l.getD j 0))) from ?_]
    · rw [zip_map_self]
    · apply List.map_congr_left
      intro j hj
      obtain ⟨e, _⟩ := hlocal j hj
      simp only [Function.comp, e, Int.toNat_natCast]

end LazyIx

namespace LazyIx

theorem concatHead_list_unfold (lens : List Nat) (l : List Int) :
    concatHead lens (.list l) =
      (if l.any (· < 0) then .error .type else do
        let filled ← (List.range lens.length).mapM (listPart lens l)
        let out ← (List.range l.length).mapM (pickSlot filled.flatten)
        pure (false, out)) := by
  simp only [concatHead]
  split <;> rfl

/-- **Concatenated indexer, integer-list head index** (strictly increasing, non-negative, in range):
    scattering the entries over the parts and gathering the parts' answers slot by slot reads what
    the list applied to the concatenation reads, in the same order -/
theorem concatHead_list (lens : List Nat) (l : List Int) (hinc : l.Pairwise (· < ·))
    (hb : ∀ v ∈ l, 0 ≤ v ∧ v < total lens) :
    concatHead lens (.list l) = concatSpec lens (.list l) := by
  have hvmem : ∀ j, j < l.length → l.getD j 0 ∈ l := by
    intro j hj; simp [List.getD_eq_getElem?_getD, List.getElem?_eq_getElem hj]
  rw [concatHead_list_unfold]
  have hany : l.any (· < 0) = false := by
    rw [List.any_eq_false]; intro v hv; have := hb v hv; simp; omega
  rw [hany]
  simp only [Bool.false_eq_true, if_false]
  -- every part
  have hfilled : (List.range lens.length).mapM (listPart lens l) =
      .ok ((List.range lens.length).map fun p => (slotsOf lens l p).map fun j => (j, p, locOf lens (l.getD j 0))) :=
    mapM_ok_of_forall _ _ _ (fun p hp => listPart_spec lens l p (List.mem_range.mp hp) hinc hb)
  rw [hfilled]
  simp only [bind, Except.bind]
  -- every slot
  have hslot : ∀ j ∈ List.range l.length,
      pickSlot ((List.range lens.length).map fun p => (slotsOf lens l p).map
        fun j => (j, p, locOf lens (l.getD j 0))).flatten j =
      .ok (partOf lens (l.getD j 0), locOf lens (l.getD j 0)) := by
    intro j hj
    have hjl := List.mem_range.mp hj
    obtain ⟨_, hpl, _, _, _⟩ := entry_facts lens (l.getD j 0) (hb _ (hvmem j hjl)).1 (hb _ (hvmem j hjl)).2
    unfold pickSlot
    rw [← List.flatMap_def, find?_flatMap_unique _ _ _ (j, partOf lens (l.getD j 0), locOf lens (l.getD j 0))]
    · refine ⟨partOf lens (l.getD j 0), List.mem_range.mpr hpl, ?_⟩
      exact List.mem_map.mpr ⟨j, (mem_slotsOf lens l _ j hb).mpr ⟨hjl, rfl⟩, rfl⟩
    · simp
    · intro p _ e he hq
      obtain ⟨j', hj', rfl⟩ := List.mem_map.mp he
      simp only [decide_eq_true_eq] at hq
      subst hq
      have := ((mem_slotsOf lens l p j' hb).mp hj').2
      rw [this]
  rw [mapM_ok_of_forall _ _ _ hslot]
  -- specification side
  have hnorm := normList_nonneg (total lens) l hb
  simp only [concatSpec, Ix.resolve, hnorm, bind, Except.bind, pure, Except.pure]
  have hspec : (l.map Int.toNat).mapM (locateF lens) =
      .ok (l.map fun v => (partOf lens v, locOf lens v)) := by
    apply mapM_map_ok
    intro v hv
    obtain ⟨_, _, e3, _, _⟩ := entry_facts lens v (hb v hv).1 (hb v hv).2
    simp [locateF, e3]
  generalize hX : List.mapM (m := Except Err) _ (List.map Int.toNat l) = X
  have hX2 : X = .ok (l.map fun v => (partOf lens v, locOf lens v)) := hX.symm.trans hspec
  rw [hX2, ← map_getD_range l (fun v => (partOf lens v, locOf lens v))]

end LazyIx
