/-
  C16 lemmas, part 1: bit packing.  `packbits` (MSB-first Horner) against the little-endian value,
  the marking loop against "name i is chosen" (needs 8 pairwise distinct names), the getter, and the
  getter/setter round trip.  Core Lean only.
-/
import KatdalModel.Model.Flags
open Np
namespace Flags

theorem testBit_ofBitsLE (l : List Bool) (i : Nat) : (ofBitsLE l).testBit i = l.getD i false := by
  induction l generalizing i with
  | nil => simp [ofBitsLE]
  | cons b t ih =>
    cases i with
    | zero =>
      simp only [ofBitsLE, Nat.testBit_zero, List.getD_cons_zero]
      cases b <;> simp [Nat.add_mod]
    | succ i =>
      simp only [ofBitsLE, Nat.testBit_succ, List.getD_cons_succ]
      have : (b.toNat + 2 * ofBitsLE t) / 2 = ofBitsLE t := by cases b <;> simp <;> omega
      rw [this, ih]

theorem ofBitsLE_append (l : List Bool) (b : Bool) :
    ofBitsLE (l ++ [b]) = ofBitsLE l + 2 ^ l.length * b.toNat := by
  induction l with
  | nil => simp [ofBitsLE]
  | cons a t ih => simp only [List.cons_append, ofBitsLE, ih, List.length_cons, Nat.pow_succ]; 
                   rw [Nat.mul_add]; ac_rfl

theorem packbits_aux (bits : List Bool) (a : Nat) :
    bits.foldl (fun a b => 2 * a + b.toNat) a = ofBitsLE bits.reverse + 2 ^ bits.length * a := by
  induction bits generalizing a with
  | nil => simp [ofBitsLE]
  | cons b t ih =>
    simp only [List.foldl_cons, ih, List.reverse_cons, ofBitsLE_append, List.length_reverse,
      List.length_cons, Nat.pow_succ]
    rw [Nat.mul_add]; 
    have : 2 ^ t.length * (2 * a) = 2 ^ t.length * 2 * a := by rw [Nat.mul_assoc]
    omega

theorem packbits_eq (bits : List Bool) : packbits bits = ofBitsLE bits.reverse := by
  simp [packbits, packbits_aux]

theorem ofBitsLE_lt (l : List Bool) : ofBitsLE l < 2 ^ l.length := by
  induction l with
  | nil => simp [ofBitsLE]
  | cons b t ih => simp only [ofBitsLE, List.length_cons, Nat.pow_succ]; cases b <;> simp <;> omega



theorem indexOf?_eq_some_iff {names : List Name} (hn : names.Nodup) (n : Name) (i : Nat) :
    indexOf? names n = some i ↔ names[i]? = some n := by
  unfold indexOf?
  constructor
  · intro h
    split at h
    · rename_i hc
      have hm : n ∈ names := List.contains_iff_mem.mp hc
      have hlt := List.idxOf_lt_length_of_mem hm
      simp at h; subst h
      rw [List.getElem?_eq_getElem hlt, List.getElem_idxOf hlt]
    · simp at h
  · intro h
    have hm := List.mem_of_getElem? h
    have hc : names.contains n = true := List.contains_iff_mem.mpr hm
    rw [if_pos hc]
    obtain ⟨hi, he⟩ := List.getElem?_eq_some_iff.mp h
    have := hn.idxOf_getElem i hi
    rw [he] at this; rw [this]

theorem markFold_get (names chosen : List Name) (sel : List Bool) (i : Nat) :
    (chosen.foldl (mark names) sel)[i]? =
      (sel[i]?).map (fun b => b || chosen.any (fun n => indexOf? names n == some i)) := by
  induction chosen generalizing sel with
  | nil => simp
  | cons n t ih =>
    simp only [List.foldl_cons, ih, List.any_cons]
    unfold mark
    cases hj : indexOf? names n with
    | none => simp
    | some j =>
      simp only [List.getElem?_set]
      by_cases hji : j = i
      · subst hji
        by_cases hl : j < sel.length
        · simp [hl]
        · have : sel[j]? = none := by simp at hl; simp [hl]
          simp [hl]
      · have hb : (j == i) = false := by simpa using hji
        simp [hji, hb]

theorem markSelected_get (names chosen : List Name) (i : Nat) :
    (markSelected names chosen)[i]? =
      if i < 8 then some (chosen.any (fun n => indexOf? names n == some i)) else none := by
  unfold markSelected
  rw [markFold_get, List.getElem?_replicate]
  split <;> simp

theorem any_index_eq {names : List Name} (hn : names.Nodup) (chosen : List Name) (i : Nat) :
    chosen.any (fun n => indexOf? names n == some i) =
      (match names[i]? with | some m => chosen.contains m | none => false) := by
  cases hm : names[i]? with
  | none =>
    simp only
    rw [List.any_eq_false]
    intro n _
    have := indexOf?_eq_some_iff hn n i
    simp [hm] at this
    simp [this]
  | some m =>
    simp only
    rw [Bool.eq_iff_iff, List.any_eq_true, List.contains_iff_mem]
    constructor
    · rintro ⟨n, hnc, hx⟩
      have := (indexOf?_eq_some_iff hn n i).mp (by simpa using hx)
      rw [hm] at this; cases this; exact hnc
    · intro h
      exact ⟨m, h, by simp [(indexOf?_eq_some_iff hn m i).mpr hm]⟩

/-- with 8 distinct names the loop computes exactly "name i is among the chosen ones" -/
theorem markSelected_eq_map {names : List Name} (hn : names.Nodup) (h8 : names.length = 8)
    (chosen : List Name) : markSelected names chosen = names.map (fun n => chosen.contains n) := by
  apply List.ext_getElem?
  intro i
  rw [markSelected_get, any_index_eq hn, List.getElem?_map]
  by_cases hi : i < 8
  · have : i < names.length := by omega
    simp [hi, List.getElem?_eq_getElem this]
  · have : names[i]? = none := by simp; omega
    simp [hi, this]



theorem maskLSB_eq_spec {names : List Name} (hn : names.Nodup) (h8 : names.length = 8) (sel : Selection) :
    maskLSB names sel = specMaskLSB names (selectionToList names sel) := by
  unfold maskLSB specMaskLSB
  rw [packbits_eq, List.reverse_reverse, markSelected_eq_map hn h8]

theorem maskMSB_eq_spec {names : List Name} (hn : names.Nodup) (h8 : names.length = 8) (sel : Selection) :
    maskMSB names sel = specMaskMSB names (selectionToList names sel) := by
  unfold maskMSB specMaskMSB
  rw [packbits_eq, markSelected_eq_map hn h8, List.map_reverse]

theorem specMaskLSB_testBit (names chosen : List Name) (i : Nat) :
    (specMaskLSB names chosen).testBit i = true ↔ ∃ n, names[i]? = some n ∧ n ∈ chosen := by
  unfold specMaskLSB
  rw [testBit_ofBitsLE, List.getD_eq_getElem?_getD, List.getElem?_map]
  cases names[i]? with
  | none => simp
  | some m => simp

theorem specMaskMSB_testBit {names : List Name} (h8 : names.length = 8) (chosen : List Name) (i : Nat) :
    (specMaskMSB names chosen).testBit i = true ↔ i < 8 ∧ ∃ n, names[7 - i]? = some n ∧ n ∈ chosen := by
  unfold specMaskMSB
  rw [testBit_ofBitsLE, List.getD_eq_getElem?_getD, List.getElem?_map]
  by_cases hi : i < 8
  · rw [List.getElem?_reverse (by omega), h8]
    have : 8 - 1 - i = 7 - i := by omega
    rw [this]
    cases names[7 - i]? with
    | none => simp
    | some m => simp [hi]
  · have : names.reverse[i]? = none := by simp; omega
    simp [this, hi]

theorem specMaskLSB_lt {names : List Name} (h8 : names.length = 8) (chosen : List Name) :
    specMaskLSB names chosen < 256 := by
  have := ofBitsLE_lt (names.map fun n => chosen.contains n)
  simpa [specMaskLSB, h8] using this

theorem specMaskMSB_lt {names : List Name} (h8 : names.length = 8) (chosen : List Name) :
    specMaskMSB names chosen < 256 := by
  have := ofBitsLE_lt (names.reverse.map fun n => chosen.contains n)
  simpa [specMaskMSB, h8] using this

theorem unpackbits_eq (m : Nat) : unpackbits m =
    [m.testBit 7, m.testBit 6, m.testBit 5, m.testBit 4, m.testBit 3, m.testBit 2, m.testBit 1, m.testBit 0] := rfl

theorem unpackbits_get (m i : Nat) (hi : i < 8) : (unpackbits m)[i]? = some (m.testBit (7 - i)) := by
  unfold unpackbits
  rw [List.getElem?_map, List.getElem?_range hi]; rfl

theorem unpackbits_length (m : Nat) : (unpackbits m).length = 8 := by simp [unpackbits]

/-- getter: a name is reported iff it sits at a position whose bit is set -/
theorem mem_keepNames (lsb : Bool) {names : List Name} (h8 : names.length = 8) (m : Nat) (n : Name) :
    n ∈ keepNames lsb names m ↔
      ∃ i, i < 8 ∧ names[i]? = some n ∧ m.testBit (if lsb then i else 7 - i) = true := by
  unfold keepNames
  simp only [List.mem_filterMap]
  constructor
  · rintro ⟨⟨n', b⟩, hz, hf⟩
    obtain ⟨i, hi⟩ := List.mem_iff_getElem?.mp hz
    rw [List.getElem?_zip_eq_some] at hi
    obtain ⟨h1, h2⟩ := hi
    simp only at h1 h2 hf
    have hb : b = true ∧ n' = n := by cases b <;> simp_all
    obtain ⟨rfl, rfl⟩ := hb
    have hi8 : i < 8 := by
      have := (List.getElem?_eq_some_iff.mp h1).1; omega
    refine ⟨i, hi8, h1, ?_⟩
    cases lsb with
    | true =>
      simp only [if_true] at h2 ⊢
      rw [List.getElem?_reverse (by rw [unpackbits_length]; exact hi8), unpackbits_length,
        unpackbits_get _ _ (by omega)] at h2
      have : 7 - (8 - 1 - i) = i := by omega
      rw [this] at h2; simpa using h2
    | false =>
      simp only [Bool.false_eq_true, if_false] at h2 ⊢
      rw [unpackbits_get _ _ hi8] at h2; simpa using h2
  · rintro ⟨i, hi8, h1, h2⟩
    refine ⟨(n, true), ?_, by simp⟩
    apply List.mem_iff_getElem?.mpr
    refine ⟨i, ?_⟩
    rw [List.getElem?_zip_eq_some]
    refine ⟨h1, ?_⟩
    cases lsb with
    | true =>
      simp only [if_true] at h2 ⊢
      rw [List.getElem?_reverse (by rw [unpackbits_length]; exact hi8), unpackbits_length,
        unpackbits_get _ _ (by omega)]
      have : 7 - (8 - 1 - i) = i := by omega
      rw [this, h2]
    | false =>
      simp only [Bool.false_eq_true, if_false] at h2 ⊢
      rw [unpackbits_get _ _ hi8, h2]

theorem nodup_get_inj {names : List Name} (hn : names.Nodup) {i j : Nat} {n : Name}
    (hi : names[i]? = some n) (hj : names[j]? = some n) : i = j := by
  have a := (indexOf?_eq_some_iff hn n i).mpr hi
  have b := (indexOf?_eq_some_iff hn n j).mpr hj
  rw [a] at b; exact Option.some.inj b

theorem testBit_ge8 {m : Nat} (hm : m < 256) {i : Nat} (hi : 8 ≤ i) : m.testBit i = false := by
  apply Nat.testBit_lt_two_pow
  calc m < 2 ^ 8 := hm
    _ ≤ 2 ^ i := Nat.pow_le_pow_right (by omega) hi

/-- getter then setter is the identity on valid masks (v3 / v4) -/
theorem roundtrip_lsb {names : List Name} (hn : names.Nodup) (h8 : names.length = 8) {m : Nat} (hm : m < 256) :
    maskLSB names (.seq (keepNames true names m)) = m := by
  rw [maskLSB_eq_spec hn h8]
  apply Nat.eq_of_testBit_eq
  intro i
  rw [Bool.eq_iff_iff, specMaskLSB_testBit]
  simp only [selectionToList]
  constructor
  · rintro ⟨n, h1, h2⟩
    obtain ⟨j, _, hj, hb⟩ := (mem_keepNames true h8 m n).mp h2
    have := nodup_get_inj hn h1 hj
    subst this; simpa using hb
  · intro hb
    have hi : i < 8 := by
      apply Classical.byContradiction; intro h
      rw [testBit_ge8 hm (by omega)] at hb; cases hb
    have hl : i < names.length := by omega
    refine ⟨names[i], List.getElem?_eq_getElem hl, ?_⟩
    exact (mem_keepNames true h8 m _).mpr ⟨i, hi, List.getElem?_eq_getElem hl, by simpa using hb⟩

/-- getter then setter is the identity on valid masks (v2) -/
theorem roundtrip_msb {names : List Name} (hn : names.Nodup) (h8 : names.length = 8) {m : Nat} (hm : m < 256) :
    maskMSB names (.seq (keepNames false names m)) = m := by
  rw [maskMSB_eq_spec hn h8]
  apply Nat.eq_of_testBit_eq
  intro i
  rw [Bool.eq_iff_iff, specMaskMSB_testBit h8]
  simp only [selectionToList]
  constructor
  · rintro ⟨hi, n, h1, h2⟩
    obtain ⟨j, hj8, hj, hb⟩ := (mem_keepNames false h8 m n).mp h2
    have := nodup_get_inj hn h1 hj
    have : 7 - j = i := by omega
    simp only [Bool.false_eq_true, if_false] at hb
    rw [this] at hb; exact hb
  · intro hb
    have hi : i < 8 := by
      apply Classical.byContradiction; intro h
      rw [testBit_ge8 hm (by omega)] at hb; cases hb
    have hl : 7 - i < names.length := by omega
    refine ⟨hi, names[7 - i], List.getElem?_eq_getElem hl, ?_⟩
    refine (mem_keepNames false h8 m _).mpr ⟨7 - i, by omega, List.getElem?_eq_getElem hl, ?_⟩
    have : 7 - (7 - i) = i := by omega
    simp only [Bool.false_eq_true, if_false, this]; exact hb

/-! ### `str.strip` -/


theorem lstrip_ws_append (w y : Name) (hw : ∀ c ∈ w, isPyWs c = true) : lstrip (w ++ y) = lstrip y := by
  induction w with
  | nil => rfl
  | cons c t ih =>
    have hc := hw c (by simp)
    simp only [List.cons_append, lstrip, hc, if_true]
    exact ih (fun c hc => hw c (by simp [hc]))

theorem lstrip_all_ws (w : Name) (hw : ∀ c ∈ w, isPyWs c = true) : lstrip w = [] := by
  have := lstrip_ws_append w [] hw
  simpa [lstrip] using this

theorem lstrip_of_head (x : Name) (hx : ∀ c, x.head? = some c → isPyWs c = false) : lstrip x = x := by
  cases x with
  | nil => rfl
  | cons c t => simp [lstrip, hx c rfl]

/-- stripping removes exactly the whitespace padding around a name that does not itself start or end
    with whitespace -/
theorem strip_pad (w1 x w2 : Name) (h1 : ∀ c ∈ w1, isPyWs c = true) (h2 : ∀ c ∈ w2, isPyWs c = true)
    (hh : ∀ c, x.head? = some c → isPyWs c = false) (hl : ∀ c, x.getLast? = some c → isPyWs c = false) :
    strip (w1 ++ x ++ w2) = x := by
  unfold strip
  rw [List.append_assoc, lstrip_ws_append _ _ h1]
  cases x with
  | nil =>
    simp only [List.nil_append, lstrip_all_ws w2 h2]; rfl
  | cons c t =>
    have : lstrip (c :: t ++ w2) = c :: t ++ w2 := by
      apply lstrip_of_head; intro d hd; apply hh; simpa using hd
    rw [this, List.reverse_append, lstrip_ws_append _ _ (fun d hd => h2 d (by simpa using hd))]
    rw [lstrip_of_head _ (by intro d hd; apply hl; rw [List.head?_reverse] at hd; exact hd)]
    exact List.reverse_reverse _

end Flags
