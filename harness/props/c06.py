"""C06 - lost data become zeros flagged data_lost, exactly where they were lost."""
import itertools
import json
import os
import shutil
import tempfile

import dask
import dask.array as da
import numpy as np

from harness import common

RULE = ('case = (shape T<=7, F<=6, B<=5; four independent random chunkings of correlator_data / flags / weights / '
        'weights_channel incl. the baseline axis; random subset of missing chunks per array incl. none / all / whole '
        'trailing dumps; optional unit-step preselection of dumps and channels; optional differing dump counts '
        'between arrays (phantom-chunk alignment) and an attached flags stream of different length through '
        'TelstateDataSource).  The implementation loads vis / flags / weights through ChunkStoreVisFlagsWeights over '
        'an NPY store whose chunk files were deleted.  non-trivial = at least one chunk missing and at least one '
        'present; distinct = hash of the encoded case.')
TRUSTED = ['Lean 4.33 kernel', 'axioms: propext, Classical.choice, Quot.sound only',
           'hand-written model KatdalModel/Model/Chunks.lean tied to /repo by this differential run',
           "dask's intersect_chunks / slicing are exercised, not proved",
           'stored arrays hold distinct pseudo-random values so that zeros and data_lost are unambiguous']
CHECKER = 'lake build KatdalModel.Props.C06 kd_c06 && lake env lean <#print axioms audit>'
ARRAYS = ['correlator_data', 'flags', 'weights', 'weights_channel']
DATA_LOST = 8


def rand_chunks(rng, n, maxc=3):
    if n == 0:
        return [0]
    k = rng.randint(1, min(maxc, n))
    cuts = sorted(rng.sample(range(1, n), k - 1)) if k > 1 else []
    e = [0] + cuts + [n]
    return [b - a for a, b in zip(e[:-1], e[1:])]


def gen_case(rng):
    T, F, B = rng.randint(1, 7), rng.randint(1, 6), rng.randint(1, 5)
    # optionally give arrays different dump counts (ingest died mid-way): alignment must pad them
    dumps = {a: T for a in ARRAYS}
    if rng.random() < 0.3:
        for a in rng.sample(ARRAYS, rng.randint(1, 3)):
            dumps[a] = rng.randint(max(1, T - 3), T)
    chunks = {}
    for a in ARRAYS:
        ch = [rand_chunks(rng, dumps[a]), rand_chunks(rng, F)]
        if a != 'weights_channel':
            ch.append(rand_chunks(rng, B, 2))
        chunks[a] = ch
    missing = {}
    for a in ARRAYS:
        grid = list(itertools.product(*[range(len(c)) for c in chunks[a]]))
        r = rng.random()
        if r < 0.25:
            m = []
        elif r < 0.32:
            m = grid
        elif r < 0.45:
            # whole trailing dumps
            k = rng.randint(1, len(chunks[a][0]))
            m = [g for g in grid if g[0] >= len(chunks[a][0]) - k]
        else:
            m = [g for g in grid if rng.random() < 0.35]
        missing[a] = [list(g) for g in m]
    pre = None
    if rng.random() < 0.5:
        t0 = rng.randint(0, T - 1)
        t1 = rng.randint(t0 + 1, T)
        f0 = rng.randint(0, F - 1)
        f1 = rng.randint(f0 + 1, F)
        pre = [t0, t1, f0, f1]
        if rng.random() < 0.3:
            pre = [t0, t1, 0, F]
        if rng.random() < 0.06:
            pre = [t0, t0, f0, f1]        # empty (still unit-step) preselection of dumps
        elif rng.random() < 0.15:
            pre = [0, T, f0, f1]          # channels only (given without a dumps key on the public path)
        elif rng.random() < 0.15:
            pre = [t0, t1, 0, F]          # dumps only (given without a channels key)
    # the same load through TelstateDataSource (chunk_info alignment happens inside, with and without the
    # flag-upgrade step), and a second pair of loads from a view-returning in-memory store with whole arrays absent
    via_source = rng.choice([None, True, False, False])
    src_opts = None
    if via_source is not None:
        grid = [list(g) for g in itertools.product(*[range(len(c)) for c in chunks['flags']])]
        src_opts = dict(no_scale_key=rng.random() < 0.4, via_rdb=rng.random() < 0.35,
                        inherit=rng.random() < 0.5, van_vleck=rng.random() < 0.25,
                        l1=(dict(seed=rng.randrange(2 ** 31), legacy=rng.random() < 0.5,
                                 short=rng.random() < 0.35,      # the flags stream stops one time chunk early
                                 missing=[g for g in grid if rng.random() < 0.3])
                            if (via_source and rng.random() < 0.5) else None))
    if src_opts and src_opts['l1'] and rng.random() < 0.15:
        # the attached flags stream was never copied: every chunk is absent because its whole prefix directory is
        src_opts['l1'].update(missing=grid, dir_absent=True, short=False)
    dict_absent = sorted(rng.sample(ARRAYS, rng.randint(1, 2))) if rng.random() < 0.3 else None
    return dict(kind='vfw', T=T, F=F, B=B, dumps=dumps, chunks=chunks, missing=missing, pre=pre,
                via_source=via_source, src_opts=src_opts, dict_absent=dict_absent, seed=rng.randrange(2 ** 31))


def stored_arrays(case):
    rs = np.random.RandomState(case['seed'])
    T, F, B = case['T'], case['F'], case['B']
    out = {}
    d = case['dumps']
    code = np.arange(1, T * F * B + 1, dtype=np.float32).reshape(T, F, B)
    out['correlator_data'] = (code[:d['correlator_data']] * (1 + 0.5j)).astype(np.complex64)
    fl = rs.randint(0, 256, (T, F, B)).astype(np.uint8) & np.uint8(0xFF ^ DATA_LOST)
    out['flags'] = fl[:d['flags']]
    out['weights'] = rs.randint(1, 256, (T, F, B)).astype(np.uint8)[:d['weights']]
    out['weights_channel'] = rs.choice([0.5, 1.0, 2.0, 4.0], size=(T, F)).astype(np.float32)[:d['weights_channel']]
    return out


def run_impl(case):
    from katdal.chunkstore_npy import NpyFileChunkStore
    from katdal.datasources import _align_chunk_info
    from katdal.vis_flags_weights import ChunkStoreVisFlagsWeights
    tmp = tempfile.mkdtemp(prefix='c06_')
    res = dict(err=None)
    try:
        store = NpyFileChunkStore(tmp)
        stored = stored_arrays(case)
        chunk_info = {}
        prefix = 'cb-sdp-l0'
        with dask.config.set(scheduler='synchronous'):
            push = []
            for a in ARRAYS:
                arr = stored[a]
                ch = tuple(tuple(c) for c in case['chunks'][a])
                darr = da.from_array(arr, chunks=ch)
                name = store.join(prefix, a)
                store.create_array(name)
                chunk_info[a] = {'prefix': prefix, 'chunks': darr.chunks,
                                 'dtype': np.lib.format.dtype_to_descr(darr.dtype), 'shape': darr.shape}
                push.append(store.put_dask_array(name, darr))
            da.compute(*push)
            # delete the missing chunks
            for a in ARRAYS:
                starts = [np.cumsum([0] + list(c)) for c in case['chunks'][a]]
                for g in case['missing'][a]:
                    sl = tuple(slice(int(starts[d][i]), int(starts[d][i + 1])) for d, i in enumerate(g))
                    cname, _ = store.chunk_metadata(store.join(prefix, a), sl)
                    os.remove(os.path.join(tmp, cname + '.npy'))
            for a in ARRAYS:
                adir = os.path.join(tmp, store.join(prefix, a))
                if os.path.isdir(adir) and not os.listdir(adir):
                    os.rmdir(adir)        # every chunk of the array is gone: so is its directory
            orig_chunk_info = {a: dict(v) for a, v in chunk_info.items()}
            chunk_info = _align_chunk_info(chunk_info)
            res['aligned'] = {a: [list(c) for c in chunk_info[a]['chunks']] for a in ARRAYS}
            kw = {}
            if case['pre'] is not None:
                t0, t1, f0, f1 = case['pre']
                kw['preselect_index'] = (slice(t0, t1), slice(f0, f1))
            vfw = ChunkStoreVisFlagsWeights(store, chunk_info, **kw)
            res['vis'] = vfw.vis.compute()
            res['flags'] = vfw.flags.compute()
            res['weights'] = vfw.weights.compute()
            res['chunks'] = {'vis': [list(c) for c in vfw.vis.chunks], 'flags': [list(c) for c in vfw.flags.chunks]}
            # two loads alive at the same time and evaluated in ONE dask computation: the same arrays under another
            # preselection, and another capture block with nothing missing
            if case['seed'] % 5 < 2:
                res['pair'] = load_pair(case, store, chunk_info, stored, vfw, kw)
            if case.get('via_source') is not None:
                res['src'] = load_via_source(case, store, orig_chunk_info, prefix, tmp)
            if case.get('dict_absent') and len(set(case['dumps'].values())) == 1:
                # (phantom trailing chunks lie outside a DictChunkStore array: a zero-length view, which that store
                # reports as BadChunk - the dict store has no notion of a missing chunk inside a present array)
                res['dict'] = load_via_dict(case, stored)
    except Exception as e:   # noqa: BLE001
        res['err'] = f'{type(e).__name__}: {str(e)[:120]}'
    finally:
        shutil.rmtree(tmp, ignore_errors=True)
    return res


def load_pair(case, store, chunk_info, stored, vfw, kw):
    """(a) the same stored arrays loaded a second time with a different (or no) preselection, (b) a second capture
    block in the same store with nothing missing; each pair computed jointly and compared with separate computes"""
    from katdal.vis_flags_weights import ChunkStoreVisFlagsWeights
    out = dict(err=None, what=None)
    try:
        T, F = case['T'], case['F']
        other_kw = {}
        if case['pre'] is None or T < 2:
            if T >= 2:
                other_kw['preselect_index'] = (slice(T // 2, T), slice(0, F))
        else:
            other_kw = {}
        vfw2 = ChunkStoreVisFlagsWeights(store, chunk_info, **other_kw)
        prefix2 = 'cb2-sdp-l0'
        info2 = {}
        push = []
        for a in ARRAYS:
            arr = stored[a]
            darr = da.from_array(arr + (1 if a != 'flags' else 0), chunks=tuple(tuple(c) for c in case['chunks'][a]))
            name = store.join(prefix2, a)
            store.create_array(name)
            info2[a] = {'prefix': prefix2, 'chunks': darr.chunks, 'dtype': np.lib.format.dtype_to_descr(darr.dtype),
                        'shape': darr.shape}
            push.append(store.put_dask_array(name, darr))
        da.compute(*push)
        from katdal.datasources import _align_chunk_info
        vfw3 = ChunkStoreVisFlagsWeights(store, _align_chunk_info(info2), **kw)
        for label, other in (('the same arrays under another preselection', vfw2), ('another capture block', vfw3)):
            alone = [x.compute() for x in (vfw.vis, vfw.flags, vfw.weights, other.vis, other.flags, other.weights)]
            joint = da.compute(vfw.vis, vfw.flags, vfw.weights, other.vis, other.flags, other.weights)
            for nm, a1, j1 in zip(('vis', 'flags', 'weights', 'other vis', 'other flags', 'other weights'), alone, joint):
                if a1.shape != j1.shape or not np.array_equal(a1, j1):
                    out['what'] = (f'two loads evaluated in one dask computation ({label}): {nm} differs from the '
                                   f'same array computed on its own')
                    return out
    except Exception as e:   # noqa: BLE001
        out['err'] = f'{type(e).__name__}: {str(e)[:120]}'
    return out


def l1_short_applies(case):
    """the attached flags stream stops one time chunk early - only when another array still spans all the dumps, so
    that the data set keeps its length (the L0 flags it replaces may have been the only full-length array)"""
    l1 = (case.get('src_opts') or {}).get('l1') or {}
    return bool(l1.get('short')) and len(case['chunks']['flags'][0]) >= 2 and \
        max(n for a, n in case['dumps'].items() if a != 'flags') == case['T']


def l1_flags_array(case):
    rs = np.random.RandomState(case['src_opts']['l1']['seed'])
    T, F, B = case['T'], case['F'], case['B']
    fl = rs.randint(0, 256, (T, F, B)).astype(np.uint8) & np.uint8(0xFF ^ DATA_LOST)
    return fl[:case['dumps']['flags']]


def load_via_source(case, store, chunk_info, prefix, tmp):
    """the public path: telstate with the (unaligned) chunk_info -> TelstateDataSource -> source.data; optionally
    an attached flags stream (current or older chunk_info layout), no need_weights_power_scale key, and opening
    through the RDB file (chunk store inferred from its location)"""
    import katsdptelstate
    from katdal.datasources import TelstateDataSource, open_data_source, view_l0_capture_stream
    out = dict(err=None)
    opts = case.get('src_opts') or {}
    try:
        telstate = katsdptelstate.TelescopeState()
        cbid, stream = 'cb', 'sdp_l0'
        cs_view = telstate.view(telstate.join(cbid, stream))
        s_view = telstate.view(stream)
        cs_view['chunk_info'] = chunk_info
        cs_view['first_timestamp'] = 128.0
        s_view['sync_time'] = 1600000000.0
        s_view['int_time'] = 2.0
        s_view['bandwidth'] = float(case['F']) * 1e6
        s_view['center_freq'] = 1284e6
        s_view['n_chans'] = case['F']
        s_view['n_bls'] = case['B']
        s_view['bls_ordering'] = np.array([('m000h', 'm000h')] * case['B'])
        if not opts.get('no_scale_key'):
            s_view['need_weights_power_scale'] = False
        s_view['stream_type'] = 'sdp.vis'
        archived = [stream]
        if opts.get('l1'):
            l1 = opts['l1']
            fstream, fprefix = 'sdp_l1_flags', 'cb-sdp-l1-flags'
            arr = l1_flags_array(case)
            ch = tuple(tuple(c) for c in case['chunks']['flags'])
            l1_missing = l1['missing']
            if l1_short_applies(case):
                # whole trailing dumps missing from the attached flags stream: it has fewer dumps than the L0 stream
                arr = arr[:arr.shape[0] - ch[0][-1]]
                l1_missing = [g for g in l1_missing if g[0] < len(ch[0]) - 1]
                ch = (ch[0][:-1],) + ch[1:]
            darr = da.from_array(arr, chunks=ch)
            fname = store.join(fprefix, 'flags')
            store.create_array(fname)
            store.put_dask_array(fname, darr).compute()
            starts = [np.cumsum([0] + list(c)) for c in case['chunks']['flags']]
            for g in l1_missing:
                sl = tuple(slice(int(starts[d][i]), int(starts[d][i + 1])) for d, i in enumerate(g))
                cname, _ = store.chunk_metadata(fname, sl)
                os.remove(os.path.join(tmp, cname + '.npy'))
            if l1.get('dir_absent'):
                shutil.rmtree(os.path.join(tmp, fprefix))
            info = {'chunks': darr.chunks, 'dtype': np.lib.format.dtype_to_descr(darr.dtype), 'shape': darr.shape}
            fcs = telstate.view(telstate.join(cbid, fstream))
            if l1['legacy']:
                fcs['chunk_name'] = fprefix          # older layout: no 'prefix' item in chunk_info
            else:
                info['prefix'] = fprefix
            fcs['chunk_info'] = {'flags': info}
            fv = telstate.view(fstream)
            fv['stream_type'] = 'sdp.flags'
            fv['src_streams'] = [stream]
            if opts.get('inherit'):
                fv['inherit'] = stream               # the usual layout: the flags stream inherits from its L0 stream
            archived.append(fstream)
        telstate['sdp_archived_streams'] = archived
        kw = dict(upgrade_flags=bool(case['via_source']))
        if opts.get('van_vleck'):
            kw['van_vleck'] = 'autocorr'
        if case['pre'] is not None:
            t0, t1, f0, f1 = case['pre']
            kw['preselect'] = dict(dumps=slice(t0, t1), channels=slice(f0, f1))
            if (t0, t1) == (0, case['T']) and case['seed'] % 2:
                del kw['preselect']['dumps']
            elif (f0, f1) == (0, case['F']) and case['seed'] % 2:
                del kw['preselect']['channels']
        if opts.get('via_rdb'):
            from katsdptelstate.rdb_writer import RDBWriter
            telstate['capture_block_id'] = cbid
            telstate['stream_name'] = stream
            os.makedirs(os.path.join(tmp, cbid), exist_ok=True)
            rdb = os.path.join(tmp, cbid, f'{cbid}_{stream}.rdb')
            with RDBWriter(rdb) as w:
                w.save(telstate)
            src = open_data_source(rdb, **kw)        # chunk_store='auto': the NPY store next to the RDB file
        else:
            view, cbid_out, sn = view_l0_capture_stream(telstate, cbid, stream)
            src = TelstateDataSource(view, cbid_out, sn, chunk_store=store, **kw)
        out['n_ts'] = len(src.timestamps)
        out['vis'] = src.data.vis.compute()
        out['flags'] = src.data.flags.compute()
        out['weights'] = src.data.weights.compute()
    except Exception as e:   # noqa: BLE001
        out['err'] = f'{type(e).__name__}: {str(e)[:120]}'
    return out


def load_via_dict(case, stored):
    """in-memory store whose get_chunk hands out views of its own arrays: load with whole arrays absent, check the
    store still holds what was put there, put the absent arrays back and load again"""
    from katdal.chunkstore_dict import DictChunkStore
    from katdal.datasources import _align_chunk_info
    from katdal.vis_flags_weights import ChunkStoreVisFlagsWeights
    out = dict(err=None)
    try:
        store = DictChunkStore()
        prefix = 'cb-sdp-l0'
        chunk_info = {}
        for a in ARRAYS:
            arr = stored[a]
            ch = da.core.normalize_chunks(tuple(tuple(c) for c in case['chunks'][a]), arr.shape)
            chunk_info[a] = {'prefix': prefix, 'chunks': ch, 'dtype': np.lib.format.dtype_to_descr(arr.dtype),
                             'shape': arr.shape}
            if a not in case['dict_absent']:
                store.arrays[store.join(prefix, a)] = arr.copy()
        chunk_info = _align_chunk_info(chunk_info)
        for phase in ('absent', 'complete'):
            vfw = ChunkStoreVisFlagsWeights(store, chunk_info)
            out[phase] = (vfw.vis.compute(), vfw.flags.compute(), vfw.weights.compute())
            out[phase + '_store_intact'] = all(
                np.array_equal(store.arrays[store.join(prefix, a)], stored[a])
                for a in ARRAYS if store.join(prefix, a) in store.arrays)
            for a in case['dict_absent']:
                store.arrays[store.join(prefix, a)] = stored[a].copy()
    except Exception as e:   # noqa: BLE001
        out['err'] = f'{type(e).__name__}: {str(e)[:120]}'
    return out


def model_lines(case):
    """per array and axis: chunk index of every position (spec) and via the piece decomposition against the
    flags chunking (mirror)"""
    T, F, B = case['T'], case['F'], case['B']
    lines = []
    for a in ARRAYS:
        tch = case['chunks'][a][0]
        lines.append(f"align {','.join(map(str, tch))} {T}")
    return lines


_FLAG_TABLE = []


def flag_table():
    if not _FLAG_TABLE:
        rep = common.run_model('C06', ['flagtable'])[0]
        _FLAG_TABLE.append(np.array([int(x) for x in rep.split(',')], dtype=np.uint8))
        assert len(_FLAG_TABLE[0]) == 4096
    return _FLAG_TABLE[0]


def expected(case, replies_by, flags_stored=None):
    """element-wise specification S from per-axis chunkOf maps (`flags_stored`: the flags come from an attached
    flags stream with the same chunking; case['missing']['flags'] then names ITS missing chunks)"""
    T, F, B = case['T'], case['F'], case['B']
    stored = stored_arrays(case)
    if flags_stored is not None:
        stored['flags'] = flags_stored
    miss = {}
    for a in ARRAYS:
        cm = replies_by[a]          # list per axis of chunk index per position
        ms = {tuple(g) for g in case['missing'][a]}
        nd = 3 if a != 'weights_channel' else 2
        shape = (T, F, B)[:nd]
        m = np.zeros(shape, dtype=bool)
        for idx in np.ndindex(*shape):
            ck = tuple(cm[d][idx[d]] for d in range(nd))
            phantom = idx[0] >= case['dumps'][a]
            m[idx] = phantom or (ck in ms)
        miss[a] = m

    def pad(arr, fill):
        out = np.full((T,) + arr.shape[1:], fill, dtype=arr.dtype)
        out[:arr.shape[0]] = arr
        return out
    vis = np.where(miss['correlator_data'], 0, pad(stored['correlator_data'], 0))
    w = np.where(miss['weights'], 0, pad(stored['weights'], 0)).astype(np.float32)
    wc = np.where(miss['weights_channel'], 0, pad(stored['weights_channel'], 0)).astype(np.float32)
    weights = w * wc[..., None]
    # the flag byte of every element comes from the Lean model's loadFlags table (stored byte x which arrays lost)
    table = flag_table()
    key = (pad(stored['flags'], 0).astype(np.int64) * 16 + miss['correlator_data'] * 1 + miss['weights'] * 2
           + miss['weights_channel'][..., None] * 4 + miss['flags'] * 8)
    flags = table[key]
    if case['pre'] is not None:
        t0, t1, f0, f1 = case['pre']
        vis, weights, flags = vis[t0:t1, f0:f1], weights[t0:t1, f0:f1], flags[t0:t1, f0:f1]
    return vis, flags, weights


def evaluate(ctx, cases):
    bad = []
    lines, index = [], []
    for ci, c in enumerate(cases):
        T, F, B = c['T'], c['F'], c['B']
        for a in ARRAYS:
            lines.append(f"align {','.join(map(str, c['chunks'][a][0]))} {T}")
            index.append((ci, a, 'align'))
    rep1 = common.run_model('C06', lines)
    aligned = {}
    for (ci, a, _), r in zip(index, rep1):
        aligned[(ci, a)] = [int(x) for x in r.split(',')]
    lines, index = [], []
    for ci, c in enumerate(cases):
        T, F, B = c['T'], c['F'], c['B']
        fl = [aligned[(ci, 'flags')], c['chunks']['flags'][1], c['chunks']['flags'][2]]
        for a in ARRAYS:
            axes = [aligned[(ci, a)], c['chunks'][a][1]] + ([c['chunks'][a][2]] if a != 'weights_channel' else [])
            for d, sz in enumerate(axes):
                n = (T, F, B)[d]
                lines.append(f"chunkmap {','.join(map(str, sz))} {n}")
                index.append((ci, a, d, 'spec'))
                lines.append(f"piecemap {','.join(map(str, fl[d]))} {','.join(map(str, sz))} {n}")
                index.append((ci, a, d, 'mirror'))
    rep2 = common.run_model('C06', lines)
    maps = {}
    for key, r in zip(index, rep2):
        maps[key] = [int(x) if x != '-' else -1 for x in r.split(',')] if r else []
    for ci, c in enumerate(cases):
        impl = run_impl(c)
        v = None
        spec_maps = {a: [maps[(ci, a, d, 'spec')] for d in range(3 if a != 'weights_channel' else 2)] for a in ARRAYS}
        mirror_same = all(maps[(ci, a, d, 'spec')] == maps[(ci, a, d, 'mirror')]
                          for a in ARRAYS for d in range(3 if a != 'weights_channel' else 2))
        if not mirror_same:
            ctx.advise(f'piece decomposition differs from chunkOf for case seed {c["seed"]}')
        n_missing = sum(len(c['missing'][a]) for a in ARRAYS)
        n_chunks = sum(int(np.prod([len(x) for x in c['chunks'][a]])) for a in ARRAYS)
        ctx.tag('pre' if c['pre'] else 'nopre', 'uneven-dumps' if len(set(c['dumps'].values())) > 1 else 'even-dumps',
                'none-missing' if n_missing == 0 else ('all-missing' if n_missing == n_chunks else 'some-missing'))
        if impl['err']:
            v = f"loading raised {impl['err']} although missing chunks must load as zeros / data_lost"
        else:
            # alignment: phantom one-dump chunks
            for a in ARRAYS:
                if impl['aligned'][a][0] != aligned[(ci, a)]:
                    v = f"_align_chunk_info gave time chunks {impl['aligned'][a][0]} for {a}, model {aligned[(ci, a)]}"
            if v is None:
                vis, flags, weights = expected(c, spec_maps)
                if impl['vis'].shape != vis.shape:
                    v = f"shape {impl['vis'].shape} != expected {vis.shape}"
                elif not np.array_equal(impl['vis'], vis):
                    w = np.argwhere(impl['vis'] != vis)[0].tolist()
                    v = f'vis differs at {w}: got {impl["vis"][tuple(w)]} expected {vis[tuple(w)]}'
                elif not np.array_equal(impl['weights'], weights):
                    w = np.argwhere(impl['weights'] != weights)[0].tolist()
                    v = f'weights differ at {w}: got {impl["weights"][tuple(w)]} expected {weights[tuple(w)]}'
                elif not np.array_equal(impl['flags'], flags):
                    w = np.argwhere(impl['flags'] != flags)[0].tolist()
                    v = f'flags differ at {w}: got {impl["flags"][tuple(w)]} expected {flags[tuple(w)]}'
        if v is None and impl.get('pair') is not None:
            ctx.tag('two-loads-one-graph')
            if impl['pair']['err']:
                v = f"a second load next to the first raised {impl['pair']['err']}"
            elif impl['pair']['what']:
                v = impl['pair']['what']
        if v is None and impl.get('src') is not None:
            sr = impl['src']
            ctx.tag('via-source-upgrade-flags-' + str(bool(c['via_source'])))
            if sr['err']:
                v = (f"TelstateDataSource(upgrade_flags={bool(c['via_source'])}) raised {sr['err']} although missing "
                     f"chunks / dumps must load as zeros and data_lost")
            else:
                l1 = (c.get('src_opts') or {}).get('l1')
                if l1:
                    ctx.tag('via-source-l1-flags' + ('-legacy-layout' if l1['legacy'] else ''))
                    l1m = l1['missing']
                    if l1_short_applies(c):
                        ctx.tag('via-source-l1-flags-fewer-dumps')
                        last = len(c['chunks']['flags'][0]) - 1
                        l1m = [g for g in l1m if g[0] < last] + [
                            [last] + list(r) for r in itertools.product(*[range(len(x)) for x in c['chunks']['flags'][1:]])]
                    vis, flags, weights = expected(dict(c, missing=dict(c['missing'], flags=l1m)), spec_maps,
                                                   flags_stored=l1_flags_array(c))
                else:
                    vis, flags, weights = expected(c, spec_maps)
                if (c.get('src_opts') or {}).get('via_rdb'):
                    ctx.tag('via-source-rdb-file')
                if (c.get('src_opts') or {}).get('no_scale_key'):
                    ctx.tag('via-source-no-power-scale-key')
                if (c.get('src_opts') or {}).get('inherit') and l1:
                    ctx.tag('via-source-l1-flags-inherit')
                vv = bool((c.get('src_opts') or {}).get('van_vleck'))
                if vv:
                    # every product of these data sets is an autocorrelation, whose value the correction replaces (that
                    # is C15's business); here: an element of a missing chunk stays exactly zero
                    ctx.tag('via-source-van-vleck')
                    if sr['vis'].shape == vis.shape:
                        lost = (flags & 8) != 0
                        lost_vis = lost & (vis == 0)
                        if np.any(sr['vis'][lost_vis] != 0):
                            w = np.argwhere(lost_vis & (sr['vis'] != 0))[0].tolist()
                            v = (f"with van_vleck='autocorr' the visibility at {w}, which lies in a missing chunk, is "
                                 f"{sr['vis'][tuple(w)]} instead of zero")
                for nm, got, exp in (('vis', sr['vis'], vis), ('flags', sr['flags'], flags),
                                     ('weights', sr['weights'], weights)):
                    if v is not None or (vv and nm == 'vis' and got.shape == exp.shape):
                        continue
                    if got.shape != exp.shape or not np.array_equal(got, exp):
                        v = (f"through TelstateDataSource(upgrade_flags={bool(c['via_source'])}) {nm} "
                             f"(shape {got.shape}) differs from the stored data with zeros / data_lost at the "
                             f"missing elements (shape {exp.shape})")
                        break
        if v is None and impl.get('dict') is not None:
            dr = impl['dict']
            ctx.tag('via-dict-store')
            if dr['err']:
                v = f"loading from a DictChunkStore with arrays {c['dict_absent']} absent raised {dr['err']}"
            else:
                grid = {a: [list(g) for g in itertools.product(*[range(len(x)) for x in c['chunks'][a]])]
                        for a in ARRAYS}
                for phase in ('absent', 'complete'):
                    c2 = dict(c, pre=None, missing={a: (grid[a] if phase == 'absent' and a in c['dict_absent'] else [])
                                                    for a in ARRAYS})
                    exp = expected(c2, spec_maps)
                    for nm, got, e in zip(('vis', 'flags', 'weights'), dr[phase], exp):
                        if v is None and (got.shape != e.shape or not np.array_equal(got, e)):
                            v = (f"DictChunkStore load ({'arrays ' + str(c['dict_absent']) + ' absent' if phase == 'absent' else 'second load after the absent arrays were stored'}): "
                                 f"{nm} differs from the stored data with data_lost exactly at the missing elements")
                    if v is None and not dr[phase + '_store_intact']:
                        v = (f"loading with arrays {c['dict_absent']} absent modified the chunks held by the store "
                             f"(flags other than data_lost must equal what was stored)")
        ctx.count(json.dumps(c, sort_keys=True), 0 < n_missing < n_chunks,
                  sample={'shape': [c['T'], c['F'], c['B']], 'chunks': c['chunks'], 'missing': c['missing'],
                          'pre': c['pre']})
        if v:
            bad.append((c, v))
    return bad


def still_fails(ctx, case):
    try:
        return bool(evaluate(common.Ctx(ctx.prop, ctx.tier, ctx.seed), [case]))
    except Exception:   # noqa: BLE001
        return False


def shrink(ctx, case, what):
    cur = json.loads(json.dumps(case))
    changed = True
    while changed:
        changed = False
        cands = []
        if cur['pre'] is not None:
            cands.append(dict(cur, pre=None))
        for a in ARRAYS:
            for k in range(len(cur['missing'][a])):
                m = json.loads(json.dumps(cur['missing']))
                del m[a][k]
                cands.append(dict(cur, missing=m))
        for cand in cands:
            if still_fails(ctx, cand):
                cur, changed = cand, True
                break
    bad = evaluate(common.Ctx(ctx.prop, ctx.tier, ctx.seed), [cur])
    return (cur, bad[0][1]) if bad else (case, what)


def m_empty_preselect(case, what):
    return case.get('pre') is not None and (case['pre'][0] == case['pre'][1] or case['pre'][2] == case['pre'][3]) \
        and 'BadChunk' in what


MATCHERS = {'c06_empty_preselect_badchunk': m_empty_preselect}


def corpus():
    d = os.path.join(common.VERIF, 'corpus', 'C06')
    out = []
    if os.path.isdir(d):
        for nm in sorted(os.listdir(d)):
            out.append(json.load(open(os.path.join(d, nm)))['case'])
    return out


def dataset_level(ctx, n):
    """through an opened v4 data set: with only data_lost selected, d.flags is True exactly on the elements covered by
    a missing chunk of any array (and raw_flags carry bit 3 exactly there); with everything but data_lost selected
    the flags are the other stored bits; vis is zero exactly on the elements of its own missing chunks"""
    import random
    import shutil
    import tempfile
    from harness import v4synth
    bad = []
    for k in range(n):
        seed = ctx.rng.randrange(2 ** 31)
        rng = random.Random(seed)
        T, F = rng.randint(3, 6), rng.randint(2, 5)
        ct = v4synth.random_chunks(rng, T)
        cf = v4synth.random_chunks(rng, F)
        case = dict(kind='dataset', seed=seed, T=T, F=F)
        tmp = tempfile.mkdtemp(prefix='c06d_')
        what = None
        try:
            B = len(v4synth.default_corrprods(1, random.Random(0), False, 'hv'))
            chunks = {a: ((tuple(ct), tuple(cf)) + (((B,),) if a != 'weights_channel' else ())) for a in
                      ('correlator_data', 'flags', 'weights', 'weights_channel')}
            grid = [(i, j) for i in range(len(ct)) for j in range(len(cf))]
            missing = {a: [g + ((0,) if a != 'weights_channel' else ()) for g in grid if rng.random() < 0.3]
                       for a in chunks}
            with dask.config.set(scheduler='synchronous'):
                syn = v4synth.make_v4(rng, T=T, F=F, n_ants=1, shuffle_bls=False, chunks=chunks, store_dir=tmp,
                                      missing=missing, seed=seed % 1000)
                d = syn.dataset
                ts, fs = np.cumsum([0] + list(ct)), np.cumsum([0] + list(cf))
                lost = np.zeros((T, F), dtype=bool)
                lost_vis = np.zeros((T, F), dtype=bool)
                for a, gs in missing.items():
                    for g in gs:
                        lost[ts[g[0]]:ts[g[0] + 1], fs[g[1]]:fs[g[1] + 1]] = True
                        if a == 'correlator_data':
                            lost_vis[ts[g[0]]:ts[g[0] + 1], fs[g[1]]:fs[g[1] + 1]] = True
                order = [syn.corrprods.index(tuple(cp)) for cp in d.corr_products]
                stored_flags = syn.stored['flags'][:, :, order]
                d.select(flags='data_lost')
                got = np.asarray(d.flags[:])
                if not np.array_equal(got, np.broadcast_to(lost[:, :, None], got.shape)):
                    what = (f"select(flags='data_lost'): {int((got & ~lost[:, :, None]).sum())} element(s) outside every "
                            f"missing chunk are flagged and {int((~got & lost[:, :, None]).sum())} lost element(s) are not")
                if what is None:
                    d.select(flags='static,cam,ingest_rfi,predicted_rfi,cal_rfi')
                    got = np.asarray(d.flags[:])
                    want = ((stored_flags & np.uint8(0x76)) != 0) & ~lost_flags_mask(missing, ts, fs, T, F)[:, :, None]
                    if not np.array_equal(got, want):
                        what = 'with every flag but data_lost selected the flags are not the other stored bits'
                if what is None:
                    d.select(flags='all')
                    vis = np.asarray(d.vis[:])
                    stored_vis = syn.stored['correlator_data'][:, :, order]
                    if not np.array_equal(vis, np.where(lost_vis[:, :, None], 0, stored_vis)):
                        what = 'visibilities are not zero exactly on the elements of their own missing chunks'
        except Exception as e:   # noqa: BLE001
            what = f'opening / reading a v4 data set with missing chunks raised {type(e).__name__}: {str(e)[:120]}'
        finally:
            shutil.rmtree(tmp, ignore_errors=True)
        ctx.tag('dataset-level-flag-selection')
        ctx.count(('dataset', seed), True, sample={'dataset': [T, F], 'missing': {a: len(g) for a, g in missing.items()}})
        if what:
            bad.append((case, what))
    return bad


def lost_flags_mask(missing, ts, fs, T, F):
    """elements of a missing *flags* chunk: their stored bits are gone (read as zero)"""
    m = np.zeros((T, F), dtype=bool)
    for g in missing.get('flags', []):
        m[ts[g[0]]:ts[g[0] + 1], fs[g[1]]:fs[g[1] + 1]] = True
    return m


def run(ctx):
    ctx.matchers.update(MATCHERS)
    build = common.build_and_audit('C06', ctx.tier)
    cases = corpus() + [gen_case(ctx.rng) for _ in range(ctx.q(250, 8000))]
    bad = evaluate(ctx, cases)
    bad += dataset_level(ctx, ctx.q(8, 150))
    for c, v in bad:
        ctx.violation(c, v)
    return common.finish(ctx, build, RULE, CHECKER, TRUSTED, shrink=lambda c, w: shrink(ctx, c, w))


def replay(ctx, rep):
    ctx.matchers.update(MATCHERS)
    build = common.build_and_audit('C06', 'quick')
    for cc, v in evaluate(ctx, [rep['case']]):
        ctx.violation(cc, v)
    return common.finish(ctx, build, RULE, CHECKER, TRUSTED)
