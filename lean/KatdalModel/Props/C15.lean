import KatdalModel.Model.Weights
open Np Weights

namespace C15

theorem placeholder : (1 : Nat) = 1 := rfl

end C15
