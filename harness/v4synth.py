"""Synthetic MVF v4 data sets (telstate + chunk store) for the correspondence harnesses.

    syn = make_v4(rng, T=8, F=6, n_ants=2, ...)     # -> V4Synth
    syn.dataset      katdal.visdatav4.VisibilityDataV4 opened on the synthetic source
    syn.stored       dict of the numpy arrays that were put in the store
                     (correlator_data complex64, flags uint8, weights uint8, weights_channel float32)
    syn.telstate, syn.store, syn.cbid, syn.stream, syn.corrprods, syn.timestamps, syn.freqs

Array contents are coordinate codes so that "the stored sample at (t, f, b)" is visible in values:
    vis[t,f,b]   = code + 0.5j*code   where code = (t*F + f)*B + b   (exact in complex64 for code < 2**23)
    flags[t,f,b] = pseudo-random byte (seeded), weights likewise in 1..255, weights_channel in {0.5,1,2,4}
"""
import katsdptelstate
import numpy as np
import dask
import dask.array as da

from katdal.chunkstore_dict import DictChunkStore
from katdal.chunkstore_npy import NpyFileChunkStore
from katdal.datasources import TelstateDataSource, view_l0_capture_stream
from katdal.visdatav4 import VisibilityDataV4

ANT_DESCR = '{name}, -30:42:39.8, 21:26:38.0, 1086.6, 13.5, {e} {n} 8.5, , 1.22'
TARGETS = ['J1939-6342, radec bpcal, 19:39:25.03, -63:42:45.6',
           'J0408-6545, radec gaincal, 04:08:20.38, -65:45:09.1',
           'Zenith, azel, 0, 90',
           'Src3, radec target, 05:00:00.0, -40:00:00.0']


class V4Synth:
    pass


def coord_codes(shape):
    return np.arange(int(np.prod(shape)), dtype=np.int64).reshape(shape)


def default_corrprods(n_ants, rng=None, shuffle=False, pols='hv'):
    cps = []
    for i in range(n_ants):
        for j in range(i, n_ants):
            for x in pols:
                for y in pols:
                    cps.append((f'm{i:03}{x}', f'm{j:03}{y}'))
    if shuffle and rng is not None:
        rng.shuffle(cps)
    return cps


def random_chunks(rng, n, max_chunks=3):
    """random chunk sizes summing to n (tuple)"""
    if n == 0:
        return (0,)
    k = rng.randint(1, min(max_chunks, n))
    cuts = sorted(rng.sample(range(1, n), k - 1)) if k > 1 else []
    edges = [0] + cuts + [n]
    return tuple(b - a for a, b in zip(edges[:-1], edges[1:]))


def to_dask(arr, chunks):
    return da.from_array(arr, chunks=chunks)


def make_v4(rng, T=8, F=6, n_ants=2, shuffle_bls=True, chunks=None, store_dir=None,
            activity=None, targets=None, labels=None, extra_sensors=None, extra_attrs=None,
            missing=None, preselect=None, open_kwargs=None, sync_time=1600000000.0, first_timestamp=128.0,
            int_time=2.0, center_freq=1284e6, bandwidth=None, need_weights_power_scale=False,
            cbid='1234567890', stream='sdp_l0', l1_flags=None, upgrade_flags=True, obs_params=None,
            pols='hv', sub_product='c856M4k', sub_pool_resources=None, van_vleck='off', seed=None,
            rdb_path=None, archived_streams=None):
    """Build telstate + store + open the data set.  See module docstring."""
    syn = V4Synth()
    corrprods = default_corrprods(n_ants, rng, shuffle_bls, pols)
    B = len(corrprods)
    shape = (T, F, B)
    nprng = np.random.RandomState(rng.randrange(2 ** 31) if seed is None else seed)
    code = coord_codes(shape)
    vis = (code + 0.5j * code).astype(np.complex64)
    flags = nprng.randint(0, 256, shape).astype(np.uint8)
    # keep data_lost (bit 3) and postproc (bit 7) clear in stored flags unless the caller overrides
    flags &= np.uint8(0xFF ^ 0x08 ^ 0x80)
    weights = nprng.randint(1, 256, shape).astype(np.uint8)
    weights_channel = nprng.choice([0.5, 1.0, 2.0, 4.0], size=(T, F)).astype(np.float32)
    stored = {'correlator_data': vis, 'flags': flags, 'weights': weights, 'weights_channel': weights_channel}
    if chunks is None:
        chunks = {}
        for k, a in stored.items():
            chunks[k] = tuple(random_chunks(rng, n) for n in a.shape[:2]) + (((B,),) if a.ndim == 3 else ())
    store = NpyFileChunkStore(store_dir) if store_dir else DictChunkStore()
    telstate = katsdptelstate.TelescopeState()
    ts_prefix = telstate.join(cbid, stream)
    store_prefix = ts_prefix.replace('_', '-')
    chunk_info = {}
    with dask.config.set(scheduler='synchronous'):
        push = []
        for k, a in stored.items():
            darr = to_dask(a, chunks[k])
            name = store.join(store_prefix, k)
            if isinstance(store, DictChunkStore):
                store.arrays[name] = np.zeros_like(a)
            else:
                store.create_array(name)
            chunk_info[k] = {'prefix': store_prefix, 'chunks': darr.chunks,
                             'dtype': np.lib.format.dtype_to_descr(darr.dtype), 'shape': darr.shape}
            push.append(store.put_dask_array(name, darr))
        da.compute(*push)
    cs_view = telstate.view(ts_prefix)
    s_view = telstate.view(stream)
    cs_view['chunk_info'] = chunk_info
    cs_view['first_timestamp'] = first_timestamp
    s_view['sync_time'] = sync_time
    s_view['int_time'] = int_time
    bandwidth = float(F) * 1e6 if bandwidth is None else bandwidth
    s_view['bandwidth'] = bandwidth
    s_view['center_freq'] = center_freq
    s_view['n_chans'] = F
    s_view['n_bls'] = B
    s_view['bls_ordering'] = np.array(corrprods)
    s_view['need_weights_power_scale'] = need_weights_power_scale
    s_view['stream_type'] = 'sdp.vis'
    telstate['sdp_archived_streams'] = [stream] + list(archived_streams or [])
    # observation-level attributes
    cb_view = telstate.view(cbid)
    op = {'observer': 'verif', 'description': 'synthetic', 'experiment_id': 'x'}
    op.update(obs_params or {})
    cb_view['obs_params'] = op
    ants = [f'm{i:03}' for i in range(n_ants)]
    telstate['sub_pool_resources'] = sub_pool_resources or ','.join(['cbf_1', 'sdp_1'] + ants)
    telstate['sub_band'] = 'l'
    telstate['sub_product'] = sub_product
    for i, a in enumerate(ants):
        telstate[f'{a}_observer'] = ANT_DESCR.format(name=a, e=-8.264 + 30 * i, n=-207.29 + 20 * i)
    t0 = sync_time + first_timestamp
    # categorical sensors: list of (dump_fraction_time, value)
    activity = activity or [(-1.0, 'slew'), (1.5, 'track')]
    targets = targets or [(-1.0, TARGETS[0])]
    for (dt, v) in activity:
        telstate.add('obs_activity', v, ts=t0 + dt * int_time)
    for (dt, v) in targets:
        telstate.add('cbf_target', v, ts=t0 + dt * int_time)
    for (dt, v) in (labels or [(-1.0, 'track')]):
        telstate.add('obs_label', v, ts=t0 + dt * int_time)
    for name, events in (extra_sensors or {}).items():
        for (dt, v) in events:
            telstate.add(name, v, ts=t0 + dt * int_time)
    for k, v in (extra_attrs or {}).items():
        telstate[k] = v
    # remove chunks to simulate lost data: missing = {array: [chunk index tuples]}
    syn.missing = missing or {}
    for arr_name, idxs in syn.missing.items():
        ch = chunk_info[arr_name]['chunks']
        starts = [np.cumsum((0,) + c) for c in ch]
        for idx in idxs:
            slices = tuple(slice(int(starts[d][i]), int(starts[d][i + 1])) for d, i in enumerate(idx))
            name = store.join(store_prefix, arr_name)
            if isinstance(store, DictChunkStore):
                raise ValueError('missing chunks need an NPY store (store_dir=...)')
            import os
            cname, _ = store.chunk_metadata(name, slices)
            os.remove(os.path.join(store.path, cname + '.npy'))
    ok = dict(open_kwargs or {})
    if preselect is not None:
        ok['preselect'] = preselect
    if rdb_path is not None:
        # the full public path: write an RDB file and go through katdal.open (needs an NPY store)
        import katdal
        from katsdptelstate.rdb_writer import RDBWriter
        telstate['capture_block_id'] = cbid
        telstate['stream_name'] = stream
        with RDBWriter(rdb_path) as writer:
            writer.save(telstate)
        syn.dataset = katdal.open(rdb_path, npy_store_path=store_dir, upgrade_flags=upgrade_flags,
                                  van_vleck=van_vleck, **ok)
        source = syn.dataset.source
    else:
        view, cbid_out, sn = view_l0_capture_stream(telstate, cbid, stream)
        src_kwargs = dict(chunk_store=store, upgrade_flags=upgrade_flags, van_vleck=van_vleck)
        if preselect is not None:
            src_kwargs['preselect'] = preselect
        source = TelstateDataSource(view, cbid_out, sn, **src_kwargs)
        syn.dataset = VisibilityDataV4(source, **ok)
    syn.source = source
    syn.stored = stored
    syn.telstate, syn.store, syn.cbid, syn.stream = telstate, store, cbid, stream
    syn.corrprods = corrprods
    syn.shape = shape
    syn.chunks = chunks
    syn.timestamps = t0 + int_time * np.arange(T)
    syn.freqs = center_freq + (np.arange(F) - F // 2) * (bandwidth / F)
    syn.ants = ants
    return syn
