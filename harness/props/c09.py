"""C09 - S3 transport: transient faults retried within the retry budget, never partial data;
permanent errors classified; bearer-token checks; RDB over HTTP.

Drives the real `S3ChunkStore` / `TelstateDataSource.from_url` against the scripted in-memory S3
look-alike of harness/fakes3.py and compares, per case,

  * the outcome class (data / server glitch / missing chunk / store unavailable / authorisation), and
  * the number of HTTP requests that reached the server (request log of the fake)

with (S) the documented rule computed by the Lean spec `S3.specRun` plus the 404/bucket rule and
with (M) the Lean mirror model `S3.getChunk` / `S3.Req.request` / `S3.tokenRequest`.
Implementation != S on an input the property covers is a violation (or a KNOWN-FINDING when a
narrow matcher recognises it); implementation == S but != M is only advised (model drift).
"""
import base64
import http.server
import itertools
import json
import os
import tempfile
import threading
import time
import urllib.parse
from unittest import mock

import numpy as np
from urllib3.util.retry import Retry

from harness import common
from harness.common import Broken
from harness.fakes3 import FakeS3, _Handler

RULE = ('word cases = every fault word of length <= read+status+1 over the alphabet {two forcelisted 5xx codes, '
        'truncate at byte k, reset at byte k, 404, 401|403, non-forcelisted 4xx/5xx} (k drawn per letter from header/'
        'data boundary offsets and random offsets of the NPY body; codes and array drawn from the seed) followed by '
        'a good answer, for Retry budgets (total 10, read 1, status 1) and (total 1, read 1, status 1) '
        '[thorough: read, status in {1,2}, total in {10, read+status-1}, stall added to the alphabet, every cut offset], '
        'each run as a chunk read (get_chunk, stream=True) and as an RDB-style download (request(process=_read_object), '
        'stream=False); plus stall samples (read timeout 0.5 s), the store\'s default retry configuration with '
        'Retry.sleep patched out, is_complete / put_chunk words, sequences of consecutive get_chunk calls on one '
        'store with 404 and missing/empty/non-empty buckets (verified-bucket cache, listing faults), 401/403 from '
        'the server knobs, hand-built unsigned JWTs of every rejected class x URL scheme/host x prefix scope, and '
        'TelstateDataSource.from_url on an RDB file behind faults.  Compared: outcome class, bit-exact data, number '
        'of requests logged by the server (object path and bucket listing separately).  non-trivial = at least one '
        'fault was injected or a token/bucket check was exercised; distinct = hash of the encoded case.')
TRUSTED = ['Lean 4.33 kernel', 'axioms: propext, Classical.choice, Quot.sound only',
           'hand-written model KatdalModel/Model/S3Transport.lean tied to /repo by this differential run',
           'urllib3 / requests internals (Retry.increment, HTTPAdapter.send exception mapping): modelled from the '
           'installed sources, validated by the exhaustive enumeration',
           'harness/fakes3.py behaves like an HTTP server that cuts, resets and stalls bodies as scripted',
           'GoodReader hypothesis (read_array rejects every strict prefix as incomplete): property C08']
CHECKER = 'lake build KatdalModel.Props.C09 kd_c09 && lake env lean <#print axioms audit>'

SPEC_FORCE = (500, 502, 503, 504)       # the property text names these as transient
BUCKET = 'bucket'
STALL_RT = 0.5                          # read timeout used when a stall is scripted
SAFE_RT = 40.0                          # read timeout when no stall is scripted (never expected to fire)

ARRAYS = [
    np.arange(10, dtype=np.int32),
    (np.arange(12, dtype=np.float64) * 0.5 - 1).reshape(3, 4),
    np.array([7], dtype=np.uint8),
    (np.arange(8) + 1j * np.arange(8)).astype(np.complex64).reshape(2, 2, 2),
]


def npy_bytes(a):
    from katdal.chunkstore import npy_header_and_body
    h, b = npy_header_and_body(a)
    return bytes(h) + bytes(b)


# ------------------------------------------------------------------ fake S3 (wrapper around the shared one)

class _FastHandler(_Handler):
    """Shared handler + TCP_NODELAY (headers and body are written separately: Nagle + delayed ACK
    would cost 40 ms per status answer) + body faults on bucket listings."""
    disable_nagle_algorithm = True

    def do_GET(self):
        url = urllib.parse.urlsplit(self.path)
        path = urllib.parse.unquote(url.path)
        parts = path.lstrip('/').split('/', 1)
        if len(parts) == 1 or parts[1] == '':
            with self.s3.lock:
                q = self.s3.faults.get(path)
                nxt = q[0] if q else None
            if nxt is not None and nxt[0] in ('truncate', 'reset', 'stall') and parts[0] in self.s3.buckets:
                fault = self._next_fault(path)
                self.s3.log(self.command, path, url.query, fault)
                if not self._auth_ok():
                    return
                keys = sorted(k for k in self.s3.objects if k.startswith('/' + parts[0] + '/'))
                body = '<?xml version="1.0"?><ListBucketResult>' + ''.join(
                    f'<Contents><Key>{k[len(parts[0]) + 2:]}</Key></Contents>' for k in keys[:1]) + '</ListBucketResult>'
                self._serve_body(body.encode(), fault)
                return
        return super().do_GET()

    do_HEAD = do_GET


class FastFakeS3(FakeS3):
    def __enter__(self):
        self._server = http.server.ThreadingHTTPServer(('127.0.0.1', 0), _FastHandler)
        self._server.daemon_threads = True
        self._server.s3 = self
        self.port = self._server.server_address[1]
        self.url = f'http://127.0.0.1:{self.port}'
        self._thread = threading.Thread(target=self._server.serve_forever, kwargs={'poll_interval': 0.05},
                                        daemon=True)
        self._thread.start()
        return self

    def reset(self):
        with self.lock:
            self.objects.clear()
            self.buckets.clear()
            self.faults.clear()
            del self.global_faults[:]
            del self.requests[:]
            self.require_token = None
            self.forbidden = False
            self.bare_errors = getattr(self, 'next_bare', False)

    def count(self, path):
        with self.lock:
            return len([r for r in self.requests if r[1] == path])


# ------------------------------------------------------------------ encoding of cases for the Lean driver

def enc_budget(b):
    f = lambda v: '_' if v is None else str(v)   # noqa: E731
    return ','.join([f(b.get('total')), f(b.get('connect')), f(b.get('read')), '_', f(b.get('status')), '_'])


def enc_force(force):
    return ','.join(str(c) for c in force) if force else '-'


def enc_word(word):
    out = []
    for f in word:
        if f[0] == 'status':
            out.append(f's{f[1]}')
        elif f[0] == 'truncate':
            out.append(f't{f[1]}')
        elif f[0] == 'reset':
            out.append(f'r{f[1]}')
        elif f[0] == 'stall':
            out.append('st')
        elif f[0] == 'ok':
            out.append('ok')
        else:
            raise Broken(f'unknown fault {f}')
    return ','.join(out) if out else '-'


CLS = {'S3ServerGlitch': 'glitch', 'S3ObjectNotFound': 'notfound', 'StoreUnavailable': 'unavailable',
       'AuthorisationFailed': 'auth', 'InvalidToken': 'auth', 'BadChunk': 'badchunk', 'ValueError': 'other:ValueError'}


def dec_res(tok):
    if tok == 'D':
        return 'data'
    if tok.startswith('E:'):
        return CLS[tok[2:]]
    raise Broken(f'model reply {tok!r}')


def classify(exc):
    from katdal.chunkstore import BadChunk, ChunkNotFound, StoreUnavailable
    from katdal.chunkstore_s3 import AuthorisationFailed, S3ServerGlitch
    if isinstance(exc, S3ServerGlitch):
        return 'glitch'
    if isinstance(exc, ChunkNotFound):
        return 'notfound'
    if isinstance(exc, AuthorisationFailed):
        return 'auth'
    if isinstance(exc, StoreUnavailable):
        return 'unavailable'
    if isinstance(exc, BadChunk):
        return 'badchunk'
    return 'other:' + type(exc).__name__


def faults_for_server(word, rt):
    out = []
    for f in word:
        if f[0] == 'stall':
            out.append(('stall', max(4 * rt, 1.2)))
        else:
            out.append(tuple(f))
    return out


DEFAULT_BUDGET = dict(total=10, connect=2, read=2, status=5)


def has_stall(word):
    return any(f[0] == 'stall' for f in word)


# ------------------------------------------------------------------ the store under test

def make_store(url, budget, rt, default_cfg=False, scalar_timeout=False, **kw):
    """S3ChunkStore whose Retry object is the one the store itself builds (so the store's own
    status_forcelist is in force) with the counters of `budget` and no backoff."""
    from katdal.chunkstore_s3 import S3ChunkStore
    if default_cfg:
        store = S3ChunkStore(url, **kw)            # retries=2 -> Retry(connect=2, read=2, status=5, backoff 10 s)
        store.timeout = (5.0, rt)
        return store
    # timeout is documented as "float or tuple": a single number serves as connect and read timeout
    store = S3ChunkStore(url, timeout=(rt if scalar_timeout else (5.0, rt)),
                         retries=(budget.get('connect', 1), budget['read']), **kw)
    store.retries = store.retries.new(total=budget.get('total'), status=budget['status'], backoff_factor=0)
    return store


def store_budget(store):
    r = store.retries
    return dict(total=r.total, connect=r.connect, read=r.read, status=r.status), tuple(sorted(r.status_forcelist))


def chunk_path(store, arr):
    slices = tuple(slice(0, n) for n in arr.shape)
    name, _ = store.chunk_metadata(f'{BUCKET}/x', slices, dtype=arr.dtype)
    return slices, '/' + name + '.npy'


# ------------------------------------------------------------------ word cases

def run_word_impl(s3, case):
    """One request (chunk / rdb / iscomplete / put) against a scripted fault word."""
    from katdal.chunkstore_s3 import _read_object
    arr = ARRAYS[case['arr']]
    rt = STALL_RT if has_stall(case['word']) else SAFE_RT
    s3.reset()
    s3.buckets.add(BUCKET)
    s3.objects[f'/{BUCKET}/zz-other'] = b'x'          # keeps the bucket non-empty
    store = make_store(s3.url, case['budget'], rt, default_cfg=case.get('default_cfg', False),
                       scalar_timeout=case.get('scalar_timeout', False))
    budget, force = store_budget(store)
    if not case.get('default_cfg'):
        # the documented meaning of retries=(connect, read) is what the model is given, not what the store made of it
        budget['connect'], budget['read'] = case['budget'].get('connect', 1), case['budget']['read']
    else:
        # the default configuration is a pinned table (model constant): retries=2 means 2 connect and 2 read retries,
        # the store adds 5 status retries, and the joint count (10) binds only after each kind's own budget would have
        store_budget_seen = dict(budget)
        budget.update(DEFAULT_BUDGET)
    mode = case['mode']
    res = dict(budget=budget, force=force)
    if case.get('default_cfg'):
        res['store_budget'] = store_budget_seen
    if mode == 'chunk':
        slices, path = chunk_path(store, arr)
        body = npy_bytes(arr)
        s3.objects[path] = body
    elif mode == 'rdb':
        path = f'/{BUCKET}/file.rdb'
        body = npy_bytes(arr) * 2
        s3.objects[path] = body
    elif mode == 'iscomplete':
        path = f'/{BUCKET}/x/complete'
        body = b''
        s3.objects[path] = body
    elif mode == 'put':
        slices, path = chunk_path(store, arr)
        body = npy_bytes(arr)
    else:
        raise Broken(mode)
    res['len'] = len(body)
    s3.script(path, faults_for_server(case['word'], rt))
    same = None
    try:
        if mode == 'chunk':
            out = store.get_chunk(f'{BUCKET}/x', slices, arr.dtype)
            same = (out.dtype == arr.dtype and out.shape == arr.shape and out.tobytes() == arr.tobytes())
            cls = 'data'
        elif mode == 'rdb':
            out = store.request('GET', s3.url + path, process=_read_object)
            same = (out == body)
            cls = 'data'
        elif mode == 'iscomplete':
            cls = 'T' if store.is_complete(f'{BUCKET}/x') else 'F'
        else:
            store.put_chunk(f'{BUCKET}/x', slices, arr)
            same = (s3.objects.get(path) == body)
            cls = 'data'
    except Exception as e:   # noqa: BLE001 - classification is the point
        cls = classify(e)
        res['exc'] = f'{type(e).__name__}: {str(e)[:160]}'
    res.update(cls=cls, same=same, n=s3.count(path), nlist=s3.count(f'/{BUCKET}'))
    return res


def word_model_lines(case, impl):
    b, force, ln = enc_budget(impl['budget']), enc_force(impl['force']), impl['len']
    w = enc_word(case['word'])
    mode = case['mode']
    spec = f"spec {ln} {b} {enc_force(SPEC_FORCE)} {w}"
    if mode == 'chunk':
        return [spec, f'getchunk {ln} {b} {force} 0 n {w} -']
    if mode == 'rdb':
        return [spec, f'req b {ln} {b} {force} {w}']
    if mode == 'iscomplete':
        return [spec, f'iscomplete {b} {force} {w}']
    return [spec, f'req b 0 {b} {force} {w}']       # put: identity process, status faults only


def judge_word(ctx, case, impl, srep, mrep):
    """Returns violation text or None; fills case['impl'/'spec'/'mirror'] for the matchers."""
    mode = case['mode']
    s = srep.split(' ')
    scls, sn = dec_res(s[0]), int(s[1])
    m = mrep.split(' ')
    if mode == 'iscomplete':
        # is_complete: True on data, False on any ChunkNotFound (404 or glitch), otherwise the error
        scls = {'data': 'T', 'glitch': 'F', 'notfound': 'F'}.get(scls, scls)
        mcls = m[0] if m[0] in ('T', 'F') else dec_res(m[0])
        mn, mlist = int(m[1]), 0
        slist = 0
    elif mode == 'chunk':
        mcls, mn, mlist = dec_res(m[0]), int(m[1]), int(m[2])
        slist = 1 if scls == 'notfound' else 0        # fresh store, honest non-empty bucket: one listing
    else:
        mcls, mn, mlist = dec_res(m[0]), int(m[1]), 0
        slist = 0
    got = (impl['cls'], impl['n'], impl['nlist'])
    case['impl'] = list(got)
    case['spec'] = [scls, sn, slist]
    case['mirror'] = [mcls, mn, mlist]
    if impl['cls'] == 'data' and impl['same'] is False:
        return f"returned data that differs from the stored object (partial/altered) on word {enc_word(case['word'])}"
    if got != (scls, sn, slist):
        return (f"{mode}: outcome/requests/listings {got} != documented rule {(scls, sn, slist)} for word "
                f"{enc_word(case['word'])} budget {impl['budget']} ({impl.get('exc', '')})")
    if got != (mcls, mn, mlist):
        ctx.advise(f"mirror model {(mcls, mn, mlist)} differs from implementation+spec {got} on {mode} "
                   f"{enc_word(case['word'])}")
    return None


# ------------------------------------------------------------------ bucket sequences (404 / verified cache)

def run_bucket_impl(s3, case):
    """Consecutive get_chunk calls on ONE store; each call: bucket state, chunk word, listing word."""
    arr = ARRAYS[case['arr']]
    rt = STALL_RT if any(has_stall(c['wc']) or has_stall(c['wl']) for c in case['calls']) else SAFE_RT
    s3.reset()
    store = make_store(s3.url, case['budget'], rt)
    budget, force = store_budget(store)
    slices, path = chunk_path(store, arr)
    out = []
    for call in case['calls']:
        with s3.lock:
            s3.objects.clear()
            s3.buckets.clear()
            del s3.requests[:]
        if call['bs'] in ('e', 'n'):
            s3.buckets.add(BUCKET)
        if call['bs'] == 'n':
            s3.objects[f'/{BUCKET}/zz-other'] = b'x'
        if call.get('present'):
            s3.objects[path] = npy_bytes(arr)
        s3.script(path, faults_for_server(call['wc'], rt))
        s3.script(f'/{BUCKET}', faults_for_server(call['wl'], rt))
        same = None
        try:
            got = store.get_chunk(f'{BUCKET}/x', slices, arr.dtype)
            same = got.tobytes() == arr.tobytes() and got.shape == arr.shape
            cls = 'data'
        except Exception as e:   # noqa: BLE001
            cls = classify(e)
        out.append(dict(cls=cls, same=same, n=s3.count(path), nlist=s3.count(f'/{BUCKET}'),
                        verified=int(any(b.rstrip('/').endswith('/' + BUCKET) for b in store._verified_buckets))))
    return dict(budget=budget, force=force, len=len(npy_bytes(arr)), calls=out)


def bucket_model_lines(case, impl):
    """One `getchunk` line per call; the verified flag fed to the model is the implementation's
    own cache state before the call (so a cache defect shows up at the call where it happens)."""
    b, force, ln = enc_budget(impl['budget']), enc_force(impl['force']), impl['len']
    verified, lines = 0, []
    for call, got in zip(case['calls'], impl['calls']):
        wc = list(call['wc'])
        if not call.get('present'):
            wc = wc + [['status', 404]]          # absent object: the honest answer is 404
        lines.append(f"getchunk {ln} {b} {force} {verified} {call['bs']} {enc_word(wc)} {enc_word(call['wl'])}")
        verified = got['verified']
    return lines


def judge_bucket(ctx, case, impl, replies):
    """Mirror model threaded through the calls; spec = the documented 404 rule for fault-free listings."""
    verified = 0
    case['impl'], case['mirror'] = [], []
    for i, (call, got) in enumerate(zip(case['calls'], impl['calls'])):
        m = replies[i].split(' ')
        mcls, mn, mlist, mver = dec_res(m[0]), int(m[1]), int(m[2]), int(m[3])
        g = (got['cls'], got['n'], got['nlist'], got['verified'])
        case['impl'].append(list(g))
        case['mirror'].append([mcls, mn, mlist, mver])
        if got['cls'] == 'data' and got['same'] is False:
            return f'call {i}: partial/altered data'
        # documented rule (spec), for calls whose chunk request ends in a plain 404 and whose listing is honest
        # or only transiently faulty within the budget
        if call.get('spec') is not None:
            want = tuple(call['spec'])
            if (got['cls'], got['nlist']) != want:
                return (f"call {i}: (class, listing requests) {(got['cls'], got['nlist'])} != documented {want} "
                        f"[bucket {call['bs']}, verified before: {verified}, listing word {enc_word(call['wl'])}]")
        if g != (mcls, mn, mlist, mver):
            if call.get('spec') is not None:
                ctx.advise(f'bucket call {i}: mirror {(mcls, mn, mlist, mver)} != impl {g} (impl agrees with spec)')
            else:
                # listing itself hit by faults beyond the documented rule: the property is silent
                ctx.advise(f'bucket call {i} (listing faults {enc_word(call["wl"])}): mirror '
                           f'{(mcls, mn, mlist, mver)} != impl {g}')
        verified = got['verified']
    return None


def run_bucketnames_impl(s3, case):
    """404s in several buckets of one store whose names extend each other: [bucket name, state n/e/m] per call"""
    arr = ARRAYS[0]
    s3.reset()
    store = make_store(s3.url, case['budget'], SAFE_RT)
    out = []
    for bucket, state in case['calls']:
        with s3.lock:
            if state in ('n', 'e'):
                s3.buckets.add(bucket)
            if state == 'n':
                s3.objects[f'/{bucket}/zz-other'] = b'x'
            del s3.requests[:]
        slices = tuple(slice(0, n) for n in arr.shape)
        try:
            store.get_chunk(f'{bucket}/x', slices, arr.dtype)
            cls = 'data'
        except Exception as e:   # noqa: BLE001
            cls = classify(e)
        out.append([cls, s3.count(f'/{bucket}')])
    return dict(calls=out)


# ------------------------------------------------------------------ tokens

def b64(b):
    return base64.urlsafe_b64encode(b).rstrip(b'=').decode()


def build_token(d, now):
    """Unsigned JWT string from descriptor `d` (see gen_token_cases)."""
    hk = d['hdr']
    if hk in ('ES256', 'HS256', 'none'):
        h = b64(json.dumps({'alg': hk, 'typ': 'JWT'}).encode())
    elif hk == 'noalg':
        h = b64(json.dumps({'typ': 'JWT'}).encode())
    elif hk == 'notjson':
        h = b64(b'not json at all')
    elif hk == 'notdict':
        h = b64(b'[1, 2]')
    else:
        h = 'a'                                           # invalid base64 length
    pk = d['payload']
    if pk == 'obj':
        claims = {}
        e = d['exp']
        if e == 'past':
            claims['exp'] = now - 3600
        elif e == 'future':
            claims['exp'] = now + 3600
        elif e == 'futurestr':
            claims['exp'] = str(now + 3600)
        elif e == 'paststr':
            claims['exp'] = str(now - 3600)
        elif e == 'futurefloat':
            claims['exp'] = now + 3600.5
        elif e == 'nonint':
            claims['exp'] = 'tomorrow'
        elif e == 'huge':
            claims['exp'] = 10 ** 30
        if d['prefix'] is not None:
            claims['prefix'] = d['prefix']
        claims['sub'] = 'harness'
        p = b64(json.dumps(claims).encode())
    elif pk == 'notjson':
        p = b64(b'{broken')
    elif pk == 'list':
        p = b64(b'[1, 2, 3]')
    else:
        p = 'a'
    parts = [h, p, d['sig']][:d['nparts']] if d['nparts'] <= 3 else [h, p, d['sig'], 'extra']
    return '.'.join(parts)


def token_model_args(d, now):
    hdr_bad = d['hdr'] in ('notjson', 'notdict', 'badb64') or d['payload'] == 'badb64'
    if hdr_bad:
        hdr = 'x'
    elif d['hdr'] == 'noalg':
        hdr = 'a:_'
    else:
        hdr = 'a:' + d['hdr']
    sig = d['sig']
    sigok = int(all(c.isalnum() or c in '-_' for c in sig) and len(sig) % 4 != 1)
    if d['payload'] != 'obj':
        claims = 'x'
    else:
        e = {None: '_', 'past': str(now - 3600), 'future': str(now + 3600), 'futurestr': str(now + 3600),
             'paststr': str(now - 3600), 'futurefloat': str(now + 3600), 'nonint': 'n', 'huge': 'n'}[d['exp']]
        if d['prefix'] is None:
            p = '_'
        elif not d['prefix']:
            p = '[]'
        else:
            p = ','.join('""' if x == '' else x for x in d['prefix'])
        claims = f'{e};{p}'
    return hdr, len(sig), sigok, claims


def token_spec_reject(d, case):
    """The property's own list: malformed, truncated, expired, non-HTTPS, out-of-scope."""
    if case['scheme'] != 'https' and case['host'] != '127.0.0.1':
        return True
    if case.get('creds'):
        return True
    if d['nparts'] != 3 or d['hdr'] in ('notjson', 'notdict', 'badb64') or d['payload'] != 'obj':
        return True
    if d['hdr'] == 'ES256' and len(d['sig']) != 86:
        return True
    sig = d['sig']
    if not (all(c.isalnum() or c in '-_' for c in sig) and len(sig) % 4 != 1):
        return True
    if d['exp'] in ('past', 'paststr', 'nonint', 'huge'):
        return True
    if d['prefix'] is None:
        return True
    path = case['path']
    return not any(path.startswith(p) for p in d['prefix'])


def run_token_impl(s3, case):
    from katdal.chunkstore_s3 import S3ChunkStore
    arr = ARRAYS[0]
    now = case['now']
    tok = build_token(case['tok'], now)
    s3.reset()
    s3.buckets.add(BUCKET)
    s3.require_token = tok
    host = case['host']            # look-alike hosts are construction-only cases: nothing is ever sent to them
    url = f"{case['scheme']}://{host}:{s3.port}"
    kw = dict(timeout=(2.0, SAFE_RT), retries=0, token=tok)
    if case.get('creds'):
        kw['credentials'] = ('access', 'secret')
    res = dict(stage=None, cls=None, exc=None)
    try:
        store = S3ChunkStore(url, **kw)
    except Exception as e:   # noqa: BLE001
        res.update(stage='init', cls=classify(e), exc=type(e).__name__)
        res['n'] = len(s3.requests)
        return res
    if case.get('construct_only'):
        res.update(stage='constructed', cls='data', n=0)
        return res
    slices = (slice(0, 10),)
    name, _ = store.chunk_metadata(f'{BUCKET}/x', slices, dtype=arr.dtype)
    s3.objects['/' + name + '.npy'] = npy_bytes(arr)
    try:
        out = store.get_chunk(f'{BUCKET}/x', slices, arr.dtype)
        res.update(stage='request', cls='data' if out.tobytes() == arr.tobytes() else 'wrongdata')
    except Exception as e:   # noqa: BLE001
        res.update(stage='request', cls=classify(e), exc=type(e).__name__)
    res['n'] = len(s3.requests)
    return res


class _LaterClock:
    """stands in for the `time` module inside katdal.chunkstore_s3: the same clock, a fixed number of seconds ahead"""

    def __init__(self, ahead):
        self._ahead = ahead

    def __getattr__(self, k):
        return getattr(time, k)

    def time(self):
        return time.time() + self._ahead


def token_expires_later(ctx, s3):
    """The same token string presented before and after its expiry time: accepted (and used) the first time, refused
    at construction the second time with no request sent - the expiry is judged against the clock at each
    presentation, not remembered from an earlier one."""
    from katdal import chunkstore_s3
    from katdal.chunkstore_s3 import InvalidToken, S3ChunkStore
    bad = []
    now = int(time.time())
    arr = ARRAYS[0]
    for creds in (False, True):
        d = dict(nparts=3, hdr='ES256', sig='A' * 86, payload='obj', exp='future', prefix=[BUCKET])
        tok = build_token(d, now + (1 if creds else 0))
        s3.next_bare = False
        s3.reset()
        s3.buckets.add(BUCKET)
        s3.require_token = tok
        kw = dict(timeout=(2.0, SAFE_RT), retries=0, token=tok)
        case = dict(kind='token-expires-later', creds=creds)
        what = None
        try:
            store = S3ChunkStore(s3.url, **kw)
            slices = (slice(0, 10),)
            name, _ = store.chunk_metadata(f'{BUCKET}/x', slices, dtype=arr.dtype)
            s3.objects['/' + name + '.npy'] = npy_bytes(arr)
            store.get_chunk(f'{BUCKET}/x', slices, arr.dtype)
        except Exception as e:   # noqa: BLE001
            what = f'a token valid for another hour was refused: {type(e).__name__}: {str(e)[:80]}'
        if what is None:
            n_before = len(s3.requests)
            real = chunkstore_s3.time
            chunkstore_s3.time = _LaterClock(7200.0)
            try:
                try:
                    later = S3ChunkStore(s3.url, **kw)
                    try:
                        later.get_chunk(f'{BUCKET}/x', slices, arr.dtype)
                    except Exception:   # noqa: BLE001
                        pass
                    what = (f'the token string that was accepted before its expiry is accepted again two hours later '
                            f'(one hour after it expired); {len(s3.requests) - n_before} request(s) were sent with it')
                except InvalidToken:
                    if len(s3.requests) != n_before:
                        what = 'an expired token was refused only after a request had been sent'
                except Exception as e:   # noqa: BLE001
                    what = f'an expired token gave {type(e).__name__} instead of InvalidToken'
            finally:
                chunkstore_s3.time = real
        ctx.tag('token-expires-later')
        ctx.count(('token-expires-later', creds), True, sample={'token': 'expires-later'})
        if what:
            bad.append((case, what))
    return bad


def store_inference(ctx):
    """The chunk store a data set gets when it is opened with an S3 endpoint (the s3_endpoint_url override, or the
    endpoint recorded in telstate): the retry configuration, timeout and token given by the caller are the ones in
    force, so the budget of the property is the configured one and a bad token is refused before any request."""
    import urllib.parse as up
    from katdal.chunkstore_s3 import InvalidToken, S3ChunkStore
    from katdal.datasources import infer_chunk_store
    bad = []
    now = int(time.time())
    telstate = {'chunk_info': {'correlator_data': {'prefix': 'cb-sdp-l0'}}, 's3_endpoint_url': 'http://127.0.0.1:9'}
    url_parts = up.urlparse('http://archive.invalid/cb/cb_sdp_l0.rdb')
    for how in ('override', 'recorded'):
        kw = dict(s3_endpoint_url='http://127.0.0.1:9') if how == 'override' else {}
        for retries in (0, 4, (1, 3)):
            case = dict(kind='store-inference', how=how, retries=str(retries))
            what = None
            try:
                store = infer_chunk_store(url_parts, telstate, retries=retries, timeout=(1.5, 2.5), **kw)
                want = S3ChunkStore('http://127.0.0.1:9', retries=retries, timeout=(1.5, 2.5))
                if not isinstance(store, S3ChunkStore):
                    what = f'the inferred store is a {type(store).__name__}'
                elif store_budget(store) != store_budget(want) or tuple(store.timeout) != (1.5, 2.5):
                    what = (f'data set opened with retries={retries}, timeout=(1.5, 2.5) ({how} S3 endpoint): the chunk store '
                            f'has budget {store_budget(store)[0]} and timeout {store.timeout}, the configured one is '
                            f'{store_budget(want)[0]}')
            except Exception as e:   # noqa: BLE001
                what = f'inferring the chunk store ({how} endpoint, retries={retries}) raised {type(e).__name__}: {str(e)[:80]}'
            ctx.tag('store-inference')
            ctx.count(('store-inference', how, str(retries)), True, sample={'store-inference': how})
            if what:
                bad.append((case, what))
        # an expired token is refused when the store is built
        tok = build_token(dict(nparts=3, hdr='ES256', sig='A' * 86, payload='obj', exp='past', prefix=['cb-sdp-l0']), now)
        case = dict(kind='store-inference', how=how, token='expired')
        try:
            infer_chunk_store(up.urlparse('https://archive.invalid/cb/cb_sdp_l0.rdb'),
                              dict(telstate, s3_endpoint_url='https://archive.invalid'), token=tok,
                              **(dict(s3_endpoint_url='https://archive.invalid') if how == 'override' else {}))
            bad.append((case, f'a data set opened with an expired token ({how} S3 endpoint) got a chunk store: the token '
                              f'is not refused before requests are sent'))
        except InvalidToken:
            pass
        except Exception as e:   # noqa: BLE001
            bad.append((case, f'expired token ({how} endpoint): {type(e).__name__} instead of InvalidToken'))
    return bad


def token_model_line(case):
    d, now = case['tok'], case['now']
    hdr, siglen, sigok, claims = token_model_args(d, now)
    return (f"token {now} {case['scheme']} {case['host']} {int(bool(case.get('creds')))} {d['nparts']} {hdr} "
            f"{siglen} {sigok} {claims} {case['path']}")


def judge_token(ctx, case, impl, reply):
    d = case['tok']
    m = reply.split(' ')
    mcls, mn = dec_res(m[0]), int(m[1])
    reject = token_spec_reject(d, case)
    case['impl'] = [impl['cls'], impl['n'], impl['stage']]
    case['mirror'] = [mcls, mn]
    if (mcls != 'data') != reject:
        raise Broken(f'token spec (python) and Lean model disagree on {case}: model {m}')
    if reject:
        if impl['cls'] == 'data' or impl['cls'] == 'wrongdata':
            return f"bad token accepted ({impl['n']} request(s) sent): {d} url {case['scheme']}://{case['host']}"
        if impl['n'] != 0:
            return f"bad token rejected only after {impl['n']} request(s) reached the server: {d}"
        if impl['cls'] != 'auth':
            ctx.advise(f"bad token rejected with {impl['exc']} (not an AuthorisationFailed): {d}")
        return None
    if impl['cls'] != 'data':
        return f"good token refused: {impl['cls']} ({impl['exc']}) at {impl['stage']}: {d}"
    if not case.get('construct_only') and impl['n'] < 1:
        return 'good token: data without any request?'
    return None


# ------------------------------------------------------------------ RDB through TelstateDataSource.from_url

_RDB_CACHE = {}


def rdb_file_bytes():
    if 'rdb' not in _RDB_CACHE:
        import katsdptelstate
        from katsdptelstate.rdb_writer import RDBWriter
        ts = katsdptelstate.TelescopeState()
        ts['capture_block_id'] = '1234567890'
        ts['stream_name'] = 'sdp_l0'
        view = ts.view('sdp_l0')
        view['stream_type'] = 'sdp.vis'
        view['int_time'] = 2.0
        view['sync_time'] = 1.0e9
        view['first_timestamp'] = 10.0
        view['chunk_info'] = {'correlator_data': {'prefix': '1234567890-sdp-l0', 'dtype': '<c8', 'shape': (4, 2, 3),
                                                  'chunks': ((4,), (2,), (3,))}}
        d = tempfile.mkdtemp(prefix='c09rdb')
        fn = os.path.join(d, 'x.rdb')
        with RDBWriter(fn) as w:
            w.save(ts)
        _RDB_CACHE['rdb'] = open(fn, 'rb').read()
        os.unlink(fn)
        os.rmdir(d)
    return _RDB_CACHE['rdb']


def run_rdburl_impl(s3, case):
    from katdal.datasources import DataSourceNotFound, TelstateDataSource
    rdb = rdb_file_bytes()
    rt = STALL_RT if has_stall(case['word']) else SAFE_RT
    s3.reset()
    s3.buckets.add('1234567890')
    path = '/1234567890/1234567890_sdp_l0.rdb'
    s3.objects[path] = rdb
    s3.script(path, faults_for_server(case['word'], rt))
    b = case['budget']
    retries = Retry(total=b.get('total'), connect=b.get('connect', 1), read=b['read'], status=b['status'],
                    backoff_factor=0, status_forcelist=SPEC_FORCE)
    budget = dict(total=b.get('total'), connect=b.get('connect', 1), read=b['read'], status=b['status'])
    if case.get('retries_form') is not None:
        # retries given as a plain number or (connect, read) pair: the RDB fetch obeys the same rules as a chunk
        # fetch of a store configured that way (status retries and force list are the store's defaults)
        retries = case['retries_form'] if isinstance(case['retries_form'], int) else tuple(case['retries_form'])
        cr = (retries, retries) if isinstance(retries, int) else retries
        budget = dict(total=10, connect=cr[0], read=cr[1], status=5)
    res = dict(budget=budget, force=SPEC_FORCE, len=len(rdb), same=None, nlist=0)
    try:
        src = TelstateDataSource.from_url(s3.url + path, chunk_store=None, timeout=(5.0, rt), retries=retries)
        res['same'] = (src.capture_block_id == '1234567890' and src.stream_name == 'sdp_l0'
                       and len(src.timestamps) == 4 and float(src.timestamps[0]) == 1.0e9 + 10.0)
        res['cls'] = 'data'
    except DataSourceNotFound as e:
        res['cls'] = classify(e.__cause__) if e.__cause__ is not None else 'other:DataSourceNotFound'
        res['exc'] = str(e)[:160]
    except Exception as e:   # noqa: BLE001
        res['cls'] = 'other:' + type(e).__name__
        res['exc'] = str(e)[:160]
    res['n'] = s3.count(path)
    return res


# ------------------------------------------------------------------ server-knob auth cases

def run_knob_impl(s3, case):
    arr = ARRAYS[0]
    s3.reset()
    s3.buckets.add(BUCKET)
    store = make_store(s3.url, case['budget'], SAFE_RT)
    slices, path = chunk_path(store, arr)
    s3.objects[path] = npy_bytes(arr)
    if case['knob'] == 'forbidden':
        s3.forbidden = True
    else:
        s3.require_token = 'some-token-the-client-does-not-have'
    try:
        if case['op'] == 'get':
            store.get_chunk(f'{BUCKET}/x', slices, arr.dtype)
        elif case['op'] == 'put':
            store.put_chunk(f'{BUCKET}/x', slices, arr)
        else:
            store.is_complete(f'{BUCKET}/x')
        cls = 'data'
    except Exception as e:   # noqa: BLE001
        cls = classify(e)
    return dict(cls=cls, n=len(s3.requests))


# ------------------------------------------------------------------ case generation

def offsets(rng, ln):
    """Interesting cut offsets of an NPY body of length `ln`: magic, header, header/data boundary, data, last byte."""
    hdr = 128 if ln >= 128 else ln
    cand = {0, 1, 5, 6, 9, 10, 11, hdr - 1, hdr, hdr + 1, ln - 1, ln // 2, rng.randrange(ln), rng.randrange(ln)}
    return sorted(k for k in cand if 0 <= k < ln)


def word_alphabet(rng, with_stall):
    a, b = rng.sample(SPEC_FORCE, 2)
    letters = [('S', a), ('S', b), ('T',), ('R',), ('N',), ('A', rng.choice([401, 403])),
               ('U', rng.choice([400, 405, 409, 501, 505]))]
    if with_stall:
        letters.append(('st',))
    return letters


def realise(rng, letters, ln):
    """letters -> concrete word with per-letter cut offsets"""
    offs = offsets(rng, ln)
    out = []
    for lt in letters:
        if lt[0] == 'S' or lt[0] == 'A' or lt[0] == 'U':
            out.append(['status', lt[1]])
        elif lt[0] == 'N':
            out.append(['status', 404])
        elif lt[0] == 'T':
            out.append(['truncate', rng.choice(offs)])
        elif lt[0] == 'R':
            out.append(['reset', rng.choice(offs)])
        else:
            out.append(['stall'])
    return out


def body_len(mode, arr_i):
    n = len(npy_bytes(ARRAYS[arr_i]))
    return 2 * n if mode == 'rdb' else n


def gen_word_cases(ctx):
    rng = ctx.rng
    cases = []
    if ctx.tier == 'quick':
        budgets = [(dict(total=10, connect=1, read=1, status=1), 3), (dict(total=1, connect=1, read=1, status=1), 2)]
    else:
        budgets = []
        for r in (1, 2):
            for s in (1, 2):
                budgets.append((dict(total=10, connect=1, read=r, status=s), r + s + 1))
                budgets.append((dict(total=r + s - 1, connect=1, read=r, status=s), r + s))
    for budget, maxlen in budgets:
        alpha = word_alphabet(rng, with_stall=False)
        if ctx.tier != 'quick' and maxlen > 3:
            alpha = alpha[:1] + alpha[2:]           # one forcelisted code is enough for the long words
        for mode in ('chunk', 'rdb'):
            for n in range(maxlen + 1):
                for letters in itertools.product(alpha, repeat=n):
                    arr_i = rng.randrange(len(ARRAYS))
                    cases.append(dict(kind='word', mode=mode, budget=budget, arr=arr_i,
                                      word=realise(rng, letters, body_len(mode, arr_i))))
    # retries given as a (connect, read) tuple with DIFFERENT values: body faults are charged to the read budget
    for budget in (dict(total=10, connect=0, read=1, status=1), dict(total=10, connect=2, read=0, status=1),
                   dict(total=10, connect=0, read=2, status=1)):
        for mode in ('chunk', 'rdb'):
            for letters in ([('T',)], [('R',)], [('T',), ('R',)], [('R',), ('T',), ('T',)]):
                arr_i = rng.randrange(len(ARRAYS))
                cases.append(dict(kind='word', mode=mode, budget=budget, arr=arr_i, asym=True,
                                  word=realise(rng, letters, body_len(mode, arr_i))))
    # stalls (cost: one read timeout each)
    b11 = dict(total=10, connect=1, read=1, status=1)
    if ctx.tier == 'quick':
        a = rng.choice(SPEC_FORCE)
        stall_words = {'chunk': [[('st',)], [('st',), ('st',)], [('S', a), ('st',)], [('st',), ('T',)],
                                 [('R',), ('st',)], [('st',), ('S', a), ('N',)]],
                       'rdb': [[('st',)], [('T',), ('st',)]]}
        for mode, ws in stall_words.items():
            for letters in ws:
                arr_i = rng.randrange(len(ARRAYS))
                cases.append(dict(kind='word', mode=mode, budget=b11, arr=arr_i,
                                  word=realise(rng, letters, body_len(mode, arr_i))))
        # the same with the timeout given as a single number
        for letters in ([('st',)], [('st',), ('T',)]):
            arr_i = rng.randrange(len(ARRAYS))
            cases.append(dict(kind='word', mode='chunk', budget=b11, arr=arr_i, scalar_timeout=True,
                              word=realise(rng, letters, body_len('chunk', arr_i))))
    else:
        alpha = word_alphabet(rng, with_stall=True)
        for mode in ('chunk', 'rdb'):
            for n in range(1, 4):
                for letters in itertools.product(alpha, repeat=n):
                    if ('st',) not in letters:
                        continue
                    arr_i = rng.randrange(len(ARRAYS))
                    cases.append(dict(kind='word', mode=mode, budget=b11, arr=arr_i,
                                      word=realise(rng, letters, body_len(mode, arr_i))))
        # every cut offset of every array, truncate and reset, alone and after a status fault
        for arr_i in range(len(ARRAYS)):
            ln = body_len('chunk', arr_i)
            for k in range(ln):
                for kind in ('truncate', 'reset'):
                    cases.append(dict(kind='word', mode='chunk', budget=b11, arr=arr_i, word=[[kind, k]]))
                    cases.append(dict(kind='word', mode='chunk', budget=b11, arr=arr_i,
                                      word=[[kind, k], [kind, (k * 7 + 3) % ln]]))
    # the store's default configuration (retries=2 -> read 2, status 5, total 10, backoff 10 s patched out)
    for _ in range(ctx.q(10, 120)):
        n = rng.randint(1, 9)
        letters = [rng.choice([('S', rng.choice(SPEC_FORCE)), ('S', rng.choice(SPEC_FORCE)), ('T',), ('R',)])
                   for _ in range(n)]
        if rng.random() < 0.3:
            letters.append(rng.choice([('N',), ('A', 401), ('A', 403)]))
        arr_i = rng.randrange(len(ARRAYS))
        cases.append(dict(kind='word', mode=rng.choice(['chunk', 'chunk', 'rdb']), budget={}, default_cfg=True,
                          arr=arr_i, word=realise(rng, letters, body_len('chunk', arr_i))))
    # directed, default configuration: mixed words that fit in the read budget (2) AND in the status budget (5) but
    # count six or seven faults altogether (the joint budget is 10), and their over-budget neighbours
    for letters in ([('S', 503)] * 4 + [('T',), ('R',)], [('T',)] + [('S', 500)] * 5, [('S', 502), ('T',), ('S', 504), ('R',),
                    ('S', 500), ('S', 503), ('S', 503)], [('S', 503)] * 5 + [('R',), ('T',)], [('S', 503)] * 6,
                    [('S', 500), ('T',), ('R',), ('T',)]):
        for mode in ('chunk', 'rdb'):
            arr_i = rng.randrange(len(ARRAYS))
            cases.append(dict(kind='word', mode=mode, budget={}, default_cfg=True, arr=arr_i,
                              word=realise(rng, list(letters), body_len('chunk', arr_i))))
    # is_complete / put_chunk: status faults only (empty body / request body)
    alpha = [('S', rng.choice(SPEC_FORCE)), ('N',), ('A', rng.choice([401, 403])), ('U', 501)]
    for mode in ('iscomplete', 'put'):
        for n in range(3):
            for letters in itertools.product(alpha, repeat=n):
                cases.append(dict(kind='word', mode=mode, budget=b11, arr=0, word=realise(rng, letters, 1)))
    return cases


def gen_bucket_cases(ctx):
    rng = ctx.rng
    b11 = dict(total=10, connect=1, read=1, status=1)
    cases = []
    a = rng.choice(SPEC_FORCE)

    def call(bs, present=False, wc=(), wl=(), spec=None):
        return dict(bs=bs, present=present, wc=[list(x) for x in wc], wl=[list(x) for x in wl], spec=spec)

    def spec404(bs, verified, nlist=1):
        if verified:
            return ['notfound', 0]
        return ['notfound', nlist] if bs == 'n' else ['unavailable', nlist]
    # single calls: every bucket state, with and without transient faults before the 404
    for bs in 'men':
        cases.append([call(bs, spec=spec404(bs, 0))])
        cases.append([call(bs, wc=[('status', a)], spec=spec404(bs, 0))])
    # listing hit by transient faults that fit the budget: same outcome, more listing requests
    for bs in 'men':
        cases.append([call(bs, wl=[('status', a)], spec=spec404(bs, 0, 2))])
        if bs != 'm':
            cases.append([call(bs, wl=[('truncate', 7)], spec=spec404(bs, 0, 2))])
            cases.append([call(bs, wl=[('reset', 20), ('status', a)], spec=spec404(bs, 0, 3))])
    # the listing of an existing, non-empty bucket hit by transient faults BEYOND the budget (b11: one status retry,
    # one read retry): as for the chunk request itself, transient faults beyond the budget are a server glitch
    # (a missing chunk), not an unavailable store
    cases.append([call('n', wl=[('status', a), ('status', a)], spec=['glitch', 2])])
    cases.append([call('n', wl=[('truncate', 3), ('truncate', 3)], spec=['glitch', 2])])
    cases.append([call('n', wl=[('reset', 5), ('reset', 5)], spec=['glitch', 2])])
    # a listing that is refused is beyond the documented rule (mirror model only, advisory)
    cases.append([call('n', wl=[('status', 403)])])
    # the cache: verified by a first call, later calls do not list again whatever the bucket became
    for later in 'men':
        cases.append([call('n', spec=spec404('n', 0)), call(later, spec=spec404(later, 1)),
                      call(later, wc=[('status', a)], spec=spec404(later, 1))])
    # not verified by failures: empty / missing first, then non-empty must list again
    for first in 'me':
        cases.append([call(first, spec=spec404(first, 0)), call(first, spec=spec404(first, 0)),
                      call('n', spec=spec404('n', 0)), call('m', spec=spec404('m', 1))])
    # successful reads never list and never verify
    cases.append([call('n', present=True, spec=['data', 0]), call('e', spec=spec404('e', 0)),
                  call('n', spec=spec404('n', 0)), call('n', present=True, wc=[('truncate', 9)], spec=['data', 0])])
    # random sequences
    for _ in range(ctx.q(10, 200)):
        seq, ver = [], 0
        for _ in range(rng.randint(2, 4)):
            bs = rng.choice('men')
            present = bs == 'n' and rng.random() < 0.2
            wc = [('status', a)] if rng.random() < 0.3 else []
            if present:
                seq.append(call(bs, present=True, wc=wc, spec=['data', 0]))
            else:
                seq.append(call(bs, wc=wc, spec=spec404(bs, ver)))
                if bs == 'n':
                    ver = 1
        cases.append(seq)
    return [dict(kind='bucket', budget=b11, arr=rng.randrange(len(ARRAYS)), calls=c) for c in cases]


def gen_token_cases(ctx):
    rng = ctx.rng
    now = int(time.time())
    good = dict(nparts=3, hdr='ES256', sig='A' * 86, payload='obj', exp='future', prefix=[BUCKET])
    path = f'{BUCKET}/x/00000.npy'

    def var(**kw):
        d = dict(good)
        d.update(kw)
        return d
    toks = [
        good, var(exp=None), var(exp='futurestr'), var(exp='futurefloat'),
        var(hdr='HS256', sig='AAAA'), var(hdr='none', sig=''), var(hdr='noalg', sig='AAAAAA'),
        var(prefix=['zzz', BUCKET + '/x']), var(prefix=['']), var(prefix=[BUCKET[:3]]),
        # malformed / truncated
        var(nparts=1), var(nparts=2), var(nparts=4), var(nparts=0),      # nparts=0: the empty string as token
        var(sig='A' * 85), var(sig='A' * 87), var(sig='A' * 76), var(sig=''), var(sig='!' * 86),
        var(hdr='HS256', sig='AAAAA'),
        var(hdr='notjson'), var(hdr='notdict'), var(hdr='badb64'),
        var(payload='notjson'), var(payload='list'), var(payload='badb64'),
        # expired / unusable expiry
        var(exp='past'), var(exp='paststr'), var(exp='nonint'), var(exp='huge'),
        var(hdr='HS256', sig='AAAA', exp='past'),
        # scope
        var(prefix=None), var(prefix=[]), var(prefix=['other']), var(prefix=['other', 'x' + BUCKET]),
        var(prefix=[BUCKET + '/y']),
        # substrings of the path that are not prefixes of it, leading slash, wrong case
        var(prefix=['x/0']), var(prefix=[BUCKET[1:]]), var(prefix=['.npy', '00000']), var(prefix=['/' + BUCKET]),
        var(prefix=[BUCKET.upper()]),
    ]
    cases = []
    for d in toks:
        cases.append(dict(kind='token', tok=d, now=now, scheme='http', host='127.0.0.1', path=path))
    # non-HTTPS towards a host that is not 127.0.0.1 (the fake also answers on `localhost`)
    for d in (good, var(exp='past'), var(nparts=2), var(prefix=['other'])):
        cases.append(dict(kind='token', tok=d, now=now, scheme='http', host='localhost', path=path))
    # https: construction only (no TLS endpoint here); bad tokens must still be rejected at construction
    for d in (good, var(exp='past'), var(sig='A' * 80), var(nparts=1), var(prefix=None)):
        cases.append(dict(kind='token', tok=d, now=now, scheme='https', host='localhost', path=path,
                          construct_only=True))
    cases.append(dict(kind='token', tok=good, now=now, scheme='http', host='127.0.0.1', path=path, creds=True))
    # plain http towards hosts whose name merely starts with / contains the loopback address: a good token must be
    # refused at construction, before anything could be sent
    for h in ('127.0.0.1.archive.example.org', '127.0.0.1@archive.example.org', '127.0.0.10', 'x127.0.0.1',
              '127.0.0.1.', 'archive.example.org'):
        cases.append(dict(kind='token', tok=good, now=now, scheme='http', host=h, path=path, construct_only=True))
    if ctx.tier != 'quick':
        fields = dict(nparts=[1, 2, 3, 4], hdr=['ES256', 'HS256', 'noalg', 'notjson', 'badb64'],
                      sig=['A' * 86, 'A' * 85, 'AAAA', 'AAAAA', ''], payload=['obj', 'list', 'badb64'],
                      exp=[None, 'past', 'future', 'nonint', 'paststr'],
                      prefix=[None, [], [BUCKET], ['other'], ['o', BUCKET + '/x/0']])
        for _ in range(400):
            d = {k: rng.choice(v) for k, v in fields.items()}
            cases.append(dict(kind='token', tok=d, now=now, scheme='http',
                              host=rng.choice(['127.0.0.1', '127.0.0.1', 'localhost']), path=path))
    return cases


def gen_misc_cases(ctx):
    rng = ctx.rng
    b11 = dict(total=10, connect=1, read=1, status=1)
    cases = []
    for knob in ('forbidden', 'token'):
        for op in ('get', 'put', 'iscomplete'):
            cases.append(dict(kind='knob', knob=knob, op=op, budget=b11))
    a = rng.choice(SPEC_FORCE)
    ln = len(rdb_file_bytes())
    words = [[], [['truncate', rng.randrange(ln)]], [['status', a], ['reset', rng.randrange(ln)]],
             [['truncate', 5], ['reset', 7]], [['status', a], ['status', a]], [['status', 404]], [['status', 401]],
             [['status', a], ['truncate', 100], ['status', a]], [['stall']]]
    if ctx.tier != 'quick':
        for _ in range(60):
            words.append([rng.choice([['status', a], ['truncate', rng.randrange(ln)], ['reset', rng.randrange(ln)],
                                      ['status', 404], ['status', 403]]) for _ in range(rng.randint(1, 3))])
    for w in words:
        cases.append(dict(kind='rdburl', mode='rdb', budget=b11, word=w))
    for form in (1, 2, [1, 2]):
        for w in ([['status', a]], [['status', a], ['status', a]], [['status', a], ['truncate', 9]], []):
            cases.append(dict(kind='rdburl', mode='rdb', budget=b11, word=w, retries_form=form))
    return cases


# ------------------------------------------------------------------ evaluation

def evaluate(ctx, s3, cases):
    """Pass 1 drives the implementation, then ONE model-driver call, pass 2 judges.
    Returns list of (case, violation text)."""
    impls, spans, lines = [], [], []
    import zlib
    for case in cases:
        kind = case['kind']
        # a third of the cases have their HTTP errors answered as bare status lines (no body, no Content-Type)
        if 'bare' not in case:
            case['bare'] = zlib.crc32(json.dumps(case, sort_keys=True, default=str).encode()) % 3 == 0
        s3.next_bare = bool(case['bare'])
        if case['bare']:
            ctx.tag('bare-error-responses')
        if kind == 'word':
            impl = run_word_impl(s3, case)
            ls = word_model_lines(case, impl)
        elif kind == 'rdburl':
            impl = run_rdburl_impl(s3, case)
            b, ln, w = enc_budget(impl['budget']), impl['len'], enc_word(case['word'])
            ls = [f'spec {ln} {b} {enc_force(SPEC_FORCE)} {w}', f'req b {ln} {b} {enc_force(SPEC_FORCE)} {w}']
        elif kind == 'bucket':
            impl = run_bucket_impl(s3, case)
            ls = bucket_model_lines(case, impl)
        elif kind == 'token':
            impl = run_token_impl(s3, case)
            ls = [token_model_line(case)]
        elif kind == 'knob':
            impl = run_knob_impl(s3, case)
            ls = []
        elif kind == 'bucketnames':
            impl = run_bucketnames_impl(s3, case)
            ls = []
        else:
            raise Broken(f'unknown case kind {kind}')
        impls.append(impl)
        spans.append((len(lines), len(lines) + len(ls)))
        lines += ls
    replies = common.run_model('C09', lines)
    bad = []
    for case, impl, (lo, hi) in zip(cases, impls, spans):
        kind = case['kind']
        rep = replies[lo:hi]
        v = None
        if kind == 'word':
            v = judge_word(ctx, case, impl, rep[0], rep[1])
            ctx.tag(f"word-{case['mode']}", f"len-{len(case['word'])}", 'impl-' + impl['cls'].split(':')[0])
            for f in case['word'][:impl['n']]:
                ctx.tag('fault-' + f[0] + (f'-{f[1]}' if f[0] == 'status' else ''))
            if case.get('default_cfg'):
                ctx.tag('default-retry-config')
            if case.get('asym'):
                ctx.tag('asymmetric-connect-read-budget')
            ctx.count(('word', case['mode'], enc_budget(impl['budget']), enc_word(case['word']), case['arr']),
                      nontrivial=bool(case['word']),
                      sample={'mode': case['mode'], 'word': enc_word(case['word']), 'impl': case.get('impl'),
                              'spec': case.get('spec')})
        elif kind == 'rdburl':
            v = judge_word(ctx, case, impl, rep[0], rep[1])
            ctx.tag('rdb-from_url', 'impl-' + impl['cls'].split(':')[0])
            ctx.count(('rdburl', enc_word(case['word'])), nontrivial=bool(case['word']),
                      sample={'from_url word': enc_word(case['word']), 'impl': case.get('impl'),
                              'spec': case.get('spec')})
        elif kind == 'bucket':
            v = judge_bucket(ctx, case, impl, rep)
            for c in case['calls']:
                ctx.tag('bucket-' + {'m': 'missing', 'e': 'empty', 'n': 'nonempty'}[c['bs']])
            ctx.tag(f"bucket-calls-{len(case['calls'])}")
            ctx.traces_validated += 1
            ctx.count(('bucket', json.dumps(case['calls'], sort_keys=True)), nontrivial=True,
                      sample={'bucket calls': [(c['bs'], enc_word(c['wc']), enc_word(c['wl'])) for c in case['calls']],
                              'impl': case.get('impl')})
        elif kind == 'token':
            v = judge_token(ctx, case, impl, rep[0])
            ctx.tag('token-' + ('rejected' if impl['cls'] != 'data' else 'accepted'), f"token-stage-{impl['stage']}")
            ctx.count(('token', json.dumps(case['tok'], sort_keys=True), case['scheme'], case['host'],
                       bool(case.get('creds'))), nontrivial=True,
                      sample={'token': case['tok'], 'url': f"{case['scheme']}://{case['host']}", 'impl': case['impl']})
        elif kind == 'bucketnames':
            case['impl'] = impl['calls']
            for (bucket, state), (cls, nlist) in zip(case['calls'], impl['calls']):
                want = ('notfound', None) if state == 'n' else ('unavailable', 1)
                if cls != want[0] or (want[1] is not None and nlist != want[1]):
                    v = (f"404 in bucket {bucket!r} ({'non-empty' if state == 'n' else 'missing' if state == 'm' else 'empty'}) "
                         f'after the calls {case["calls"][:case["calls"].index([bucket, state])]}: got ({cls}, {nlist} '
                         f'listing requests), the documented rule gives {want[0]} (a bucket is identified by its whole name)')
                    break
            ctx.tag('bucket-names')
            ctx.count(('bucketnames', json.dumps(case['calls'])), nontrivial=True)
        else:
            case['impl'] = [impl['cls'], impl['n']]
            if (impl['cls'], impl['n']) != ('auth', 1):
                v = (f"server answers {'403' if case['knob'] == 'forbidden' else '401'} to {case['op']}: expected "
                     f"AuthorisationFailed after exactly 1 request, got {impl['cls']} after {impl['n']}")
            ctx.tag('knob-' + case['knob'])
            ctx.count(('knob', case['knob'], case['op']), nontrivial=True)
        if v:
            bad.append((case, v))
    return bad


# ------------------------------------------------------------------ known-finding matchers

def _buffered(case):
    return case.get('kind') in ('word', 'rdburl') and case.get('mode') == 'rdb'


def m_rdb_stall_not_retried(case, what):
    """stream=False request whose body stalls: StoreUnavailable after that very request, no retry
    (impl agrees with the mirror model, the last request that reached the server carried the stall)."""
    if not _buffered(case) or case.get('impl') != case.get('mirror'):
        return False
    cls, n, _ = case['impl']
    word = case['word']
    return cls == 'unavailable' and 1 <= n <= len(word) and word[n - 1][0] == 'stall'


def m_rdb_status_budget_forgotten(case, what):
    """stream=False request: forcelisted status answer directly followed by a cut/reset body, after
    which the implementation is more patient than the budget allows (agrees with the mirror model)."""
    if not _buffered(case) or case.get('impl') != case.get('mirror'):
        return False
    cls, n, _ = case['impl']
    scls, sn, _ = case['spec']
    word = case['word']
    used = word[:n]
    if any(f[0] == 'stall' for f in used):
        return False
    pair = any(a[0] == 'status' and a[1] in SPEC_FORCE and b[0] in ('truncate', 'reset')
               for a, b in zip(used, used[1:]))
    return pair and scls == 'glitch' and n > sn


MATCHERS = {'c09_rdb_stall_not_retried': m_rdb_stall_not_retried,
            'c09_rdb_status_budget_forgotten': m_rdb_status_budget_forgotten}


# ------------------------------------------------------------------ shrinking / corpus / entry points

def shrink(ctx, s3, case, what):
    if case.get('kind') not in ('word', 'rdburl'):
        return case, what

    def fails(word):
        c = dict(case, word=word)
        c.pop('impl', None)
        probe = common.Ctx(ctx.prop, ctx.tier, ctx.seed)
        probe.matchers = ctx.matchers
        try:
            bad = evaluate(probe, s3, [c])
        except Exception:   # noqa: BLE001
            return False
        return any(probe.violation(cc, vv) for cc, vv in bad)
    word = case['word']
    if len(word) >= 2:
        word = common.ddmin(word, fails)
    c = dict(case, word=word)
    probe = common.Ctx(ctx.prop, ctx.tier, ctx.seed)
    bad = evaluate(probe, s3, [c])
    return (bad[0][0], bad[0][1]) if bad else (case, what)


def corpus_cases():
    d = os.path.join(common.VERIF, 'corpus', 'C09')
    out = []
    if os.path.isdir(d):
        for nm in sorted(os.listdir(d)):
            out.append(json.load(open(os.path.join(d, nm)))['case'])
    return out


def _no_backoff():
    """Retry.sleep would wait 10 s * 2^k with the store's default configuration."""
    return mock.patch.object(Retry, 'sleep', lambda self, response=None: None)


def run(ctx):
    ctx.matchers.update(MATCHERS)
    build = common.build_and_audit('C09', ctx.tier)
    with FastFakeS3() as s3, _no_backoff():
        cases = corpus_cases()
        cases += gen_word_cases(ctx)
        cases += gen_bucket_cases(ctx)
        b11 = dict(total=10, connect=1, read=1, status=1)
        for calls in ([['cb-sdp-l1', 'n'], ['cb-sdp-l1-flags', 'm']], [['cb-sdp-l1', 'n'], ['cb-sdp-l1-flags', 'e']],
                      [['cb-sdp-l1-flags', 'm'], ['cb-sdp-l1', 'n'], ['cb-sdp-l1-flags', 'm']],
                      [['cb', 'n'], ['cb2', 'e'], ['c', 'm'], ['cb', 'n']]):
            cases.append(dict(kind='bucketnames', budget=b11, calls=calls))
        cases += gen_token_cases(ctx)
        cases += gen_misc_cases(ctx)
        bad = evaluate(ctx, s3, cases)
        bad += token_expires_later(ctx, s3)
        bad += store_inference(ctx)
        if not bad and not build['build_ok']:
            ctx.rng.seed(ctx.seed + 7919)
            bad = evaluate(ctx, s3, gen_word_cases(ctx) + gen_bucket_cases(ctx))
        for c, v in bad:
            ctx.violation(c, v)
        ctx.assumptions = ['the body reader rejects every strict prefix of an NPY object as incomplete (C08)',
                           'urllib3 2.x Retry.increment / requests HTTPAdapter exception mapping as installed',
                           'faults occur after the response headers (header-phase resets are StoreUnavailable by '
                           'design: katdal test_persistent_early_reset_connections) and are not in the alphabet']
        return common.finish(ctx, build, RULE, CHECKER, TRUSTED, shrink=lambda c, w: shrink(ctx, s3, c, w))


def replay(ctx, rep):
    ctx.matchers.update(MATCHERS)
    build = common.build_and_audit('C09', 'quick')
    case = rep['case']
    for k in ('impl', 'spec', 'mirror'):
        case.pop(k, None)
    with FastFakeS3() as s3, _no_backoff():
        found = (token_expires_later(ctx, s3) if case.get('kind') == 'token-expires-later' else
                 store_inference(ctx) if case.get('kind') == 'store-inference' else evaluate(ctx, s3, [case]))
        for c, v in found:
            ctx.violation(c, v)
        return common.finish(ctx, build, RULE, CHECKER, TRUSTED)
