/-
  ConcatenatedLazyIndexer, whole request: lifting the head-axis split to the tail axes.
-/
import KatdalModel.Lemmas.ConcatList
open Np Index LazyIx

namespace LazyIx

theorem locate_some_of_lt (lens : List Nat) (g : Nat) (h : g < total lens) :
    ∃ pr, locate lens 0 g = some pr := by
  obtain ⟨k, l, hloc, _⟩ := findIndexer_locate lens 0 0 g (Nat.zero_le _) (by simpa using h)
  exact ⟨(0 + k, l), by simpa using hloc⟩

/-- locating every entry of a list of in-range global positions succeeds, entry by entry -/
theorem mapM_locate_ok (lens : List Nat) : ∀ (gs : List Nat), (∀ g ∈ gs, g < total lens) →
    ∃ prs : List (Nat × Nat),
      gs.mapM (fun g => match locate lens 0 g with
        | some pr => (Except.ok pr : Except Err (Nat × Nat))
        | none => .error .index) = .ok prs ∧
      prs.length = gs.length ∧
      ∀ j, j < gs.length → locate lens 0 (gs.getD j 0) = some (prs.getD j (0, 0)) := by
  intro gs
  induction gs with
  | nil => intro _; exact ⟨[], rfl, rfl, by intro j hj; simp at hj⟩
  | cons g t ih =>
    intro h
    obtain ⟨pr, hpr⟩ := locate_some_of_lt lens g (h g (by simp))
    obtain ⟨prs, hm, hl, hget⟩ := ih (fun x hx => h x (by simp [hx]))
    refine ⟨pr :: prs, ?_, by simp [hl], ?_⟩
    · simp only [List.mapM_cons, hpr, hm]; rfl
    · intro j hj
      cases j with
      | zero => simpa using hpr
      | succ j =>
        have : j < t.length := by simpa using hj
        simpa using hget j this

end LazyIx
