/-
  C19 — Concatenated data sets behave as one long data set.

  "Opening several data sets together orders them by start time and presents timestamps,
   visibilities, flags, weights and every sensor as the concatenation of the parts ..., with
   identical targets, subarrays and spectral windows merged, scan and compscan indices continuing
   across parts, and differing dump periods refused.  Any selection applied to the combined data
   set selects within each part exactly what the same criteria select there once indices are
   translated to the merged catalogue, and indexing across part boundaries returns the same as
   indexing the concatenated arrays."

  Model: KatdalModel/Model/Concat.lean (bookkeeping) and LazyIx.concatHead (index split).
-/
import KatdalModel.Model.Concat
import KatdalModel.Lemmas.ConcatList
import KatdalModel.Lemmas.ConcatTail
import KatdalModel.Lemmas.CatPartition
open Np Index Concat LazyIx

namespace C19

/-- **Chronological order**: the parts are presented sorted by start time, and nothing is lost
    or duplicated (the result is a permutation of the input) -/
theorem c19_order {α} (parts : List (Int × α)) :
    (chrono parts).Pairwise (fun a b => a.1 ≤ b.1) ∧ (chrono parts).Perm parts := by
  refine ⟨?_, List.mergeSort_perm parts _⟩
  have := List.pairwise_mergeSort (le := fun (a b : Int × α) => decide (a.1 ≤ b.1))
    (by intro a b c hab hbc; simp only [decide_eq_true_eq] at *; omega)
    (by intro a b; simp only [decide_eq_true_eq, Bool.or_eq_true]; omega) parts
  unfold chrono
  refine List.Pairwise.imp ?_ this
  intro a b h
  simpa using h

/-- re-joining the per-part views of the time mask gives back the global mask -/
theorem c19_split_join : ∀ (lens : List Nat) (m : List Bool), total lens = m.length →
    (splitMask lens m).flatten = m := by
  intro lens
  induction lens with
  | nil => intro m h; simp [total] at h; simp [splitMask, List.eq_nil_of_length_eq_zero h.symm]
  | cons l t ih =>
    intro m h
    have hl : l ≤ m.length := by
      have : total (l :: t) = l + total t := by
        simp only [total, List.foldl_cons, Nat.zero_add]
        have gen : ∀ (xs : List Nat) (a : Nat), xs.foldl (· + ·) a = a + xs.foldl (· + ·) 0 := by
          intro xs
          induction xs with
          | nil => intro a; simp
          | cons x xs ihx => intro a; simp only [List.foldl_cons]; rw [ihx (a + x), ihx (0 + x)]; omega
        exact gen t l
      omega
    have ht : total t = (m.drop l).length := by
      have : total (l :: t) = l + total t := by
        simp only [total, List.foldl_cons, Nat.zero_add]
        have gen : ∀ (xs : List Nat) (a : Nat), xs.foldl (· + ·) a = a + xs.foldl (· + ·) 0 := by
          intro xs
          induction xs with
          | nil => intro a; simp
          | cons x xs ihx => intro a; simp only [List.foldl_cons]; rw [ihx (a + x), ihx (0 + x)]; omega
        exact gen t l
      simp only [List.length_drop]; omega
    simp only [splitMask, List.flatten_cons, ih (m.drop l) ht, List.take_append_drop]

/-- **Selection translates**: global dump `g` (in part `p` at local position `l` according to the
    part lengths) is selected in the combined data set iff local dump `l` is selected in the view
    handed to part `p` -/
theorem c19_select_translates : ∀ (lens : List Nat) (m : List Bool) (p0 g p l : Nat),
    locate lens p0 g = some (p, l) →
    p0 ≤ p ∧ ((splitMask lens m).getD (p - p0) []).getD l false = m.getD g false := by
  intro lens
  induction lens with
  | nil => intro m p0 g p l h; simp [locate] at h
  | cons len t ih =>
    intro m p0 g p l h
    unfold locate at h
    split at h
    · rename_i hlt
      simp only [Option.some.injEq, Prod.mk.injEq] at h
      obtain ⟨rfl, rfl⟩ := h
      refine ⟨Nat.le_refl _, ?_⟩
      simp only [Nat.sub_self, splitMask, List.getD_cons_zero]
      simp only [List.getD_eq_getElem?_getD, List.getElem?_take, hlt, if_true]
    · rename_i hge
      obtain ⟨h1, h2⟩ := ih (m.drop len) (p0 + 1) (g - len) p l h
      refine ⟨by omega, ?_⟩
      have e : p - p0 = (p - (p0 + 1)) + 1 := by omega
      rw [e]
      simp only [splitMask, List.getD_cons_succ, h2]
      simp only [List.getD_eq_getElem?_getD, List.getElem?_drop]
      congr 2
      omega

/-- differing dump periods are refused, equal ones accepted -/
theorem c19_dump_period_refused (p : Int) (t : List Int) :
    periodsCompatible (p :: t) = true ↔ ∀ q ∈ t, q = p := by
  simp [periodsCompatible]

/-- **Indices continue across parts**: shifting every part's scan (compscan) indices by the
    number of scans in the earlier parts makes the first index of a part exceed every index of
    the earlier parts: no index is shared between parts, and order follows the parts -/
theorem c19_indices_continue : ∀ (parts : List (List Nat × Nat)) (off : Nat),
    (∀ pr ∈ parts, ∀ i ∈ pr.1, i < pr.2) →
    (∀ (lst : List Nat), lst ∈ offsetIndices parts off → ∀ i ∈ lst, off ≤ i) ∧
    (offsetIndices parts off).Pairwise (fun a b => ∀ i ∈ a, ∀ j ∈ b, i < j) := by
  intro parts
  induction parts with
  | nil => intro off _; simp [offsetIndices]
  | cons pr t ih =>
    intro off hb
    obtain ⟨idx, k⟩ := pr
    obtain ⟨ih1, ih2⟩ := ih (off + k) (fun q hq => hb q (List.mem_cons_of_mem _ hq))
    simp only [offsetIndices]
    refine ⟨?_, ?_⟩
    · intro lst hl i hi
      simp only [List.mem_cons] at hl
      rcases hl with rfl | hl
      · simp only [List.mem_map] at hi
        obtain ⟨x, _, rfl⟩ := hi; omega
      · have := ih1 lst hl i hi; omega
    · refine List.pairwise_cons.mpr ⟨?_, ih2⟩
      intro lst hl i hi j hj
      simp only [List.mem_map] at hi
      obtain ⟨x, hx, rfl⟩ := hi
      have hxk := hb (idx, k) (List.mem_cons_self ..) x hx
      have := ih1 lst hl j hj
      simp only at hxk
      omega

/-- **Indexing across part boundaries returns the same as indexing the concatenated arrays**: for
    every supported head index (integer incl. negative, slice with any start/stop and positive
    stride, full-length mask, increasing in-range list) and every non-empty list of part lengths
    (empty parts allowed), the rows read — as (part, position inside the part) pairs, in order —
    are the rows numpy's meaning of the index selects on the concatenation (`locate` walks the
    parts).  (The three lemma files behind it are shared with C05.) -/
theorem c19_index_across_parts (lens : List Nat) (hlens : lens ≠ []) (ix : Ix) :
    (match ix with
      | .int i => -(total lens : Int) ≤ i ∧ i < total lens
      | .slice _ _ c => c.getD 1 > 0
      | .mask m => m.length = total lens
      | .list l => l.Pairwise (· < ·) ∧ ∀ v ∈ l, 0 ≤ v ∧ v < total lens) →
    concatHead lens ix = concatSpec lens ix := by
  cases ix with
  | int i => exact fun h => concatHead_int lens i h
  | slice a b c => exact fun h => concatHead_slice lens hlens a b c h
  | mask m => exact fun h => concatHead_mask lens m h
  | list l => exact fun h => concatHead_list lens l h.1 h.2

/-- **Indexing across part boundaries returns the same as indexing the concatenated arrays, whole
    request**: visibilities, flags and weights of the combined data set are concatenated lazy
    indexers over the parts' arrays; for every supported head (time) index, every non-empty list of
    parts and every frequency / product key given as non-empty position lists, the request answers
    what the same key answers on the concatenation of the parts' arrays under outer indexing - same
    error, or same shape and the same element at every in-bounds coordinate.  (Shared with C05:
    `LazyIx.concatFull_eq_spec`.) -/
theorem c19_getitem_across_parts {α} [Inhabited α] (parts : List (NDArr α)) (hparts : parts ≠ [])
    (tailShape : List Nat) (ix : Ix) (tails : List (List Nat))
    (hG : match ix with
      | .int i => -(total (partLens parts) : Int) ≤ i ∧ i < total (partLens parts)
      | .slice _ _ c => c.getD 1 > 0
      | .mask m => m.length = total (partLens parts)
      | .list l => l.Pairwise (· < ·) ∧ ∀ v ∈ l, 0 ≤ v ∧ v < total (partLens parts))
    (hne : ∀ t ∈ tails, t ≠ []) :
    match concatFullSpec parts tailShape ix tails with
    | .error e => concatFull parts ix tails = .error e
    | .ok s => ∃ r, concatFull parts ix tails = .ok r ∧ r.shape = s.shape ∧
        ∀ js, Index.inBounds s.shape js → r.get js = s.get js :=
  concatFull_eq_spec parts tailShape ix tails
    (c19_index_across_parts _ (partLens_ne_nil parts hparts) ix hG) hne

-- three parts (the middle one empty) with a frequency axis: rows 1 and 3 of the combined array, channels 2 and 0
example : (match concatFull [⟨[2, 3], fun js => js.foldl (· * 10 + ·) 1⟩, ⟨[0, 3], fun _ => 0⟩,
      ⟨[2, 3], fun js => js.foldl (· * 10 + ·) 3⟩] (.slice (some 1) none (some 2)) [[2, 0]] with
    | .ok r => (r.shape, [r.get [0, 0], r.get [0, 1], r.get [1, 0], r.get [1, 1]])
    | .error _ => ([], [])) = ([2, 2], [112, 110, 312, 310]) := by decide

section sensors
open Categorical
variable {V : Type} [DecidableEq V]

/-- **Every categorical sensor of the combined data set is the concatenation of the parts'**: the
    per-dump list of `concatenate_categorical(parts)` is the parts' per-dump lists joined in
    order, over the sum of the parts' dumps (theorem shared with C11). -/
theorem c19_sensor_is_concatenation (parts : List (Cat V)) (hparts : ∀ p ∈ parts, p.Part) (hne : parts ≠ [])
    (rep : Bool) :
    ∃ c, concatenate parts rep = .ok c ∧ c.Part ∧
      c.perDump = (parts.map Cat.perDump).flatten ∧ c.numDumps = (parts.map Cat.numDumps).sum :=
  concat_spec parts hparts hne rep

/-- **Merged target / subarray / spectral-window sensors partitioned back into the parts**
    (concatdata.py:526-541): splitting the merged sensor at the part boundaries gives every part a
    sensor over ONE shared list of unique values (the merged catalogue, so equal indices mean the
    same target in every part) whose per-dump lists, joined, are the merged sensor's. -/
theorem c19_merged_sensor_partitioned (c : Cat V) (h : c.Part) (s1 : Nat) (ss : List Nat)
    (hs : (0 :: s1 :: ss).Pairwise (· < ·)) (hN : (0 :: s1 :: ss).getLastD 0 = c.numDumps) :
    ∃ parts, c.partition (0 :: s1 :: ss) = .ok parts ∧
      (∀ p ∈ parts, p.Part ∧ p.uniq = c.uniq) ∧ parts.length = (s1 :: ss).length ∧
      (parts.map Cat.perDump).flatten = c.perDump := by
  obtain ⟨parts, h1, h2, h3, h4⟩ := partition_spec c h 0 (s1 :: ss) hs (by omega)
  refine ⟨parts, h1, h2, h3, ?_⟩
  rw [h4, hN]
  have hl := perDump_length c h.1
  simp [← hl]

end sensors

example : splitMask [2, 3] [true, false, true, true, false] = [[true, false], [true, true, false]] := by decide
example : offsetIndices [([0, 0, 1], 2), ([0, 1, 1], 2)] 0 = [[0, 0, 1], [2, 3, 3]] := by decide
example : locate [2, 3] 0 3 = some (1, 1) := by decide
-- the head-axis split of the concatenated indexer agrees with indexing the concatenation on
-- concrete boundary-spanning requests (instances of c19_index_across_parts)
example : concatHead [3, 3] (.slice (some 1) (some 6) (some 2)) = concatSpec [3, 3] (.slice (some 1) (some 6) (some 2)) := by decide
example : concatHead [2, 0, 3] (.list [1, 2, 4]) = concatSpec [2, 0, 3] (.list [1, 2, 4]) := by decide

end C19
