import Driver.Common
import KatdalModel.Model.TimeFreq
open Np Index Drv TimeFreq

/-! Line protocol of the C17 model driver.  Rationals travel as `num/den` (or plain integers).

    open <cfg> <pre> <sd> <sc>      mirror model: openV4 then observe
    spec <cfg> <pre> <sd> <sc>      spec: whole data set, same ranges, later selection relative
         cfg = sync,first,int,off,T,F,cbf|_,cmc2,cbf4k,centre,bw,d1,d2,d3   (comma separated)
         pre = <dumps>|<channels>|<extra>   with value `_` (absent) | `s:a:b:c` | `x` (not a slice),
               extra `-` or `;`-joined key names
         sd, sc = `_` or an index (`i:3`, `s:a:b:c`, `m:0110`, `l:1,2`)
       reply  `<ts> <freqs> <dumpPos> <chanPos> <time_offset> <start> <end>`  (lists `;`-joined, `-` empty)
    validate <pre>                  -> ok | E:IndexError
    fix <t> <d1> <d2> <d3> <cmc2> <cbf4k>   -> `<formula> <table>` (0/1 each)
    spw <centre> <width|_> <n> <sb> <bw|_>                -> window description + freqs + edges
    spwsub <centre> <width|_> <n> <sb> <bw|_> <a> <b>     -> sub-range window | E:IndexError
    spwrech <centre> <width|_> <n> <sb> <bw|_> <m>        -> re-channelised window
       window reply `<centre> <width> <bandwidth> <n> <sideband> <freqs> <edgeFirst> <edgeLast>` -/

def parseRat (s : String) : Option Rat :=
  match s.splitOn "/" with
  | [a] => (a.toInt?).map fun (i : Int) => (i : Rat)
  | [a, b] => do
    let n ← a.toInt?
    let d ← b.toNat?
    if d = 0 then none else some (mkRat n d)
  | _ => none

def showRat (r : Rat) : String := if r.den = 1 then toString r.num else s!"{r.num}/{r.den}"

def showRats (l : List Rat) : String := if l.isEmpty then "-" else ";".intercalate (l.map showRat)
def showNats (l : List Nat) : String := if l.isEmpty then "-" else ";".intercalate (l.map toString)

def parseBool (s : String) : Option Bool := if s = "1" then some true else if s = "0" then some false else none

def parseCfg (s : String) : Option Cfg :=
  match s.splitOn "," with
  | [sync, first, int, off, t, f, cbf, cmc2, cbf4k, centre, bw, d1, d2, d3] => do
    let sync ← parseRat sync; let first ← parseRat first; let int ← parseRat int; let off ← parseRat off
    let t ← t.toNat?; let f ← f.toNat?
    let cbf ← if cbf = "_" then some none else (parseRat cbf).map some
    let cmc2 ← parseBool cmc2; let cbf4k ← parseBool cbf4k
    let centre ← parseRat centre; let bw ← parseRat bw
    let d1 ← parseRat d1; let d2 ← parseRat d2; let d3 ← parseRat d3
    pure { sync, first, intTime := int, timeOffset := off, T := t, F := f, cbf, cmc2, cbf4k, centre,
           bandwidth := bw, d1, d2, d3 }
  | _ => none

def parsePreVal (s : String) : Option (Option PreVal) :=
  if s = "_" then some none
  else if s = "x" then some (some .other)
  else match s.splitOn ":" with
    | ["s", a, b, c] => do
      let a ← parseOptInt a; let b ← parseOptInt b; let c ← parseOptInt c
      pure (some (.slice a b c))
    | _ => none

def parsePre (s : String) : Option Preselect :=
  match s.splitOn "|" with
  | [d, c, e] => do
    let d ← parsePreVal d; let c ← parsePreVal c
    pure { dumps := d, channels := c, extra := if e = "-" then [] else e.splitOn ";" }
  | _ => none

def parseOptIx (s : String) : Option (Option Ix) :=
  if s = "_" then some none else (parseIx s).map some

def showObs (o : Obs) (off st en : Rat) : String :=
  s!"{showRats o.ts} {showRats o.freqs} {showNats o.dumpPos} {showNats o.chanPos} {showRat off} {showRat st} {showRat en}"

def parseSpw (c w n sb bw : String) : Option SpW := do
  let c ← parseRat c
  let w ← if w = "_" then some 0 else parseRat w
  let n ← n.toNat?
  let sb ← sb.toInt?
  let bw ← if bw = "_" then some none else (parseRat bw).map some
  pure (SpW.new c w n sb bw)

def showSpw (w : SpW) : String :=
  s!"{showRat w.centre} {showRat w.width} {showRat w.bandwidth} {w.n} {w.sideband} {showRats w.channelFreqs} {showRat w.edgeFirst} {showRat w.edgeLast}"

def step (line : String) : String :=
  match line.splitOn " " with
  | ["open", cfg, pre, sd, sc] =>
    match parseCfg cfg, parsePre pre, parseOptIx sd, parseOptIx sc with
    | some c, some p, some sd, some sc =>
      showExcept (fun (r : Obs × Opened) => showObs r.1 r.2.timeOffset r.2.startT r.2.endT) (do
        let o ← openV4 c p
        let obs ← o.observe sd sc
        pure (obs, o))
    | _, _, _, _ => "bad-op"
  | ["spec", cfg, pre, sd, sc] =>
    match parseCfg cfg, parsePre pre, parseOptIx sd, parseOptIx sc with
    | some c, some p, some sd, some sc =>
      showExcept (fun (r : Obs × Rat × Rat × Rat) => showObs r.1 r.2.1 r.2.2.1 r.2.2.2) (specObserve c p sd sc)
    | _, _, _, _ => "bad-op"
  | ["validate", pre] =>
    match parsePre pre with
    | some p => showExcept (fun _ => "ok") (validatePreselect p)
    | none => "bad-op"
  | ["fix", t, d1, d2, d3, cmc2, cbf4k] =>
    match parseRat t, parseRat d1, parseRat d2, parseRat d3, parseBool cmc2, parseBool cbf4k with
    | some t, some d1, some d2, some d3, some cmc2, some cbf4k =>
      let f := fixApplies (decide (t < d1)) (decide (t < d2)) (decide (t < d3)) cmc2 cbf4k
      let tb := decide (t < fixDate d1 d2 d3 cmc2 cbf4k)
      s!"{if f then 1 else 0} {if tb then 1 else 0}"
    | _, _, _, _, _, _ => "bad-op"
  | ["spw", c, w, n, sb, bw] =>
    match parseSpw c w n sb bw with
    | some w => showSpw w
    | none => "bad-op"
  | ["spwsub", c, w, n, sb, bw, a, b] =>
    match parseSpw c w n sb bw, a.toInt?, b.toInt? with
    | some w, some a, some b => showExcept showSpw (w.subrange a b)
    | _, _, _ => "bad-op"
  | ["spwrech", c, w, n, sb, bw, m] =>
    match parseSpw c w n sb bw, m.toNat? with
    | some w, some m => showSpw (w.rechannelise m)
    | _, _ => "bad-op"
  | _ => "bad-op"

def main : IO Unit := Drv.loop step
