/-
  C09 — S3 transport: transient faults retried within the retry budget, never partial data;
        permanent errors classified; token checks; RDB over HTTP.

  "Against an S3 endpoint that answers a chunk request with any sequence of transient faults
   (HTTP 500, 502, 503, 504, response bodies cut short at any byte, connection resets, stalled
   reads) followed by a good response, the store returns exactly the stored chunk whenever the
   faults fit in the configured retry budget and otherwise reports a missing chunk (server
   glitch); it never returns a partial or altered array. A 404 means a missing chunk only if the
   bucket exists and is non-empty, otherwise the store is unavailable; 401 and 403 are
   authorisation failures that are not retried; malformed, truncated, expired, non-HTTPS or
   out-of-scope bearer tokens are rejected before any request is sent, and RDB files fetched over
   HTTP obey the same rules."

  Model: KatdalModel/Model/S3Transport.lean (mirror of chunkstore_s3.py + urllib3 Retry).
  Spec:  `S3.fits` (urllib3's own counting), `S3.fitsCount` (the three inequalities),
         `S3.specRun` (the documented rule by counting only).

  The body reader is a parameter.  The theorems that need it assume `GoodReader`: it accepts the
  whole object and reports every strict prefix as incomplete — that is the statement of property
  C08's reader theorem for `read_array` behind `_DetectTruncation`; it is an explicit hypothesis
  here, not an axiom.  `c09_never_partial` needs only the weaker "no strict prefix is accepted".
-/
import KatdalModel.Lemmas.S3TransportSpec
open S3 S3.Req

namespace C09

variable {α : Type}

/-! ### concrete objects for the non-vacuity examples -/

/-- three-byte object; the reader wants all three bytes -/
def exBody : List UInt8 := [7, 8, 9]
def exReader : List UInt8 → Rd Nat := fun p => if p.length < 3 then .incomplete else .ok 42
/-- a careless reader that is happy with two bytes -/
def sloppyReader : List UInt8 → Rd Nat := fun p => if p.length < 2 then .incomplete else .ok p.length
def exForce : List Nat := [500, 502, 503, 504]
def exReq (m : Mode) : Req Nat := { forcelist := exForce, mode := m, reader := exReader, body := exBody }
/-- `Retry(total=10, connect=1, read=1, status=1)` -/
def exBudget : Budget := ⟨some 10, some 1, some 1, none, some 1, none⟩
def exEnv : Env := { forcelist := exForce, budget := exBudget, listing := [60, 62] }

theorem exGood : GoodReader (exReq .streaming) 42 := by
  constructor
  · rfl
  · intro k hk
    have : k < 3 := hk
    simp [exReq, exReader, exBody, List.length_take]
    omega

/-! ### 1. transient faults, retry budget -/

/-- For every script `w` of transient faults (forcelisted statuses, bodies cut or reset at any byte
    before the end, stalls) followed by a good answer, every budget: the chunk request returns
    exactly the stored array iff `w` fits the budget as urllib3 counts it, otherwise
    S3ServerGlitch; the number of HTTP requests is the number of absorbed faults plus one. -/
theorem c09_outcome (rq : Req α) (a : α) (hr : GoodReader rq a) (hm : rq.mode = .streaming)
    (budget : Budget) (w : List Fault)
    (hw : ∀ f ∈ w, transient rq.forcelist rq.body.length f = true) :
    rq.request budget w =
      (if fits budget w then .ok a else .error .glitch, absorbed budget w + 1) := by
  have := run_transient rq a hr hm w budget budget 0 hw
  simpa [Req.request] using this

example : (exReq .streaming).request exBudget [.status 503, .truncate 1] = (.ok 42, 3) := by decide
example : (exReq .streaming).request exBudget [.status 503, .truncate 1, .status 500] = (.error .glitch, 3) := by decide
example : (exReq .streaming).request exBudget [.stall, .reset 0] = (.error .glitch, 2) := by decide

/-- "Fits" is what one expects: #faults ≤ total, #status faults ≤ status, #read faults ≤ read
    (counters that are `None` do not constrain), for every budget with non-negative counters. -/
theorem c09_fits_by_counting (budget : Budget) (h : budget.wf = true) (w : List Fault) :
    fits budget w = (room w.length budget.total && room (countStatus w) budget.status &&
                     room (countRead w) budget.read) :=
  fits_eq_fitsCount w budget h

example : fits exBudget [.status 503, .truncate 1] = true ∧ fits exBudget [.truncate 2, .reset 1] = false := by decide

/-- the configuration a store builds from the default `retries=2`: connect 2, read 2, status 5 and a
    joint count of 10 (the harness pins this table as `DEFAULT_BUDGET`) -/
def defaultBudget : Budget := ⟨some 10, some 2, some 2, none, some 5, none⟩

/-- **The default configuration keeps the two budgets apart**: a fault word made of status and body
    faults fits the default budget iff it holds at most 5 status faults and at most 2 body faults -
    the joint count of 10 never binds before one of them does, for words of any length. -/
theorem c09_default_budget_by_kind (w : List Fault) (h : w.length = countStatus w + countRead w) :
    fits defaultBudget w = (decide (countStatus w ≤ 5) && decide (countRead w ≤ 2)) := by
  rw [c09_fits_by_counting defaultBudget (by decide) w]
  simp only [defaultBudget, room]
  by_cases hs : countStatus w ≤ 5 <;> by_cases hr : countRead w ≤ 2 <;>
    simp [hs, hr] <;> omega

/-- ... hence a chunk request against a store in the default configuration returns exactly the
    stored array after ANY mix of up to 5 status faults and up to 2 body faults (7 faults at most),
    and reports a server glitch as soon as one of the two counts is exceeded -/
theorem c09_default_budget_outcome (rq : Req α) (a : α) (hr : GoodReader rq a) (hm : rq.mode = .streaming)
    (w : List Fault) (hw : ∀ f ∈ w, transient rq.forcelist rq.body.length f = true)
    (h : w.length = countStatus w + countRead w) :
    (rq.request defaultBudget w).1 =
      (if countStatus w ≤ 5 ∧ countRead w ≤ 2 then .ok a else .error .glitch) := by
  rw [c09_outcome rq a hr hm defaultBudget w hw, c09_default_budget_by_kind w h]
  by_cases hs : countStatus w ≤ 5 <;> by_cases hr' : countRead w ≤ 2 <;> simp [hs, hr']

example : fits defaultBudget [.status 503, .truncate 1, .status 502, .reset 0, .status 500, .status 504, .status 503] = true ∧
    fits defaultBudget [.status 503, .status 503, .status 503, .status 503, .status 503, .status 503] = false ∧
    fits defaultBudget [.status 500, .truncate 1, .reset 0, .truncate 2] = false := by decide

/-- Refinement: on *every* script (transient or not) the chunk request computes exactly the
    documented rule `specRun`, outcome and request count. -/
theorem c09_outcome_spec (rq : Req α) (a : α) (hr : GoodReader rq a) (hm : rq.mode = .streaming)
    (budget : Budget) (hB : budget.wf = true) (w : List Fault) :
    rq.request budget w =
      (specResult a (specRun rq.forcelist rq.body.length budget 0 0 w 0).1,
       (specRun rq.forcelist rq.body.length budget 0 0 w 0).2) := by
  have h := run_eq_specRun rq a hr hm budget hB w 0 0 budget 0 (by rw [spend_zero]; exact hB)
  rw [spend_zero] at h
  exact h

example : specRun exForce 3 exBudget 0 0 [.truncate 1, .status 404] 0 = (some .notFound, 2) := by decide

/-! ### 2. never partial -/

/-- Whatever the script, the budget and the mode: if the request returns data at all, it is what
    the reader makes of the *whole* stored object, provided the reader accepts no strict prefix. -/
theorem c09_never_partial (rq : Req α) (budget : Budget) (w : List Fault) (a' : α) (m : Nat)
    (hpre : ∀ k, k < rq.body.length → ∀ x, rq.reader (rq.body.take k) ≠ .ok x)
    (h : rq.request budget w = (.ok a', m)) :
    rq.reader rq.body = .ok a' := by
  rcases run_ok rq w budget budget 0 m a' h with h | ⟨k, hk, h⟩
  · exact h
  · exact absurd h (hpre k hk a')

/-- The same through `get_chunk` (bucket verification and the dtype/shape check in between). -/
theorem c09_never_partial_get_chunk (env : Env) (st : Store) (bucket : String) (bs : BucketState)
    (reader : List UInt8 → Rd α) (expect : α → Bool) (body : List UInt8) (wc wl : List Fault) (a' : α)
    (hpre : ∀ k, k < body.length → ∀ x, reader (body.take k) ≠ .ok x)
    (h : (getChunk env st bucket bs reader expect body wc wl).result = .ok a') :
    reader body = .ok a' := by
  unfold getChunk at h
  simp only at h
  generalize hq : Req.request _ env.budget wc = q at h
  obtain ⟨r, n⟩ := q
  cases r with
  | error e =>
    cases e <;> simp only at h <;> try (simp at h)
    · split at h <;> simp at h
  | ok a =>
    simp only at h
    by_cases he : expect a = true
    · simp only [he, if_true, Except.ok.injEq] at h
      subst h
      exact c09_never_partial
        { forcelist := env.forcelist, mode := .streaming, reader := reader, body := body }
        env.budget wc a n hpre hq
    · simp [he] at h

/-- non-vacuity of the hypothesis: with a reader that accepts a prefix the very same loop does
    return a partial result (2 instead of 3 bytes seen) -/
example : ({ exReq .streaming with reader := sloppyReader }).request exBudget [.truncate 2] = (.ok 2, 1) := by decide
example : (exReq .streaming).request exBudget [.truncate 2] = (.ok 42, 2) := by decide

/-! ### 3. 404 and bucket verification -/

/-- 404 on the chunk, honest listing, bucket not yet verified: S3ObjectNotFound (a ChunkNotFound)
    exactly when the bucket lists non-empty, otherwise StoreUnavailable; one listing request;
    the bucket is remembered as verified only in the first case. -/
theorem c09_404 (env : Env) (st : Store) (bucket : String) (bs : BucketState)
    (reader : List UInt8 → Rd α) (expect : α → Bool) (body : List UInt8) (wc : List Fault) (n : Nat)
    (h404 : 404 ∉ env.forcelist) (hnew : bucket ∉ st.verified)
    (hreq : ({ forcelist := env.forcelist, mode := .streaming, reader := reader, body := body } : Req α).request
              env.budget wc = (.error .notFound, n)) :
    let r := getChunk env st bucket bs reader expect body wc []
    r.listRequests = 1 ∧ r.chunkRequests = n ∧
    (bs = .nonEmpty → r.result = .error .notFound ∧ bucket ∈ r.store.verified) ∧
    (bs ≠ .nonEmpty → r.result = .error .unavailable ∧ r.store = st) := by
  simp only [getChunk, hreq]
  cases bs <;>
    simp [verifyBucket, hnew, listReply, Req.request, Req.run, Req.step, Req.onBody,
      Req.processed, h404, raiseForStatus]

/-- A verified bucket is not listed again: the 404 is re-raised as it is, with zero listing
    requests, whatever the bucket looks like by now. -/
theorem c09_404_verified_not_relisted (env : Env) (st : Store) (bucket : String) (bs : BucketState)
    (reader : List UInt8 → Rd α) (expect : α → Bool) (body : List UInt8) (wc wl : List Fault) (n : Nat)
    (hold : bucket ∈ st.verified)
    (hreq : ({ forcelist := env.forcelist, mode := .streaming, reader := reader, body := body } : Req α).request
              env.budget wc = (.error .notFound, n)) :
    let r := getChunk env st bucket bs reader expect body wc wl
    r.result = .error .notFound ∧ r.listRequests = 0 ∧ r.store = st := by
  simp [getChunk, hreq, verifyBucket, hold]

/-- Two consecutive calls: the first verifies the (non-empty) bucket, the second does not list. -/
theorem c09_404_cache (env : Env) (st : Store) (bucket : String) (bs2 : BucketState)
    (reader : List UInt8 → Rd α) (expect : α → Bool) (body : List UInt8) (wc wc2 wl2 : List Fault) (n n2 : Nat)
    (h404 : 404 ∉ env.forcelist) (hnew : bucket ∉ st.verified)
    (hreq : ({ forcelist := env.forcelist, mode := .streaming, reader := reader, body := body } : Req α).request
              env.budget wc = (.error .notFound, n))
    (hreq2 : ({ forcelist := env.forcelist, mode := .streaming, reader := reader, body := body } : Req α).request
              env.budget wc2 = (.error .notFound, n2)) :
    let r1 := getChunk env st bucket .nonEmpty reader expect body wc []
    let r2 := getChunk env r1.store bucket bs2 reader expect body wc2 wl2
    r1.listRequests = 1 ∧ r2.listRequests = 0 ∧ r2.result = .error .notFound := by
  have h1 := c09_404 env st bucket .nonEmpty reader expect body wc n h404 hnew hreq
  simp only at h1
  obtain ⟨hl, _, hne, _⟩ := h1
  have hv := (hne (by trivial)).2
  have h2 := c09_404_verified_not_relisted env _ bucket bs2 reader expect body wc2 wl2 n2 hv hreq2
  simp only at h2
  exact ⟨hl, h2.2.1, h2.1⟩

/-- The listing request itself may fail.  Only a 404 of the listing (the bucket is gone) turns the missing chunk into
    an unavailable store; any other failure of the listing - a server glitch after transient faults beyond the budget,
    an authorisation failure - is what `get_chunk` ends with, unchanged, and the bucket is not remembered as
    verified.  In particular transient faults on the listing never make the store "unavailable". -/
theorem c09_404_listing_failure_passes_through (env : Env) (st : Store) (bucket : String) (bs : BucketState)
    (reader : List UInt8 → Rd α) (expect : α → Bool) (body : List UInt8) (wc wl : List Fault) (n m : Nat) (e : Err)
    (hnew : bucket ∉ st.verified) (he : e ≠ .notFound)
    (hreq : ({ forcelist := env.forcelist, mode := .streaming, reader := reader, body := body } : Req α).request
              env.budget wc = (.error .notFound, n))
    (hlist : ({ forcelist := env.forcelist, mode := .buffered, body := env.listing,
                reader := fun _ => .ok (decide (bs = .nonEmpty)) } : Req Bool).request
              env.budget (wl ++ [listReply bs]) = (.error e, m)) :
    let r := getChunk env st bucket bs reader expect body wc wl
    r.result = .error e ∧ r.listRequests = m ∧ r.chunkRequests = n ∧ r.store = st := by
  simp only [getChunk, hreq, verifyBucket, hnew, if_false, hlist]
  cases e <;> simp_all

-- two 503 on the listing with a budget of one status retry: a server glitch (a missing chunk), not "unavailable"
example : (getChunk exEnv ⟨[]⟩ "b" .nonEmpty exReader (fun _ => true) exBody [.status 404]
    [.status 503, .status 503]).result = .error .glitch := by decide

example : (getChunk exEnv ⟨[]⟩ "b" .nonEmpty exReader (fun _ => true) exBody [.status 404] []).result = .error .notFound := by decide
example : (getChunk exEnv ⟨[]⟩ "b" .empty exReader (fun _ => true) exBody [.status 404] []).result = .error .unavailable := by decide
example : (getChunk exEnv ⟨[]⟩ "b" .missing exReader (fun _ => true) exBody [.status 503, .status 404] []).result = .error .unavailable := by decide
example : (getChunk exEnv ⟨["b"]⟩ "b" .missing exReader (fun _ => true) exBody [.status 404] []).listRequests = 0 := by decide

/-! ### 4. 401 / 403 -/

/-- 401 and 403 end the request at once with AuthorisationFailed — any mode, any budget, whatever
    would have come next — so the request was attempted exactly once (unless the user put the code
    into the status forcelist). -/
theorem c09_auth_not_retried (rq : Req α) (budget : Budget) (code : Nat) (w : List Fault)
    (hcode : code = 401 ∨ code = 403) (hf : code ∉ rq.forcelist) :
    rq.request budget (.status code :: w) = (.error .auth, 1) := by
  rcases hcode with rfl | rfl <;> simp [Req.request, Req.run, Req.step, hf, raiseForStatus]

/-- ... and after a fitting transient prefix `p` it is request number `|p| + 1` that ends it. -/
theorem c09_auth_after_transients (rq : Req α) (a : α) (hr : GoodReader rq a) (hm : rq.mode = .streaming)
    (budget : Budget) (code : Nat) (p w : List Fault)
    (hcode : code = 401 ∨ code = 403) (hf : code ∉ rq.forcelist)
    (hp : ∀ f ∈ p, transient rq.forcelist rq.body.length f = true) (hfit : fits budget p = true) :
    rq.request budget (p ++ .status code :: w) = (.error .auth, p.length + 1) := by
  have h := run_transient_prefix rq a hr hm p (.status code :: w) budget budget 0 hp
  simp only [hfit, if_true] at h
  simp only [Req.request]
  rw [h]
  rcases hcode with rfl | rfl <;> simp [Req.run, Req.step, hf, raiseForStatus]

example : (exReq .streaming).request exBudget [.status 401, .ok] = (.error .auth, 1) := by decide
example : (exReq .buffered).request exBudget [.status 503, .status 403] = (.error .auth, 2) := by decide

/-! ### 5. tokens -/

/-- The token classes the property lists. -/
inductive TokenBad (now : Int) (scheme host : String) (t : Token) (path : String) : Prop
  | malformed (h : t.nparts ≠ 3)                                     -- not exactly two dots
  | undecodable (h : t.headerAlg = none)                             -- header/payload not base64url JSON
  | truncatedSig (h : t.headerAlg = some (some "ES256") ∧ t.sigLen ≠ 86)
  | badSig (h : t.sigDecodable = false)
  | badPayload (h : t.claims = none)
  | badExp (c : Claims) (h : t.claims = some c ∧ c.exp = .nonInt)
  | expired (c : Claims) (v : Int) (h : t.claims = some c ∧ c.exp = .int v ∧ now > v)
  | noPrefix (c : Claims) (h : t.claims = some c ∧ c.prefixes = none)
  | nonHttps (h : scheme ≠ "https" ∧ host ≠ "127.0.0.1")
  | outOfScope (c : Claims) (ps : List String) (h : t.claims = some c ∧ c.prefixes = some ps ∧ pathAllowed ps path = false)

/-- All checks of `_auth_factory`, `decode_jwt`, `_BearerAuth.__init__` and `_BearerAuth.__call__`. -/
def TokenPasses (now : Int) (scheme host : String) (t : Token) (creds : Bool) (path : String) : Prop :=
  creds = false ∧ ¬ (scheme ≠ "https" ∧ host ≠ "127.0.0.1") ∧ t.nparts = 3 ∧
  ∃ alg, t.headerAlg = some alg ∧ ¬ (alg = some "ES256" ∧ t.sigLen ≠ 86) ∧ t.sigDecodable = true ∧
  ∃ c, t.claims = some c ∧ (c.exp = .absent ∨ ∃ v, c.exp = .int v ∧ ¬ now > v) ∧
  ∃ ps, c.prefixes = some ps ∧ pathAllowed ps path = true

/-- Either the token is rejected with zero requests, or every single check passed and the
    request goes out. -/
theorem token_dichotomy (now : Int) (scheme host : String) (t : Token) (creds : Bool)
    (path : String) (rq : Req α) (budget : Budget) (w : List Fault) :
    (∃ e, tokenRequest now scheme host (some t) creds path rq budget w = (.error e, 0) ∧
          (e = .invalidToken ∨ e = .auth)) ∨
    (TokenPasses now scheme host t creds path ∧
      tokenRequest now scheme host (some t) creds path rq budget w = rq.request budget w) := by
  obtain ⟨np, ha, sl, sd, cl⟩ := t
  by_cases hc : creds = true
  · exact .inl ⟨.auth, by simp [tokenRequest, authFactory, hc], .inr rfl⟩
  by_cases hs : scheme ≠ "https" ∧ host ≠ "127.0.0.1"
  · exact .inl ⟨.auth, by simp [tokenRequest, authFactory, hc, hs], .inr rfl⟩
  by_cases h3 : np ≠ 3
  · exact .inl ⟨.invalidToken,
      by simp [tokenRequest, authFactory, bearerInit, decodeJwt, hc, hs, h3, Except.map], .inl rfl⟩
  cases ha with
  | none =>
    exact .inl ⟨.invalidToken,
      by simp [tokenRequest, authFactory, bearerInit, decodeJwt, hc, hs, h3, Except.map], .inl rfl⟩
  | some alg =>
    by_cases hes : alg = some "ES256" ∧ sl ≠ 86
    · exact .inl ⟨.invalidToken,
        by simp [tokenRequest, authFactory, bearerInit, decodeJwt, hc, hs, h3, hes, Except.map], .inl rfl⟩
    cases sd with
    | false =>
      exact .inl ⟨.invalidToken,
        by simp [tokenRequest, authFactory, bearerInit, decodeJwt, hc, hs, h3, hes, Except.map], .inl rfl⟩
    | true =>
      cases cl with
      | none =>
        exact .inl ⟨.invalidToken,
          by simp [tokenRequest, authFactory, bearerInit, decodeJwt, hc, hs, h3, hes, Except.map], .inl rfl⟩
      | some c =>
        obtain ⟨ex, pf⟩ := c
        have good : ∀ (hexp : ex = .absent ∨ ∃ v, ex = .int v ∧ ¬ now > v),
            (∃ e, tokenRequest now scheme host
                (some ⟨np, some alg, sl, true, some ⟨ex, pf⟩⟩) creds path rq budget w = (.error e, 0) ∧
                (e = .invalidToken ∨ e = .auth)) ∨
            (TokenPasses now scheme host ⟨np, some alg, sl, true, some ⟨ex, pf⟩⟩ creds path ∧
              tokenRequest now scheme host (some ⟨np, some alg, sl, true, some ⟨ex, pf⟩⟩) creds path rq budget w
                = rq.request budget w) := by
          intro hexp
          have hdec : decodeJwt now ⟨np, some alg, sl, true, some ⟨ex, pf⟩⟩ = .ok ⟨ex, pf⟩ := by
            rcases hexp with rfl | ⟨v, rfl, hv⟩ <;> simp [decodeJwt, h3, hes] <;> omega
          cases pf with
          | none =>
            exact .inl ⟨.invalidToken,
              by simp [tokenRequest, authFactory, bearerInit, hdec, hc, hs, Except.map], .inl rfl⟩
          | some ps =>
            by_cases hpa : pathAllowed ps path = true
            · refine .inr ⟨⟨by simpa using hc, hs, by simpa using h3, alg, rfl, hes, rfl, ⟨ex, some ps⟩, rfl, hexp,
                ps, rfl, hpa⟩, ?_⟩
              simp [tokenRequest, authFactory, bearerInit, hdec, hc, hs, Except.map, hpa]
            · exact .inl ⟨.invalidToken,
                by simp [tokenRequest, authFactory, bearerInit, hdec, hc, hs, Except.map, hpa], .inl rfl⟩
        cases ex with
        | nonInt =>
          exact .inl ⟨.invalidToken,
            by simp [tokenRequest, authFactory, bearerInit, decodeJwt, hc, hs, h3, hes, Except.map], .inl rfl⟩
        | absent => exact good (.inl rfl)
        | int v =>
          by_cases hn : now > v
          · exact .inl ⟨.invalidToken,
              by simp [tokenRequest, authFactory, bearerInit, decodeJwt, hc, hs, h3, hes, hn, Except.map], .inl rfl⟩
          · exact good (.inr ⟨v, rfl, hn⟩)

theorem tokenBad_not_passes {now : Int} {scheme host : String} {t : Token} {creds : Bool} {path : String}
    (hbad : TokenBad now scheme host t path) : ¬ TokenPasses now scheme host t creds path := by
  rintro ⟨_, hs, h3, alg, hh, hes, hsd, c, hcl, hexp, ps, hp, hpa⟩
  cases hbad with
  | malformed h => exact h h3
  | undecodable h => rw [hh] at h; simp at h
  | truncatedSig h => rw [hh] at h; simp only [Option.some.injEq] at h; exact hes ⟨h.1, h.2⟩
  | badSig h => rw [hsd] at h; simp at h
  | badPayload h => rw [hcl] at h; simp at h
  | badExp c' h =>
    rw [hcl] at h; simp only [Option.some.injEq] at h
    obtain ⟨rfl, h⟩ := h
    rcases hexp with he | ⟨v, he, _⟩ <;> rw [he] at h <;> simp at h
  | expired c' v h =>
    rw [hcl] at h; simp only [Option.some.injEq] at h
    obtain ⟨rfl, he, hn⟩ := h
    rcases hexp with he' | ⟨v', he', hv'⟩ <;> rw [he'] at he <;> simp at he
    subst he; exact hv' hn
  | noPrefix c' h =>
    rw [hcl] at h; simp only [Option.some.injEq] at h
    obtain ⟨rfl, h⟩ := h
    rw [hp] at h; simp at h
  | nonHttps h => exact hs h
  | outOfScope c' ps' h =>
    rw [hcl] at h; simp only [Option.some.injEq] at h
    obtain ⟨rfl, h1, h2⟩ := h
    rw [hp] at h1; simp only [Option.some.injEq] at h1
    subst h1
    rw [hpa] at h2; simp at h2

/-- Every bad token class is rejected with InvalidToken / AuthorisationFailed and **zero** HTTP
    requests, whatever the server would have answered. -/
theorem c09_token_rejected_before_request (now : Int) (scheme host : String) (t : Token) (creds : Bool)
    (path : String) (rq : Req α) (budget : Budget) (w : List Fault)
    (hbad : TokenBad now scheme host t path) :
    ∃ e, tokenRequest now scheme host (some t) creds path rq budget w = (.error e, 0) ∧
         (e = .invalidToken ∨ e = .auth) := by
  rcases token_dichotomy now scheme host t creds path rq budget w with h | ⟨hp, _⟩
  · exact h
  · exact absurd hp (tokenBad_not_passes hbad)

/-- Conversely a token is let through only if it passes every check (so the list of bad classes
    above is complete for the model). -/
theorem c09_token_request_only_if_passes (now : Int) (scheme host : String) (t : Token) (creds : Bool)
    (path : String) (rq : Req α) (budget : Budget) (w : List Fault) (m : Nat) (r : Except Err α) (hm : 0 < m)
    (h : tokenRequest now scheme host (some t) creds path rq budget w = (r, m)) :
    TokenPasses now scheme host t creds path := by
  rcases token_dichotomy now scheme host t creds path rq budget w with ⟨e, he, _⟩ | ⟨hp, _⟩
  · rw [he] at h; simp only [Prod.mk.injEq] at h; omega
  · exact hp

/-- non-vacuity, both ways: a good token lets the request through, each bad one does not -/
def goodToken : Token :=
  { nparts := 3, headerAlg := some (some "ES256"), sigLen := 86, sigDecodable := true,
    claims := some { exp := .int 2000, prefixes := some ["bucket", "x"] } }

example : tokenRequest 1000 "https" "archive" (some goodToken) false "bucket/a/0.npy" (exReq .streaming) exBudget []
    = (.ok 42, 1) := by decide
example : tokenRequest 1000 "http" "127.0.0.1" (some goodToken) false "bucket/a/0.npy" (exReq .streaming) exBudget []
    = (.ok 42, 1) := by decide
example : tokenRequest 3000 "https" "archive" (some goodToken) false "bucket/a/0.npy" (exReq .streaming) exBudget []
    = (.error .invalidToken, 0) := by decide
example : tokenRequest 1000 "http" "archive" (some goodToken) false "bucket/a/0.npy" (exReq .streaming) exBudget []
    = (.error .auth, 0) := by decide
example : tokenRequest 1000 "https" "archive" (some goodToken) false "other/a/0.npy" (exReq .streaming) exBudget []
    = (.error .invalidToken, 0) := by decide
example : tokenRequest 1000 "https" "archive" (some { goodToken with sigLen := 80 }) false "bucket/a" (exReq .streaming) exBudget []
    = (.error .invalidToken, 0) := by decide
example : TokenBad 3000 "https" "archive" goodToken "bucket/a" := .expired _ 2000 ⟨rfl, rfl, by decide⟩

/-! ### 6. RDB files over HTTP (`stream=False`, `_read_object`) -/

/-- An RDB download never returns anything but the complete stored file — unconditionally: the
    buffered path hands nothing to `process` before the full length has arrived. -/
theorem c09_rdb_never_partial (forcelist : List Nat) (file : List UInt8) (budget : Budget) (w : List Fault)
    (got : List UInt8) (m : Nat)
    (h : (rdbRequest forcelist file).request budget w = (.ok got, m)) : got = file := by
  have := run_ok_buffered (rdbRequest forcelist file) rfl w budget budget 0 m got h
  simpa [rdbRequest] using this.symm

/-- Same rules, where they *are* the same: on every script without stalls in which no forcelisted
    status answer is directly followed by a cut/reset body, the RDB request (`stream=False`) and
    the chunk request (`stream=True`) agree on outcome and on the number of requests. -/
theorem c09_rdb_same_rules_partial (rq : Req α)
    (hstrict : ∀ k, k < rq.body.length → rq.reader (rq.body.take k) = .incomplete)
    (budget : Budget) (w : List Fault)
    (hsafe : carrySafe rq.forcelist rq.body.length w = true) (hns : noStall w = true) :
    (mkMode rq .buffered).request budget w = (mkMode rq .streaming).request budget w :=
  (buffered_eq_streaming rq hstrict w hsafe hns).1 budget 0

/-- Whenever a stall-free transient script fits the budget — so the chunk rule promises the data —
    the RDB request delivers the file, after the same number of requests. -/
theorem c09_rdb_fits_gives_data (forcelist : List Nat) (file : List UInt8) (budget : Budget) (w : List Fault)
    (hw : ∀ f ∈ w, transient forcelist file.length f = true) (hns : noStall w = true)
    (hfit : fits budget w = true) :
    (rdbRequest forcelist file).request budget w = (.ok file, w.length + 1) := by
  have := buffered_fits_data (rdbRequest forcelist file) file rfl rfl w budget budget budget 0
    (by simpa [rdbRequest] using hw) hns (Budget.le_refl _) (Budget.le_refl _) hfit
  simpa [Req.request] using this

/-- The full statement "RDB requests obey the same rules as chunk requests" is false for the model
    (and for the code): (1) a stalled body is not retried at all, (2) status retries spent inside
    the adapter are forgotten when the body then breaks, so a script that exceeds the status
    budget still succeeds. -/
theorem c09_rdb_same_rules_full_is_false :
    ¬ (∀ (budget : Budget) (w : List Fault),
        (exReq .buffered).request budget w = (exReq .streaming).request budget w) := by
  intro h
  exact absurd (h exBudget [.stall]) (by decide)

example : (exReq .buffered).request exBudget [.stall] = (.error .unavailable, 1) ∧
          (exReq .streaming).request exBudget [.stall] = (.ok 42, 2) := by decide
example : (exReq .buffered).request exBudget [.status 503, .truncate 1, .status 503] = (.ok 42, 4) ∧
          (exReq .streaming).request exBudget [.status 503, .truncate 1, .status 503] = (.error .glitch, 3) := by decide
example : (rdbRequest exForce exBody).request exBudget [.truncate 2, .status 500] = (.ok exBody, 3) := by decide

/-! ### is_complete uses the same loop -/

/-- `is_complete` is `False` for 404 *and* for an exhausted budget (both are ChunkNotFound);
    authorisation failures propagate. -/
theorem c09_is_complete_auth (env : Env) (body : List UInt8) (code : Nat) (w : List Fault)
    (hcode : code = 401 ∨ code = 403) (hf : code ∉ env.forcelist) :
    isComplete env body (.status code :: w) = (.error .auth, 1) := by
  unfold isComplete
  simp only
  rw [c09_auth_not_retried _ env.budget code w hcode hf]
  simp [Err.isChunkNotFound]

example : isComplete exEnv [] [.status 404] = (.ok false, 1) := by decide
example : isComplete exEnv [] [.status 503, .status 503] = (.ok false, 2) := by decide
example : isComplete exEnv [] [.status 503] = (.ok true, 2) := by decide

end C09
