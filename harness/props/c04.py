"""C04 - two-stage lazy indexing of dask arrays equals composed outer indexing, lazily."""
import itertools
import json

import dask
import dask.array as da
import numpy as np

from harness import common, ixgen
from harness.common import Broken

RULE = ('cases = (shape 1-4 dims, sizes 0-7, random dask chunking, 1-3 nested first-stage index tuples, '
        'second-stage index tuple, 0-2 elementwise transforms, single/joint retrieval, caller mutation); '
        'per-axis indices drawn from int / slice(any start, stop, step) / mask / sorted, unsorted and repeated '
        'int lists / omitted.  non-trivial = model and implementation both return a non-empty array and at least '
        'one axis uses a non-full index; distinct = hash of the encoded request line.  readset cases = counting '
        'DictChunkStore behind get_dask_array with unit-step slice / int stages.')
TRUSTED = ['Lean 4.33 kernel', 'axioms: propext, Classical.choice, Quot.sound only',
           'hand-written model KatdalModel/Model/DaskIndexer.lean tied to /repo by this differential run',
           'dask per-axis application of a normalised index (assumption exercised by every case)',
           'Np layer vs CPython/numpy: harness/np_glue.py exhaustive small-scope comparison']
CHECKER = 'lake build KatdalModel.Props.C04 kd_c04 && lake env lean <#print axioms audit>'

TRANSFORMS = {
    'x3p1': (lambda a: a * 3 + 1),
    'neg': (lambda a: -a),
    'f32': (lambda a: a.astype(np.float32)),
    # not element-wise (shape-preserving): they tell transform(array[first]) from transform(array)[first]
    'cumsum0': (lambda a: np.cumsum(a, axis=0, dtype=a.dtype) if a.ndim else a),
    'flip0': (lambda a: a[::-1] if a.ndim else a),
}
NONELEM = ('cumsum0', 'flip0')


def gen_pseudo_range(rng, n):
    """an uneven increasing list whose first two entries and last entry are those of an evenly spaced one:
    f, f+s, ..., f+(k-1)s with the entries in between off the grid (looks like a range to a test of its ends)"""
    s = rng.randint(2, max(2, (n - 1) // 3))
    k = rng.randint(4, max(4, (n - 1) // s + 1))
    while (k - 1) * s > n - 1 and k > 4:
        k -= 1
    if (k - 1) * s > n - 1:
        return None
    f = rng.randint(0, n - 1 - (k - 1) * s)
    inner = sorted(rng.sample(range(f + s + 1, f + (k - 1) * s), k - 3)) if f + (k - 1) * s - (f + s + 1) >= k - 3 else None
    if inner is None:
        return None
    l = [f, f + s] + inner + [f + (k - 1) * s]
    if all(b - a == s for a, b in zip(l[:-1], l[1:])):
        return None
    if rng.random() < 0.5:
        return ('l', l)
    return ('m', [i in l for i in range(n)])


def gen_axis_ix(rng, n, stage):
    r = rng.random()
    if n >= 7 and rng.random() < 0.08:
        ix = gen_pseudo_range(rng, n)
        if ix is not None:
            return ix
    if r < 0.18:
        return ('s', None, None, None)
    if r < 0.30 and n > 0:
        return ixgen.gen_int(rng, n)
    if r < 0.55:
        return ixgen.gen_slice(rng, n)
    if r < 0.70:
        return ixgen.gen_mask(rng, n)
    if r < 0.88:
        return ixgen.gen_inc_list(rng, n)
    return ixgen.gen_any_list(rng, n)


def gen_tuple(rng, shape, stage):
    ixs = [gen_axis_ix(rng, n, stage) for n in shape]
    # omit trailing axes sometimes
    if ixs and rng.random() < 0.25:
        ixs = ixs[:rng.randint(0, len(ixs))]
    return ixs


def shape_after(shape, ixs):
    out = []
    for k, n in enumerate(shape):
        if k < len(ixs):
            ln = ixgen.np_len(n, ixs[k])
            if ln is not None:
                out.append(ln)
        else:
            out.append(n)
    return out


def gen_case(rng):
    ndim = rng.choice([1, 1, 2, 2, 3, 3, 4])
    shape = [rng.randint(0 if rng.random() < 0.05 else 1, 7 if rng.random() < 0.8 else 10) for _ in range(ndim)]
    chunks = [max(1, rng.randint(1, max(1, n))) for n in shape]
    nstages = rng.choice([1, 1, 1, 2, 3])   # nested first stages
    stages = []
    cur = shape
    for _ in range(nstages):
        k = gen_tuple(rng, cur, 1)
        stages.append(k)
        cur = shape_after(cur, k)
    k2 = gen_tuple(rng, cur, 2)
    elementwise = sorted(t for t in TRANSFORMS if t not in NONELEM)
    tf = [rng.choice(elementwise) for _ in range(rng.choice([0, 0, 1, 2]))]
    if rng.random() < 0.15:
        tf.insert(rng.randint(0, len(tf)), rng.choice(NONELEM))
    # transforms on the PARENT indexers of a nested chain (element-wise, so they commute with the later selections;
    # x3p1 is not idempotent: applying a parent's transform twice shows)
    ptf = [([rng.choice(['x3p1', 'x3p1', 'neg'])] if rng.random() < 0.3 else []) for _ in range(nstages - 1)]
    return dict(kind='chain', shape=shape, chunks=chunks, stages=stages, k2=k2, transforms=tf, ptransforms=ptf,
                joint=rng.random() < 0.25, mutate=rng.random() < 0.3, arr=[rng.random() < 0.5 for _ in range(64)],
                bare=rng.random() < 0.5)


def request_line(case, op='chain'):
    toks = [op, ixgen.enc_shape(case['shape'])] + [ixgen.enc_tuple(k) for k in case['stages']]
    toks.append(ixgen.enc_tuple(case['k2']))
    return ' '.join(toks)


def py_tuple(ixs, arrflags, pos=0):
    return tuple(ixgen.to_py(ix, as_array=arrflags[(pos + j) % len(arrflags)]) for j, ix in enumerate(ixs))


def run_impl(case):
    """Drive the real DaskLazyIndexer.  Returns dict(out=ndarray|None, err=str|None, shape=, dtype=)."""
    from katdal.lazy_indexer import DaskLazyIndexer
    shape = tuple(case['shape'])
    src = np.arange(int(np.prod(shape)), dtype=np.int64).reshape(shape)
    x = da.from_array(src, chunks=tuple(case['chunks'])) if src.size else da.from_array(src, chunks=shape)
    res = dict(out=None, err=None, adv_shape=None, adv_dtype=None, joint_ok=None)
    try:
        cur = x
        keeps = []
        nst = len(case['stages'])
        for si, k in enumerate(case['stages']):
            kp = py_tuple(k, case['arr'], si * 7)
            keeps.append(kp)
            tfs = [TRANSFORMS[t] for t in case['transforms']] if si == nst - 1 else \
                [TRANSFORMS[t] for t in (case.get('ptransforms') or [[]] * nst)[si]]
            cur = DaskLazyIndexer(cur, kp, tfs)
            if case['mutate']:
                # the caller goes on using its own list (building the chain of the next indexer, say): the indexer was
                # given the chain as it stood at construction
                tfs.append(lambda a: a * 0 - 5)
        if case['mutate']:
            for kp in keeps:
                for obj in kp:
                    if isinstance(obj, np.ndarray) and obj.size:
                        obj[...] = obj[::-1].copy() if obj.dtype != bool else ~obj
        k2 = py_tuple(case['k2'], case['arr'], 31)
        if case.get('bare') and len(k2) >= 1 and isinstance(k2[0], list) and \
                all(isinstance(x, slice) and x == slice(None) for x in k2[1:]):
            k2 = k2[0]            # a bare Python list: ONE fancy index on the first axis, not a tuple of indices
            res['bare_list'] = True
        res['adv_shape'] = tuple(cur.shape)
        res['adv_dtype'] = str(cur.dtype)
        with dask.config.set(scheduler='synchronous'):
            out = cur[k2]
            if case['joint']:
                # indexers of different dtypes over the same selection, fetched jointly in a case-dependent order
                group = [cur, DaskLazyIndexer(cur, (), [lambda a: a + 7]),
                         DaskLazyIndexer(cur, (), [lambda a: a.astype(np.float32) * 0.5]),
                         DaskLazyIndexer(cur, (), [lambda a: a % 3 == 0])]
                rot = sum(case['shape']) % len(group)
                group = group[rot:] + group[:rot]
                singly = [np.asarray(g[k2]) for g in group]
                outs = DaskLazyIndexer.get(group, k2)
                res['joint_ok'] = all(o.dtype == e.dtype and o.shape == e.shape and np.array_equal(o, e)
                                      for o, e in zip(outs, singly)) and \
                    np.array_equal(outs[(len(group) - rot) % len(group)], out)
                # indexers of DIFFERENT shapes in one joint fetch (a nested indexer without its parent's first row):
                # an index relative to the end of an axis means each indexer's own end
                if res['joint_ok'] and cur.shape and cur.shape[0] >= 2:
                    shorter = DaskLazyIndexer(cur, (slice(1, None),))
                    try:
                        single_short = np.asarray(shorter[k2])
                    except Exception:   # noqa: BLE001  (the index is not valid for the shorter axis)
                        single_short = None
                    if single_short is not None:
                        for pair in ([cur, shorter], [shorter, cur]):
                            o2 = DaskLazyIndexer.get(pair, k2)
                            want = [out, single_short] if pair[0] is cur else [single_short, out]
                            if not all(a.shape == b.shape and np.array_equal(a, b) for a, b in zip(o2, want)):
                                res['joint_ok'] = False
        res['out'] = np.asarray(out)
    except Exception as e:   # noqa: BLE001 - classification is the point
        res['err'] = type(e).__name__
    return res


def expected_from_model(case, reply):
    """Model reply -> (shape1, expected ndarray) or ('E', name)."""
    if reply.startswith('E:'):
        return ('E', reply[2:])
    sh1, sels = reply.split(' ')
    shape1 = [] if sh1 == '-' else [int(v) for v in sh1.split('x')]
    sels = ixgen.parse_sels(sels)
    shape = tuple(case['shape'])
    src = np.arange(int(np.prod(shape)), dtype=np.int64).reshape(shape)
    exp = ixgen.apply_sels(src, sels)
    for stage_tfs in (case.get('ptransforms') or []):
        for t in stage_tfs:
            exp = TRANSFORMS[t](exp)
    for t in case['transforms']:
        exp = TRANSFORMS[t](exp)
    return (shape1, exp, sels)


def in_grammar(case):
    """Valid per numpy for every stage: decided by the *spec* reply not being an error."""
    return True


def judge(ctx, case, mreply, sreply, impl):
    """Compare implementation with the model (M) and the spec (S).  Returns violation text or None."""
    m = expected_from_model(case, mreply)
    s = expected_from_model(case, sreply)
    if s[0] == 'E':
        # invalid request per numpy (out of range, zero step, wrong mask length): the property is
        # silent; only log disagreement about error-ness
        ctx.tag('invalid-request')
        if impl['err'] is None:
            ctx.advise(f'impl answered an invalid request {request_line(case)}')
        return None
    shape1, exp, sels = s
    if any(t in NONELEM for t in case['transforms']):
        # transform(array[first stage])[second stage] with a transform that is not element-wise: the two
        # selections are taken from the model separately and the transform chain is applied in between
        ctx.tag('non-elementwise-transform')
        ra = common.run_model('C04', [request_line(dict(case, k2=[]), 'specchain')])[0]
        if ra.startswith('E:'):
            return None
        sh1, s1 = ra.split(' ')
        rb = common.run_model('C04', [f"spec {sh1} {ixgen.enc_tuple(case['k2'])}"])[0]
        if rb.startswith('E:'):
            return None
        src = np.arange(int(np.prod(case['shape'])), dtype=np.int64).reshape(tuple(case['shape']))
        mid = ixgen.apply_sels(src, ixgen.parse_sels(s1))
        for stage_tfs in (case.get('ptransforms') or []):
            for t in stage_tfs:
                mid = TRANSFORMS[t](mid)
        for t in case['transforms']:
            mid = TRANSFORMS[t](mid)
        exp = ixgen.apply_sels(mid, ixgen.parse_sels(rb.split(' ')[-1]))
    if impl['err'] is not None:
        return f"implementation raised {impl['err']} where outer indexing gives shape {exp.shape}"
    out = impl['out']
    if impl['adv_shape'] != tuple(shape1):
        return f"advertised shape {impl['adv_shape']} != shape of array[first stage] {tuple(shape1)}"
    if out.shape != exp.shape:
        return f'result shape {out.shape} != outer-indexing shape {exp.shape}'
    if not np.array_equal(out, exp):
        return f'result differs from transform(array[first stage])[second stage]: got {out.ravel()[:12].tolist()} expected {exp.ravel()[:12].tolist()}'
    if out.dtype != exp.dtype:
        return f'dtype {out.dtype} != {exp.dtype}'
    if impl['adv_dtype'] != str(exp.dtype):
        return f"advertised dtype {impl['adv_dtype']} != result dtype {exp.dtype}"
    if case['joint'] and impl['joint_ok'] is False:
        return 'joint get() differs from one-by-one retrieval'
    if m[0] == 'E' or not np.array_equal(m[1], exp):
        ctx.advise(f'mirror model differs from spec on {request_line(case)} (impl agrees with spec)')
    return None


# ---------------------------------------------------------------- read-set / laziness cases

def gen_readset_case(rng):
    ndim = rng.choice([1, 2, 3])
    chunks = []
    for _ in range(ndim):
        nch = rng.randint(1, 4)
        chunks.append([rng.randint(1, 3) for _ in range(nch)])
    shape = [sum(c) for c in chunks]

    def contiguous(n):
        r = rng.random()
        if r < 0.2:
            return ('s', None, None, None)
        if r < 0.4 and n:
            return ('i', rng.randint(-n, n - 1))
        a = rng.randint(0, n)
        b = rng.randint(a, n)
        if rng.random() < 0.3:
            a, b = a - n if a < n else a, b - n if (b < n and rng.random() < 0.5) else b
        return ('s', a, b, rng.choice([None, 1]))
    k1 = [contiguous(n) for n in shape]
    sh1 = shape_after(shape, k1)
    k2 = [contiguous(n) for n in sh1]
    return dict(kind='readset', shape=shape, chunklists=chunks, stages=[k1], k2=k2, transforms=[], joint=False,
                mutate=False, arr=[True])


CALLS = []    # module-level: dask copies the store object into its graph, a closure list would be copied too


from katdal.chunkstore_dict import DictChunkStore  # noqa: E402


class CountingStore(DictChunkStore):
    """Top-level (importable) so that pickling it by reference keeps CALLS shared."""

    tag = 0

    def get_chunk(self, array_name, slices, dtype):
        CALLS.append((self.tag,) + tuple((s.start, s.stop) for s in slices))
        return super().get_chunk(array_name, slices, dtype)


def _make_counting_store(**arrays):
    return CountingStore(**arrays)


def run_readset_impl(case):
    from katdal.lazy_indexer import DaskLazyIndexer
    calls = CALLS
    shape = tuple(case['shape'])
    chunks = tuple(tuple(c) for c in case['chunklists'])
    src = np.arange(int(np.prod(shape)), dtype=np.int64).reshape(shape)
    store = _make_counting_store(x=np.zeros(shape, dtype=np.int64))
    store2 = _make_counting_store(x=np.zeros(shape, dtype=np.int64))
    store2.tag = 1
    with dask.config.set(scheduler='synchronous'):
        store.put_dask_array('x', da.from_array(src, chunks=chunks)).compute()
        store2.put_dask_array('x', da.from_array(src + 100000, chunks=chunks)).compute()
        del calls[:]      # DictChunkStore.put_chunk itself calls get_chunk
        arr = store.get_dask_array('x', chunks, np.int64)
        arr2 = store2.get_dask_array('x', chunks, np.int64)
        res = dict(err=None)
        try:
            k1 = py_tuple(case['stages'][0], [True])
            ind = DaskLazyIndexer(arr, k1)
            _ = ind.shape, ind.dtype, ind.dataset, (len(ind) if ind.shape else 0)
            _ = str(ind), repr(ind)
            res['reads_before'] = len(calls)
            k2 = py_tuple(case['k2'], [True])
            out = ind[k2]
            res['out'] = np.asarray(out)
            res['calls'] = [c[1:] for c in calls if c[0] == 0]
            # joint retrieval across two stores holding a same-named array with different content
            del calls[:]
            ind_a, ind_b = DaskLazyIndexer(arr, k1), DaskLazyIndexer(arr2, k1)
            ja, jb = DaskLazyIndexer.get([ind_a, ind_b], k2)
            res['joint_ok'] = bool(np.array_equal(ja, res['out']) and np.array_equal(jb, res['out'] + 100000))
            res['joint_calls'] = (sorted(c[1:] for c in calls if c[0] == 0), sorted(c[1:] for c in calls if c[0] == 1))
            # joint retrieval of several indexers over the SAME stored array (plain, transformed, nested): every
            # overlapping chunk is still read once
            del calls[:]
            same = [DaskLazyIndexer(arr, k1), DaskLazyIndexer(arr, k1, [lambda a: a * 3 + 1]),
                    DaskLazyIndexer(DaskLazyIndexer(arr, k1), ())]
            outs = DaskLazyIndexer.get(same, k2)
            res['same_ok'] = bool(np.array_equal(outs[0], res['out']) and np.array_equal(outs[1], res['out'] * 3 + 1)
                                  and np.array_equal(outs[2], res['out']))
            res['same_calls'] = sorted(c[1:] for c in calls if c[0] == 0)
            # a lazy array restricted to a window that is empty on its first axis only (on a chunk boundary): no stored
            # chunk overlaps it, so nothing is read, and the result is the empty array of the right shape
            if len(shape) >= 2:
                del calls[:]
                c0 = chunks[0][0]
                win = (slice(c0, c0),) + tuple(slice(0, n) for n in shape[1:])
                try:
                    out_e = np.asarray(DaskLazyIndexer(store.get_dask_array('x', chunks, np.int64, index=win))[()])
                    res['empty_window'] = (out_e.shape, len([c for c in calls if c[0] == 0]))
                except Exception as e:   # noqa: BLE001
                    res['empty_window'] = (type(e).__name__, len([c for c in calls if c[0] == 0]))
        except Exception as e:   # noqa: BLE001
            res['err'] = type(e).__name__
    return res


def expected_chunks(case, sels, model_overlap):
    """Region from composed sels -> set of chunk (start, stop) tuples overlapping it."""
    per_axis = []
    for ax, (kind, v) in enumerate(sels):
        sizes = case['chunklists'][ax]
        if kind == 'o':
            lo, hi = v, v + 1
        else:
            if not v:
                return []
            lo, hi = v[0], v[-1] + 1
        idxs = model_overlap(sizes, lo, hi)
        starts = np.cumsum([0] + sizes)
        per_axis.append([(int(starts[i]), int(starts[i + 1])) for i in idxs])
    return sorted(itertools.product(*per_axis))


# ---------------------------------------------------------------- driver

def evaluate(ctx, cases):
    """Run model + implementation on cases; returns list of (case, violation_text)."""
    lines = []
    for c in cases:
        lines.append(request_line(c, 'chain'))
        lines.append(request_line(c, 'specchain'))
    replies = common.run_model('C04', lines)
    bad = []
    for i, c in enumerate(cases):
        mrep, srep = replies[2 * i], replies[2 * i + 1]
        if c['kind'] == 'chain':
            impl = run_impl(c)
            v = judge(ctx, c, mrep, srep, impl)
            nontriv = (impl['out'] is not None and impl['out'].size > 0
                       and any(ix != ('s', None, None, None) for k in c['stages'] + [c['k2']] for ix in k))
            for k in c['stages'] + [c['k2']]:
                for ix in k:
                    ctx.tag('ix-' + ix[0] + ('-negstep' if ix[0] == 's' and (ix[3] or 1) < 0 else ''))
            ctx.tag(f"stages-{len(c['stages'])}", f"ndim-{len(c['shape'])}",
                    'err' if impl['err'] else 'ok')
            ctx.count(lines[2 * i], nontriv, sample={'request': lines[2 * i], 'model': mrep[:120]})
        else:
            impl = run_readset_impl(c)
            v = None
            s = expected_from_model(c, srep)
            if s[0] == 'E':
                ctx.tag('invalid-request')
            elif impl['err']:
                v = f"implementation raised {impl['err']} on contiguous request"
            else:
                shape1, exp, sels = s
                if impl['reads_before']:
                    v = f"{impl['reads_before']} chunk reads before any element was requested"
                elif not np.array_equal(impl['out'], exp):
                    v = 'read-set case returned wrong data'
                else:
                    def model_overlap(sizes, lo, hi):
                        r = common.run_model('C04', [f"overlap {','.join(map(str, sizes))} {lo} {hi}"])[0]
                        return [int(x) for x in r.split(',')] if r else []
                    want = expected_chunks(c, sels, model_overlap)
                    got = sorted(impl['calls'])
                    if exp.size == 0:
                        # empty region: the property's overlap notion is degenerate (dask fetches one
                        # chunk to build a zero-size block); only "no chunk twice" is demanded
                        ctx.tag('readset-empty')
                        if len(set(got)) != len(got):
                            v = f'empty request read a chunk more than once: {got}'
                    elif got != want:
                        v = f'chunks read {got} != chunks overlapping the requested region {want}'
                    if v is None and impl.get('joint_ok') is False:
                        v = ('joint get() over two stores holding a same-named array returned arrays that differ '
                             'from fetching the indexers one by one')
                    elif v is None and exp.size and impl.get('joint_calls') is not None and \
                            (impl['joint_calls'][0] != want or impl['joint_calls'][1] != want):
                        v = (f"joint get() read chunks {impl['joint_calls']} instead of the overlapping chunks "
                             f'{want} from each store once')
                    if v is None and impl.get('same_ok') is False:
                        v = 'joint get() of indexers over one stored array differs from fetching them one by one'
                    elif v is None and exp.size and impl.get('same_calls') is not None and impl['same_calls'] != want:
                        v = (f"joint get() of three indexers over one stored array read chunks {impl['same_calls']} "
                             f'instead of each overlapping chunk {want} once')
                    if v is None and impl.get('empty_window') is not None:
                        shp, nread = impl['empty_window']
                        if shp != (0,) + tuple(c['shape'][1:]) or nread:
                            v = (f'a lazy array restricted to a window that is empty on the first axis gave {shp} after '
                                 f'{nread} chunk read(s); expected an empty array of shape '
                                 f'{(0,) + tuple(c["shape"][1:])} and no read')
                    ctx.traces_validated += 1
                ctx.tag('readset')
            ctx.count(lines[2 * i], impl.get('out') is not None and impl['out'].size > 0,
                      sample={'request': lines[2 * i], 'chunks': c['chunklists']})
        if v:
            bad.append((c, v))
    return bad


def still_fails(ctx_proto, case):
    ctx = common.Ctx(ctx_proto.prop, ctx_proto.tier, ctx_proto.seed)
    try:
        return bool(evaluate(ctx, [case]))
    except Exception:   # noqa: BLE001
        return False


def shrink(ctx, case, what):
    """Greedy simplification: replace indices by full slices, drop transforms/stages/flags."""
    if case.get('kind') == 'shapechange':
        return case, what
    cur = json.loads(json.dumps(case))
    cur['stages'] = [[tuple(i) for i in k] for k in cur['stages']]
    cur['k2'] = [tuple(i) for i in cur['k2']]

    def norm(c):
        c['stages'] = [[tuple(i) for i in k] for k in c['stages']]
        c['k2'] = [tuple(i) for i in c['k2']]
        return c
    changed = True
    while changed:
        changed = False
        cands = []
        if cur['transforms']:
            cands.append(dict(cur, transforms=[]))
        if cur.get('joint'):
            cands.append(dict(cur, joint=False))
        if cur.get('mutate'):
            cands.append(dict(cur, mutate=False))
        full = ('s', None, None, None)
        for si, k in enumerate(cur['stages']):
            for ai, ix in enumerate(k):
                if ix != full and ix[0] != 'i':
                    k2 = [list(x) for x in cur['stages']]
                    k2[si][ai] = full
                    cands.append(dict(cur, stages=k2))
        for ai, ix in enumerate(cur['k2']):
            if ix != full and ix[0] != 'i':
                k2 = list(cur['k2'])
                k2[ai] = full
                cands.append(dict(cur, k2=k2))
        for cand in cands:
            cand = norm(json.loads(json.dumps(cand)))
            if still_fails(ctx, cand):
                cur, changed = cand, True
                break
    bad = evaluate(common.Ctx(ctx.prop, ctx.tier, ctx.seed), [cur])
    return cur, (bad[0][1] if bad else what)


def m_dask_zero_chunk(case, what):
    """known finding: dask mishandles zero-width chunks left by strided slicing (ValueError
    'range() arg 3 must not be zero' / 'Missing dependency', or wrong shapes of zero-size arrays)"""
    if case.get('kind') != 'chain':
        return False
    def progression(ix):
        # an integer list that katdal's _range_to_slice turns into a strided slice
        if ix[0] != 'l' or len(ix[1]) < 2:
            return False
        d = ix[1][1] - ix[1][0]
        return abs(d) > 1 and all(b - a == d for a, b in zip(ix[1][:-1], ix[1][1:]))
    strided = any((ix[0] == 's' and ix[3] is not None and abs(ix[3]) > 1) or progression(ix)
                  for k in case['stages'] + [case['k2']] for ix in k)
    symptom = ('raised ValueError' in what or 'raised IndexError' in what or 'shape' in what)
    return strided and symptom


def m_dask_negstep(case, what=''):
    """known finding: negative-step slice with explicit start below -len (dask normalize_slice)"""
    def hit(ix, n):
        return ix[0] == 's' and ix[3] is not None and ix[3] < 0 and ix[1] is not None and ix[1] + n < 0
    shape = case['shape']
    cur = list(shape)
    for k in case['stages'] + [case['k2']]:
        for ai, ix in enumerate(k):
            if ai < len(cur) and hit(ix, cur[ai]):
                return True
        cur = shape_after(cur, k)
    return False


def corpus_cases():
    import os
    d = os.path.join(common.VERIF, 'corpus', 'C04')
    out = []
    if os.path.isdir(d):
        for nm in sorted(os.listdir(d)):
            c = json.load(open(os.path.join(d, nm)))['case']
            c['stages'] = [[tuple(i) for i in k] for k in c['stages']]
            c['k2'] = [tuple(i) for i in c['k2']]
            out.append(c)
    return out


SHAPE_CHANGING = {
    'sumlast': (lambda a: a.sum(axis=-1) if a.ndim else a),
    'pair': (lambda a: np.stack([a, -a], axis=-1)),
    'head2': (lambda a: a[:2] if a.ndim else a),
}


def shape_changing(ctx, n):
    """transform chains that add, drop or shorten an axis: the shape and length an indexer advertises BEFORE anything
    was fetched are those of the full result; with and without a first-stage selection, and for a nested child that
    only adds transforms"""
    from katdal.lazy_indexer import DaskLazyIndexer
    rng = ctx.rng
    bad = []
    for _ in range(n):
        ndim = rng.choice([1, 2, 2, 3])
        shape = [rng.randint(1, 5) for _ in range(ndim)]
        chunks = [max(1, rng.randint(1, k)) for k in shape]
        src = np.arange(int(np.prod(shape)), dtype=np.int64).reshape(shape)
        x = da.from_array(src, chunks=tuple(chunks))
        names = [rng.choice(sorted(SHAPE_CHANGING)) for _ in range(rng.randint(1, 2))]
        if rng.random() < 0.4:
            names.insert(rng.randint(0, len(names)), rng.choice(['x3p1', 'f32']))
        tfs = [SHAPE_CHANGING.get(t) or TRANSFORMS[t] for t in names]
        mode = rng.choice(['nofirst', 'first', 'child'])
        k1 = gen_tuple(rng, shape, 1) if mode == 'first' else []
        # (negative-step slices are left to the chain cases, where the recorded dask defect has its matcher)
        k1 = [(('s', None, None, None) if ix[0] == 's' and (ix[3] or 1) < 0 else ix) for ix in k1]
        case = dict(kind='shapechange', shape=shape, chunks=chunks, transforms=names, mode=mode, k1=k1)
        rep = common.run_model('C04', [f"specchain {ixgen.enc_shape(shape)} {ixgen.enc_tuple(k1)} {ixgen.enc_tuple([])}"])[0]
        if rep.startswith('E:'):
            continue
        exp = ixgen.apply_sels(src, ixgen.parse_sels(rep.split(' ')[1]))
        for t in tfs:
            exp = t(exp)
        what = None
        try:
            kp = py_tuple(k1, [rng.random() < 0.5 for _ in range(8)])
            if mode == 'child':
                ind = DaskLazyIndexer(DaskLazyIndexer(x, ()), (), tfs)
            else:
                ind = DaskLazyIndexer(x, kp, tfs)
            first = rng.choice(['shape', 'len', 'shape'])
            adv_len = len(ind) if first == 'len' and exp.ndim else None
            adv = tuple(ind.shape)
            with dask.config.set(scheduler='synchronous'):
                out = np.asarray(ind[()] if rng.random() < 0.5 else ind[tuple(slice(None) for _ in exp.shape)])
            if adv != exp.shape:
                what = (f'an indexer with transforms {names} ({mode}) advertises shape {adv} before the first fetch; the '
                        f'full result has shape {exp.shape}')
            elif adv_len is not None and adv_len != exp.shape[0]:
                what = f'len() before the first fetch is {adv_len}, the full result has {exp.shape[0]} rows'
            elif out.shape != exp.shape or not np.array_equal(out, exp):
                what = f'transforms {names} ({mode}): result differs from the chain applied to array[first stage]'
            elif tuple(ind.shape) != exp.shape or str(ind.dtype) != str(exp.dtype):
                what = f'after the fetch the indexer advertises {tuple(ind.shape)} {ind.dtype}, result is {exp.shape} {exp.dtype}'
        except Exception as e:   # noqa: BLE001
            what = f'transforms {names} ({mode}) raised {type(e).__name__}: {str(e)[:100]}'
        ctx.tag('shape-changing-transform-' + mode)
        ctx.count(('shapechange', json.dumps(case, sort_keys=True)), True, sample={'shapechange': names, 'mode': mode})
        if what:
            bad.append((case, what))
    return bad


def run(ctx):
    ctx.matchers['c04_dask_negstep_start_below_minus_len'] = m_dask_negstep
    ctx.matchers['c04_dask_zero_width_chunk'] = m_dask_zero_chunk
    build = common.build_and_audit('C04', ctx.tier)
    from harness import np_glue
    n_glue, glue_bad = np_glue.run()
    if glue_bad:
        raise Broken(f'Np layer disagrees with CPython/numpy on {len(glue_bad)} of {n_glue} exhaustive small-scope '
                     f'comparisons, e.g. {glue_bad[0]}')
    ctx.extra['np_layer_glue_test'] = {'comparisons': n_glue, 'mismatches': 0, 'kind': 'exhaustive small scope (a test)'}
    n_chain = ctx.q(700, 30000)
    n_read = ctx.q(120, 3000)
    cases = corpus_cases()
    cases += [gen_case(ctx.rng) for _ in range(n_chain)]
    cases += [gen_readset_case(ctx.rng) for _ in range(n_read)]
    bad = evaluate(ctx, cases)
    bad += shape_changing(ctx, ctx.q(60, 2000))
    if not bad and not build['build_ok']:
        # proof obligation broken: extended search before reporting no-failing-input-found
        more = [gen_case(ctx.rng) for _ in range(10 * n_chain)]
        bad = evaluate(ctx, more)
    for c, v in bad:
        ctx.violation(c, v)
    ctx.assumptions = ['dask applies a normalised per-axis index with numpy per-axis meaning',
                       'arrays hold coordinate codes, so element identity is visible in values']
    return common.finish(ctx, build, RULE, CHECKER, TRUSTED, shrink=lambda c, w: shrink(ctx, c, w))


def replay(ctx, rep):
    ctx.matchers['c04_dask_negstep_start_below_minus_len'] = m_dask_negstep
    ctx.matchers['c04_dask_zero_width_chunk'] = m_dask_zero_chunk
    build = common.build_and_audit('C04', 'quick')
    c = rep['case']
    if c.get('kind') == 'shapechange':
        # drawn from the seed: replay re-runs that stream
        for cc, v in shape_changing(ctx, 2000):
            ctx.violation(cc, v)
        return common.finish(ctx, build, RULE, CHECKER, TRUSTED)
    c['stages'] = [[tuple(i) for i in k] for k in c['stages']]
    c['k2'] = [tuple(i) for i in c['k2']]
    for cc, v in evaluate(ctx, [c]):
        ctx.violation(cc, v)
    return common.finish(ctx, build, RULE, CHECKER, TRUSTED)
