/-
  C02 — select() criteria combine as documented, whatever the call history.

  "After any sequence of select() calls the selection equals, per dimension (time, frequency,
   correlation product), the AND of the criteria given in the most recent call that mentioned that
   dimension, with OR across the items inside one criterion and untouched dimensions left as they
   were; reset='' instead ANDs the new criteria onto the existing selection, an explicit reset
   clears the named dimensions and select() without arguments clears everything.  Repeating a
   call changes nothing, keyword order is irrelevant, and each criterion keeps exactly the dumps,
   channels or products its documentation describes ..."

  Model `Select.select` mirrors dataset.py (masks + insertion-ordered `_selection` dict, every stored
  criterion re-applied on every call); spec `Select.specStep` is the documented rule with no dict.
-/
import KatdalModel.Lemmas.SelectLemmas
open Np Index Select

namespace C02

/-- well-formedness of a criterion / call against the base masks: masks have the axis length,
    and the keys of one call are distinct (they come from a Python kwargs dict) -/
def CritWF (base : Masks) (c : Crit) : Prop := c.mask.length = (base.get c.key.dim).length
def CallWF (base : Masks) (c : Call) : Prop :=
  (∀ k ∈ c.crits, CritWF base k) ∧ (c.crits.map (·.key)).Nodup

/-- the invariant that makes re-applying stored criteria harmless: every mask has its axis
    length and every stored criterion already contains the current mask of its dimension -/
def Inv (base : Masks) (σ : St) : Prop :=
  (∀ d, (σ.masks.get d).length = (base.get d).length) ∧
  (∀ c ∈ σ.sel, CritWF base c ∧
    ∀ i, (σ.masks.get c.key.dim).getD i false = true → c.mask.getD i false = true)

theorem inv_init (base : Masks) : Inv base (init base) :=
  ⟨fun _ => rfl, fun c hc => by simp [init] at hc⟩

/-- one dimension of one call: mirror = spec, and the invariant is re-established -/
theorem dim_step (base : Masks) (σ : St) (c : Call) (hI : Inv base σ) (hW : CallWF base c) (d : Dim) :
    let m1 := if cleared c d then base.get d else σ.masks.get d
    let sel2 := c.crits.foldl upsert (σ.sel.filter (fun k => !cleared c k.key.dim))
    andAll m1 sel2 d = andAll m1 c.crits d ∧
    (andAll m1 sel2 d).length = (base.get d).length ∧
    ∀ k ∈ sel2, k.key.dim = d → CritWF base k ∧
      ∀ i, (andAll m1 sel2 d).getD i false = true → k.mask.getD i false = true := by
  intro m1 sel2
  obtain ⟨hlen, hsel⟩ := hI
  obtain ⟨hwf, hnd⟩ := hW
  have hm1len : m1.length = (base.get d).length := by
    simp only [m1]; split
    · rfl
    · exact hlen d
  have hmem := mem_foldl_upsert c.crits (σ.sel.filter (fun k => !cleared c k.key.dim)) hnd
  have hsel2wf : ∀ k ∈ sel2, CritWF base k := by
    intro k hk
    rcases (hmem k).mp hk with h | ⟨h, _⟩
    · exact hwf k h
    · exact (hsel k ((List.mem_filter.mp h).1)).1
  have hcl2 : critsLen sel2 d m1.length := by
    intro k hk hkd
    have := hsel2wf k hk
    unfold CritWF at this
    rw [hkd] at this
    omega
  have hclc : critsLen c.crits d m1.length := by
    intro k hk hkd
    have := hwf k hk
    unfold CritWF at this
    rw [hkd] at this
    omega
  have hl2 := andAll_length d sel2 m1 hcl2
  have hlc := andAll_length d c.crits m1 hclc
  -- old criteria that survive contain m1 already
  have hold : ∀ k ∈ sel2, k ∉ c.crits → k.key.dim = d → ∀ i, m1.getD i false = true → k.mask.getD i false = true := by
    intro k hk hnot hkd i hi
    rcases (hmem k).mp hk with h | ⟨h, _⟩
    · exact absurd h hnot
    · have hks : k ∈ σ.sel := (List.mem_filter.mp h).1
      have hncl : cleared c k.key.dim = false := by
        have := (List.mem_filter.mp h).2
        simpa using this
      rw [hkd] at hncl
      have : m1 = σ.masks.get d := by simp only [m1, hncl]; rfl
      rw [this] at hi
      have := (hsel k hks).2 i
      rw [hkd] at this
      exact this hi
  refine ⟨?_, by omega, ?_⟩
  · apply mask_ext _ _ (by omega)
    intro i _
    rw [andAll_getD d sel2 m1 hcl2 i, andAll_getD d c.crits m1 hclc i]
    cases hm : m1.getD i false with
    | false => simp
    | true =>
      simp only [Bool.true_and]
      apply Bool.eq_iff_iff.mpr
      simp only [List.all_eq_true, Bool.or_eq_true, Bool.not_eq_true', beq_eq_false_iff_ne, ne_eq]
      constructor
      · intro h k hk
        exact h k ((hmem k).mpr (Or.inl hk))
      · intro h k hk
        by_cases hkc : k ∈ c.crits
        · exact h k hkc
        · by_cases hkd : k.key.dim = d
          · exact Or.inr (hold k hk hkc hkd i hm)
          · exact Or.inl hkd
  · intro k hk hkd
    refine ⟨hsel2wf k hk, ?_⟩
    intro i hi
    rw [andAll_getD d sel2 m1 hcl2 i] at hi
    simp only [Bool.and_eq_true, List.all_eq_true, Bool.or_eq_true, Bool.not_eq_true',
      beq_eq_false_iff_ne, ne_eq] at hi
    rcases hi.2 k hk with h | h
    · exact absurd hkd h
    · exact h

/-- **One call**: the dict-carrying implementation model and the documented per-dimension rule
    give the same masks, and the invariant is preserved. -/
theorem select_step (base : Masks) (σ : St) (c : Call) (hI : Inv base σ) (hW : CallWF base c) :
    (select base σ c).masks = specStep base σ.masks c ∧ Inv base (select base σ c) := by
  obtain ⟨hT1, hT2, hT3⟩ := dim_step base σ c hI hW .T
  obtain ⟨hF1, hF2, hF3⟩ := dim_step base σ c hI hW .F
  obtain ⟨hB1, hB2, hB3⟩ := dim_step base σ c hI hW .B
  simp only [Masks.get] at hT1 hT2 hT3 hF1 hF2 hF3 hB1 hB2 hB3
  refine ⟨?_, ?_, ?_⟩
  · simp only [select, specStep, hT1, hF1, hB1]
  · intro d
    cases d <;> simp only [select, Masks.get] <;> assumption
  · intro k hk
    simp only [select] at hk ⊢
    cases hd : k.key.dim with
    | T => have := hT3 k hk hd; simpa only [Masks.get, hd] using this
    | F => have := hF3 k hk hd; simpa only [Masks.get, hd] using this
    | B => have := hB3 k hk hd; simpa only [Masks.get, hd] using this

/-- **C02 refinement, every finite history**: after any sequence of well-formed calls from the
    initial state, the masks are those of the documented rule folded over the same calls. -/
theorem c02_refines (base : Masks) : ∀ (cs : List Call) (σ : St), Inv base σ → (∀ c ∈ cs, CallWF base c) →
    (cs.foldl (select base) σ).masks = cs.foldl (specStep base) σ.masks ∧
    Inv base (cs.foldl (select base) σ) := by
  intro cs
  induction cs with
  | nil => intro σ hI _; exact ⟨rfl, hI⟩
  | cons c t ih =>
    intro σ hI hW
    obtain ⟨h1, h2⟩ := select_step base σ c hI (hW c (List.mem_cons_self ..))
    simp only [List.foldl_cons]
    have := ih (select base σ c) h2 (fun x hx => hW x (List.mem_cons_of_mem _ hx))
    rw [h1] at this
    exact this

theorem c02_refines_from_init (base : Masks) (cs : List Call) (hW : ∀ c ∈ cs, CallWF base c) :
    (cs.foldl (select base) (init base)).masks = cs.foldl (specStep base) base :=
  (c02_refines base cs (init base) (inv_init base) hW).1

/-! ### Switching spectral window or subarray

  `select(spw=k)` / `select(subarray=j)` change the axes themselves: another number of channels, other dumps,
  other correlation products.  The code adds 'TF' (resp. 'TB') to the dimensions to reset (dataset.py:737-742),
  rebuilds the masks of those dimensions from the new window / subarray and drops their stored criteria.  In the
  model a call then comes with the base masks `b'` in force *after* it; the only requirement is the one the code
  enforces: a dimension whose base changes is cleared by that call. -/

/-- the base may only change on dimensions the call clears -/
def Compatible (b b' : Masks) (c : Call) : Prop := ∀ d, cleared c d = false → b'.get d = b.get d

/-- the state as far as a call can see it: masks of cleared dimensions replaced by the new base, stored
    criteria of cleared dimensions dropped -/
def forget (b' : Masks) (σ : St) (c : Call) : St :=
  { masks := { t := if cleared c .T then b'.t else σ.masks.t
               f := if cleared c .F then b'.f else σ.masks.f
               b := if cleared c .B then b'.b else σ.masks.b }
    sel := σ.sel.filter (fun k => !cleared c k.key.dim) }

theorem select_forget (b' : Masks) (σ : St) (c : Call) : select b' (forget b' σ c) c = select b' σ c := by
  simp only [select, forget, List.filter_filter, Bool.and_self]
  congr 2 <;> (split <;> rfl)

theorem specStep_forget (b' : Masks) (σ : St) (c : Call) :
    specStep b' (forget b' σ c).masks c = specStep b' σ.masks c := by
  simp only [specStep, forget]
  congr 1 <;> (split <;> rfl)

theorem inv_forget (b b' : Masks) (σ : St) (c : Call) (hI : Inv b σ) (hc : Compatible b b' c) :
    Inv b' (forget b' σ c) := by
  obtain ⟨hlen, hsel⟩ := hI
  refine ⟨?_, ?_⟩
  · intro d
    cases d <;> simp only [forget, Masks.get]
    · by_cases h : cleared c .T = true
      · simp [h]
      · have h' : cleared c .T = false := by simpa using h
        have e := hc .T h'; have l := hlen .T; simp only [Masks.get] at e l; simp [h', e, l]
    · by_cases h : cleared c .F = true
      · simp [h]
      · have h' : cleared c .F = false := by simpa using h
        have e := hc .F h'; have l := hlen .F; simp only [Masks.get] at e l; simp [h', e, l]
    · by_cases h : cleared c .B = true
      · simp [h]
      · have h' : cleared c .B = false := by simpa using h
        have e := hc .B h'; have l := hlen .B; simp only [Masks.get] at e l; simp [h', e, l]
  · intro k hk
    simp only [forget, List.mem_filter, Bool.not_eq_true'] at hk
    obtain ⟨hk1, hk2⟩ := hk
    obtain ⟨hwf, hcont⟩ := hsel k hk1
    have hb := hc k.key.dim hk2
    refine ⟨by unfold CritWF at hwf ⊢; rw [hb]; exact hwf, ?_⟩
    intro i hi
    apply hcont i
    cases hd : k.key.dim <;> simp only [forget, Masks.get, hd] at hi ⊢ <;> rw [hd] at hk2 <;> simpa [hk2] using hi

/-- **One call that may switch spectral window / subarray**: mirror = documented rule on the new axes, and the
    invariant holds for the new base -/
theorem select_step_switch (b b' : Masks) (σ : St) (c : Call) (hI : Inv b σ) (hc : Compatible b b' c)
    (hW : CallWF b' c) :
    (select b' σ c).masks = specStep b' σ.masks c ∧ Inv b' (select b' σ c) := by
  have := select_step b' (forget b' σ c) c (inv_forget b b' σ c hI hc) hW
  rwa [select_forget, specStep_forget] at this

/-- a call together with the base masks in force after it -/
structure SCall where
  base : Masks
  call : Call

/-- every call of the history is compatible with the base left by the call before it -/
def ChainOK : Masks → List SCall → Prop
  | _, [] => True
  | b, sc :: t => Compatible b sc.base sc.call ∧ CallWF sc.base sc.call ∧ ChainOK sc.base t

/-- **C02 refinement with window / subarray switches, every finite history** -/
theorem c02_refines_switching : ∀ (cs : List SCall) (b : Masks) (σ : St), Inv b σ → ChainOK b cs →
    (cs.foldl (fun σ sc => select sc.base σ sc.call) σ).masks =
      cs.foldl (fun m sc => specStep sc.base m sc.call) σ.masks := by
  intro cs
  induction cs with
  | nil => intro b σ _ _; rfl
  | cons sc t ih =>
    intro b σ hI hC
    obtain ⟨hc, hW, hT⟩ := hC
    obtain ⟨h1, h2⟩ := select_step_switch b sc.base σ sc.call hI hc hW
    simp only [List.foldl_cons]
    have := ih sc.base (select sc.base σ sc.call) h2 hT
    rw [h1] at this
    exact this

/-- after a call that switches window (resp. subarray) the time and frequency (resp. product) masks are the
    criteria of that very call applied to the new axes: nothing of the old window survives -/
theorem c02_switch_forgets (b' m : Masks) (c : Call) (d : Dim) (hcl : cleared c d = true) :
    (specStep b' m c).get d = andAll (b'.get d) c.crits d := by
  cases d <;> simp only [specStep, Masks.get] <;> simp [hcl]

-- non-vacuity: a history on a window with 4 dumps / 2 channels that narrows all three dimensions, switches (with a
-- frequency criterion in the same call) to a window with 3 dumps / 5 channels, then narrows time there
def swBase0 : Masks := { t := [true, true, true, true], f := [true, true], b := [true, true, true] }
def swBase1 : Masks := { t := [true, true, true], f := [true, true, true, true, true], b := [true, true, true] }
def swCalls : List SCall :=
  [ ⟨swBase0, { crits := [⟨.dumps, [true, true, false, false]⟩, ⟨.channels, [false, true]⟩, ⟨.pol, [true, false, true]⟩],
                reset := .auto, bare := false }⟩,
    ⟨swBase1, { crits := [⟨.freqrange, [false, true, true, true, false]⟩], reset := .explicit [.F, .T], bare := false }⟩,
    ⟨swBase1, { crits := [⟨.dumps, [false, true, true]⟩], reset := .auto, bare := false }⟩ ]

example : ChainOK swBase0 swCalls := by
  refine ⟨?_, ?_, ?_, ?_, ?_, ?_, trivial⟩
  · intro d h; cases d <;> simp_all [cleared, swCalls, Key.dim]
  · exact ⟨by intro k hk; simp [swCalls] at hk; rcases hk with rfl | rfl | rfl <;> rfl, by decide⟩
  · intro d h; cases d <;> simp_all [cleared, swCalls, Key.dim, swBase0, swBase1, Masks.get]
  · exact ⟨by intro k hk; simp [swCalls] at hk; subst hk; rfl, by decide⟩
  · intro d h; rfl
  · exact ⟨by intro k hk; simp [swCalls] at hk; subst hk; rfl, by decide⟩

example : (swCalls.foldl (fun σ sc => select sc.base σ sc.call) (init swBase0)).masks =
    { t := [false, true, true], f := [false, true, true, true, false], b := [true, false, true] } := by decide

/-! ### Consequences of the documented rule (stated on `specStep`; they transfer to the
    implementation model through `c02_refines`) -/

/-- `select()` without arguments clears everything -/
theorem c02_noarg_clears (base m : Masks) :
    specStep base m { crits := [], reset := .auto, bare := true } = base := by
  simp [specStep, cleared, andAll]

/-- a dimension not mentioned by an auto-reset call is left as it was -/
theorem c02_untouched_dim (base m : Masks) (c : Call) (d : Dim) (hb : c.bare = false)
    (hr : c.reset = .auto) (hno : ∀ k ∈ c.crits, k.key.dim ≠ d) :
    (specStep base m c).get d = m.get d := by
  have hcl : cleared c d = false := by
    simp only [cleared, hb, hr, Bool.false_or, List.any_eq_false, beq_iff_eq]
    intro k hk; exact hno k hk
  have hand : ∀ (cs : List Crit) (x : List Bool), (∀ k ∈ cs, k.key.dim ≠ d) → andAll x cs d = x := by
    intro cs
    induction cs with
    | nil => intro x _; rfl
    | cons k t ih =>
      intro x h
      have hk : (k.key.dim == d) = false := by simpa using h k (List.mem_cons_self ..)
      simp only [andAll, List.foldl_cons, hk, Bool.false_eq_true, if_false]
      exact ih x (fun y hy => h y (List.mem_cons_of_mem _ hy))
  cases d <;> simp only [specStep, Masks.get, hcl, Bool.false_eq_true, if_false] <;> exact hand _ _ hno

/-- an auto-reset call that mentions a dimension replaces the selection on it by the AND of the
    new criteria on the base mask -/
theorem c02_replaces (base m : Masks) (c : Call) (d : Dim) (hr : c.reset = .auto)
    (hyes : ∃ k ∈ c.crits, k.key.dim = d) :
    (specStep base m c).get d = andAll (base.get d) c.crits d := by
  have hcl : cleared c d = true := by
    simp only [cleared, hr, Bool.or_eq_true, List.any_eq_true, beq_iff_eq]
    exact Or.inr hyes
  cases d <;> simp only [specStep, Masks.get, hcl, if_true]

/-- `reset=''` ANDs the new criteria onto the existing selection -/
theorem c02_stacks (base m : Masks) (c : Call) (d : Dim) (hb : c.bare = false)
    (hr : c.reset = .explicit []) :
    (specStep base m c).get d = andAll (m.get d) c.crits d := by
  have hcl : cleared c d = false := by simp [cleared, hb, hr]
  cases d <;> simp only [specStep, Masks.get, hcl, Bool.false_eq_true, if_false]

/-- repeating a call changes nothing (pointwise AND is idempotent) -/
theorem c02_idempotent (base m : Masks) (c : Call)
    (hm : ∀ d, (m.get d).length = (base.get d).length) (hW : CallWF base c) :
    specStep base (specStep base m c) c = specStep base m c := by
  have key : ∀ d, (specStep base (specStep base m c) c).get d = (specStep base m c).get d := by
    intro d
    have hlen1 : ((if cleared c d then base.get d else m.get d)).length = (base.get d).length := by
      split
      · rfl
      · exact hm d
    have hcl : critsLen c.crits d (base.get d).length := by
      intro k hk hkd
      have := hW.1 k hk
      unfold CritWF at this
      rw [hkd] at this; exact this
    have hstep : (specStep base m c).get d = andAll (if cleared c d then base.get d else m.get d) c.crits d := by
      cases d <;> simp only [specStep, Masks.get]
    have hstep2 : (specStep base (specStep base m c) c).get d =
        andAll (if cleared c d then base.get d else (specStep base m c).get d) c.crits d := by
      cases d <;> simp only [specStep, Masks.get]
    rw [hstep2, hstep]
    by_cases hc : cleared c d = true
    · simp only [hc, if_true]
    · have hcf : cleared c d = false := by simpa using hc
      simp only [hcf, Bool.false_eq_true, if_false]
      have hl1 := andAll_length d c.crits (m.get d) (by rw [hm d]; exact hcl)
      apply mask_ext
      · rw [andAll_length d c.crits _ (by rw [hl1, hm d]; exact hcl), hl1]
      · intro i _
        rw [andAll_getD d c.crits _ (by rw [hl1, hm d]; exact hcl) i,
          andAll_getD d c.crits (m.get d) (by rw [hm d]; exact hcl) i]
        cases (m.get d).getD i false <;> cases (c.crits.all fun c => !(c.key.dim == d) || c.mask.getD i false) <;> rfl
  have hT := key .T
  have hF := key .F
  have hB := key .B
  simp only [Masks.get] at hT hF hB
  generalize specStep base (specStep base m c) c = x at hT hF hB
  generalize specStep base m c = y at hT hF hB
  cases x; cases y
  simp only at hT hF hB
  simp [hT, hF, hB]

/-- keyword order is irrelevant: any permutation of the criteria of a call gives the same masks -/
theorem c02_kw_order (base m : Masks) (c : Call) (crits' : List Crit) (hp : crits'.Perm c.crits)
    (hm : ∀ d, (m.get d).length = (base.get d).length) (hW : CallWF base c) :
    specStep base m { c with crits := crits' } = specStep base m c := by
  have hcleared : ∀ d, cleared { c with crits := crits' } d = cleared c d := by
    intro d
    simp only [cleared]
    cases c.reset with
    | explicit dims => rfl
    | auto =>
      congr 1
      apply Bool.eq_iff_iff.mpr
      simp only [List.any_eq_true, beq_iff_eq]
      constructor
      · rintro ⟨k, hk, hkd⟩; exact ⟨k, hp.mem_iff.mp hk, hkd⟩
      · rintro ⟨k, hk, hkd⟩; exact ⟨k, hp.mem_iff.mpr hk, hkd⟩
  have key : ∀ d (x : List Bool), x.length = (base.get d).length → andAll x crits' d = andAll x c.crits d := by
    intro d x hx
    have hcl : critsLen c.crits d x.length := by
      intro k hk hkd
      have := hW.1 k hk
      unfold CritWF at this
      rw [hkd] at this; omega
    have hcl' : critsLen crits' d x.length := fun k hk hkd => hcl k (hp.mem_iff.mp hk) hkd
    apply mask_ext
    · rw [andAll_length d _ x hcl', andAll_length d _ x hcl]
    · intro i _
      rw [andAll_getD d _ x hcl' i, andAll_getD d _ x hcl i]
      congr 1
      apply Bool.eq_iff_iff.mpr
      simp only [List.all_eq_true]
      constructor
      · intro h k hk; exact h k (hp.mem_iff.mpr hk)
      · intro h k hk; exact h k (hp.mem_iff.mp hk)
  have hlen : ∀ d, (if cleared c d then base.get d else m.get d).length = (base.get d).length := by
    intro d; split
    · rfl
    · exact hm d
  simp only [specStep, hcleared]
  have hT := key .T _ (hlen .T)
  have hF := key .F _ (hlen .F)
  have hB := key .B _ (hlen .B)
  simp only [Masks.get] at hT hF hB
  rw [hT, hF, hB]

/-! ### What each criterion keeps (semantics of `evalCrit`, stated independently of its body) -/

/-- timerange / freqrange keep exactly the points lying wholly inside the range:
    `keep i ↔ a ≤ xᵢ − half ∧ xᵢ + half ≤ b` -/
theorem c02_range_wholly_inside (xs : List Int) (half a b : Int) (i : Nat) (hi : i < xs.length) :
    (rangeMask xs half a b).getD i false = true ↔ a ≤ xs[i] - half ∧ xs[i] + half ≤ b := by
  simp only [rangeMask, List.getD_eq_getElem?_getD, List.getElem?_map, List.getElem?_eq_getElem hi,
    Option.map_some, Option.getD_some, Bool.and_eq_true, decide_eq_true_eq]
  omega

/-- a `~name` item keeps exactly the dumps whose state differs from `name` -/
theorem c02_tilde_negates (state idx : List Nat) (id : Nat) (i : Nat) (hi : i < state.length) :
    (scanItemMask state idx (.notName id)).getD i false = !((scanItemMask state idx (.name id)).getD i false) := by
  simp [scanItemMask, List.getD_eq_getElem?_getD, List.getElem?_map, List.getElem?_eq_getElem hi]

theorem orMask_getD (a b : List Bool) (h : a.length = b.length) (i : Nat) :
    (orMask a b).getD i false = (a.getD i false || b.getD i false) := by
  unfold orMask
  simp only [List.getD_eq_getElem?_getD, List.getElem?_zipWith]
  by_cases hi : i < a.length
  · have hb : i < b.length := by omega
    simp [List.getElem?_eq_getElem hi, List.getElem?_eq_getElem hb]
  · have ha : a[i]? = none := List.getElem?_eq_none (by omega)
    have hb : b[i]? = none := List.getElem?_eq_none (by omega)
    simp [ha, hb]

theorem scanItemMask_length (state idx : List Nat) (h : state.length = idx.length) (it : ScanItem) :
    (scanItemMask state idx it).length = state.length := by
  cases it <;> simp [scanItemMask, h]

/-- items inside one scans/compscans criterion are ORed: a dump is kept iff some item keeps it -/
theorem c02_items_are_ORed (n : Nat) (state idx : List Nat) (hs : state.length = n) (hx : idx.length = n) :
    ∀ (items : List ScanItem) (i : Nat),
      (scansMask n state idx items).getD i false =
        items.any (fun it => (scanItemMask state idx it).getD i false) := by
  intro items i
  unfold scansMask
  have gen : ∀ (items : List ScanItem) (acc : List Bool), acc.length = n →
      (items.foldl (fun acc it => orMask acc (scanItemMask state idx it)) acc).getD i false =
        (acc.getD i false || items.any (fun it => (scanItemMask state idx it).getD i false)) := by
    intro items
    induction items with
    | nil => intro acc _; simp
    | cons it t ih =>
      intro acc hacc
      have hl : (scanItemMask state idx it).length = n := by
        rw [scanItemMask_length state idx (by omega) it, hs]
      have hol : (orMask acc (scanItemMask state idx it)).length = n := by
        simp [orMask, List.length_zipWith, hacc, hl]
      simp only [List.foldl_cons, List.any_cons]
      rw [ih _ hol, orMask_getD _ _ (by omega), Bool.or_assoc]
  rw [gen items (List.replicate n false) (by simp)]
  by_cases hi : i < n
  · simp [List.getD_eq_getElem?_getD, List.getElem?_replicate, hi]
  · simp [List.getD_eq_getElem?_getD, List.getElem?_replicate, hi]

/-- unknown targets select nothing: an empty resolved index list keeps no dump -/
theorem c02_unknown_target_selects_nothing (tgtIdx : List Nat) (i : Nat) :
    (targetsMask tgtIdx []).getD i false = false := by
  simp [targetsMask, List.getD_eq_getElem?_getD, List.getElem?_map]
  cases tgtIdx[i]? <;> simp

/-- a tag carried by no target selects nothing -/
theorem c02_unknown_tag_selects_nothing (tgtIdx : List Nat) (tgtTags : List (List Nat)) (tag : Nat)
    (hunk : ∀ tags ∈ tgtTags, tag ∉ tags) (i : Nat) :
    (tagsMask tgtIdx tgtTags [tag]).getD i false = false := by
  simp only [tagsMask, List.getD_eq_getElem?_getD, List.getElem?_map]
  cases h : tgtIdx[i]? with
  | none => simp
  | some k =>
    simp only [Option.map_some, Option.getD_some, List.any_eq_false, List.contains_cons,
      List.contains_nil, Bool.or_false, beq_iff_eq]
    intro t ht heq
    subst heq
    by_cases hk : k < tgtTags.length
    · have hm : tgtTags.getD k [] ∈ tgtTags := by
        simp [List.getD_eq_getElem?_getD, List.getElem?_eq_getElem hk]
      exact hunk _ hm ht
    · have : tgtTags[k]? = none := List.getElem?_eq_none (by omega)
      simp [List.getD_eq_getElem?_getD, this] at ht

/-- `ants` with every name prefixed by `~` is a deselection: a product is kept iff neither of its
    inputs belongs to a named antenna -/
theorem c02_ants_all_tilde (cpA cpB : List (Nat × Nat)) (names : List Nat) (i : Nat)
    (hi : i < cpA.length) (hl : cpA.length = cpB.length) :
    (antsMask cpA cpB (names.map fun n => (true, n))).getD i false =
      (!names.contains cpA[i].1 && !names.contains (cpB[i]'(by omega)).1) := by
  have hall : ((names.map fun n => (true, n)).all (·.1)) = true := by simp
  have hb : i < cpB.length := by omega
  simp [antsMask, hall, List.getD_eq_getElem?_getD, List.getElem?_zipWith,
    List.getElem?_eq_getElem hi, List.getElem?_eq_getElem hb, Function.comp_def]

/-! ### Non-vacuity: a concrete history satisfying the hypotheses, on which mirror and spec agree -/

def exBase : Masks := { t := [true, true, true, true], f := [true, true], b := [true, true, true] }
def exCalls : List Call :=
  [ { crits := [⟨.dumps, [true, true, true, false]⟩, ⟨.corrprods, [true, false, true]⟩], reset := .auto, bare := false },
    { crits := [⟨.scans, [false, true, true, true]⟩], reset := .explicit [], bare := false },
    { crits := [⟨.channels, [false, true]⟩], reset := .auto, bare := false } ]

example : (exCalls.foldl (select exBase) (init exBase)).masks =
    { t := [false, true, true, false], f := [false, true], b := [true, false, true] } := by decide
example : exCalls.foldl (specStep exBase) exBase =
    { t := [false, true, true, false], f := [false, true], b := [true, false, true] } := by decide
example : ∀ c ∈ exCalls, (∀ k ∈ c.crits, k.mask.length = (exBase.get k.key.dim).length) := by decide

end C02
