/-
  C16 — Flags: bit meanings, selection by name and derivation.

  "The boolean flags of any data set equal 'raw flag byte AND mask is non-zero', where the mask has
   exactly the bits of the flag names currently selected (all by default, none for an empty selection,
   unknown names ignored with a warning) in the bit order of the format (bit i is the i-th documented
   name for v3 and v4, the reverse order for v2), and v4 raw_flags expose the stored byte with data_lost
   and postproc added where applicable regardless of the selection.  Changing the flag or weight
   selection never changes visibilities, raw flags or the time, frequency and product selection."

  Model: KatdalModel/Model/Flags.lean (mirror of dataset._selection_to_list, the `_flags_keep`
  setters / getters of visdatav4, h5datav3, h5datav2, the flags transforms and the reset / re-apply
  rules of DataSet.select).  Spec: `specMaskLSB` / `specMaskMSB` / `specFlag` / `eraseFW`.
-/
import KatdalModel.Lemmas.Flags
import KatdalModel.Lemmas.FlagsSelect
open Np Flags

namespace C16

/-! ### 1. spellings of a selection -/

/-- '' selects nothing, 'all' selects the table, a sequence is taken literally, any other string is
    split at commas with surrounding whitespace removed -/
theorem selection_spellings (names : List Name) :
    selectionToList names (.str []) = [] ∧
    selectionToList names (.str allWord) = names ∧
    (∀ l, selectionToList names (.seq l) = l) ∧
    (∀ s, s ≠ [] → s ≠ allWord → selectionToList names (.str s) = (splitOnChar ',' s).map strip) := by
  refine ⟨rfl, rfl, fun _ => rfl, ?_⟩
  intro s h1 h2
  simp [selectionToList, h1, h2]

example : selectionToList [] (.str " cam ,\tdata_lost,, x ".toList) =
    ["cam".toList, "data_lost".toList, [], "x".toList] := by decide

/-- splitting a comma-joined list of comma-free names gives the list back -/
theorem split_join (l : List Name) (hl : l ≠ []) (hc : ∀ n ∈ l, ',' ∉ n) :
    splitOnChar ',' ([','].intercalate l) = l := by
  induction l with
  | nil => exact absurd rfl hl
  | cons a t ih =>
    have split_nocomma : ∀ (a rest : Name), ',' ∉ a →
        splitOnChar ',' (a ++ ',' :: rest) = a :: splitOnChar ',' rest := by
      intro a rest ha
      induction a with
      | nil => simp [splitOnChar]
      | cons c u ihu =>
        have hc' : c ≠ ',' := by intro h; apply ha; simp [h]
        have hu : ',' ∉ u := by intro h; apply ha; simp [h]
        simp [splitOnChar, hc', ihu hu]
    have split_single : ∀ (a : Name), ',' ∉ a → splitOnChar ',' a = [a] := by
      intro a ha
      induction a with
      | nil => rfl
      | cons c u ihu =>
        have hc' : c ≠ ',' := by intro h; apply ha; simp [h]
        have hu : ',' ∉ u := by intro h; apply ha; simp [h]
        simp [splitOnChar, hc', ihu hu]
    cases t with
    | nil => simpa [List.intercalate] using split_single a (hc a (by simp))
    | cons b u =>
      have : [','].intercalate (a :: b :: u) = a ++ ',' :: [','].intercalate (b :: u) := by
        simp [List.intercalate]
      rw [this, split_nocomma a _ (hc a (by simp)), ih (by simp) (fun n hn => hc n (by simp [hn]))]

example : splitOnChar ',' ([','].intercalate ["cam".toList, "static".toList]) = ["cam".toList, "static".toList] := by
  decide

/-- whitespace around a name in a comma string is irrelevant (the name itself neither starts nor ends with
    whitespace) -/
theorem strip_padding (w1 x w2 : Name) (h1 : ∀ c ∈ w1, isPyWs c = true) (h2 : ∀ c ∈ w2, isPyWs c = true)
    (hh : ∀ c, x.head? = some c → isPyWs c = false) (hl : ∀ c, x.getLast? = some c → isPyWs c = false) :
    strip (w1 ++ x ++ w2) = x := strip_pad w1 x w2 h1 h2 hh hl

example : strip " \t cal rfi \n".toList = "cal rfi".toList := by decide

/-! ### 2. which bits the mask has -/

/-- **mask_bits** (v3 / v4): for ANY table of 8 pairwise distinct names and ANY spelling of the selection,
    bit i of the mask is set iff the i-th name of the table is in the selection list -/
theorem mask_bits {names : List Name} (hn : names.Nodup) (h8 : names.length = 8) (sel : Selection) (i : Nat) :
    (maskLSB names sel).testBit i = true ↔ ∃ n, names[i]? = some n ∧ n ∈ selectionToList names sel := by
  rw [maskLSB_eq_spec hn h8, specMaskLSB_testBit]

/- non-vacuity: the hypotheses hold for the generated table, and both directions occur -/
example : tableNames.Nodup ∧ tableNames.length = 8 ∧
    (maskLSB tableNames (.str " cam,bogus".toList)).testBit 2 = true ∧
    (maskLSB tableNames (.str " cam,bogus".toList)).testBit 1 = false := by decide

/-- **mask_bits_v2**: bit i of the v2 mask is set iff name 7 - i is in the selection list -/
theorem mask_bits_v2 {names : List Name} (hn : names.Nodup) (h8 : names.length = 8) (sel : Selection) (i : Nat) :
    (maskMSB names sel).testBit i = true ↔
      i < 8 ∧ ∃ n, names[7 - i]? = some n ∧ n ∈ selectionToList names sel := by
  rw [maskMSB_eq_spec hn h8, specMaskMSB_testBit h8]

example : (maskMSB tableNames (.seq ["cam".toList])).testBit 5 = true ∧
    (maskMSB tableNames (.seq ["cam".toList])).testBit 2 = false := by decide

/-- closed form: the mirror of the packing code equals the documented sum of powers of two -/
theorem mask_eq_spec {names : List Name} (hn : names.Nodup) (h8 : names.length = 8) (sel : Selection) :
    maskLSB names sel = specMaskLSB names (selectionToList names sel) ∧
    maskMSB names sel = specMaskMSB names (selectionToList names sel) :=
  ⟨maskLSB_eq_spec hn h8 sel, maskMSB_eq_spec hn h8 sel⟩

example : specMaskLSB tableNames ["static".toList, "postproc".toList] = 130 ∧
    specMaskMSB tableNames ["static".toList, "postproc".toList] = 65 := by decide

/-- **v2 reversal**: the v2 mask is the v3/v4 mask with the 8 bits in reverse order -/
theorem v2_reversal {names : List Name} (hn : names.Nodup) (h8 : names.length = 8) (sel : Selection)
    (i : Nat) (hi : i < 8) : (maskMSB names sel).testBit i = (maskLSB names sel).testBit (7 - i) := by
  rw [Bool.eq_iff_iff, mask_bits_v2 hn h8, mask_bits hn h8]
  simp [hi]

example : maskMSB tableNames (.str "static".toList) = 64 ∧ maskLSB tableNames (.str "static".toList) = 2 := by decide

theorem mask_lt_256 {names : List Name} (hn : names.Nodup) (h8 : names.length = 8) (sel : Selection) :
    maskLSB names sel < 256 ∧ maskMSB names sel < 256 := by
  rw [maskLSB_eq_spec hn h8, maskMSB_eq_spec hn h8]
  exact ⟨specMaskLSB_lt h8 _, specMaskMSB_lt h8 _⟩

/-- 'all' selects every bit, in both bit orders -/
theorem mask_all {names : List Name} (hn : names.Nodup) (h8 : names.length = 8) :
    maskLSB names (.str allWord) = 255 ∧ maskMSB names (.str allWord) = 255 := by
  have key : ∀ j, j < 8 → ∃ n, names[j]? = some n ∧ n ∈ selectionToList names (.str allWord) := by
    intro j hj
    have hl : j < names.length := by omega
    exact ⟨names[j], List.getElem?_eq_getElem hl, by simp [selectionToList, allWord]⟩
  have t255 : ∀ i, (255 : Nat).testBit i = decide (i < 8) := by
    intro i
    have := @Nat.testBit_two_pow_sub_one 8 i
    simpa using this
  constructor
  · apply Nat.eq_of_testBit_eq; intro i
    rw [Bool.eq_iff_iff, mask_bits hn h8, t255]
    constructor
    · rintro ⟨n, h1, _⟩
      have := (List.getElem?_eq_some_iff.mp h1).1
      simp; omega
    · intro h; exact key i (by simpa using h)
  · apply Nat.eq_of_testBit_eq; intro i
    rw [Bool.eq_iff_iff, mask_bits_v2 hn h8, t255]
    constructor
    · rintro ⟨h, _⟩; simpa using h
    · intro h
      have h : i < 8 := by simpa using h
      exact ⟨h, key (7 - i) (by omega)⟩

example : maskLSB documentedNames (.str allWord) = 255 ∧ maskLSB documentedNames (.seq [allWord]) = 0 := by decide

/-- an empty string or an empty sequence selects no bit (any table) -/
theorem mask_empty (names : List Name) :
    maskLSB names (.str []) = 0 ∧ maskLSB names (.seq []) = 0 ∧
    maskMSB names (.str []) = 0 ∧ maskMSB names (.seq []) = 0 := by
  refine ⟨?_, ?_, ?_, ?_⟩ <;> simp [maskLSB, maskMSB, selectionToList, markSelected] <;> decide

example : maskLSB [] (.str []) = 0 ∧ maskLSB tableNames (.str " ".toList) = 0 := by decide

/-- only membership of the table's names matters: order, repetition and unknown names are irrelevant -/
theorem mask_congr {names : List Name} (hn : names.Nodup) (h8 : names.length = 8) (l l' : List Name)
    (h : ∀ n ∈ names, n ∈ l ↔ n ∈ l') :
    maskLSB names (.seq l) = maskLSB names (.seq l') ∧ maskMSB names (.seq l) = maskMSB names (.seq l') := by
  constructor
  · apply Nat.eq_of_testBit_eq; intro i
    rw [Bool.eq_iff_iff, mask_bits hn h8, mask_bits hn h8]
    simp only [selectionToList]
    constructor <;> rintro ⟨n, h1, h2⟩
    · exact ⟨n, h1, (h n (List.mem_of_getElem? h1)).mp h2⟩
    · exact ⟨n, h1, (h n (List.mem_of_getElem? h1)).mpr h2⟩
  · apply Nat.eq_of_testBit_eq; intro i
    rw [Bool.eq_iff_iff, mask_bits_v2 hn h8, mask_bits_v2 hn h8]
    simp only [selectionToList]
    constructor <;> rintro ⟨hi, n, h1, h2⟩
    · exact ⟨hi, n, h1, (h n (List.mem_of_getElem? h1)).mp h2⟩
    · exact ⟨hi, n, h1, (h n (List.mem_of_getElem? h1)).mpr h2⟩

example : maskLSB tableNames (.seq ["cam".toList, "x".toList, "cam".toList, "static".toList]) =
    maskLSB tableNames (.seq ["static".toList, "cam".toList]) := by decide

/-- unknown names contribute nothing -/
theorem mask_unknown_ignored {names : List Name} (hn : names.Nodup) (h8 : names.length = 8)
    (u : Name) (hu : u ∉ names) (l : List Name) :
    maskLSB names (.seq (u :: l)) = maskLSB names (.seq l) ∧
    maskMSB names (.seq (u :: l)) = maskMSB names (.seq l) := by
  apply mask_congr hn h8
  intro n hnm
  have : n ≠ u := fun h => hu (h ▸ hnm)
  simp [this]

example : "bogus".toList ∉ tableNames ∧
    maskLSB tableNames (.seq ["bogus".toList, "cam".toList]) = maskLSB tableNames (.seq ["cam".toList]) := by decide

/-- the setters raise (AssertionError) exactly when the table does not have 8 names -/
theorem setter_rejects (names : List Name) (sel : Selection) :
    (flagMaskLSB names sel = .error .other ↔ names.length ≠ 8) ∧
    (flagMaskLSB names sel = .ok (maskLSB names sel) ↔ names.length = 8) ∧
    (flagMaskMSB names sel = .ok (maskMSB names sel) ↔ names.length = 8) := by
  unfold flagMaskLSB flagMaskMSB
  by_cases h : names.length = 8 <;> simp [h]

example : flagMaskLSB ["a".toList] (.str allWord) = .error .other := by decide

/-- distinctness is needed: with a repeated name in the table the second position never gets its bit -/
theorem mask_bits_needs_distinct :
    ¬ ∀ (names : List Name), names.length = 8 → ∀ sel i,
      ((maskLSB names sel).testBit i = true ↔ ∃ n, names[i]? = some n ∧ n ∈ selectionToList names sel) := by
  intro h
  have := h (["a", "a", "c", "d", "e", "f", "g", "h"].map String.toList) (by decide)
    (.str "a".toList) 1
  revert this; decide

/-! ### 3. the generated table -/

/-- the regenerated `flags.NAMES` is the documented table, has 8 distinct names, and every named constant
    and `*_BIT` constant of flags.py is the position of its name -/
theorem tables_consistent :
    tableNames = documentedNames ∧ tableNames.Nodup ∧ tableNames.length = 8 ∧
    Tables.flagStatic = 1 <<< Tables.flagNames.idxOf "static" ∧
    Tables.flagCam = 1 <<< Tables.flagNames.idxOf "cam" ∧
    Tables.flagDataLost = 1 <<< Tables.flagNames.idxOf "data_lost" ∧
    Tables.flagIngestRfi = 1 <<< Tables.flagNames.idxOf "ingest_rfi" ∧
    Tables.flagPredictedRfi = 1 <<< Tables.flagNames.idxOf "predicted_rfi" ∧
    Tables.flagCalRfi = 1 <<< Tables.flagNames.idxOf "cal_rfi" ∧
    Tables.flagPostproc = 1 <<< Tables.flagNames.idxOf "postproc" ∧
    Tables.flagStaticBit = Tables.flagNames.idxOf "static" ∧
    Tables.flagCamBit = Tables.flagNames.idxOf "cam" ∧
    Tables.flagDataLostBit = Tables.flagNames.idxOf "data_lost" ∧
    Tables.flagIngestRfiBit = Tables.flagNames.idxOf "ingest_rfi" ∧
    Tables.flagPredictedRfiBit = Tables.flagNames.idxOf "predicted_rfi" ∧
    Tables.flagCalRfiBit = Tables.flagNames.idxOf "cal_rfi" ∧
    Tables.flagPostprocBit = Tables.flagNames.idxOf "postproc" ∧
    Tables.flagNames.idxOf "reserved0" = 0 ∧
    Tables.flagDataLost = docBit "data_lost" ∧ Tables.flagPostproc = docBit "postproc" := by decide

/-- `mask_bits` instantiated on the generated table (hypotheses discharged by `decide`) -/
theorem mask_bits_tables (sel : Selection) (i : Nat) :
    ((maskLSB tableNames sel).testBit i = true ↔ ∃ n, tableNames[i]? = some n ∧ n ∈ selectionToList tableNames sel) ∧
    ((maskMSB tableNames sel).testBit i = true ↔
      i < 8 ∧ ∃ n, tableNames[7 - i]? = some n ∧ n ∈ selectionToList tableNames sel) :=
  ⟨mask_bits (by decide) (by decide) sel i, mask_bits_v2 (by decide) (by decide) sel i⟩

/-- selecting a single documented name through the packing code gives the constant katdal itself uses when it
    derives that flag (vis_flags_weights: DATA_LOST, applycal: POSTPROC), and the mirrored bit for v2 -/
theorem named_constants :
    maskLSB tableNames (.str "static".toList) = Tables.flagStatic ∧
    maskLSB tableNames (.str "cam".toList) = Tables.flagCam ∧
    maskLSB tableNames (.str "data_lost".toList) = Tables.flagDataLost ∧
    maskLSB tableNames (.str "ingest_rfi".toList) = Tables.flagIngestRfi ∧
    maskLSB tableNames (.str "predicted_rfi".toList) = Tables.flagPredictedRfi ∧
    maskLSB tableNames (.str "cal_rfi".toList) = Tables.flagCalRfi ∧
    maskLSB tableNames (.str "postproc".toList) = Tables.flagPostproc ∧
    maskLSB tableNames (.str "reserved0".toList) = 1 ∧
    maskMSB tableNames (.str "reserved0".toList) = 128 ∧
    maskMSB tableNames (.str "postproc".toList) = 1 ∧
    maskLSB tableNames (.str " cam , data_lost,bogus,cam".toList) = Tables.flagCam + Tables.flagDataLost ∧
    maskMSB tableNames (.seq ["cam".toList, "data_lost".toList]) = 32 + 16 := by decide

/-! ### 4. flags = (raw AND mask) non-zero -/

/-- **flags_formula**: for every byte and every mask, "raw AND mask is non-zero" holds iff some selected bit
    is set in the raw byte (proved bitwise for all naturals, hence for all 256 x 256 pairs) -/
theorem flags_formula (mask raw : Nat) :
    flagOf mask raw = true ↔ ∃ i, mask.testBit i = true ∧ raw.testBit i = true := by
  unfold flagOf
  constructor
  · intro h
    have hne : mask &&& raw ≠ 0 := by simpa using h
    obtain ⟨i, hi⟩ := Nat.exists_testBit_of_ne_zero hne
    rw [Nat.testBit_and] at hi
    exact ⟨i, by simpa using hi⟩
  · rintro ⟨i, h1, h2⟩
    have : (mask &&& raw).testBit i = true := by rw [Nat.testBit_and, h1, h2]; rfl
    have hne : mask &&& raw ≠ 0 := by
      intro h0; rw [h0, Nat.zero_testBit] at this; cases this
    simpa using hne

example : flagOf 12 8 = true ∧ flagOf 12 0x13 = false ∧ (12 : Nat).testBit 3 = true ∧ (8 : Nat).testBit 3 = true := by
  decide

/-- the executable 8-bit spec agrees on byte masks -/
theorem flags_formula_byte (mask raw : Nat) (hm : mask < 256) : flagOf mask raw = specFlag mask raw := by
  rw [Bool.eq_iff_iff, flags_formula]
  unfold specFlag
  rw [List.any_eq_true]
  constructor
  · rintro ⟨i, h1, h2⟩
    have hi : i < 8 := by
      apply Classical.byContradiction; intro h
      rw [testBit_ge8 hm (by omega)] at h1; cases h1
    exact ⟨i, List.mem_range.mpr hi, by simp [h1, h2]⟩
  · rintro ⟨i, _, h⟩
    simp only [Bool.and_eq_true] at h
    exact ⟨i, h⟩

example : specFlag 12 8 = true ∧ specFlag 12 0x13 = false := by decide

/-- the v4 indexer (which skips the AND when everything is selected and views the byte as bool) computes
    the same function as the HDF5 transform on bytes -/
theorem flags_v4_same (mask raw : Nat) (hm : mask < 256) (hr : raw < 256) : flagOfV4 mask raw = flagOf mask raw := by
  unfold flagOfV4 flagOf
  have hmod : mask % 256 = mask := Nat.mod_eq_of_lt hm
  rw [hmod]
  by_cases h : mask = 255
  · subst h
    have : 255 &&& raw = raw := by
      have := @Nat.and_two_pow_sub_one_eq_mod raw 8
      rw [Nat.and_comm] at this
      simpa [Nat.mod_eq_of_lt hr] using this
    simp [this]
  · simp [h]

example : flagOfV4 255 16 = true ∧ flagOfV4 8 16 = false ∧ flagOf 24 16 = true := by decide

/-- **flags by name** (v3 / v4): an element is flagged iff some selected name's bit is set in its raw byte -/
theorem flags_by_name {names : List Name} (hn : names.Nodup) (h8 : names.length = 8) (sel : Selection) (raw : Nat) :
    flagOf (maskLSB names sel) raw = true ↔
      ∃ i n, names[i]? = some n ∧ n ∈ selectionToList names sel ∧ raw.testBit i = true := by
  rw [flags_formula]
  constructor
  · rintro ⟨i, h1, h2⟩
    obtain ⟨n, a, b⟩ := (mask_bits hn h8 sel i).mp h1
    exact ⟨i, n, a, b, h2⟩
  · rintro ⟨i, n, a, b, h2⟩
    exact ⟨i, (mask_bits hn h8 sel i).mpr ⟨n, a, b⟩, h2⟩

/-- **flags by name** (v2): name j guards raw bit 7 - j -/
theorem flags_by_name_v2 {names : List Name} (hn : names.Nodup) (h8 : names.length = 8) (sel : Selection) (raw : Nat) :
    flagOf (maskMSB names sel) raw = true ↔
      ∃ j n, j < 8 ∧ names[j]? = some n ∧ n ∈ selectionToList names sel ∧ raw.testBit (7 - j) = true := by
  rw [flags_formula]
  constructor
  · rintro ⟨i, h1, h2⟩
    obtain ⟨hi, n, a, b⟩ := (mask_bits_v2 hn h8 sel i).mp h1
    refine ⟨7 - i, n, by omega, a, b, ?_⟩
    have : 7 - (7 - i) = i := by omega
    rw [this]; exact h2
  · rintro ⟨j, n, hj, a, b, h2⟩
    refine ⟨7 - j, (mask_bits_v2 hn h8 sel (7 - j)).mpr ⟨by omega, n, ?_, b⟩, h2⟩
    have : 7 - (7 - j) = j := by omega
    rw [this]; exact a

example : flagOf (maskLSB tableNames (.str "cam,cal_rfi".toList)) 0x44 = true ∧
    flagOf (maskLSB tableNames (.str "cam,cal_rfi".toList)) 0x9B = false ∧
    flagOf (maskMSB tableNames (.str "cam".toList)) 0x20 = true := by decide

/-! ### 5. v4 raw flags -/

/-- raw byte = stored byte with bit 3 (data_lost) added where data were lost and bit 7 (postproc) added where the
    calibration could not be applied; nothing else changes and no selection enters -/
theorem raw_v4_bits (s : Nat) (lost pp : Bool) (i : Nat) :
    (rawV4 (some s) lost pp).testBit i = (s.testBit i || (lost && i == 3) || (pp && i == 7)) := by
  have h8 : docBit "data_lost" = 2 ^ 3 := by decide
  have h128 : docBit "postproc" = 2 ^ 7 := by decide
  have t3 : (2 ^ 3).testBit i = (i == 3) := by
    rw [Nat.testBit_two_pow]
    by_cases h : i = 3
    · subst h; rfl
    · have h' : ¬ 3 = i := fun e => h e.symm
      simp [h, h']
  have t7 : (2 ^ 7).testBit i = (i == 7) := by
    rw [Nat.testBit_two_pow]
    by_cases h : i = 7
    · subst h; rfl
    · have h' : ¬ 7 = i := fun e => h e.symm
      simp [h, h']
  unfold rawV4
  simp only [Nat.testBit_or, h8, h128]
  cases lost <;> cases pp <;> simp only [if_true, Bool.false_eq_true, if_false, Nat.zero_testBit, t3, t7] <;> simp

theorem raw_v4_plain (s : Nat) : rawV4 (some s) false false = s := by simp [rawV4]

/-- a missing flags chunk reads as data_lost only (plus postproc where applicable) -/
theorem raw_v4_missing (lost pp : Bool) :
    rawV4 none lost pp = docBit "data_lost" ||| (if pp then docBit "postproc" else 0) := by
  cases lost <;> cases pp <;> decide

example : rawV4 (some 0x21) true true = 0xA9 := by decide

/-! ### 6. independence of the flag / weight selection -/

theorem observe_core {α} (s s' : St) (h : s.core = s'.core) (vis : List (List (List α)))
    (raw : List (List (List Nat))) : observe s vis raw = observe s' vis raw := by
  have ht : s.tKeep = s'.tKeep := congrArg Core.t h
  have hf : s.fKeep = s'.fKeep := congrArg Core.f h
  have hb : s.bKeep = s'.bKeep := congrArg Core.b h
  simp [observe, select3, ht, hf, hb]

/-- **c16_independent**: for every history of select() calls, dumps, channels, correlation products,
    visibilities and raw flags are the same as after the history in which every `flags=` / `weights=`
    keyword has been deleted (calls that consist of nothing else disappear) -/
theorem c16_independent {α} (f : Fmt) (nT nF nB : Nat) (h : List Call) (vis : List (List (List α)))
    (raw : List (List (List Nat))) :
    observe (run f (init f nT nF nB) h) vis raw = observe (run f (init f nT nF nB) (eraseFW h)) vis raw :=
  observe_core _ _ (core_run_erase f h _ _ rfl (inv_init f nT nF nB)) vis raw

/- non-vacuity: see `demoHist` below (a history whose erased version is different and shorter) -/

/-- two histories that differ only in their flag / weight selections are indistinguishable in T/F/B,
    visibilities and raw flags -/
theorem c16_independent_pair {α} (f : Fmt) (nT nF nB : Nat) (h h' : List Call) (he : eraseFW h = eraseFW h')
    (vis : List (List (List α))) (raw : List (List (List Nat))) :
    observe (run f (init f nT nF nB) h) vis raw = observe (run f (init f nT nF nB) h') vis raw := by
  rw [c16_independent, c16_independent f nT nF nB h', he]

/-- a call with only `flags=` / `weights=` changes nothing of that after any history -/
theorem c16_flags_call_noop {α} (f : Fmt) (nT nF nB : Nat) (h : List Call) (c : Call) (hc : c.flagsOnly = true)
    (vis : List (List (List α))) (raw : List (List (List Nat))) :
    observe (run f (init f nT nF nB) (h ++ [c])) vis raw = observe (run f (init f nT nF nB) h) vis raw := by
  apply observe_core
  have : run f (init f nT nF nB) (h ++ [c]) = step f (run f (init f nT nF nB) h) c := by
    simp [run, List.foldl_append]
  rw [this]
  exact core_step_flagsOnly f _ c hc (inv_run f _ h (inv_init f nT nF nB))

def demoF : Fmt := ⟨tableNames, true⟩
def demoHist : List Call :=
  [⟨none, [(.dumps, [true, false, true])], some (.str "cam".toList), none⟩,
   ⟨none, [], some (.seq []), some (.str "all".toList)⟩,
   ⟨some [], [(.dumps, [true, true, false])], none, none⟩,
   ⟨none, [], none, some (.str [])⟩]

example : (run demoF (init demoF 3 2 2) demoHist).tKeep = [true, false, false] ∧
    (run demoF (init demoF 3 2 2) demoHist).flagsSelect = 0 ∧
    (eraseFW demoHist).length = 2 ∧
    (run demoF (init demoF 3 2 2) (eraseFW demoHist)).tKeep = [true, false, false] ∧
    (run demoF (init demoF 3 2 2) (eraseFW demoHist)).flagsSelect = 255 := by decide

/-- without the invariant the statement would be false: a flags-only call on a state whose mask is NOT
    contained in a stored criterion (such a state is never produced by select) does change the mask -/
theorem flags_call_needs_invariant :
    ∃ (s : St) (c : Call), c.flagsOnly = true ∧ (step demoF s c).tKeep ≠ s.tKeep :=
  ⟨{ tKeep := [true, true], fKeep := [], bKeep := [], selection := [(.dumps, [true, false])],
     selFlags := none, selWeights := none, flagsSelect := 255, weightsKeep := .str allWord },
   ⟨none, [], some (.str allWord), none⟩, by decide⟩

/-! ### 7. the flag mask after a history -/

theorem fmt_mask_lt {f : Fmt} (hv : f.Valid) (v : Selection) : f.mask v < 256 := by
  unfold Fmt.mask; split
  · exact (mask_lt_256 hv.1 hv.2 v).1
  · exact (mask_lt_256 hv.1 hv.2 v).2

theorem fmt_roundtrip {f : Fmt} (hv : f.Valid) {m : Nat} (hm : m < 256) :
    f.mask (.seq (keepNames f.lsb f.names m)) = m := by
  unfold Fmt.mask
  cases hl : f.lsb
  · simp [roundtrip_msb hv.1 hv.2 hm]
  · simp [roundtrip_lsb hv.1 hv.2 hm]

theorem foldl_applyCrit_rest (l : List Crit) (s : St) :
    (l.foldl applyCrit s).selFlags = s.selFlags ∧ (l.foldl applyCrit s).selWeights = s.selWeights ∧
    (l.foldl applyCrit s).flagsSelect = s.flagsSelect := by
  induction l generalizing s with
  | nil => exact ⟨rfl, rfl, rfl⟩
  | cons k t ih =>
    simp only [List.foldl_cons]
    obtain ⟨a, b, c⟩ := ih (applyCrit s k)
    rw [a, b, c]
    unfold applyCrit; cases k.1.dim <;> exact ⟨rfl, rfl, rfl⟩

def FInv (f : Fmt) (s : St) : Prop :=
  s.flagsSelect = f.mask (s.selFlags.getD (.str allWord))

theorem step_flags {f : Fmt} (hv : f.Valid) (s : St) (c : Call) (hs : FInv f s) :
    (step f s c).selFlags = (match c.flags with | some v => some v | none => s.selFlags) ∧ FInv f (step f s c) := by
  unfold FInv at *
  unfold step
  simp only
  obtain ⟨a, b, d⟩ := foldl_applyCrit_rest (resetAndUpdate s c).selection (resetAndUpdate s c)
  generalize List.foldl applyCrit (resetAndUpdate s c) (resetAndUpdate s c).selection = s3 at a b d
  have a' : s3.selFlags = (match c.flags with | some v => some v | none => s.selFlags) := a
  have d' : s3.flagsSelect = s.flagsSelect := d
  have w1 : (setWeights s3).selFlags = s3.selFlags := by unfold setWeights; split <;> rfl
  have w2 : (setWeights s3).flagsSelect = s3.flagsSelect := by unfold setWeights; split <;> rfl
  generalize setWeights s3 = s4 at w1 w2
  have k1 : (setKeep f (setFlags f s4)).selFlags = s4.selFlags := by
    unfold setKeep setFlags; split <;> rfl
  refine ⟨by rw [k1, w1, a'], ?_⟩
  rw [k1, w1, a']
  unfold setKeep setFlags
  simp only
  cases hsf : s4.selFlags with
  | some v =>
    have : c.flags = some v ∨ (c.flags = none ∧ s.selFlags = some v) := by
      rw [w1, a'] at hsf
      cases hcf : c.flags with
      | some x => left; rw [hcf] at hsf; exact hsf
      | none => right; rw [hcf] at hsf; exact ⟨rfl, hsf⟩
    simp only [fmt_roundtrip hv (fmt_mask_lt hv v)]
    rcases this with h | ⟨h1, h2⟩
    · simp [h]
    · simp [h1, h2]
  | none =>
    have hn : c.flags = none ∧ s.selFlags = none := by
      rw [w1, a'] at hsf
      cases hcf : c.flags with
      | some x => rw [hcf] at hsf; cases hsf
      | none => rw [hcf] at hsf; exact ⟨rfl, hsf⟩
    simp only [hn.1, hn.2, Option.getD_none]
    rw [w2, d', hs, hn.2, Option.getD_none, fmt_roundtrip hv (fmt_mask_lt hv _)]

/-- **the mask follows the last `flags=` value**: after any history the flag mask is the mask of the most
    recent `flags=` value, or of 'all' when there was none (a `select()` without arguments does not touch it) -/
theorem c16_flags_track_last {f : Fmt} (hv : f.Valid) (nT nF nB : Nat) (h : List Call) :
    (run f (init f nT nF nB) h).flagsSelect = f.mask ((lastFlags h).getD (.str allWord)) := by
  have gen : ∀ (h : List Call) (s : St), FInv f s →
      FInv f (run f s h) ∧
      (run f s h).selFlags = (match lastFlags h with | some v => some v | none => s.selFlags) := by
    intro h
    induction h with
    | nil => intro s hs; exact ⟨hs, rfl⟩
    | cons c t ih =>
      intro s hs
      obtain ⟨h1, h2⟩ := step_flags hv s c hs
      obtain ⟨i1, i2⟩ := ih (step f s c) h2
      refine ⟨i1, ?_⟩
      show (run f (step f s c) t).selFlags = _
      rw [i2, h1]
      simp only [lastFlags]
      cases lastFlags t <;> rfl
  have h0 : FInv f (init f nT nF nB) := by simp [FInv, init]
  obtain ⟨a, b⟩ := gen h _ h0
  unfold FInv at a
  rw [a, b]
  cases lastFlags h <;> simp [init]

example : Fmt.Valid demoF := ⟨by decide, by decide⟩
example : lastFlags demoHist = some (.seq []) := by decide

end C16
