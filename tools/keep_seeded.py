#!/venv/bin/python
"""tools/keep_seeded.py <src dir> <seed id> <property> <caught: yes|no|partly> <needs text> [<check result text>]
Archive a confirmed seeded mutation under /verif/seeded/<seed id>/ (patch.diff, demo.py, README.md, meta.json)."""
import json
import os
import shutil
import sys

src, sid, prop, caught, needs = sys.argv[1:6]
result = sys.argv[6] if len(sys.argv) > 6 else ''
dst = os.path.join(os.path.dirname(os.path.dirname(os.path.abspath(__file__))), 'seeded', sid)
os.makedirs(dst, exist_ok=True)
for nm in ('patch.diff', 'demo.py', 'README.md'):
    if os.path.exists(os.path.join(src, nm)):
        shutil.copy(os.path.join(src, nm), os.path.join(dst, nm))
meta = {
    'seed_id': sid,
    'breaks_property': prop,
    'needs_to_manifest': needs,
    'confirmed': {
        'demo_on_clean_tree': 'exit 0',
        'demo_on_patched_tree': 'exit non-zero',
        'existing_suite_with_patch': 'same 244 tests pass (full baseline command run in a scratch worktree)',
    },
    'ran': [f'tools/try_seeded.sh {src} {prop}  (scratch worktree; demo both ways; ./check {prop} quick against the patched tree)'],
    'caught_by_check': caught,
    'check_result': result,
    'origin': 'written by an independent sub-agent that saw only the property text; never committed to ska-sa/katdal',
}
json.dump(meta, open(os.path.join(dst, 'meta.json'), 'w'), indent=1)
print('kept', dst)
