/-
  C10 / C11 model: katdal/categorical.py.

  Part 1  `Cat`              mirror of `CategoricalData` (unique_values / indices / events) and of
                              `unique_in_order`; spec side `perDump` (the explicit per-dump list).
  Part 2  `sepd`             mirror of the mutating generator `_single_event_per_dump`
          `sensorToCategorical`  mirror of `sensor_to_categorical`
          `rule`             spec: the documented per-dump rule (C10)
  Part 3  container operations (C11): lookup / getitem / comparison / add / remove /
          add_unmatched / align / partition / remove_repeats / concatenate_categorical.

  Values are an arbitrary type `V` with decidable equality: Python's `==` (through
  `ComparableArrayWrapper.__eq__` for array-valued values) and the hash / dask-tokenize lookup of
  `unique_in_order` are collapsed to one equivalence, which is the stated assumption of C11
  (NaN breaks it and is tested separately for well-formedness only).  Times are integers (any
  linear order would do; the harness uses exactly representable floats).
  Import-free apart from the Np layer, so that it compiles into the drivers.
-/
import KatdalModel.Np.Basic
open Np

namespace Categorical

/-! ## Part 1: the container -/

/-- `CategoricalData`: `unique_values`, `indices` (one per event), `events` (one more than
    `indices`: the last entry is the number of dumps). -/
structure Cat (V : Type) where
  uniq : List V
  idx : List Nat
  ev : List Nat
  deriving Repr, DecidableEq

variable {V : Type} [DecidableEq V]

/-- `unique_in_order(elements)`: first occurrences, in order (accumulator = values seen so far). -/
def uniqAcc : List V → List V → List V
  | acc, [] => acc
  | acc, x :: t => if x ∈ acc then uniqAcc acc t else uniqAcc (acc ++ [x]) t

def uniqueList (l : List V) : List V := uniqAcc [] l

/-- `unique_in_order(elements, return_inverse=True)` -/
def uniqueInOrder (l : List V) : List V × List Nat :=
  let u := uniqueList l
  (u, l.map (fun x => u.idxOf x))

/-- `CategoricalData(sensor_values, events)` (no validation, as in the code) -/
def Cat.new (values : List V) (events : List Nat) : Cat V :=
  let r := uniqueInOrder values
  { uniq := r.1, idx := r.2, ev := events }

/-- number of dumps `events[-1]` -/
def Cat.numDumps (c : Cat V) : Nat := c.ev.getLastD 0

/-- the value of each event (`none` for a dangling index) -/
def Cat.values (c : Cat V) : List (Option V) := c.idx.map (fun i => c.uniq[i]?)

/-- `replicate (e₁-e₀) v₀ ++ replicate (e₂-e₁) v₁ ++ …` : segments written out dump by dump -/
def expand {α : Type} : List Nat → List α → List α
  | a :: b :: t, v :: vs => List.replicate (b - a) v ++ expand (b :: t) vs
  | _, _ => []

/-- **Spec side: the explicit per-dump list.**  Dump `d` carries the value of the segment that
    contains it; dumps before the first event carry nothing (`none`). -/
def Cat.perDump (c : Cat V) : List (Option V) :=
  List.replicate (c.ev.headD 0) none ++ expand c.ev c.values

/-- well-formedness: events strictly increasing, one more event than indices, indices in range,
    unique values pairwise distinct -/
def Cat.WF (c : Cat V) : Prop :=
  strictIncNat c.ev = true ∧ c.ev.length = c.idx.length + 1 ∧ (∀ i ∈ c.idx, i < c.uniq.length) ∧ c.uniq.Nodup

/-! ## Part 2: sensor_to_categorical -/

/-- state of the generator `_single_event_per_dump` -/
structure SepdSt where
  pwe : Nat            -- previous_winning_event
  prevDump : Nat       -- previous_dump
  ev : List Nat        -- the `events` array, mutated in place
  out : List Nat       -- event indices yielded so far
  deriving Repr, DecidableEq

/-- one iteration of `for current_event, current_dump in enumerate(events)` -/
def sepdStep (greedy : List Bool) (ce : Nat) (st : SepdSt) : Except Err SepdSt := do
  let cd ← getNat st.ev ce
  let st1 ← (if cd > st.prevDump then do
      -- assert current_event >= 1, "First sensor event not at dump 0"
      if ce = 0 then throw Err.other
      let eads := ce - 1
      let g ← getNat greedy st.pwe
      let pwe := if !g then eads else st.pwe
      let wd ← getNat st.ev pwe
      let out := if st.prevDump ≤ wd ∧ wd < cd then st.out ++ [pwe] else st.out
      if eads ≠ pwe then do
        let old ← getNat st.ev eads
        -- events[event_at_dump_start] += 1
        let ev := st.ev.set eads (old + 1)
        let out := if cd > old + 1 then out ++ [eads] else out
        pure { pwe := eads, prevDump := cd, ev := ev, out := out }
      else
        pure { pwe := pwe, prevDump := cd, ev := st.ev, out := out }
    else pure st : Except Err SepdSt)
  -- if (current_event < len(greedy)) and greedy[current_event]
  if ce < greedy.length ∧ greedy.getD ce false = true then pure { st1 with pwe := ce } else pure st1

def sepdLoop (greedy : List Bool) : Nat → Nat → SepdSt → Except Err SepdSt
  | 0, _, st => pure st
  | k + 1, ce, st => do
    let st' ← sepdStep greedy ce st
    sepdLoop greedy k (ce + 1) st'

/-- `list(_single_event_per_dump(events, greedy))` together with the mutated `events` -/
def sepd (events : List Nat) (greedy : List Bool) : Except Err (List Nat × List Nat) := do
  let st ← sepdLoop greedy events.length 0 { pwe := 0, prevDump := 0, ev := events, out := [] }
  pure (st.out, st.ev)

/-- `[n for n in range(len(values)) if n == 0 or values[n] != values[n-1]]`, applied to the
    (value, event) pairs -/
def keepChanges : Option V → List (V × Nat) → List (V × Nat)
  | _, [] => []
  | prev, (v, e) :: t =>
    if prev = some v then keepChanges (some v) t else (v, e) :: keepChanges (some v) t

/-- `a[lo:hi]` for `0 ≤ lo, hi` -/
def pySlice {α : Type} (l : List α) (lo hi : Nat) : List α := (l.take hi).drop lo

/-- fancy indexing `a[idxs]` -/
def takeIdx {α : Type} (l : List α) : List Nat → Except Err (List α)
  | [] => pure []
  | i :: t => do
    let x ← getNat l i
    let r ← takeIdx l t
    pure (x :: r)

/-- `dump_endtimes.searchsorted(t) - 1` with the extra prior dump in front:
    `-1` = before the first dump, `N` = after the last dump -/
def dumpIndex (ends : List Int) (period : Int) (t : Int) : Int :=
  (searchsortedLeft ((ends.headD 0 - period) :: ends) t : Int) - 1

/-- first half of `sensor_to_categorical` after the dump index of every event is known
    (`events0`): shift of the last prior event to dump 0, cut to the events before the end of the
    last dump, transform.  Returns the remaining (values, dump indices) and the flag
    `has_prior_event` (an event lies before the first dump). -/
def s2cCutEv (events0 : List Int) (vals : List V) (numDumps : Nat) (tr : Option (V → V)) :
    List V × List Nat × Bool :=
  -- first_proper_event = events.searchsorted(-1, side='right')
  let fp0 := searchsortedRight events0 (-1)
  -- has_prior_event = first_proper_event > 0; shift final prior event to dump 0
  let hasPrior : Bool := decide (fp0 > 0)
  let fp := if hasPrior then fp0 - 1 else fp0
  let events1 := if hasPrior then events0.set fp 0 else events0
  let opl := searchsortedLeft events1 (numDumps : Int)
  let vals1 := pySlice vals fp opl
  let events2 := (pySlice events1 fp opl).map Int.toNat
  let vals2 := match tr with
    | some f => vals1.map f
    | none => vals1
  (vals2, events2, hasPrior)

/-- `events = dump_endtimes.searchsorted(sensor_timestamps) - 1`, then `s2cCutEv` -/
def s2cCut (ts : List Int) (vals : List V) (ends : List Int) (period : Int) (tr : Option (V → V)) :
    List V × List Nat × Bool :=
  s2cCutEv (ts.map (dumpIndex ends period)) vals ends.length tr

/-- last part of `sensor_to_categorical`: force the first event to dump 0, greedy clean-up via
    `_single_event_per_dump`, repeat removal, construction of the container -/
def s2cClean (numDumps : Nat) (vals3 : List V) (events3 : List Nat) (greedyVals : List V)
    (allowRepeats : Bool) : Except Err (Cat V) := do
  -- events[0] = 0
  let events4 := events3.set 0 0
  let greedy := vals3.map (fun v => greedyVals.contains v)
  let (cleaned, events5) ← sepd (events4 ++ [numDumps]) greedy
  let vals6 ← takeIdx vals3 cleaned
  let events6 ← takeIdx events5 cleaned
  let pairs := List.zip vals6 events6
  let pairs := if allowRepeats then pairs else keepChanges none pairs
  pure (Cat.new (pairs.map (·.1)) (pairs.map (·.2) ++ [numDumps]))

/-- second half of `sensor_to_categorical`: the initial value is inserted at dump 0 whenever no
    event precedes the first dump (`has_prior_event` false) and an initial value is given; then
    `events[0] = 0` (IndexError on an empty array: no event before the end of the last dump and no
    initial value), then `s2cClean` -/
def s2cFinish (numDumps : Nat) (vals2 : List V) (events2 : List Nat) (hasPrior : Bool)
    (init : Option V) (greedyVals : List V) (allowRepeats : Bool) : Except Err (Cat V) :=
  -- if not has_prior_event and initial_value is not None
  let ve : List V × List Nat := match hasPrior, init with
    | false, some iv => (iv :: vals2, 0 :: events2)
    | _, _ => (vals2, events2)
  -- events[0] = 0   (IndexError on an empty array)
  match ve.2 with
  | [] => throw Err.index
  | _ :: _ => s2cClean numDumps ve.1 ve.2 greedyVals allowRepeats

/-- **Mirror of `sensor_to_categorical`.**  `ends` = `dump_midtimes + 0.5 * dump_period`,
    `tr` = transform (`none` = no transform), `greedyVals` = `greedy_values`. -/
def sensorToCategorical (ts : List Int) (vals : List V) (ends : List Int) (period : Int)
    (tr : Option (V → V)) (init : Option V) (greedyVals : List V) (allowRepeats : Bool) :
    Except Err (Cat V) :=
  -- dump_endtimes[0] - dump_period
  if ends = [] then throw Err.index else
  let cut := s2cCut ts vals ends period tr
  s2cFinish ends.length cut.1 cut.2.1 cut.2.2 init greedyVals allowRepeats

/-! ### Spec: the documented rule -/

/-- the value that represents a dump: the latest greedy value among those in effect during the
    dump (`carried` = value at the start of the dump, then the values of the events inside it),
    otherwise the value in effect at the end of the dump -/
def winner {α : Type} (g : α → Bool) (carried : α) (inside : List α) : α :=
  match ((carried :: inside).filter g).getLast? with
  | some x => x
  | none => (carried :: inside).getLast (by simp)

/-- value in effect at the end of a dump -/
def carry {α : Type} (carried : α) (inside : List α) : α := (carried :: inside).getLast (by simp)

/-- dumps `d, d+1, …, d+k-1` of the rule; `evs` = all (dump index, value) events -/
def ruleFrom {α : Type} (g : α → Bool) (evs : List (Int × α)) : Nat → Nat → α → List α
  | _, 0, _ => []
  | d, k + 1, c =>
    let inside := (evs.filter (fun e => e.1 = (d : Int))).map (·.2)
    winner g c inside :: ruleFrom g evs (d + 1) k (carry c inside)

/-- value at the start of the first dump: last event before the first dump, or else the supplied
    initial value, or else the first event -/
def startValue {α : Type} (evs : List (Int × α)) (init : Option α) : Option α :=
  match (evs.filter (fun e => e.1 < 0)).getLast? with
  | some e => some e.2
  | none => match init with
    | some v => some v
    | none => evs.head?.map (·.2)

/-- dump index of a time: dump `d` is the half-open interval `(end_{d-1}, end_d]`, where
    `end_{-1} = end_0 - period`; `-1` before the first dump, `N` after the last.  Stated as the
    number of boundaries strictly below `t` (characterised by `dumpOf_iff` in Props/C10). -/
def dumpOf (ends : List Int) (period : Int) (t : Int) : Int :=
  ((((ends.headD 0 - period) :: ends).filter (· < t)).length : Int) - 1

/-- the optional transform as a function (`None` = identity) -/
def trFun (tr : Option (V → V)) : V → V :=
  match tr with
  | some f => f
  | none => id

/-- **The documented rule** (C10): one value per dump, `none` when no value is defined at all
    (no dumps, or no event and no initial value). -/
def rule (ts : List Int) (vals : List V) (ends : List Int) (period : Int)
    (tr : Option (V → V)) (init : Option V) (greedyVals : List V) : Option (List V) :=
  if ends = [] then none else
  let evs : List (Int × V) := List.zip (ts.map (dumpOf ends period)) (vals.map (trFun tr))
  match startValue evs init with
  | none => none
  | some s => some (ruleFrom (fun v => greedyVals.contains v) evs 0 ends.length s)

/-! ## Part 3: container operations (C11) -/

/-- `_lookup(dump)` for one dump: index of the value in effect (`searchsorted(side='right') - 1`,
    IndexError outside the event range) -/
def Cat.lookup1 (c : Cat V) (d : Int) : Except Err Nat :=
  let k := (c.ev.takeWhile (fun (e : Nat) => decide ((e : Int) ≤ d))).length
  if k = 0 ∨ c.idx.length ≤ k - 1 then .error .index else getNat c.idx (k - 1)

/-- `_lookup(dumps)` for a sequence: IndexError if any dump is outside -/
def Cat.lookupMany (c : Cat V) : List Int → Except Err (List Nat)
  | [] => pure []
  | d :: t => do
    let i ← c.lookup1 d
    let r ← c.lookupMany t
    pure (i :: r)

/-- keys accepted by `__getitem__` -/
inductive Key
  | int (i : Int)
  | slice (a b c : Option Int)
  | mask (m : List Bool)
  | list (l : List Int)
  deriving Repr, DecidableEq

/-- result of `__getitem__`: a single value or a sequence of values -/
inductive Got (V : Type)
  | one (v : V)
  | many (vs : List V)
  deriving Repr, DecidableEq

def valuesAt (c : Cat V) : List Nat → Except Err (List V)
  | [] => pure []
  | i :: t => do
    let v ← getNat c.uniq i
    let r ← valuesAt c t
    pure (v :: r)

/-- `CategoricalData.__getitem__` -/
def Cat.getitem (c : Cat V) : Key → Except Err (Got V)
  | .int i => do
    let k ← c.lookup1 i
    let v ← getNat c.uniq k
    pure (.one v)
  | .slice a b st =>
    -- key = list(range(*key.indices(self.events[-1])))
    match c.ev.getLast? with
    | none => .error .index
    | some n =>
      match sliceList n a b st with
      | none => .error .value
      | some l => do
        let ks ← c.lookupMany l
        let vs ← valuesAt c ks
        pure (.many vs)
  | .mask m =>
    match c.ev.getLast? with
    | none => .error .index
    | some n =>
      -- a bool sequence of the right length selects the dumps where it is True,
      -- any other bool sequence is taken as the integers 0 / 1
      let dumps : List Int := if m.length = n then (nonzero m).map Int.ofNat
        else m.map (fun b => if b then 1 else 0)
      do
        let ks ← c.lookupMany dumps
        let vs ← valuesAt c ks
        pure (.many vs)
  | .list l => do
    let ks ← c.lookupMany l
    let vs ← valuesAt c ks
    pure (.many vs)

/-- `_bool_per_dump([p(value) for value in unique_values])`: comparison operators.  Dumps before
    the first event are left uninitialised by the code (`np.empty`): `none`. -/
def Cat.cmpPerDump (c : Cat V) (p : V → Bool) : List (Option Bool) :=
  List.replicate (c.ev.headD 0) none ++ expand c.ev (c.idx.map (fun i => (c.uniq.map p)[i]?))

/-- `_comparable_values.index(value)` -/
def indexOf? (l : List V) (v : V) : Option Nat :=
  if v ∈ l then some (l.idxOf v) else none

/-- `CategoricalData.add(event, value)` (`value = none` duplicates the current value) -/
def Cat.add (c : Cat V) (event : Nat) (value : Option V) : Except Err (Cat V) := do
  let (uniq', vi) ← (match value with
    | some v =>
      match indexOf? c.uniq v with
      | some i => pure (c.uniq, i)
      | none => pure (c.uniq ++ [v], c.uniq.length)
    | none => do
      let i ← c.lookup1 event
      pure (c.uniq, i) : Except Err (List V × Nat))
  -- event_index = self.events.searchsorted(event)
  let ei := (c.ev.takeWhile (fun e => decide (e < event))).length
  -- self.events[event_index] == event
  let e ← getNat c.ev ei
  let after := if e = event then ei + 1 else ei
  pure { uniq := uniq', idx := c.idx.take ei ++ [vi] ++ c.idx.drop after,
         ev := c.ev.take ei ++ [event] ++ c.ev.drop after }

/-- keep the entries of `l` whose flag is set -/
def maskSelect {α : Type} : List α → List Bool → List α
  | a :: t, true :: m => a :: maskSelect t m
  | _ :: t, false :: m => maskSelect t m
  | _, _ => []

/-- `CategoricalData.remove(value)` -/
def Cat.remove (c : Cat V) (v : V) : Except Err (Cat V) :=
  match indexOf? c.uniq v with
  | none => pure c
  | some k =>
    let keep := c.idx.map (fun i => decide (i ≠ k))
    -- boolean mask indexing needs matching lengths; events[-1] needs a non-empty array
    if c.ev.length ≠ c.idx.length + 1 then .error .index else
    pure { uniq := c.uniq.eraseIdx k,
           idx := (maskSelect c.idx keep).map (fun i => if k ≤ i then i - 1 else i),
           ev := maskSelect c.ev.dropLast keep ++ [c.ev.getLastD 0] }

def absDiff (a b : Nat) : Nat := if a ≤ b then b - a else a - b

/-- `CategoricalData.add_unmatched(segments, match_dist)` -/
def Cat.addUnmatched (c : Cat V) (segments : List Nat) (matchDist : Nat) : Except Err (Cat V) :=
  if c.ev = [] then .error .value else
  let unmatched := segments.filter (fun s => decide (matchDist < (c.ev.map (absDiff s)).foldl min (absDiff s (c.ev.headD 0))))
  unmatched.foldlM (fun (acc : Cat V) s =>
    match acc.add s none with
    | .ok c' => pure c'
    | .error .index => pure acc
    | .error e => .error e) c

/-- position of the first minimum of `f` over `l` (np.argmin) -/
def argminFirst (l : List Nat) : Nat :=
  match l with
  | [] => 0
  | a :: t => (t.foldl (fun (acc : Nat × Nat × Nat) x =>
      if x < acc.2.1 then (acc.2.2, x, acc.2.2 + 1) else (acc.1, acc.2.1, acc.2.2 + 1)) (0, a, 1)).1

/-- positions `j` with `l[j+1] > l[j]` (`np.nonzero(np.diff(l) > 0)`) -/
def risesFrom : Nat → List Nat → List Nat
  | k, a :: b :: t => if a < b then k :: risesFrom (k + 1) (b :: t) else risesFrom (k + 1) (b :: t)
  | _, _ => []

/-- the segment start closest to `e` (first one on ties): `segments[np.abs(e - segments).argmin()]` -/
def nearest (segments : List Nat) (e : Nat) : Nat :=
  segments.getD (argminFirst (segments.map (absDiff e))) 0

/-- `CategoricalData.align(segments)` -/
def Cat.align (c : Cat V) (segments : List Nat) : Except Err (Cat V) :=
  -- argmin of an empty sequence
  if segments = [] then .error .value else
  -- each event moves onto the closest segment start
  let moved := c.ev.map (nearest segments)
  -- when several events land on the same start only the final one is kept
  let final := risesFrom 0 moved
  match takeIdx c.idx final with
  | .error e => .error e
  | .ok sel =>
    -- subset, indices = np.unique(indices[final], return_inverse=True)
    if sel.any (fun i => decide (c.uniq.length ≤ i)) then .error .index else
    let subset := (List.range c.uniq.length).filter (fun i => sel.contains i)
    match takeIdx c.uniq subset with
    | .error e => .error e
    | .ok uniq' =>
      match takeIdx moved final with
      | .error e => .error e
      | .ok evs =>
        match moved.getLast? with
        | none => .error .index
        | some last => .ok { uniq := uniq', idx := sel.map (fun i => subset.idxOf i), ev := evs ++ [last] }

/-- `CategoricalData.partition(segments)`: one container per segment, sharing `unique_values` -/
def Cat.partition (c : Cat V) (segments : List Nat) : Except Err (List (Cat V)) := do
  let events := c.ev.dropLast
  if events.length ≠ c.idx.length then throw Err.index
  let rec go : List Nat → Except Err (List (Cat V))
    | start :: stop :: rest => do
      -- initial index: last event at or before `start`, clipped into range
      let k := (events.takeWhile (fun e => decide (e ≤ start))).length
      let pos := if k = 0 then 0 else min (k - 1) (events.length - 1)
      let initial ← getNat c.idx pos
      let mask := events.map (fun e => decide (start ≤ e ∧ e < stop))
      let idx' := maskSelect c.idx mask
      let ev' := (maskSelect events mask).map (fun e => e - start)
      let part : Cat V :=
        if ev'.head? = some 0 then { uniq := c.uniq, idx := idx', ev := ev' ++ [stop - start] }
        else { uniq := c.uniq, idx := initial :: idx', ev := 0 :: ev' ++ [stop - start] }
      let r ← go (stop :: rest)
      pure (part :: r)
    | _ => pure []
  go segments

/-- first element and every later element that differs from its predecessor, applied to
    (index, event) pairs: `changes = np.nonzero([1] + np.diff(self.indices).tolist())` -/
def Cat.removeRepeats (c : Cat V) : Except Err (Cat V) :=
  if c.idx = [] ∨ c.ev.length < c.idx.length then .error .index else
  let kept := keepChanges none (List.zip c.idx c.ev)
  pure { uniq := c.uniq, idx := kept.map (·.1), ev := kept.map (·.2) ++ [c.ev.getLastD 0] }

/-- `concatenate_categorical(split_data, allow_repeats)` -/
def concatenate (parts : List (Cat V)) (allowRepeats : Bool) : Except Err (Cat V) :=
  match parts with
  | [] => .error .value
  | [c] => pure c
  | _ => do
    if parts.any (fun c => c.ev = []) then throw Err.index
    let starts := cumsum0 (parts.map Cat.numDumps)
    let r := uniqueInOrder (parts.map (·.uniq)).flatten
    -- remap each part's indices through its slice of the inverse
    let rec go : List (Cat V) → Nat → List Nat → Except Err (List Nat × List Nat)
      | [], _, _ => pure ([], [])
      | c :: t, off, st :: sts => do
        let lookup := (r.2.drop off).take c.uniq.length
        let idx' ← takeIdx lookup c.idx
        let ev' := c.ev.dropLast.map (· + st)
        let rest ← go t (off + c.uniq.length) sts
        pure (idx' ++ rest.1, ev' ++ rest.2)
      | _ :: _, _, [] => throw Err.index
    let ie ← go parts 0 starts
    let data : Cat V := { uniq := r.1, idx := ie.1, ev := ie.2 ++ [starts.getLastD 0] }
    if allowRepeats then pure data else data.removeRepeats

/-! ## Part 4: float values with NaN (C11)

  A Python float is an ordinary number or a NaN *object*.  Two notions of "the same value" meet in
  `categorical.py`:
  * dict keys, `list.index`, `in` (the constructor's `unique_in_order` over the plain values) test
    identity first and `==` second: a NaN object is the same as itself and different from every other
    NaN object.  This is the structural equality of `FV` (`nan id` = the object `id`).
  * the rich comparison operators (`==`, `!=`, `<`, `>`, `<=`, `>=`), which is all a
    `ComparableArrayWrapper` delegates to (`self.unwrapped <op> other`), follow IEEE 754: a NaN is
    unordered with everything, itself included.  This is `FV.cmp`.
  `CategoricalData` compares through freshly made wrappers in `__eq__ … __ge__`, in `add`, `remove`
  (`_comparable_values.index(value)`) and in `concatenate_categorical`
  (`unique_in_order` over `_comparable_values`), hence with `FV.cmp`: the `…N` mirrors below. -/

/-- a float value: number `n` (numbers are coded by their rank, so the order of the codes is the
    order of the numbers) or the NaN object `id` -/
inductive FV where
  | num (n : Nat)
  | nan (id : Nat)
  deriving Repr, DecidableEq

def FV.isNaN : FV → Bool
  | .num _ => false
  | .nan _ => true

/-- the six comparison operators -/
inductive CmpOp where
  | eq | ne | lt | gt | le | ge
  deriving Repr, DecidableEq

/-- **Mirror** of `ComparableArrayWrapper.__eq__ / __ne__ / __lt__ / __gt__ / __le__ / __ge__` on
    float values: `self.unwrapped <op> other` evaluated by Python (`__ne__` is `not self == other`). -/
def FV.cmp : CmpOp → FV → FV → Bool
  | .eq, .num a, .num b => a == b
  | .eq, _, _ => false
  | .ne, .num a, .num b => !(a == b)
  | .ne, _, _ => true
  | .lt, .num a, .num b => decide (a < b)
  | .lt, _, _ => false
  | .gt, .num a, .num b => decide (a > b)
  | .gt, _, _ => false
  | .le, .num a, .num b => decide (a ≤ b)
  | .le, _, _ => false
  | .ge, .num a, .num b => decide (a ≥ b)
  | .ge, _, _ => false

/-- **Spec**: the IEEE 754 relation between two floats: less, equal, greater or unordered (`none`,
    as soon as one side is a NaN) -/
def FV.order : FV → FV → Option Ordering
  | .num a, .num b => some (compare a b)
  | _, _ => none

/-- truth of an operator under a relation: on an unordered pair only `!=` holds -/
def CmpOp.holds : CmpOp → Option Ordering → Bool
  | .eq, r => r == some .eq
  | .ne, r => r != some .eq
  | .lt, r => r == some .lt
  | .gt, r => r == some .gt
  | .le, r => r == some .lt || r == some .eq
  | .ge, r => r == some .gt || r == some .eq

/-- **Spec side of a comparison**: the explicit per-dump list compared element by element -/
def specCmp (pd : List (Option FV)) (op : CmpOp) (other : FV) : List (Option Bool) :=
  pd.map (fun o => o.map (fun x => op.holds (FV.order x other)))

/-- `CategoricalData.__eq__ … __ge__` on float values:
    `_bool_per_dump([value <op> other for value in self._comparable_values])` -/
def Cat.cmpOp (c : Cat FV) (op : CmpOp) (other : FV) : List (Option Bool) :=
  c.cmpPerDump (fun x => FV.cmp op x other)

/-- value codes of the driver: even = number, odd = NaN object -/
def FV.ofCode (n : Nat) : FV := if n % 2 = 0 then .num (n / 2) else .nan (n / 2)

/-- the same container with every unique value replaced by its image -/
def Cat.mapV {W : Type} (f : V → W) (c : Cat V) : Cat W := { uniq := c.uniq.map f, idx := c.idx, ev := c.ev }

/-- `_comparable_values.index(value)` when `==` is the rich comparison: a value for which `nan`
    holds equals nothing (ValueError), any other value is found where the structurally equal entry
    is (`indexOfN_ieee` in Lemmas/CatNaN states this against `FV.cmp .eq`) -/
def indexOfN? (nan : V → Bool) (l : List V) (v : V) : Option Nat :=
  if nan v then none else indexOf? l v

/-- the record `add` builds once the index of the value is known -/
def Cat.addAt (c : Cat V) (event : Nat) (uniq' : List V) (vi : Nat) : Except Err (Cat V) := do
  let ei := (c.ev.takeWhile (fun e => decide (e < event))).length
  let e ← getNat c.ev ei
  let after := if e = event then ei + 1 else ei
  pure { uniq := uniq', idx := c.idx.take ei ++ [vi] ++ c.idx.drop after,
         ev := c.ev.take ei ++ [event] ++ c.ev.drop after }

/-- `CategoricalData.add(event, value)` with NaN-aware matching: a NaN is never found among the
    unique values and is appended again, even when the very same object is already there -/
def Cat.addN (nan : V → Bool) (c : Cat V) (event : Nat) (value : Option V) : Except Err (Cat V) :=
  match value with
  | some v => if nan v then c.addAt event (c.uniq ++ [v]) c.uniq.length else c.add event (some v)
  | none => c.add event none

/-- `CategoricalData.remove(value)` with NaN-aware matching: a NaN is never found (ValueError, pass) -/
def Cat.removeN (nan : V → Bool) (c : Cat V) (v : V) : Except Err (Cat V) :=
  if nan v then pure c else c.remove v

/-- `unique_in_order(wrappers, return_inverse=True)` over freshly wrapped values: every NaN gets
    an entry of its own (it equals no key and is found again only as the key object it is), any
    other value goes to the first equal entry.  `acc` = keys so far. -/
def uniqueInOrderN (nan : V → Bool) : List V → List V → List V × List Nat
  | acc, [] => (acc, [])
  | acc, x :: t =>
    match indexOfN? nan acc x with
    | some i => let r := uniqueInOrderN nan acc t; (r.1, i :: r.2)
    | none => let r := uniqueInOrderN nan (acc ++ [x]) t; (r.1, acc.length :: r.2)

/-- `concatenate_categorical(split_data, allow_repeats)` with NaN-aware merging of the unique values -/
def concatenateN (nan : V → Bool) (parts : List (Cat V)) (allowRepeats : Bool) : Except Err (Cat V) :=
  match parts with
  | [] => .error .value
  | [c] => pure c
  | _ => do
    if parts.any (fun c => c.ev = []) then throw Err.index
    let starts := cumsum0 (parts.map Cat.numDumps)
    let r := uniqueInOrderN nan [] (parts.map (·.uniq)).flatten
    let rec go : List (Cat V) → Nat → List Nat → Except Err (List Nat × List Nat)
      | [], _, _ => pure ([], [])
      | c :: t, off, st :: sts => do
        let lookup := (r.2.drop off).take c.uniq.length
        let idx' ← takeIdx lookup c.idx
        let ev' := c.ev.dropLast.map (· + st)
        let rest ← go t (off + c.uniq.length) sts
        pure (idx' ++ rest.1, ev' ++ rest.2)
      | _ :: _, _, [] => throw Err.index
    let ie ← go parts 0 starts
    let data : Cat V := { uniq := r.1, idx := ie.1, ev := ie.2 ++ [starts.getLastD 0] }
    if allowRepeats then pure data else data.removeRepeats

/-- structural well-formedness without the distinctness of the unique values -/
def Cat.WFi (c : Cat V) : Prop :=
  strictIncNat c.ev = true ∧ c.ev.length = c.idx.length + 1 ∧ (∀ i ∈ c.idx, i < c.uniq.length)

/-- every entry satisfying `p` takes the value of the last entry before it that does not
    (`prev` to start with): the effect of `remove` on the per-dump list -/
def fillPrevP {α : Type} (p : α → Bool) : α → List α → List α
  | _, [] => []
  | prev, x :: t => if p x then prev :: fillPrevP p prev t else x :: fillPrevP p x t

end Categorical
