/-
  Helper lemmas about Python ranges and slices (Np layer).
-/
import KatdalModel.Np.Basic
open Np

namespace Np

theorem add_ediv_self {a b : Int} (h : b ≠ 0) : (a + b) / b = a / b + 1 := by
  have := Int.add_mul_ediv_right a 1 h
  simpa using this

theorem rangeLen_pos_succ {s e st : Int} (h : 0 < st) (h2 : s < e) :
    rangeLen s e st = rangeLen (s + st) e st + 1 := by
  unfold rangeLen
  simp only [h, if_true]
  have e1 : e - s + st - 1 = (e - (s + st) + st - 1) + st := by omega
  have hst : st ≠ 0 := by omega
  rw [e1, add_ediv_self hst]
  have : 0 ≤ (e - (s + st) + st - 1) / st := Int.ediv_nonneg (by omega) (by omega)
  omega

theorem rangeLen_pos_zero {s e st : Int} (h : 0 < st) (h2 : e ≤ s) : rangeLen s e st = 0 := by
  unfold rangeLen
  simp only [h, if_true]
  have : (e - s + st - 1) / st ≤ 0 := by
    by_cases hx : e - s + st - 1 < 0
    · have := Int.ediv_neg_of_neg_of_pos hx h; omega
    · have := Int.ediv_eq_zero_of_lt (by omega : 0 ≤ e - s + st - 1) (by omega : e - s + st - 1 < st)
      omega
  omega

theorem rangeLen_neg_succ {s e st : Int} (h : st < 0) (h2 : e < s) :
    rangeLen s e st = rangeLen (s + st) e st + 1 := by
  unfold rangeLen
  have hn : ¬ (0 < st) := by omega
  simp only [hn, h, if_false, if_true]
  have e1 : s - e + -st - 1 = (s + st - e + -st - 1) + -st := by omega
  have hst : -st ≠ 0 := by omega
  rw [e1, add_ediv_self hst]
  have : 0 ≤ (s + st - e + -st - 1) / -st := Int.ediv_nonneg (by omega) (by omega)
  omega

theorem rangeLen_neg_zero {s e st : Int} (h : st < 0) (h2 : s ≤ e) : rangeLen s e st = 0 := by
  unfold rangeLen
  have hn : ¬ (0 < st) := by omega
  simp only [hn, h, if_false, if_true]
  have hp : 0 < -st := by omega
  have : (s - e + -st - 1) / -st ≤ 0 := by
    by_cases hx : s - e + -st - 1 < 0
    · have := Int.ediv_neg_of_neg_of_pos hx hp; omega
    · have := Int.ediv_eq_zero_of_lt (by omega : 0 ≤ s - e + -st - 1) (by omega : s - e + -st - 1 < -st)
      omega
  omega

theorem rangeList_pos_cons {s e st : Int} (h : 0 < st) (h2 : s < e) :
    rangeList s e st = s :: rangeList (s + st) e st := by
  unfold rangeList
  rw [rangeLen_pos_succ h h2]; rfl

theorem rangeList_pos_nil {s e st : Int} (h : 0 < st) (h2 : e ≤ s) :
    rangeList s e st = [] := by
  unfold rangeList
  rw [rangeLen_pos_zero h h2]; rfl

theorem rangeList_neg_cons {s e st : Int} (h : st < 0) (h2 : e < s) :
    rangeList s e st = s :: rangeList (s + st) e st := by
  unfold rangeList
  rw [rangeLen_neg_succ h h2]; rfl

theorem rangeList_neg_nil {s e st : Int} (h : st < 0) (h2 : s ≤ e) :
    rangeList s e st = [] := by
  unfold rangeList
  rw [rangeLen_neg_zero h h2]; rfl

theorem rangeList_zero (s e : Int) : rangeList s e 0 = [] := by
  unfold rangeList rangeLen; simp [rangeAux]

/-- every element of a positive-step range lies in `[s, e)` -/
theorem rangeList_pos_bounds (st : Int) (hst : 0 < st) :
    ∀ (k : Nat) (s e : Int), (e - s).toNat ≤ k → ∀ x ∈ rangeList s e st, s ≤ x ∧ x < e := by
  intro k
  induction k with
  | zero =>
    intro s e hk x hx
    have : e ≤ s := by omega
    rw [rangeList_pos_nil hst this] at hx; simp at hx
  | succ k ih =>
    intro s e hk x hx
    by_cases h : s < e
    · rw [rangeList_pos_cons hst h] at hx
      simp at hx
      rcases hx with rfl | hx
      · omega
      · have := ih (s + st) e (by omega) x hx
        omega
    · rw [rangeList_pos_nil hst (by omega)] at hx; simp at hx

theorem rangeList_neg_bounds (st : Int) (hst : st < 0) :
    ∀ (k : Nat) (s e : Int), (s - e).toNat ≤ k → ∀ x ∈ rangeList s e st, e < x ∧ x ≤ s := by
  intro k
  induction k with
  | zero =>
    intro s e hk x hx
    have : s ≤ e := by omega
    rw [rangeList_neg_nil hst this] at hx; simp at hx
  | succ k ih =>
    intro s e hk x hx
    by_cases h : e < s
    · rw [rangeList_neg_cons hst h] at hx
      simp at hx
      rcases hx with rfl | hx
      · omega
      · have := ih (s + st) e (by omega) x hx
        omega
    · rw [rangeList_neg_nil hst (by omega)] at hx; simp at hx

/-- bounds on what `slice.indices` returns -/
theorem sliceIndices_bounds {n : Nat} {a b c : Option Int} {s e st : Int}
    (h : sliceIndices n a b c = some (s, e, st)) :
    st ≠ 0 ∧ (0 < st → 0 ≤ s ∧ s ≤ n ∧ 0 ≤ e ∧ e ≤ n) ∧
    (st < 0 → -1 ≤ s ∧ s ≤ (n : Int) - 1 ∧ -1 ≤ e ∧ e ≤ (n : Int) - 1) := by
  unfold sliceIndices at h
  simp only at h
  split at h
  · simp at h
  · rename_i hst
    simp only [Option.some.injEq, Prod.mk.injEq] at h
    obtain ⟨hs, he, hst'⟩ := h
    subst hst'
    refine ⟨hst, ?_, ?_⟩
    · intro hp
      have hn : ¬ (c.getD 1 < 0) := by omega
      simp only [hn, if_false] at hs he
      constructor
      · subst hs; cases a <;> simp <;> (try split) <;> (try split) <;> omega
      constructor
      · subst hs; cases a <;> simp <;> (try split) <;> (try split) <;> omega
      constructor
      · subst he; cases b <;> simp <;> (try split) <;> (try split) <;> omega
      · subst he; cases b <;> simp <;> (try split) <;> (try split) <;> omega
    · intro hp
      simp only [hp, if_true] at hs he
      constructor
      · subst hs; cases a <;> simp <;> (try split) <;> (try split) <;> omega
      constructor
      · subst hs; cases a <;> simp <;> (try split) <;> (try split) <;> omega
      constructor
      · subst he; cases b <;> simp <;> (try split) <;> (try split) <;> omega
      · subst he; cases b <;> simp <;> (try split) <;> (try split) <;> omega

/-- every position selected by a slice is a valid position of the axis -/
theorem sliceList_bounds {n : Nat} {a b c : Option Int} {l : List Int}
    (h : sliceList n a b c = some l) : ∀ x ∈ l, 0 ≤ x ∧ x < n := by
  unfold sliceList at h
  cases hi : sliceIndices n a b c with
  | none => simp [hi] at h
  | some t =>
    obtain ⟨s, e, st⟩ := t
    simp [hi] at h
    subst h
    obtain ⟨hne, hp, hn⟩ := sliceIndices_bounds hi
    intro x hx
    by_cases hpos : 0 < st
    · have := rangeList_pos_bounds st hpos _ s e (Nat.le_refl _) x hx
      have := hp hpos
      omega
    · have hneg : st < 0 := by omega
      have := rangeList_neg_bounds st hneg _ s e (Nat.le_refl _) x hx
      have := hn hneg
      omega

end Np
