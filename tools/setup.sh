#!/bin/bash
# MANIFEST.setup_cmd: build the Lean models, theorems and drivers of every claimed property from
# files on disk (offline).  A property whose files do not build does not stop the others: its own
# check rebuilds its targets and reports the failure.
cd "$(dirname "$0")/.." || exit 1
/venv/bin/python tools/extract_tables.py || exit 1
for f in tools/extract_tables_*.py; do [ -f "$f" ] && /venv/bin/python "$f"; done
ids=$(/venv/bin/python -c "import json; print(' '.join(c['property_id'] for c in json.load(open('MANIFEST.json'))['checks']))" 2>/dev/null | tail -1)
cd lean || exit 1
lake build KatdalModel.Np.Basic Driver.Common || exit 1
targets=""
for id in $ids; do
  lower=$(echo "$id" | tr 'A-Z' 'a-z')
  targets="$targets KatdalModel.Props.$id kd_$lower"
done
lake build $targets || echo "setup: some property targets did not build (their checks will say which)"
exit 0
