/-
  C03 — scans()/compscans() partition the current selection and then restore it.

  "Iterating scans() or compscans() visits each currently selected scan (compound scan) exactly
   once in time order; while one is current the data set exposes exactly the previously selected
   dumps belonging to it ..., so the per-scan dump sets are disjoint and their union is the prior
   time selection.  Every dump belongs to exactly one scan, one compound scan and one target,
   with scan and compscan indices numbered consecutively from zero in time order.  When the
   iterator is exhausted the time, frequency and correlation-product selection that was in force
   before iteration is in force again."

  Model: `Select.duringItem` (= `select(scans=i, reset='')` on the saved mask) and
  `Select.afterIteration` (= `select(**saved_selection, reset='T')`), dataset.py:921-997.
-/
import KatdalModel.Props.C02
import KatdalModel.Lemmas.ScanStructure
open Np Index Select C02

namespace C03

theorem indexIs_length (idx : List Nat) (i : Nat) : (indexIs idx i).length = idx.length := by
  simp [indexIs]

theorem indexIs_getD (idx : List Nat) (i p : Nat) (hp : p < idx.length) :
    (indexIs idx i).getD p false = (idx[p] == i) := by
  simp [indexIs, List.getD_eq_getElem?_getD, List.getElem?_map, List.getElem?_eq_getElem hp]

/-- **While item `i` is current** the data set exposes exactly the previously selected dumps
    whose scan (compscan) index is `i`; frequency and product selections are untouched. -/
theorem c03_during (base : Masks) (σ : St) (key : Key) (hk : key.dim = .T) (idx : List Nat)
    (hidx : idx.length = base.t.length) (hI : Inv base σ) (i : Nat) :
    (duringItem base σ key idx i).masks =
      { σ.masks with t := andMask σ.masks.t (indexIs idx i) } := by
  have hW : CallWF base { crits := [{ key := key, mask := indexIs idx i }], reset := .explicit [], bare := false } := by
    refine ⟨?_, by simp⟩
    intro k hk'
    simp only [List.mem_singleton] at hk'
    subst hk'
    simp only [CritWF, hk, Masks.get, indexIs_length, hidx]
  have h := (select_step base σ _ hI hW).1
  unfold duringItem
  rw [h]
  simp [specStep, cleared, andAll, hk]

/-- the dump sets of two different items are disjoint -/
theorem c03_disjoint (m : List Bool) (idx : List Nat) (i j p : Nat) (hij : i ≠ j)
    (hl : m.length = idx.length) :
    ¬ ((andMask m (indexIs idx i)).getD p false = true ∧ (andMask m (indexIs idx j)).getD p false = true) := by
  rw [andMask_getD m _ (by rw [indexIs_length]; exact hl), andMask_getD m _ (by rw [indexIs_length]; exact hl)]
  by_cases hp : p < idx.length
  · rw [indexIs_getD idx i p hp, indexIs_getD idx j p hp]
    simp only [Bool.and_eq_true, beq_iff_eq, not_and, and_imp]
    intro _ h1 _ h2
    exact hij (h1.symm.trans h2)
  · have : (indexIs idx i).getD p false = false := by
      simp [indexIs, List.getD_eq_getElem?_getD, List.getElem?_eq_none (by omega : idx.length ≤ p)]
    rw [this]; simp

/-- every item's dump set lies inside the prior selection -/
theorem c03_inside (m : List Bool) (idx : List Nat) (i p : Nat) (hl : m.length = idx.length)
    (h : (andMask m (indexIs idx i)).getD p false = true) : m.getD p false = true := by
  rw [andMask_getD m _ (by rw [indexIs_length]; exact hl)] at h
  simp only [Bool.and_eq_true] at h
  exact h.1

theorem le_foldl_max (l : List Nat) : ∀ (a : Nat), a ≤ l.foldl max a ∧ ∀ x ∈ l, x ≤ l.foldl max a := by
  induction l with
  | nil => intro a; simp
  | cons y t ih =>
    intro a
    simp only [List.foldl_cons]
    obtain ⟨h1, h2⟩ := ih (max a y)
    refine ⟨by omega, ?_⟩
    intro x hx
    simp only [List.mem_cons] at hx
    rcases hx with rfl | hx
    · omega
    · exact h2 x hx

/-- **the union of the visited items' dump sets is the prior time selection**: every previously
    selected dump is exposed by exactly the visited item carrying its index -/
theorem c03_cover (m : List Bool) (idx : List Nat) (p : Nat) (hl : m.length = idx.length)
    (hp : p < idx.length) (hm : m.getD p false = true) :
    idx[p] ∈ selectedIndices idx m ∧ (andMask m (indexIs idx idx[p])).getD p false = true := by
  constructor
  · unfold selectedIndices
    simp only [List.mem_filter, List.mem_range, List.contains_eq_mem, decide_eq_true_eq, List.mem_filterMap]
    refine ⟨?_, ?_⟩
    · have := (le_foldl_max idx 0).2 idx[p] (List.getElem_mem hp)
      omega
    · refine ⟨(idx[p], true), ?_, by simp⟩
      have hpm : p < m.length := by omega
      have hmp : m[p] = true := by
        simpa [List.getD_eq_getElem?_getD, List.getElem?_eq_getElem hpm] using hm
      have : (idx.zip m)[p]'(by simp [List.length_zip]; omega) = (idx[p], m[p]) := by simp
      rw [← hmp, ← this]
      exact List.getElem_mem _
  · rw [andMask_getD m _ (by rw [indexIs_length]; exact hl), indexIs_getD idx _ p hp, hm]
    simp

/-- items are visited in strictly increasing index order, each once -/
theorem c03_order (idx : List Nat) (m : List Bool) : (selectedIndices idx m).Pairwise (· < ·) := by
  unfold selectedIndices
  apply List.Pairwise.filter
  exact List.pairwise_lt_range

/-- every visited item really has a selected dump (no empty iterations) -/
theorem c03_visited_nonempty (idx : List Nat) (m : List Bool) (i : Nat) (hi : i ∈ selectedIndices idx m) :
    ∃ p, p < idx.length ∧ idx[p]? = some i ∧ m[p]? = some true := by
  unfold selectedIndices at hi
  simp only [List.mem_filter, List.mem_range, List.contains_eq_mem, decide_eq_true_eq, List.mem_filterMap] at hi
  obtain ⟨_, ⟨a, b⟩, hab, hsome⟩ := hi
  split at hsome
  · rename_i hb
    simp only [Option.some.injEq] at hsome
    subst hsome
    obtain ⟨p, hp, hget⟩ := List.getElem_of_mem hab
    simp only [List.length_zip] at hp
    simp only [List.getElem_zip, Prod.mk.injEq] at hget
    refine ⟨p, by omega, ?_, ?_⟩
    · rw [List.getElem?_eq_getElem (by omega)]; simp [hget.1]
    · rw [List.getElem?_eq_getElem (by omega)]
      have : b = true := hb
      simp [hget.2, this]
  · simp at hsome

/-- `Exact`: the time mask is exactly the base mask ANDed with the stored time criteria (and
    nothing more) -/
def Exact (base : Masks) (σ : St) : Prop := σ.masks.t = andAll base.t σ.sel .T

/-- **Restoration (partial)**: if the saved time mask is exactly what the saved criteria
    reproduce, then after exhaustion the time, frequency and product selections are those in force
    before iteration. -/
theorem c03_restore_partial (base : Masks) (σ : St) (hI : Inv base σ) (hE : Exact base σ)
    (hnd : (σ.sel.map (·.key)).Nodup) :
    (afterIteration base σ).masks = σ.masks := by
  have hW : CallWF base { crits := σ.sel, reset := .explicit [.T], bare := false } :=
    ⟨fun k hk => (hI.2 k hk).1, hnd⟩
  have h := (select_step base σ _ hI hW).1
  unfold afterIteration
  rw [h]
  have hF : andAll σ.masks.f σ.sel .F = σ.masks.f := by
    apply mask_ext
    · rw [andAll_length .F σ.sel _ (by
        intro k hk hkd
        have := (hI.2 k hk).1
        unfold CritWF at this
        rw [hkd] at this
        have := hI.1 .F
        simp only [Masks.get] at *
        omega)]
    · intro i _
      rw [andAll_getD .F σ.sel _ (by
        intro k hk hkd
        have := (hI.2 k hk).1
        unfold CritWF at this
        rw [hkd] at this
        have := hI.1 .F
        simp only [Masks.get] at *
        omega) i]
      cases hm : σ.masks.f.getD i false with
      | false => simp
      | true =>
        simp only [Bool.true_and, List.all_eq_true, Bool.or_eq_true, Bool.not_eq_true', beq_eq_false_iff_ne]
        intro k hk
        by_cases hkd : k.key.dim = .F
        · right
          have := (hI.2 k hk).2 i
          rw [hkd] at this
          exact this hm
        · left; exact hkd
  have hB : andAll σ.masks.b σ.sel .B = σ.masks.b := by
    apply mask_ext
    · rw [andAll_length .B σ.sel _ (by
        intro k hk hkd
        have := (hI.2 k hk).1
        unfold CritWF at this
        rw [hkd] at this
        have := hI.1 .B
        simp only [Masks.get] at *
        omega)]
    · intro i _
      rw [andAll_getD .B σ.sel _ (by
        intro k hk hkd
        have := (hI.2 k hk).1
        unfold CritWF at this
        rw [hkd] at this
        have := hI.1 .B
        simp only [Masks.get] at *
        omega) i]
      cases hm : σ.masks.b.getD i false with
      | false => simp
      | true =>
        simp only [Bool.true_and, List.all_eq_true, Bool.or_eq_true, Bool.not_eq_true', beq_eq_false_iff_ne]
        intro k hk
        by_cases hkd : k.key.dim = .B
        · right
          have := (hI.2 k hk).2 i
          rw [hkd] at this
          exact this hm
        · left; exact hkd
  unfold Exact at hE
  simp only [specStep, cleared, Bool.false_or, List.contains_cons, List.contains_nil, Bool.or_false]
  have e1 : (Dim.T == Dim.T) = true := rfl
  have e2 : (Dim.F == Dim.T) = false := rfl
  have e3 : (Dim.B == Dim.T) = false := rfl
  simp only [e1, e2, e3, if_true, Bool.false_eq_true, if_false, hF, hB, ← hE]

/-- The unguarded restoration claim is FALSE for the current code: after
    `select(dumps=[T,T,F,F]); select(dumps=[F,T,T,F], reset='')` the time mask is `[F,T,F,F]`, but
    exhausting scans()/compscans() re-applies only the stored `dumps=[F,T,T,F]` and leaves `[F,T,T,F]`. -/
def witnessBase : Masks := { t := [true, true, true, true], f := [true], b := [true] }
def witnessState : St :=
  [ ({ crits := [⟨.dumps, [true, true, false, false]⟩], reset := .auto, bare := false } : Call),
    { crits := [⟨.dumps, [false, true, true, false]⟩], reset := .explicit [], bare := false } ].foldl
    (select witnessBase) (init witnessBase)

theorem c03_restore_full_is_false :
    (afterIteration witnessBase witnessState).masks ≠ witnessState.masks := by decide

example : witnessState.masks.t = [false, true, false, false] := by decide
example : (afterIteration witnessBase witnessState).masks.t = [false, true, true, false] := by decide

/-- `Exact` is reachable: it holds initially and after every auto-reset call on the time axis,
    e.g. the ordinary history below; the hypotheses of `c03_restore_partial` are satisfiable. -/
def okState : St :=
  [ ({ crits := [⟨.dumps, [true, true, true, false]⟩, ⟨.channels, [true]⟩], reset := .auto, bare := false } : Call),
    { crits := [⟨.scans, [false, true, true, true]⟩], reset := .auto, bare := false } ].foldl
    (select witnessBase) (init witnessBase)
example : okState.masks.t = andAll witnessBase.t okState.sel .T := by decide
example : (afterIteration witnessBase okState).masks = okState.masks := by decide

/-! ### Structure: indices numbered consecutively from zero in time order -/

/-- per-dump value of the index sensor `CategoricalData(range(k), events)` -/
def indexPerDump : List Nat → Nat → List Nat
  | a :: b :: t, i => List.replicate (b - a) i ++ indexPerDump (b :: t) (i + 1)
  | _, _ => []

/-- for strictly increasing event boundaries the index sensor assigns every dump exactly one
    index; the indices are non-decreasing in time, start at `i0` and step by at most one -/
theorem c03_structure : ∀ (ev : List Nat) (i0 : Nat), ev.Pairwise (· < ·) →
    (indexPerDump ev i0).Pairwise (· ≤ ·) ∧
    (∀ x ∈ indexPerDump ev i0, i0 ≤ x ∧ x + 2 ≤ i0 + ev.length) ∧
    (indexPerDump ev i0).length = ev.getLastD 0 - ev.headD 0 := by
  intro ev
  induction ev with
  | nil => intro i0 _; simp [indexPerDump]
  | cons a t ih =>
    intro i0 hp
    cases t with
    | nil => simp [indexPerDump]
    | cons b t' =>
      obtain ⟨h1, h2⟩ := List.pairwise_cons.mp hp
      obtain ⟨ihp, ihb, ihl⟩ := ih (i0 + 1) h2
      have hab : a < b := h1 b (by simp)
      simp only [indexPerDump]
      refine ⟨?_, ?_, ?_⟩
      · apply List.pairwise_append.mpr
        refine ⟨?_, ihp, ?_⟩
        · exact List.pairwise_replicate.mpr (Or.inr (Nat.le_refl _))
        · intro x hx y hy
          have := (List.mem_replicate.mp hx).2
          have := (ihb y hy).1
          omega
      · intro x hx
        simp only [List.mem_append] at hx
        rcases hx with hx | hx
        · have := (List.mem_replicate.mp hx).2
          simp only [List.length_cons]; omega
        · have := ihb x hx
          simp only [List.length_cons] at this ⊢; omega
      · simp only [List.length_append, List.length_replicate, ihl, List.headD_cons]
        have hlast : (a :: b :: t').getLastD 0 = (b :: t').getLastD 0 := by simp [List.getLastD]
        rw [hlast]
        have hge : b ≤ (b :: t').getLastD 0 := by
          have : ∀ (l : List Nat) (x : Nat), (x :: l).Pairwise (· < ·) → x ≤ (x :: l).getLastD 0 := by
            intro l
            induction l with
            | nil => intro x _; simp [List.getLastD]
            | cons y l' ihl' =>
              intro x hx
              obtain ⟨hx1, hx2⟩ := List.pairwise_cons.mp hx
              have := ihl' y hx2
              have hxy := hx1 y (by simp)
              have e : (x :: y :: l').getLastD 0 = (y :: l').getLastD 0 := by simp [List.getLastD]
              rw [e]; omega
          exact this t' b h2
        omega

example : indexPerDump [0, 2, 3, 6] 0 = [0, 0, 1, 2, 2, 2] := by decide

/-- **The v4 segmentation keeps every series well-formed** (visdatav4.py:417-485 modelled with the
    categorical operations of C11: merge of the first dump into a slew, removal of empty labels,
    `add_unmatched`, `align`, `add`, `remove_repeats`, removal of the initial target): for any
    well-formed activity / label / target series the scans, labels and targets that come out have
    strictly increasing boundaries and valid indices, and the scans still end at the number of
    dumps — so by `c03_structure` the scan / compscan index sensors built from them number the
    segments consecutively from zero in time order. -/
theorem c03_segmentation_wf (scan0 label0 target0 : Categorical.Cat Nat)
    (hs : scan0.WF) (hl : label0.WF) (ht : target0.WF) (res : ScanStructure.Result)
    (h : ScanStructure.mkStructure scan0 label0 target0 = .ok res) :
    res.scan.WF ∧ res.label.WF ∧ res.target.WF ∧ res.scan.numDumps = scan0.numDumps :=
  ScanStructure.mkStructure_wf scan0 label0 target0 hs hl ht res h

example : (ScanStructure.mkStructure
    (Categorical.Cat.new [0, 1, 0, 1] [0, 2, 5, 7, 10]) (Categorical.Cat.new [1, 2] [0, 5, 10])
    (Categorical.Cat.new [1, 2] [0, 5, 10])).map (fun r => (r.scan.ev, r.label.ev, r.target.ev)) =
    .ok ([0, 2, 5, 7, 10], [0, 5, 10], [0, 5, 10]) := by decide

end C03
