import Driver.Common
import KatdalModel.Model.Select
import KatdalModel.Model.ScanStructure
open Np Index Drv Select

namespace D02

def parseNatListD (s : String) : List Nat := (parseNatList s).getD []
def parseIntListD (s : String) : List Int := (parseIntList s).getD []

/-- `a.p` -/
def parseInp (s : String) : Option (Nat × Nat) :=
  match s.splitOn "." with
  | [a, p] => do let a ← a.toNat?; let p ← p.toNat?; pure (a, p)
  | _ => none

def parseInpList (s : String) : Option (List (Nat × Nat)) :=
  if s = "" then some [] else (s.splitOn ",").mapM parseInp

def parseCtx (fields : List String) : Option Ctx :=
  match fields with
  | [nT, nF, nB, ts, half, ss, si, lb, ci, ti, tags, fr, hw, cpa, cpb] => do
    let nT ← nT.toNat?; let nF ← nF.toNat?; let nB ← nB.toNat?
    let half ← half.toInt?; let hw ← hw.toInt?
    let cpA ← parseInpList cpa; let cpB ← parseInpList cpb
    let tagl : List (List Nat) := if tags = "" then [] else (tags.splitOn ";").map parseNatListD
    pure { nT := nT, nF := nF, nB := nB, ts := parseIntListD ts, half := half,
           scanState := parseNatListD ss, scanIdx := parseNatListD si, label := parseNatListD lb,
           csIdx := parseNatListD ci, tgtIdx := parseNatListD ti, tgtTags := tagl,
           freqs := parseIntListD fr, halfw := hw, cpA := cpA, cpB := cpB }
  | _ => none

def parseScanItem (s : String) : Option ScanItem :=
  match s.toList with
  | 'i' :: r => (String.ofList r).toInt?.map ScanItem.idx
  | 'n' :: r => (String.ofList r).toNat?.map ScanItem.name
  | 'x' :: r => (String.ofList r).toNat?.map ScanItem.notName
  | _ => none

def parseItems {α} (f : String → Option α) (s : String) : Option (List α) :=
  if s = "" then some [] else (s.splitOn ",").mapM f

def parseKey (s : String) : Option Key :=
  match s with
  | "dumps" => some .dumps | "timerange" => some .timerange | "scans" => some .scans
  | "compscans" => some .compscans | "targets" => some .targets | "target_tags" => some .targetTags
  | "channels" => some .channels | "freqrange" => some .freqrange | "corrprods" => some .corrprods
  | "ants" => some .ants | "inputs" => some .inputs | "pol" => some .pol
  | _ => none

def parsePair (s : String) : Option ((Nat × Nat) × (Nat × Nat)) :=
  match s.splitOn "-" with
  | [a, b] => do let a ← parseInp a; let b ← parseInp b; pure (a, b)
  | _ => none

def parseVal (k : Key) (v : String) : Option Val :=
  match k with
  | .dumps | .channels => (parseIx v).map Val.index
  | .timerange | .freqrange =>
    match v.splitOn "," with
    | [a, b] => do let a ← a.toInt?; let b ← b.toInt?; pure (Val.range a b)
    | _ => none
  | .scans | .compscans => (parseItems parseScanItem v).map Val.scans
  | .targets => (parseIntList v).map Val.targets
  | .targetTags => (parseNatList v).map Val.tags
  | .corrprods =>
    if v = "auto" then some .cpAuto else if v = "cross" then some .cpCross
    else if v.startsWith "p:" then (parseItems parsePair (v.drop 2).toString).map Val.cpPairs
    else (parseIx v).map Val.index
  | .ants => (parseItems (fun s => match s.toList with
      | 't' :: r => (String.ofList r).toNat?.map fun n => (true, n)
      | 'n' :: r => (String.ofList r).toNat?.map fun n => (false, n)
      | _ => none) v).map Val.ants
  | .inputs => (parseInpList v).map Val.inputs
  | .pol =>
    let items := if v = "" then [] else v.splitOn ","
    (items.mapM fun (it : String) => it.toList.mapM fun c =>
      if c = '0' then some 0 else if c = '1' then some 1 else if c = '2' then some 2 else none).map Val.pol

def parseReset (s : String) : Option Reset :=
  if s = "auto" then some .auto
  else if s = "-" then some (.explicit [])
  else (s.toList.mapM fun c => if c = 'T' then some Dim.T else if c = 'F' then some Dim.F
        else if c = 'B' then some Dim.B else none).map Reset.explicit

def parseKw (s : String) : Option (Key × Val) :=
  match s.splitOn "=" with
  | k :: rest => do
    let key ← parseKey k
    let v ← parseVal key ("=".intercalate rest)
    pure (key, v)
  | _ => none

def showMasks (m : Masks) : String := s!"T={showMask m.t} F={showMask m.f} B={showMask m.b}"

structure DS where
  ctx : Ctx
  st : St
  spec : Masks      -- the dict-free specification machine, run alongside

def step (s : DS) (line : String) : DS × String :=
  match line.splitOn " " with
  | "ctx" :: fields =>
    match parseCtx (" ".intercalate fields |>.splitOn "|") with
    | some c => ({ ctx := c, st := init (baseMasks c), spec := baseMasks c }, "ok")
    | none => (s, "bad-op")
  | "sel" :: reset :: bare :: kws =>
    match parseReset reset, kws.mapM parseKw with
    | some r, some kws =>
      let raw : RawCall := { kws := kws, reset := r, bare := bare = "1" }
      match evalCall s.ctx raw with
      | .error e => (s, showErr e)
      | .ok call =>
        let st' := select (baseMasks s.ctx) s.st call
        let sp' := specStep (baseMasks s.ctx) s.spec call
        ({ s with st := st', spec := sp' },
          s!"{showMasks st'.masks} | spec {showMasks sp'} | keys {st'.sel.length}")
    | _, _ => (s, "bad-op")
  | ["iter", which] =>
    let (key, idx) := if which = "scans" then (Key.scans, s.ctx.scanIdx) else (Key.compscans, s.ctx.csIdx)
    let base := baseMasks s.ctx
    let items := selectedIndices idx s.st.masks.t
    let during := items.map fun i => s!"{i}:{showMask (duringItem base s.st key idx i).masks.t}"
    let after := afterIteration base s.st
    ({ s with st := after, spec := after.masks },
      (if during.isEmpty then "-" else ";".intercalate during) ++ " | after " ++ showMasks after.masks)
  | _ => (s, "bad-op")

end D02

namespace D03
open Categorical ScanStructure

def intList (s : String) : List Int := if s = "-" then [] else (parseIntList s).getD []
def natList (s : String) : List Nat := if s = "-" then [] else (parseNatList s).getD []
def showL (l : List Nat) : String := if l.isEmpty then "-" else showNatList l

/-- raw activity id -> simplified state id (SIMPLIFY_STATE.get(act, 'stop')):
    0 slew, 1 track, 2 scan, 3 stop, 4 scan_ready -> slew, 5 scan_complete -> scan, anything else -> stop -/
def simplify (v : Nat) : Nat :=
  match v with
  | 0 => 0 | 1 => 1 | 2 => 2 | 3 => 3 | 4 => 0 | 5 => 2 | _ => 3

/-- `structure <N> <act ts> <act vals> <label ts> <label vals> <target ts> <target vals>`
    times in half-dump units relative to the first dump's mid-time (dump d ends at 2d+1) -/
def structureOp (n : Nat) (ats : List Int) (avs : List Nat) (lts : List Int) (lvs : List Nat)
    (tts : List Int) (tvs : List Nat) : String :=
  let ends : List Int := (List.range n).map fun (d : Nat) => 2 * Int.ofNat d + 1
  let r : Except Err Result := do
    let scan0 ← sensorToCategorical ats avs ends 2 (some simplify) (some SLEW) [SLEW, STOP] false
    let label0 ← sensorToCategorical lts lvs ends 2 none (some EMPTY) [] true
    let target0 ← sensorToCategorical tts tvs ends 2 none (some EMPTY) [] false
    mkStructure scan0 label0 target0
  match r with
  | .error e => showErr e
  | .ok res =>
    let scanState := (uniqIndexPerDump res.scan).map fun i => res.scan.uniq.getD i 99
    let labelVal := (uniqIndexPerDump res.label).map fun i => res.label.uniq.getD i 99
    let tgtVal := (uniqIndexPerDump res.target).map fun i => res.target.uniq.getD i 99
    s!"{showL (indexPerDump res.scan)}|{showL (indexPerDump res.label)}|{showL (uniqIndexPerDump res.target)}|{showL scanState}|{showL labelVal}|{showL tgtVal}"

def step (s : D02.DS) (line : String) : D02.DS × String :=
  match line.splitOn " " with
  | ["structure", n, ats, avs, lts, lvs, tts, tvs] =>
    match n.toNat? with
    | some n => (s, structureOp n (intList ats) (natList avs) (intList lts) (natList lvs) (intList tts) (natList tvs))
    | none => (s, "bad-op")
  | _ => D02.step s line

end D03

def main : IO Unit :=
  Drv.loopState ({ ctx := default, st := default, spec := default } : D02.DS) D03.step
