"""C07 - chunk store round trip and chunk addressing (Dict / NPY / S3 back-ends)."""
import itertools
import json
import os
import shutil
import tempfile
from fractions import Fraction

import dask
import dask.array as da
import numpy as np
from urllib3.util.retry import Retry

from harness import chunkzoo as zoo
from harness import common
from harness.fakes3 import FakeS3
from katdal.chunkstore import BadChunk, ChunkStore, _prune_chunks, generate_chunks
from katdal.chunkstore_dict import DictChunkStore
from katdal.chunkstore_npy import NpyFileChunkStore
from katdal.chunkstore_s3 import S3ChunkStore

RULE = ('store cases = (dtype from a 25-entry zoo incl. bool/ints/floats/complex/big-endian/bytes/unicode/'
        'datetime/structured with padding and sub-arrays, shape 0-3 dims with sizes 0-6, random chunking, '
        'offset or unit-step index slices written in every Python way, errors mode) on each of Dict / NPY / '
        'S3 (fakes3 on loopback): put_dask_array, chunk-by-chunk get_chunk, directory listing / object keys '
        'against the model names, get_dask_array with and without index against x[index] byte for byte, '
        'requested chunk set against the model read set, _prune_chunks against the model.  meta cases = '
        'chunk_metadata on random (also malformed) slices.  gen cases = generate_chunks on random '
        'parameters (float-exact ones only).  non-trivial = non-empty array with more than one chunk or a '
        'non-full index; distinct = hash of the encoded case.')
TRUSTED = ['Lean 4.33 kernel', 'axioms: propext, Classical.choice, Quot.sound only',
           'hand-written model KatdalModel/Model/ChunkStore.lean tied to /repo by this differential run',
           'numpy NPY encode/decode is an opaque bijection in the model (exercised by every store case)',
           'dask builds one block per chunk of the spec it is given and evaluates only blocks the index needs '
           '(assumption, checked by the read-set comparison)',
           'harness/fakes3.py stands in for an S3 endpoint']
CHECKER = 'lake build KatdalModel.Props.C07 kd_c07 && lake env lean <#print axioms audit>'

CALLS = []


class CountingDict(DictChunkStore):
    def get_chunk(self, array_name, slices, dtype):
        CALLS.append(tuple((s.start, s.stop) for s in slices))
        return super().get_chunk(array_name, slices, dtype)


class CountingNpy(NpyFileChunkStore):
    def get_chunk(self, array_name, slices, dtype):
        CALLS.append(tuple((s.start, s.stop) for s in slices))
        return super().get_chunk(array_name, slices, dtype)


class CountingS3(S3ChunkStore):
    def get_chunk(self, array_name, slices, dtype):
        CALLS.append(tuple((s.start, s.stop) for s in slices))
        return super().get_chunk(array_name, slices, dtype)


class Env:
    """Per-run resources: a temp directory for the NPY store and one fake S3 endpoint."""

    def __init__(self):
        self.root = tempfile.mkdtemp(prefix='c07npy')
        self.s3 = FakeS3().__enter__()
        self.s3._server.handle_error = lambda *a: None    # a client that dies mid-request is not news
        self.counter = 0

    def close(self):
        self.s3.__exit__(None, None, None)
        shutil.rmtree(self.root, ignore_errors=True)

    def fresh(self):
        self.counter += 1
        return self.counter

    def s3store(self):
        return CountingS3(self.s3.url, timeout=60, retries=Retry(connect=0, read=0, status=0, backoff_factor=0))


# ------------------------------------------------------------------ generators

def gen_store_case(rng):
    label = rng.choice([z[0] for z in zoo.ZOO])
    ndim = rng.choice([0, 1, 1, 2, 2, 2, 3])
    shape = [rng.randint(0 if rng.random() < 0.08 else 1, 6) for _ in range(ndim)]
    chunks = [zoo.random_partition(rng, n) for n in shape]
    backend = rng.choice(['dict', 'npy', 's3'])
    mode = rng.choice(['offset', 'index', 'index', 'plain'])
    offset = []
    index = []
    if mode == 'offset' and ndim:
        offset = [rng.randint(0, 3) if rng.random() < 0.7 else 0 for _ in range(ndim)]
    if mode == 'index' and ndim:
        index = [zoo.gen_unit_slice(rng, n) for n in shape]
        if rng.random() < 0.25:
            index = index[:rng.randint(1, ndim)]
    return dict(kind='store', dtype=label, shape=shape, chunks=chunks, backend=backend, offset=offset,
                index=index, errors=rng.choice([0, 0, 'raise', 'placeholder']),
                arrseed=rng.getrandbits(32), bucket=rng.choice(['bkt', 'my_bkt', 'a_b_c']),
                array=rng.choice(['x', 'x_y', 'sub/x.z']))


def gen_meta_case(rng):
    nd = rng.choice([0, 1, 2, 3])
    sl = []
    for _ in range(nd):
        a = rng.choice([None] * 1 + [rng.randint(-3, 130000) for _ in range(19)])
        b = rng.choice([None] * 1 + [(a or 0) + rng.randint(0, 9) for _ in range(19)])
        c = rng.choice([None, None, None, 1, 1, 1, 1, 1, 1, 2, -1, 0])
        sl.append((a, b, c))
    r = rng.random()
    if r < 0.4:
        cs = None
    elif r < 0.8:
        cs = [max(0, (b or 0) - (a or 0)) for a, b, _ in sl]
    else:
        cs = [rng.randint(0, 4) for _ in range(rng.choice([nd, nd, max(0, nd - 1), nd + 1]))]
    return dict(kind='meta', array=rng.choice(['x', 'cb/x', 'a_b/c', 'x/', '']), slices=sl, chunkshape=cs,
                chunkobj=rng.random() < 0.1, dtypeobj=rng.random() < 0.1, with_dtype=rng.random() < 0.5)


def gen_gen_case(rng):
    nd = rng.choice([1, 2, 2, 3, 3, 4])
    shape = [rng.randint(0 if rng.random() < 0.05 else 1, rng.choice([6, 40, 300])) for _ in range(nd)]
    itemsize = rng.choice([1, 1, 2, 4, 8, 8, 16, 3, 12])
    total = int(np.prod(shape)) * itemsize
    mcs = rng.choice([rng.randint(0, max(1, 2 * total)), rng.randint(1, 64), 2 ** rng.randint(0, 14)])
    if rng.random() < 0.3:
        dims = None
    else:
        dims = rng.sample(range(nd), rng.randint(0, nd))
    mde = None
    if rng.random() < 0.5:
        mde = {d: rng.randint(1, max(1, shape[d] + 2)) for d in range(nd) if rng.random() < 0.6}
    return dict(kind='gen', shape=shape, itemsize=itemsize, max_chunk_size=mcs, dims=dims,
                pow2=rng.random() < 0.5, mde=mde)


def gen_url_case(rng):
    comps = [''.join(rng.choice('ab_-.9') for _ in range(rng.randint(1, 5))) for _ in range(rng.randint(1, 3))]
    comps = [c if c not in ('.', '..', '-.', '.-') and not c.startswith('.') else 'q' + c.replace('.', 'd')
             for c in comps]
    return dict(kind='url', name='/'.join(comps), starts=[rng.randint(0, 120000) for _ in range(rng.randint(0, 3))])


# the documented forms (docstrings of ChunkStore.chunk_id_str, NpyFileChunkStore, S3ChunkStore)
DOC_EXAMPLES = [((12, 1024, 0), '00012_01024_00000'), ((1, 512), '00001_00512'), ((0,), '00000'),
                ((99999, 100000), '99999_100000')]


def run_doc_case(ctx, case):
    starts, want = DOC_EXAMPLES[case['i']]
    slices = tuple(slice(a, a + 1) for a in starts)
    got = ChunkStore.chunk_id_str(slices)
    if got != want:
        return f'chunk_id_str{starts} gives {got!r}, the documented zero-padded form is {want!r}'
    name, _ = ChunkStore.chunk_metadata('array', slices)
    if name != 'array/' + want:
        return f'chunk name for {starts} is {name!r}, documented form is {"array/" + want!r}'
    return None


def gen_complete_case(rng):
    return dict(kind='complete', backend=rng.choice(['dict', 'npy', 's3']),
                array=rng.choice(['x', 'x_y', 'deep/er/x']), bucket=rng.choice(['bkt', 'my_bkt']))


# ------------------------------------------------------------------ model requests

def arr_name(case, env_id):
    if case['backend'] == 's3':
        return f"{case['bucket']}{env_id}/{case['array']}"
    return f"a{env_id}/{case['array']}"


def itemsize_dtype(n):
    return np.dtype([('f', 'u1', (n,))]) if n not in (1, 2, 4, 8, 16) else np.dtype({1: 'u1', 2: 'u2', 4: 'f4',
                                                                                      8: 'f8', 16: 'c16'}[n])


def model_lines(case):
    """Request lines whose replies `judge_*` needs, in a fixed order."""
    k = case['kind']
    if k == 'store':
        name = case['_name']
        lines = []
        for sl in zoo.chunk_slices(case['chunks'], case['offset'] or None):
            lines.append(f"name {name} {','.join(str(a) for a, _ in sl)}")
        if case['index']:
            lines.append(f"prune {zoo.enc_chunks(case['chunks'])} {zoo.enc_slices(case['index'])}")
            lines.append(f"bounds {zoo.enc_chunks(case['chunks'])} {zoo.enc_slices(case['index'])}")
        return lines
    if k == 'meta':
        cs = 'none' if case['chunkshape'] is None else zoo.enc_shape(case['chunkshape'])
        return [f"meta {case['array'] or '%'} {zoo.enc_slices(case['slices'])} {cs} "
                f"{int(case['chunkobj'] and case['chunkshape'] is not None)} "
                f"{int(case['dtypeobj'] and case['with_dtype'])}"]
    if k == 'gen':
        nd = len(case['shape'])
        dims = list(range(nd)) if case['dims'] is None else case['dims']
        md = '-' if not case['mde'] else ','.join(f'{d}={v}' for d, v in sorted(case['mde'].items()))
        return [f"gen {zoo.enc_shape(case['shape'])} {case['itemsize']} {case['max_chunk_size']} "
                f"{','.join(map(str, dims)) if dims else '-'} {int(case['pow2'])} {md}"]
    if k == 'url':
        return [f"name {case['name']} {','.join(map(str, case['starts']))}"]
    if k in ('complete', 'doc'):
        return []
    raise ValueError(k)


# ------------------------------------------------------------------ implementation side

def make_store(case, env, x):
    b = case['backend']
    name = case['_name']
    if b == 'dict':
        full = tuple(n + (case['offset'][i] if case['offset'] else 0) for i, n in enumerate(case['shape']))
        return CountingDict(**{name: np.zeros(full, dtype=x.dtype)})
    if b == 'npy':
        return CountingNpy(env.root)
    return env.s3store()


def run_store_case(ctx, case, env, replies):
    """Returns violation text or None."""
    dtype = zoo.zoo_dtype(case['dtype'])
    shape = tuple(case['shape'])
    import random
    x = zoo.make_array(random.Random(case['arrseed']), dtype, shape)
    chunks = tuple(tuple(c) for c in case['chunks'])
    offset = tuple(case['offset'])
    name = case['_name']
    store = make_store(case, env, x)
    slices_all = zoo.chunk_slices(case['chunks'], case['offset'] or None)
    names = replies[:len(slices_all)]
    rest = replies[len(slices_all):]
    with dask.config.set(scheduler='synchronous'):
        # ---- write
        try:
            if case['backend'] != 'dict':
                store.create_array(name)
            dx = da.from_array(x, chunks=chunks) if x.ndim else da.from_array(x, chunks=())
            res = store.put_dask_array(name, dx, offset).compute()
        except Exception as e:   # noqa: BLE001
            return f'put_dask_array raised {type(e).__name__}: {e}'
        bad = [r for r in np.asarray(res, dtype=object).ravel() if r is not None]
        if bad:
            return f'put_dask_array reported {type(bad[0]).__name__}: {bad[0]}'
        # ---- addressing: names in the store are exactly the model names
        if case['backend'] == 'npy':
            d = os.path.join(env.root, name)
            got = sorted(os.listdir(d)) if os.path.isdir(d) else []
            paths = common.run_model('C07', [f'npypath {env.root} {n}' for n in names])
            want = sorted(os.path.relpath(p, d) for p in paths)
            if got != want:
                return f'NPY directory holds {got[:6]} but the documented names are {want[:6]}'
        elif case['backend'] == 's3':
            paths = common.run_model('C07', [f's3path {n}' for n in names])
            prefix = common.run_model('C07', [f's3path {name}/'])[0][:-len('.npy')]
            got = sorted(k for k in env.s3.objects if k.startswith(prefix))
            if got != sorted(paths):
                return f'S3 endpoint holds {got[:6]} but the documented keys are {sorted(paths)[:6]}'
        # ---- chunk by chunk
        for sl in slices_all:
            py = tuple(slice(a, b) for a, b in sl)
            src = tuple(slice(a - (offset[i] if offset else 0), b - (offset[i] if offset else 0))
                        for i, (a, b) in enumerate(sl))
            try:
                got = store.get_chunk(name, py, dtype)
            except Exception as e:   # noqa: BLE001
                return f'get_chunk{sl} raised {type(e).__name__}: {e}'
            if not zoo.same_array(got, x[src] if x.ndim else x):
                return f'get_chunk{sl} differs from what was stored'
        # ---- memory layout of the chunk handed to put_chunk is irrelevant: a Fortran-ordered (transposed) and a
        #      strided copy of the first chunk read back as the same elements (NPY also with direct_write)
        if x.ndim >= 2 and x.size and case['backend'] != 'dict':
            sl0 = slices_all[0]
            py0 = tuple(slice(a, b) for a, b in sl0)
            src0 = tuple(slice(a - (offset[i] if offset else 0), b - (offset[i] if offset else 0))
                         for i, (a, b) in enumerate(sl0))
            want0 = np.ascontiguousarray(x[src0])
            big = np.zeros(tuple(2 * n for n in want0.shape), dtype=x.dtype)
            big[tuple(slice(None, None, 2) for _ in want0.shape)] = want0
            layouts = [('Fortran-ordered', np.asfortranarray(want0)),
                       ('strided', big[tuple(slice(None, None, 2) for _ in want0.shape)])]
            stores = [('', store)]
            if case['backend'] == 'npy':
                try:
                    stores.append((' (direct_write)', NpyFileChunkStore(env.root, direct_write=True)))
                except Exception:   # noqa: BLE001  (O_DIRECT unsupported on this file system)
                    ctx.tag('direct-write-unavailable')
            for sfx, st in stores:
                for lname, arr in layouts:
                    name2 = f'{name}_{lname[:3].lower()}{"d" if sfx else ""}'
                    try:
                        if case['backend'] != 'dict':
                            st.create_array(name2)
                        st.put_chunk(name2, py0, arr)
                        got = store.get_chunk(name2, py0, dtype)
                    except Exception as e:   # noqa: BLE001
                        return f'put_chunk / get_chunk of a {lname} chunk{sfx} raised {type(e).__name__}: {str(e)[:120]}'
                    if not zoo.same_array(got, want0):
                        return (f'a {lname} chunk{sfx} of shape {want0.shape} does not read back element for element '
                                f'(first elements {np.asarray(got).ravel()[:4].tolist()} vs '
                                f'{want0.ravel()[:4].tolist()})')
            ctx.tag('chunk-layouts')
        # ---- lazily, whole array (with offset) or with index
        index = tuple(slice(*s) for s in case['index'])
        del CALLS[:]
        try:
            kwargs = dict(errors=case['errors'])
            if index:
                kwargs['index'] = index
            elif offset:
                kwargs['offset'] = offset
            arr = store.get_dask_array(name, chunks, dtype, **kwargs)
            if CALLS:
                return f'get_dask_array read {len(CALLS)} chunk(s) before compute()'
            out = arr.compute()
        except Exception as e:   # noqa: BLE001
            return f'lazy read raised {type(e).__name__}: {str(e)[:200]}'
        want = x[index] if index else x
        if tuple(arr.shape) != want.shape or arr.dtype != want.dtype:
            return f'lazy array advertises {arr.shape}/{arr.dtype}, expected {want.shape}/{want.dtype}'
        if not zoo.same_array(out, want):
            return 'lazy read differs from x[index]'
        calls = sorted(CALLS)
        if index:
            prune_rep, bounds_rep = rest[0], rest[1]
            if prune_rep.startswith('E:'):
                return f'model rejects index {case["index"]} ({prune_rep}) but the implementation accepted it'
            if want.size:
                per_axis = [[tuple(int(v) for v in b.split('-')) for b in ax.split(',')]
                            for ax in bounds_rep.split(';')] if bounds_rep != '-' else []
                expect = sorted(itertools.product(*per_axis))
                if calls != expect:
                    return (f'chunks requested {calls[:8]} != stored chunks overlapping the slices '
                            f'{expect[:8]}')
                ctx.traces_validated += 1
                # _prune_chunks itself
                pc, pi, po = _prune_chunks(chunks, index)
                enc = ';'.join(
                    f"{','.join(map(str, c))}|"
                    f"{'_:_' if i == slice(None) else f'{i.start}:{i.stop}'}|{o}"
                    for c, i, o in zip(pc, pi, po)) or '-'
                if enc != prune_rep:
                    return f'_prune_chunks gives {enc}, model {prune_rep}'
            else:
                ctx.tag('empty-selection')
                if len(set(calls)) != len(calls):
                    return f'empty selection read a chunk twice: {calls}'
        else:
            if want.size and calls != sorted(slices_all):
                return f'whole-array read requested {calls[:8]}, stored chunks are {sorted(slices_all)[:8]}'
        # ---- parts of one array written at different offsets, and the same array written to two stores, each pair
        #      of puts evaluated in ONE dask computation: every chunk arrives where it was sent
        if x.ndim and not offset and len(chunks[0]) >= 2 and x.size and case['backend'] != 's3':
            h = chunks[0][0]
            rest = tuple(chunks[1:])
            name3 = f'{name}_parts'
            other = make_store(dict(case, _name=name3), env, x) if case['backend'] == 'dict' else store
            try:
                if case['backend'] != 'dict':
                    other.create_array(name3)
                p1 = other.put_dask_array(name3, da.from_array(x[:h], chunks=((h,),) + rest), (0,) * x.ndim)
                p2 = other.put_dask_array(name3, da.from_array(x[h:], chunks=(tuple(chunks[0][1:]),) + rest),
                                          (h,) + (0,) * (x.ndim - 1))
                r1, r2 = dask.compute(p1, p2)
                failed = [r for r in list(np.asarray(r1, dtype=object).ravel()) + list(np.asarray(r2, dtype=object).ravel())
                          if r is not None]
                back = other.get_dask_array(name3, chunks, dtype, errors='raise').compute()
            except Exception as e:   # noqa: BLE001
                return (f'two parts of one array written at offsets 0 and {h} in one dask computation: '
                        f'{type(e).__name__}: {str(e)[:140]}')
            if failed:
                return f'joint put of two parts reported {type(failed[0]).__name__}: {failed[0]}'
            if not zoo.same_array(back, x):
                return (f'two parts of one array written at offsets 0 and {h} in one dask computation do not read back '
                        f'as the array (both puts reported success)')
            ctx.tag('joint-put-two-offsets')
            # the SAME dask array written at two offsets of one array name in one dask computation
            name5 = f'{name}_tile'
            tile = da.from_array(x[:h], chunks=((h,),) + rest)
            twice = np.empty((2 * h,) + x.shape[1:], dtype=x.dtype)
            twice[:h] = x[:h]
            twice[h:] = x[:h]
            other5 = make_store(dict(case, _name=name5, shape=list(twice.shape)), env, twice) if case['backend'] == 'dict' \
                else store
            try:
                if case['backend'] != 'dict':
                    other5.create_array(name5)
                q1 = other5.put_dask_array(name5, tile, (0,) * x.ndim)
                q2 = other5.put_dask_array(name5, tile, (h,) + (0,) * (x.ndim - 1))
                dask.compute(q1, q2)
                back5 = other5.get_dask_array(name5, ((h, h),) + rest, dtype, errors='raise').compute()
            except Exception as e:   # noqa: BLE001
                return (f'one dask array written at offsets 0 and {h} of one array name in one dask computation: reading '
                        f'both regions back raised {type(e).__name__}: {str(e)[:120]}')
            if not zoo.same_array(back5, twice):
                return (f'one dask array written at offsets 0 and {h} of one array name in one dask computation: only one '
                        f'of the two regions holds it afterwards (both puts reported success)')
            ctx.tag('joint-put-same-array-two-offsets')
            # the same array name written to TWO stores in one dask computation: both stores receive their chunks
            if case['backend'] == 'npy':
                # the SAME dask array written to two array names that share their last component (two capture blocks'
                # flags, say) in one dask computation: both arrays hold it afterwards
                dx6 = da.from_array(x, chunks=chunks)
                names6 = [f'{name}_cbA/flags', f'{name}_cbB/flags']
                try:
                    for n6 in names6:
                        store.create_array(n6)
                    dask.compute(*[store.put_dask_array(n6, dx6) for n6 in names6])
                    backs = [store.get_dask_array(n6, chunks, dtype, errors='raise').compute() for n6 in names6]
                except Exception as e:   # noqa: BLE001
                    return (f'one dask array written to the array names {names6} in one dask computation (both puts '
                            f'reported success): reading them back raised {type(e).__name__}: {str(e)[:120]}')
                if not all(zoo.same_array(b, x) for b in backs):
                    return (f'one dask array written to the array names {names6} in one dask computation: only one of '
                            f'them holds it afterwards')
                ctx.tag('joint-put-two-names-same-last-component')
                d2 = tempfile.mkdtemp(prefix='c07_second_')
                try:
                    second = NpyFileChunkStore(d2)
                    name4 = f'{name}_twostores'
                    store.create_array(name4)
                    second.create_array(name4)
                    dx4 = da.from_array(x, chunks=chunks)
                    dask.compute(store.put_dask_array(name4, dx4), second.put_dask_array(name4, dx4))
                    for label, st in (('first', store), ('second', second)):
                        try:
                            got = st.get_dask_array(name4, chunks, dtype, errors='raise').compute()
                        except Exception as e:   # noqa: BLE001
                            return (f'one array put to two stores in one dask computation (both puts reported '
                                    f'success): reading it back from the {label} store raised {type(e).__name__}')
                        if not zoo.same_array(got, x):
                            return f'one array put to two stores in one dask computation: the {label} store differs'
                    ctx.tag('joint-put-two-stores')
                    # ... and two stores holding DIFFERENT arrays under one name, read lazily in one dask computation
                    if x.dtype.kind in 'iufc' and x.size:
                        name6 = f'{name}_twoget'
                        x2 = (x[::-1].copy() if x.shape[0] > 1 and not zoo.same_array(x[::-1], x) else x + x.dtype.type(1))
                        store.create_array(name6)
                        second.create_array(name6)
                        store.put_dask_array(name6, da.from_array(x, chunks=chunks)).compute()
                        second.put_dask_array(name6, da.from_array(x2, chunks=chunks)).compute()
                        g1, g2 = dask.compute(store.get_dask_array(name6, chunks, dtype, errors='raise'),
                                              second.get_dask_array(name6, chunks, dtype, errors='raise'))
                        if not zoo.same_array(g1, x) or not zoo.same_array(g2, x2):
                            return ('two stores hold different arrays under one name; read lazily in one dask computation '
                                    'one of them returns the data of the other')
                        ctx.tag('joint-get-two-stores')
                finally:
                    shutil.rmtree(d2, ignore_errors=True)
        # ---- two lazy arrays of the same stored array restricted to different windows, computed in ONE graph
        if x.ndim and not offset and len(chunks[0]) >= 2 and x.size:
            sizes = list(chunks[0])
            starts = np.cumsum([0] + sizes)
            pairs = [(i, j) for i in range(len(sizes)) for j in range(i + 1, len(sizes)) if sizes[i] == sizes[j]]
            i, j = pairs[0] if pairs else (0, len(sizes) - 1)
            wins = [(slice(int(starts[k]), int(starts[k + 1])),) + tuple(slice(0, n) for n in x.shape[1:])
                    for k in (i, j)]
            try:
                lazies = [store.get_dask_array(name, chunks, dtype, index=w, errors=case['errors']) for w in wins]
                outs = dask.compute(*lazies)
                diff = (lazies[1] != lazies[0]).any().compute() if x.dtype.kind in 'iufb' and sizes[i] == sizes[j] \
                    else None
            except Exception as e:   # noqa: BLE001
                return f'two windowed lazy reads computed together raised {type(e).__name__}: {str(e)[:160]}'
            for w, o in zip(wins, outs):
                if not zoo.same_array(o, x[w]):
                    return (f'two lazy arrays of one stored array restricted to rows {wins[0][0]} and {wins[1][0]} and '
                            f'computed in one graph: the one for rows {w[0]} differs from x[index]')
            if diff is not None and bool(diff) != bool((x[wins[0]] != x[wins[1]]).any()):
                return (f'comparing the lazy arrays for rows {wins[0][0]} and {wins[1][0]} inside one graph gives '
                        f'{bool(diff)} but the stored windows give {not bool(diff)}')
            ctx.tag('two-windows-one-graph' + ('-equal-chunks' if pairs else ''))
    return None


def run_meta_case(ctx, case, reply):
    slices = tuple(slice(*s) for s in case['slices'])
    chunk = None
    if case['chunkshape'] is not None:
        chunk = np.empty(case['chunkshape'], dtype=object if case['chunkobj'] else np.uint8)
    dtype = None
    if case['with_dtype']:
        dtype = np.dtype([('a', 'O'), ('b', 'f4')]) if case['dtypeobj'] else np.dtype('<f4')
    try:
        nm, shp = ChunkStore.chunk_metadata(case['array'], slices, chunk=chunk, dtype=dtype)
        got = f"ok {nm if case['array'] else '%' + nm} {zoo.enc_shape(shp)}"
    except TypeError:
        got = 'E:TypeError'
    except BadChunk:
        got = 'E:BadChunk'
    except Exception as e:   # noqa: BLE001
        got = f'E:{type(e).__name__}'
    ctx.tag('meta-' + got.split(' ')[0].replace(':', '-'))
    if got != reply:
        return f'chunk_metadata gives {got!r}, documented behaviour is {reply!r}'
    return None


def float_exact(case):
    """True when every branch decision of generate_chunks' float arithmetic agrees with exact
    rational arithmetic on this input (replays the float expressions next to Fractions)."""
    shape = case['shape']
    nd = len(shape)
    dims = list(range(nd)) if case['dims'] is None else case['dims']
    mde = case['mde'] or {}
    de = list(shape)
    for i in dims:
        if i in mde and mde[i] < shape[i]:
            if case['pow2']:
                f = 2 ** int(np.floor(np.log2(mde[i])))
                e = 1 << (int(mde[i]).bit_length() - 1)
                if f != e:
                    return False
                de[i] = e
            else:
                de[i] = mde[i]
    me_f = case['max_chunk_size'] / case['itemsize']
    me_q = Fraction(case['max_chunk_size'], case['itemsize'])
    for dim in dims:
        cur = int(np.prod(de))
        if (cur <= me_f) != (cur <= me_q):
            return False
        if cur <= me_q:
            break
        t_f = de[dim] * me_f / cur
        t_q = de[dim] * me_q / cur
        if (t_f < 1) != (t_q < 1):
            return False
        if t_q < 1:
            trg = 1
        elif case['pow2']:
            f = 2 ** int(np.floor(np.log2(t_f)))
            e = 1 << ((t_q.numerator // t_q.denominator).bit_length() - 1)
            if f != e:
                return False
            trg = e
        else:
            p_f = int(np.ceil(shape[dim] / t_f))
            pq = Fraction(shape[dim]) / t_q
            p_q = -((-pq.numerator) // pq.denominator)
            if p_f != p_q:
                return False
            if int(np.floor(shape[dim] / p_f)) != shape[dim] // p_q:
                return False
            trg = shape[dim] // p_q
        de[dim] = trg
    return True


def run_gen_case(ctx, case, reply):
    dt = itemsize_dtype(case['itemsize'])
    kwargs = dict(power_of_two=case['pow2'])
    if case['dims'] is not None:
        kwargs['dims_to_split'] = tuple(case['dims'])
    if case['mde'] is not None:
        kwargs['max_dim_elements'] = dict(case['mde'])
    try:
        ch = generate_chunks(tuple(case['shape']), dt, case['max_chunk_size'], **kwargs)
    except Exception as e:   # noqa: BLE001
        return f'generate_chunks raised {type(e).__name__}: {e}'
    shape = case['shape']
    nd = len(shape)
    dims = list(range(nd)) if case['dims'] is None else case['dims']
    # the property's tiling clauses, directly on the output
    for ax, cs in enumerate(ch):
        if sum(cs) != shape[ax]:
            return f'axis {ax}: chunk sizes {cs} do not sum to {shape[ax]}'
        if len(set(cs[:-1])) > 1 or (len(cs) > 1 and cs[-1] > cs[0]):
            return f'axis {ax}: chunks {cs} are not "all equal but a smaller last one"'
        if shape[ax] and min(cs) <= 0:
            return f'axis {ax}: empty chunk in {cs}'
        if ax not in dims and len(cs) != 1:
            return f'axis {ax} is not in dims_to_split but was split into {cs}'
        if case['mde'] and ax in dims and ax in case['mde'] and max(cs) > case['mde'][ax]:
            return f'axis {ax}: chunk of {max(cs)} elements exceeds max_dim_elements {case["mde"][ax]}'
        if case['pow2'] and ax in dims and len(cs) > 1 and (cs[0] & (cs[0] - 1)):
            return f'axis {ax}: power_of_two requested but chunk size is {cs[0]}'
    big = int(np.prod([cs[0] for cs in ch])) * case['itemsize'] if nd else case['itemsize']
    if big > case['max_chunk_size'] and any(ch[d][0] > 1 for d in dims):
        if float_exact(case):
            return (f'largest chunk has {big} bytes > max_chunk_size {case["max_chunk_size"]} although '
                    f'dimension(s) in dims_to_split could still be split')
    if not float_exact(case):
        ctx.tag('gen-float-inexact')
        return None
    got = ';'.join(','.join(map(str, cs)) for cs in ch) or '-'
    ctx.tag('gen-pow2' if case['pow2'] else 'gen-equal', 'gen-budget-met' if big <= case['max_chunk_size']
            else 'gen-all-ones')
    if got != reply:
        return f'generate_chunks gives {got}, model {reply}'
    return None


def run_url_case(ctx, case, env, reply):
    store = S3ChunkStore(env.s3.url)
    url = store.make_url(reply + '.npy')
    want = common.run_model('C07', [f's3path {reply}'])[0]
    got = url[len(env.s3.url):]
    if got != want:
        return f'make_url path {got!r}, documented normalisation gives {want!r}'
    first, _, tail = reply.partition('/')
    if not got.startswith('/' + first.replace('_', '-')) or not got.endswith(tail + '.npy'):
        return f'make_url changed more than the bucket component: {reply!r} -> {got!r}'
    return None


def run_complete_case(ctx, case, env):
    i = env.fresh()
    b = case['backend']
    if b == 'dict':
        store = DictChunkStore(x=np.zeros(3))
        try:
            store.mark_complete('x')
        except NotImplementedError:
            ctx.tag('complete-dict-not-implemented')
            return None
        except Exception as e:   # noqa: BLE001
            return f'DictChunkStore.mark_complete raised {type(e).__name__}'
        return None if store.is_complete('x') else 'mark_complete did not stick on the dict store'
    name = f"{case['bucket']}{i}/{case['array']}" if b == 's3' else f"c{i}/{case['array']}"
    store = env.s3store() if b == 's3' else NpyFileChunkStore(env.root)
    x = np.arange(4, dtype=np.int16)
    sl = (slice(0, 4),)
    # documented: "It is not necessary to call create_array first; the implementation will do so if appropriate" and
    # the name need not belong to a written array - marking as the very first operation on a fresh bucket / directory
    fresh_name = (f"{case['bucket']}{i}new/{case['array']}" if b == 's3' else f"c{i}new/{case['array']}")
    try:
        store.mark_complete(fresh_name)
        if not store.is_complete(fresh_name):
            return 'mark_complete as the first operation on a fresh array name did not stick'
    except Exception as e:   # noqa: BLE001
        return f'mark_complete as the first operation on a fresh array name raised {type(e).__name__}: {e}'
    ctx.tag('complete-first-operation')
    try:
        store.create_array(name)
        store.put_chunk(name, sl, x)
        if store.is_complete(name):
            return 'is_complete is true before mark_complete'
        store.mark_complete(name)
        first = store.is_complete(name)
        if b == 's3':
            snap = dict(env.s3.objects)
        else:
            snap = sorted(os.listdir(os.path.join(env.root, name)))
        store.mark_complete(name)
        second = store.is_complete(name)
        snap2 = dict(env.s3.objects) if b == 's3' else sorted(os.listdir(os.path.join(env.root, name)))
        data = store.get_chunk(name, sl, x.dtype)
    except Exception as e:   # noqa: BLE001
        return f'completion marker sequence raised {type(e).__name__}: {e}'
    if not (first and second):
        return f'is_complete after mark_complete: {first}, after a second call: {second}'
    if snap != snap2:
        return 'second mark_complete changed the store contents'
    if not zoo.same_array(data, x):
        return 'mark_complete damaged a chunk'
    if b == 's3':
        want = common.run_model('C07', [f's3marker {name}'])[0]
        if want not in env.s3.objects:
            return f'marker object {want} not found among {sorted(env.s3.objects)[-3:]}'
    else:
        want = common.run_model('C07', [f'npymarker {env.root} {name}'])[0]
        if not os.path.isfile(want):
            return f'marker file {want} missing'
    return None


# ------------------------------------------------------------------ driver

def evaluate(ctx, cases, env):
    for c in cases:
        if c['kind'] == 'store':
            c['_name'] = arr_name(c, env.fresh())
    lines, spans = [], []
    for c in cases:
        ls = model_lines(c)
        spans.append((len(lines), len(lines) + len(ls)))
        lines += ls
    replies = common.run_model('C07', lines)
    bad = []
    for c, (a, b) in zip(cases, spans):
        rep = replies[a:b]
        k = c['kind']
        key = json.dumps({kk: vv for kk, vv in c.items() if not kk.startswith('_')}, sort_keys=True, default=str)
        if k == 'store':
            v = run_store_case(ctx, c, env, rep)
            nchunks = int(np.prod([len(cs) for cs in c['chunks']])) if c['chunks'] else 1
            nontriv = int(np.prod(c['shape'])) > 0 and (nchunks > 1 or bool(c['index']))
            ctx.tag('backend-' + c['backend'], 'dtype-' + c['dtype'], f"ndim-{len(c['shape'])}",
                    'with-index' if c['index'] else ('with-offset' if any(c['offset']) else 'plain'),
                    f"errors-{c['errors']}")
            ctx.count(key, nontriv, sample={'case': {kk: vv for kk, vv in c.items() if kk != 'arrseed'}})
        elif k == 'meta':
            v = run_meta_case(ctx, c, rep[0])
            ctx.count(key, bool(c['slices']), sample=None)
        elif k == 'gen':
            v = run_gen_case(ctx, c, rep[0])
            ctx.count(key, int(np.prod(c['shape'])) > 1, sample={'gen': lines[a], 'model': rep[0]})
        elif k == 'url':
            v = run_url_case(ctx, c, env, rep[0])
            ctx.count(key, '_' in c['name'], sample=None)
        elif k == 'doc':
            v = run_doc_case(ctx, c)
            ctx.count(key, True, sample=None)
        else:
            v = run_complete_case(ctx, c, env)
            ctx.tag('complete-' + c['backend'])
            ctx.count(key, True, sample=None)
        if v:
            bad.append((c, v))
    return bad


def clean(case):
    return {k: v for k, v in case.items() if not k.startswith('_')}


def still_fails(ctx_proto, case):
    ctx = common.Ctx(ctx_proto.prop, ctx_proto.tier, ctx_proto.seed)
    env = Env()
    try:
        return bool(evaluate(ctx, [dict(case)], env))
    except Exception:   # noqa: BLE001
        return False
    finally:
        env.close()


def shrink(ctx, case, what):
    cur = clean(case)
    if cur['kind'] != 'store':
        return cur, what
    changed = True
    while changed:
        changed = False
        cands = []
        if cur['dtype'] != 'u1':
            cands.append(dict(cur, dtype='u1'))
        if cur['errors'] != 0:
            cands.append(dict(cur, errors=0))
        if any(cur['offset']):
            cands.append(dict(cur, offset=[]))
        for ax in range(len(cur['index'])):
            if tuple(cur['index'][ax]) != (None, None, None):
                ix = [list(s) for s in cur['index']]
                ix[ax] = [None, None, None]
                cands.append(dict(cur, index=ix))
        for ax in range(len(cur['shape'])):
            if len(cur['chunks'][ax]) > 1:
                ch = [list(c) for c in cur['chunks']]
                ch[ax] = [cur['shape'][ax]]
                cands.append(dict(cur, chunks=ch))
        for cand in cands:
            if still_fails(ctx, cand):
                cur, changed = cand, True
                break
    env = Env()
    try:
        bad = evaluate(common.Ctx(ctx.prop, ctx.tier, ctx.seed), [dict(cur)], env)
    finally:
        env.close()
    return cur, (bad[0][1] if bad else what)


def empty_on_boundary(case):
    """An index axis whose (normalised) slice is empty and sits on a chunk boundary, so that
    `_prune_chunks` drops every chunk on that axis and substitutes the `(0,)` placeholder."""
    if case.get('kind') != 'store' or not case.get('index'):
        return False
    for ax, s in enumerate(case['index']):
        n = case['shape'][ax]
        start, stop, _ = slice(*s).indices(n)
        stop = max(stop, start)
        bounds = set(np.cumsum([0] + list(case['chunks'][ax])).tolist())
        if start == stop and start in bounds and n > 0:
            return True
    return False


def m_empty_slice_boundary(case, what):
    """known finding: empty unit-step slice on a chunk boundary -> zero-size placeholder chunk whose
    read is answered with the neighbouring chunk (BadChunk), a missing name (ChunkNotFound) or a
    PlaceholderChunk where an empty array is due"""
    return (empty_on_boundary(case) and case['backend'] in ('npy', 's3') and what.startswith('lazy read'))


def m_s3_put_zero_dim(case, what):
    """known finding: S3ChunkStore.put_chunk of a zero-dimensional array -> TypeError from urllib3"""
    return (case.get('kind') == 'store' and case['backend'] == 's3' and not case['shape']
            and what.startswith('put_dask_array raised TypeError') and '0-dim memory' in what)


def m_s3_put_datetime(case, what):
    """known finding: S3ChunkStore.put_chunk of datetime64/timedelta64 -> ValueError (buffer protocol)"""
    return (case.get('kind') == 'store' and case['backend'] == 's3'
            and zoo.zoo_dtype(case['dtype']).kind in 'Mm'
            and what.startswith('put_dask_array raised ValueError') and 'in a buffer' in what)


def corpus_cases():
    d = os.path.join(common.VERIF, 'corpus', 'C07')
    out = []
    if os.path.isdir(d):
        for nm in sorted(os.listdir(d)):
            out.append(json.load(open(os.path.join(d, nm)))['case'])
    return out


def prepare(ctx):
    ctx.matchers['c07_empty_slice_on_chunk_boundary'] = m_empty_slice_boundary
    ctx.matchers['c07_s3_put_zero_dim'] = m_s3_put_zero_dim
    ctx.matchers['c07_s3_put_datetime'] = m_s3_put_datetime


def run(ctx):
    prepare(ctx)
    build = common.build_and_audit('C07', ctx.tier)
    n_store = ctx.q(260, 7000)
    n_meta = ctx.q(300, 6000)
    n_gen = ctx.q(500, 20000)
    cases = corpus_cases()
    cases += [dict(kind='doc', i=i) for i in range(len(DOC_EXAMPLES))]
    cases += [gen_store_case(ctx.rng) for _ in range(n_store)]
    cases += [gen_meta_case(ctx.rng) for _ in range(n_meta)]
    cases += [gen_gen_case(ctx.rng) for _ in range(n_gen)]
    cases += [gen_url_case(ctx.rng) for _ in range(ctx.q(40, 400))]
    cases += [gen_complete_case(ctx.rng) for _ in range(ctx.q(9, 60))]
    env = Env()
    try:
        bad = evaluate(ctx, cases, env)
        if not bad and not build['build_ok']:
            more = [gen_store_case(ctx.rng) for _ in range(3 * n_store)]
            more += [gen_meta_case(ctx.rng) for _ in range(5 * n_meta)]
            more += [gen_gen_case(ctx.rng) for _ in range(5 * n_gen)]
            bad = evaluate(ctx, more, env)
    finally:
        env.close()
    for c, v in bad:
        ctx.violation(clean(c), v)
    ctx.assumptions = ['numpy save/load is a bijection on object-free arrays (exercised, not proved)',
                       'generate_chunks is compared on inputs where its float arithmetic takes the same '
                       'branches as exact arithmetic (others are tagged gen-float-inexact and only checked '
                       'against the tiling clauses)']
    return common.finish(ctx, build, RULE, CHECKER, TRUSTED, shrink=lambda c, w: shrink(ctx, c, w))


def replay(ctx, rep):
    prepare(ctx)
    build = common.build_and_audit('C07', 'quick')
    env = Env()
    try:
        for c, v in evaluate(ctx, [dict(rep['case'])], env):
            ctx.violation(clean(c), v)
    finally:
        env.close()
    return common.finish(ctx, build, RULE, CHECKER, TRUSTED)
