/-
  Invariant of the locked session pool (Threads.Pool) and its preservation by every step.
-/
import KatdalModel.Lemmas.ThreadsLazy
open Threads Threads.Pool
set_option linter.unusedVariables false

namespace Threads.Pool

def hasItem : PC → Bool
  | .getRel | .using | .putAcq | .putAppend => true
  | _ => false

structure ThInv (c : Cfg) (s : State) (t : Tid) : Prop where
  raised : (s.th t).raised = false
  cs : inCS (s.th t).pc = true ↔ s.owner = some t
  heldPc : (s.th t).held.isSome = hasItem (s.th t).pc
  pop : (s.th t).pc = .getPop → s.free ≠ []
  new : (s.th t).pc = .getNew → s.free = []
  heldOk : ∀ i, (s.th t).held = some i → i < s.next ∧ i ∉ s.free ∧ i ∉ s.dropped

structure Inv (c : Cfg) (n : Nat) (s : State) : Prop where
  th : ∀ t, ThInv c s t
  excl : ∀ t u i, (s.th t).held = some i → (s.th u).held = some i → t = u
  nodup : s.free.Nodup
  freeLt : ∀ i ∈ s.free, i < s.next
  dropLt : ∀ i ∈ s.dropped, i < s.next ∧ i ∉ s.free
  conserve : ∀ i, i < s.next → i ∈ s.free ∨ i ∈ s.dropped ∨ ∃ t, (s.th t).held = some i
  own : ∀ t, s.owner = some t → t < n

theorem inv_init (c : Cfg) (n : Nat) (plan : Tid → List Bool) : Inv c n (init plan) := by
  refine ⟨?_, ?_, ?_, ?_, ?_, ?_, ?_⟩
  · intro t; refine ⟨?_, ?_, ?_, ?_, ?_, ?_⟩ <;> simp [init, inCS, hasItem]
  all_goals simp [init]



theorem step_th_self {c : Cfg} {n : Nat} {s s' : State} {t : Tid} (hl : c.locked = true)
    (h : Inv c n s) (hs : step c s t = some s') : ThInv c s' t := by
  have hT := h.th t
  obtain ⟨hth, hex, hnd, hfl, hdl, hcons, hown⟩ := h
  unfold step acquire at hs
  cases hpc : (s.th t).pc <;> simp only [hpc, hl, if_true, unlock] at hs
  all_goals (try (split at hs)) 
  all_goals (try (split at hs)) 
  all_goals (try (injection hs with hs; subst hs))
  all_goals (try (simp at hs))
  all_goals
    obtain ⟨a1, a2, a3, a4, a5, a6⟩ := hT
    constructor <;> simp only [upd_same] <;> grind [inCS, hasItem]

theorem step_th_other {c : Cfg} {n : Nat} {s s' : State} {t u : Tid} (hl : c.locked = true)
    (h : Inv c n s) (hs : step c s t = some s') (hu : u ≠ t) : ThInv c s' u := by
  have hU := h.th u
  have hne : ∀ (f : Tid → Local) (v : Local), upd f t v u = f u := fun f v => upd_other f v hu
  have hT := h.th t
  obtain ⟨hth, hex, hnd, hfl, hdl, hcons, hown⟩ := h
  unfold step acquire at hs
  cases hpc : (s.th t).pc <;> simp only [hpc, hl, if_true, unlock] at hs
  all_goals (try (split at hs)) 
  all_goals (try (split at hs)) 
  all_goals (try (injection hs with hs; subst hs))
  all_goals (try (simp at hs))
  all_goals
    obtain ⟨a1, a2, a3, a4, a5, a6⟩ := hT
    obtain ⟨b1, b2, b3, b4, b5, b6⟩ := hU
    constructor <;> simp only [hne] <;> grind [inCS, hasItem]

theorem step_excl {c : Cfg} {n : Nat} {s s' : State} {t : Tid} (hl : c.locked = true)
    (h : Inv c n s) (ht : t < n) (hs : step c s t = some s') : ∀ a b i, (s'.th a).held = some i → (s'.th b).held = some i → a = b := by
  have hT := h.th t
  obtain ⟨hth, hex, hnd, hfl, hdl, hcons, hown⟩ := h
  unfold step acquire at hs
  cases hpc : (s.th t).pc <;> simp only [hpc, hl, if_true, unlock] at hs
  all_goals (try (split at hs)) 
  all_goals (try (split at hs)) 
  all_goals (try (injection hs with hs; subst hs))
  all_goals (try (simp at hs))
  all_goals
    obtain ⟨a1, a2, a3, a4, a5, a6⟩ := hT
    intro a b i
    have ha := (hth a).heldOk i
    have hb := (hth b).heldOk i
    have hab := hex a b i
    simp only [upd]
    grind

theorem step_nodup {c : Cfg} {n : Nat} {s s' : State} {t : Tid} (hl : c.locked = true)
    (h : Inv c n s) (ht : t < n) (hs : step c s t = some s') : s'.free.Nodup := by
  have hT := h.th t
  obtain ⟨hth, hex, hnd, hfl, hdl, hcons, hown⟩ := h
  unfold step acquire at hs
  cases hpc : (s.th t).pc <;> simp only [hpc, hl, if_true, unlock] at hs
  all_goals (try (split at hs)) 
  all_goals (try (split at hs)) 
  all_goals (try (injection hs with hs; subst hs))
  all_goals (try (simp at hs))
  all_goals
    obtain ⟨a1, a2, a3, a4, a5, a6⟩ := hT
    grind [inCS, hasItem]

theorem step_freeLt {c : Cfg} {n : Nat} {s s' : State} {t : Tid} (hl : c.locked = true)
    (h : Inv c n s) (ht : t < n) (hs : step c s t = some s') : ∀ i ∈ s'.free, i < s'.next := by
  have hT := h.th t
  obtain ⟨hth, hex, hnd, hfl, hdl, hcons, hown⟩ := h
  unfold step acquire at hs
  cases hpc : (s.th t).pc <;> simp only [hpc, hl, if_true, unlock] at hs
  all_goals (try (split at hs)) 
  all_goals (try (split at hs)) 
  all_goals (try (injection hs with hs; subst hs))
  all_goals (try (simp at hs))
  all_goals
    obtain ⟨a1, a2, a3, a4, a5, a6⟩ := hT
    grind [inCS, hasItem]

theorem step_dropLt {c : Cfg} {n : Nat} {s s' : State} {t : Tid} (hl : c.locked = true)
    (h : Inv c n s) (ht : t < n) (hs : step c s t = some s') : ∀ i ∈ s'.dropped, i < s'.next ∧ i ∉ s'.free := by
  have hT := h.th t
  obtain ⟨hth, hex, hnd, hfl, hdl, hcons, hown⟩ := h
  unfold step acquire at hs
  cases hpc : (s.th t).pc <;> simp only [hpc, hl, if_true, unlock] at hs
  all_goals (try (split at hs)) 
  all_goals (try (split at hs)) 
  all_goals (try (injection hs with hs; subst hs))
  all_goals (try (simp at hs))
  all_goals
    obtain ⟨a1, a2, a3, a4, a5, a6⟩ := hT
    grind [inCS, hasItem]

theorem step_own {c : Cfg} {n : Nat} {s s' : State} {t : Tid} (hl : c.locked = true)
    (h : Inv c n s) (ht : t < n) (hs : step c s t = some s') : ∀ u, s'.owner = some u → u < n := by
  have hT := h.th t
  obtain ⟨hth, hex, hnd, hfl, hdl, hcons, hown⟩ := h
  unfold step acquire at hs
  cases hpc : (s.th t).pc <;> simp only [hpc, hl, if_true, unlock] at hs
  all_goals (try (split at hs)) 
  all_goals (try (split at hs)) 
  all_goals (try (injection hs with hs; subst hs))
  all_goals (try (simp at hs))
  all_goals
    obtain ⟨a1, a2, a3, a4, a5, a6⟩ := hT
    grind [inCS, hasItem]

theorem step_conserve {c : Cfg} {n : Nat} {s s' : State} {t : Tid} (hl : c.locked = true)
    (h : Inv c n s) (ht : t < n) (hs : step c s t = some s') :
    ∀ i, i < s'.next → i ∈ s'.free ∨ i ∈ s'.dropped ∨ ∃ x, (s'.th x).held = some i := by
  have hT := h.th t
  obtain ⟨hth, hex, hnd, hfl, hdl, hcons, hown⟩ := h
  intro i hi
  by_cases hn : (s'.th t).held = some i
  · exact Or.inr (Or.inr ⟨t, hn⟩)
  · unfold step acquire at hs
    cases hpc : (s.th t).pc <;> simp only [hpc, hl, if_true, unlock] at hs
    all_goals (try (split at hs))
    all_goals (try (split at hs))
    all_goals (try (injection hs with hs; subst hs))
    all_goals (try (simp at hs))
    all_goals
      obtain ⟨a1, a2, a3, a4, a5, a6⟩ := hT
      simp only [upd_same] at hn
      dsimp only at hi ⊢
      by_cases hin : i < s.next
      · rcases hcons i hin with h1 | h2 | ⟨x, hx⟩
        · grind
        · grind
        · by_cases hxt : x = t
          · subst hxt
            grind [hasItem]
          · right; right; exact ⟨x, by simp [upd, hxt, hx]⟩
      · grind

theorem inv_step {c : Cfg} {n : Nat} {s s' : State} {t : Tid} (hl : c.locked = true)
    (h : Inv c n s) (ht : t < n) (hs : step c s t = some s') : Inv c n s' := by
  refine ⟨?_, step_excl hl h ht hs, step_nodup hl h ht hs, step_freeLt hl h ht hs,
    step_dropLt hl h ht hs, step_conserve hl h ht hs, step_own hl h ht hs⟩
  intro u
  by_cases hu : u = t
  · subst hu; exact step_th_self hl h hs
  · exact step_th_other hl h hs hu

theorem reach_inv {c : Cfg} {n : Nat} {plan : Tid → List Bool} (hl : c.locked = true) {s : State}
    (h : Reach c n plan s) : Inv c n s := by
  induction h with
  | init => exact inv_init c n plan
  | step _ ht hs ih => exact inv_step hl ih ht hs

theorem reach_of_run {c : Cfg} {n : Nat} {plan : Tid → List Bool} : ∀ (sched : List Tid) (s s' : State),
    Reach c n plan s → (∀ t ∈ sched, t < n) → run c s sched = some s' → Reach c n plan s' := by
  intro sched
  induction sched with
  | nil => intro s s' hr _ h; simp [run] at h; subst h; exact hr
  | cons t ts ih =>
    intro s s' hr hn h
    unfold run at h
    cases hs : step c s t with
    | none => simp [hs] at h
    | some s1 =>
      simp only [hs] at h
      exact ih s1 s' (Reach.step hr (hn t (by simp)) hs) (fun u hu => hn u (by simp [hu])) h

end Threads.Pool
