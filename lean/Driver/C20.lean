import Driver.Common
import KatdalModel.Model.Threads
open Drv Threads

/-!
  Trace-refinement driver for C20.  Each request carries the observations the controlled scheduler
  made of the real Python objects, one per scheduling step `(thread, observation after the step)`;
  the driver replays them against the transition system: every observed transition must be the
  result of at most `fuel` steps of that same thread in the model (0 steps = stutter).

    lazy   <locked> <clears> <n> <fuel> <t:owner:v:i:pcs;…>
    rcache <reentrant> <n> <fuel> <kinds> <progs> <keys> <t:owner:depth:bits:stk|stk;…>
    pool   <locked> <n> <fuel> <plans> <t:owner:free:next:pcs:helds;…>

  reply: `ok <model steps>` | `fail <event index> <what the model state looks like>` | `bad-op`
-/

def bit? (s : String) : Option Bool := if s = "1" then some true else if s = "0" then some false else none
def optNat? (s : String) : Option (Option Nat) := if s = "_" then some none else s.toNat?.map some
def natList? (s : String) : Option (List Nat) := if s = "-" || s = "" then some [] else (s.splitOn ",").mapM (·.toNat?)
def showOptNat : Option Nat → String | none => "_" | some v => toString v
def showNats (l : List Nat) : String := if l.isEmpty then "-" else ",".intercalate (l.map toString)
def showBits (l : List Bool) : String := String.mk (l.map fun b => if b then '1' else '0')

/-- generic replay of `(thread, observation)` events -/
def replay {σ ο : Type} (adv : Tid → ο → σ → Option (Nat × σ)) (showS : σ → String) :
    List (Tid × ο) → σ → Nat → Nat → String
  | [], _, _, steps => s!"ok {steps}"
  | (t, o) :: rest, s, idx, steps =>
    match adv t o s with
    | some (k, s') => replay adv showS rest s' (idx + 1) (steps + k)
    | none => s!"fail {idx} t={t} model={showS s}"

namespace LazyD
open Threads.Lazy

def pcChar : PC → Char
  | .idle => 'i' | .acquiring => 'a' | .check => 'c' | .compute => 'm' | .assign => 's'
  | .clearInput => 'x' | .release => 'r' | .done => 'd'
def pcOf? : Char → Option PC
  | 'i' => some .idle | 'a' => some .acquiring | 'c' => some .check | 'm' => some .compute
  | 's' => some .assign | 'x' => some .clearInput | 'r' => some .release | 'd' => some .done | _ => none

def showObs (o : Obs) : String :=
  s!"{showOptNat o.owner}:{if o.valueSet then 1 else 0}:{if o.inputSet then 1 else 0}:{String.mk (o.pcs.map pcChar)}"

def parseEv (s : String) : Option (Tid × Obs) :=
  match s.splitOn ":" with
  | [t, ow, v, i, pcs] => do
    let t ← t.toNat?; let ow ← optNat? ow; let v ← bit? v; let i ← bit? i
    let pcs ← pcs.toList.mapM pcOf?
    pure (t, ⟨ow, v, i, pcs⟩)
  | _ => none

def handle (locked clears n fuel evs : String) : String :=
  match bit? locked, bit? clears, n.toNat?, fuel.toNat?, (evs.splitOn ";").mapM parseEv with
  | some l, some cl, some n, some fuel, some evs =>
    let c : Cfg := ⟨l, cl, fun i => i + 1, 0⟩
    replay (fun t o s => advance c n t o fuel s) (fun s => showObs (obs n s)) evs (init c) 0 0
  | _, _, _, _, _ => "bad-op"
end LazyD

namespace RCacheD
open Threads.RCache

def parseKind (s : String) : Option Kind :=
  if s = "r" then some .raw else
  if s = "m" then some .missing else
  match s.splitOn ":" with
  | ["v", ds] => (natList? ds).map .virt
  | _ => none

def showStacks (l : List (List Nat)) : String := "|".intercalate (l.map showNats)
def showObs (o : Obs) : String :=
  s!"{showOptNat o.owner}:{o.depth}:{showBits o.cached}:{showStacks o.stacks}"

def parseEv (s : String) : Option (Tid × Obs) :=
  match s.splitOn ":" with
  | [t, ow, d, bits, stks] => do
    let t ← t.toNat?; let ow ← optNat? ow; let d ← d.toNat?
    let bits ← bits.toList.mapM fun ch => bit? (String.singleton ch)
    let stks ← (stks.splitOn "|").mapM natList?
    pure (t, ⟨ow, d, bits, stks⟩)
  | _ => none

def handle (re n fuel kinds progs keys evs : String) : String :=
  match bit? re, n.toNat?, fuel.toNat?, (kinds.splitOn ";").mapM parseKind, (progs.splitOn "|").mapM natList?,
        natList? keys, (evs.splitOn ";").mapM parseEv with
  | some re, some n, some fuel, some kinds, some progs, some keys, some evs =>
    let c : Cfg := ⟨re, fun k => kinds.getD k .raw, fun k => 10 * k + 1, fun k vs => 1000 * k + vs.foldl (· + ·) 0⟩
    let s0 := init c (fun t => progs.getD t [])
    replay (fun t o s => advance c n keys t o fuel s) (fun s => showObs (obs n keys s)) evs s0 0 0
  | _, _, _, _, _, _, _ => "bad-op"
end RCacheD

namespace PoolD
open Threads.Pool

def pcChar : PC → Char
  | .idle => 'i' | .getAcq => 'A' | .getCheck => 'C' | .getNew => 'N' | .getPop => 'P' | .getRel => 'R'
  | .using => 'u' | .putAcq => 'a' | .putAppend => 'p' | .putRel => 'r' | .done => 'd'
def pcOf? : Char → Option PC
  | 'i' => some .idle | 'A' => some .getAcq | 'C' => some .getCheck | 'N' => some .getNew | 'P' => some .getPop
  | 'R' => some .getRel | 'u' => some .using | 'a' => some .putAcq | 'p' => some .putAppend | 'r' => some .putRel
  | 'd' => some .done | _ => none

def showObs (o : Obs) : String :=
  s!"{showOptNat o.owner}:{showNats o.free}:{o.next}:{String.mk (o.pcs.map pcChar)}:{",".intercalate (o.helds.map showOptNat)}"

def parseEv (s : String) : Option (Tid × Obs) :=
  match s.splitOn ":" with
  | [t, ow, free, nx, pcs, helds] => do
    let t ← t.toNat?; let ow ← optNat? ow; let free ← natList? free; let nx ← nx.toNat?
    let pcs ← pcs.toList.mapM pcOf?
    let helds ← (helds.splitOn ",").mapM optNat?
    pure (t, ⟨ow, free, nx, pcs, helds⟩)
  | _ => none

def parsePlan (s : String) : Option (List Bool) :=
  if s = "-" then some [] else s.toList.mapM fun ch => bit? (String.singleton ch)

def handle (locked n fuel plans evs : String) : String :=
  match bit? locked, n.toNat?, fuel.toNat?, (plans.splitOn "|").mapM parsePlan, (evs.splitOn ";").mapM parseEv with
  | some l, some n, some fuel, some plans, some evs =>
    let c : Cfg := ⟨l⟩
    replay (fun t o s => advance c n t o fuel s) (fun s => showObs (obs n s)) evs (init (fun t => plans.getD t [])) 0 0
  | _, _, _, _, _ => "bad-op"
end PoolD

def step (line : String) : String :=
  match line.splitOn " " with
  | ["lazy", l, c, n, fuel, evs] => LazyD.handle l c n fuel evs
  | ["rcache", re, n, fuel, kinds, progs, keys, evs] => RCacheD.handle re n fuel kinds progs keys evs
  | ["pool", l, n, fuel, plans, evs] => PoolD.handle l n fuel plans evs
  | _ => "bad-op"

def main : IO Unit := Drv.loop step
