import Driver.Common
import KatdalModel.Model.ApplyCalFloat
open Np Drv ApplyCal

/-!
  requests (S-expression tokens, see ApplyCalFloat.lean):

  calc ( (name inp ( (c c ..) .. )) .. )  ( (l1 l2) .. )  ( name .. )  ( f .. )  ( (stream ( f .. )) .. )
       skip  ( tchunk .. )  ( fchunk .. )
    -> `ok ( names ) ( (kind e..) .. ) <mirror [t][f][b]> <spec [t][f][b]>` | `E:<Error>`
       mirror = calcCorrection (late-bound maps, as coded) + assemble over the chunking, or ( E:<Error> );
       spec = specByLabel pointwise with every product's own map (calcCorrectionIntended)
  kern ( vis.. ) ( weights.. ) ( flags.. ) ( corr.. )
    -> `ok ( vis.. ) ( weights.. ) ( flags.. )`
  inputs ( (l1 l2) .. )     -> sorted input list and the two index lists
  expand ( f.. ) ( g.. )    -> nearest-channel map
-/

abbrev Sensor := List (List CF)

def parseSensorTable (x : SX) : Option (List (String × String × Sensor)) :=
  x.listOf? fun e => match e with
    | .list [n, i, s] => do
      let n ← n.str?
      let i ← i.str?
      let s ← s.listOf? (·.listOf? SX.cf?)
      pure (n, i, s)
    | _ => none

def parsePairs (x : SX) : Option (List (String × String)) :=
  x.listOf? fun e => match e with
    | .list [a, b] => do pure ((← a.str?), (← b.str?))
    | _ => none

def parseFreqTable (x : SX) : Option (List (String × List Float)) :=
  x.listOf? fun e => match e with
    | .list [a, b] => do pure ((← a.str?), (← b.listOf? SX.float?))
    | _ => none

def lookupSensor (tab : List (String × String × Sensor)) (name inp : String) : Option Sensor :=
  (tab.find? fun e => e.1 == name && e.2.1 == inp).map (·.2.2)

def lookupFreqs (tab : List (String × List Float)) (s : String) : Option (List Float) :=
  (tab.find? fun e => e.1 == s).map (·.2)

def showArr3 (a : List (List (List CF))) : String := showList (showList (showList showCF)) a

def showCmap : ChanMap → String
  | .broadcast => "( b )"
  | .direct => "( d )"
  | .expand e => "( e " ++ " ".intercalate (e.map toString) ++ " )"

/-- atol = 1e-3 as in the source -/
def atol : Float := 1e-3

def doCalc (args : List SX) : Option String :=
  match args with
  | [st, cps, names, df, cft, skip, ct, cf] => do
    let st ← parseSensorTable st
    let cps ← parsePairs cps
    let names ← names.listOf? SX.str?
    let df ← df.listOf? SX.float?
    let cft ← parseFreqTable cft
    let skip ← skip.bool?
    let ct ← ct.listOf? SX.nat?
    let cf ← cf.listOf? SX.nat?
    let sensors := lookupSensor st
    let r : Except Err String := do
      let P ← calcCorrection sensors cps names df (lookupFreqs cft) atol skip
      let Pi ← calcCorrectionIntended sensors cps names df (lookupFreqs cft) atol skip
      let finals := Pi.prods.map (·.name)
      if Pi.prods.isEmpty then
        pure s!"none {showList showStr finals}"
      else
        -- the mirror may raise (late-bound table too long for another product) where the spec is fine
        let mirror := match assemble floatAlg P cf 0 ct with
          | .ok m => showArr3 m
          | .error e => "( " ++ showErr e ++ " )"
        let T := ct.sum
        let Fn := cf.sum
        let pc := Pi.prods.map fun p => (p.name, p.cmap)
        let spec := (List.range T).map fun t => (List.range Fn).map fun f =>
          cps.map fun cp => specByLabel floatAlg sensors pc cp.1 cp.2 t f
        pure s!"ok {showList showStr finals} {showList showCmap (Pi.prods.map (·.cmap))} {mirror} {showArr3 spec}"
    pure (match r with | .ok s => s | .error e => showErr e)
  | _ => none

def doKern (args : List SX) : Option String :=
  match args with
  | [v, w, fl, c] => do
    let v ← v.listOf? SX.cf?
    let w ← w.listOf? SX.float?
    let fl ← fl.listOf? SX.nat?
    let c ← c.listOf? SX.cf?
    let ov := List.zipWith (applyVis1 floatAlg) v c
    let ow := List.zipWith (applyWeight1 floatAlg) w c
    let ofl := List.zipWith (applyFlag1 floatAlg) fl c
    pure s!"ok {showList showCF ov} {showList showFloat ow} {showList toString ofl}"
  | _ => none

def doInputs (args : List SX) : Option String :=
  match args with
  | [cps] => do
    let cps ← parsePairs cps
    let inputs := sortedInputs cps
    pure s!"ok {showList showStr inputs} {showList toString (cps.map fun cp => inputs.idxOf cp.1)} {showList toString (cps.map fun cp => inputs.idxOf cp.2)}"
  | _ => none

def doExpand (args : List SX) : Option String :=
  match args with
  | [df, cf] => do
    let df ← df.listOf? SX.float?
    let cf ← cf.listOf? SX.float?
    pure s!"ok {showList toString (expandMap df cf)}"
  | _ => none

def step (line : String) : String :=
  match parseLine line with
  | some (.atom "calc" :: args) => (doCalc args).getD "bad-op"
  | some (.atom "kern" :: args) => (doKern args).getD "bad-op"
  | some (.atom "inputs" :: args) => (doInputs args).getD "bad-op"
  | some (.atom "expand" :: args) => (doExpand args).getD "bad-op"
  | _ => "bad-op"

def main : IO Unit := Drv.loop step
