/-
  C20 — Lazily initialised shared state is safe under every thread interleaving.

  "When several threads concurrently perform first-time accesses to the same objects - computing a
   lazy indexer's array, reading a spectral window's channel frequencies, extracting sensors or
   instantiating virtual sensors in a sensor cache, borrowing pooled S3 sessions - every thread
   obtains the values a single thread would obtain, nothing raises, and each lazily computed value
   is derived from consistent state, for every interleaving of the threads.  Loading data with the
   multi-threaded scheduler returns the same arrays as a single-threaded load."

  Model: KatdalModel/Model/Threads.lean (transition systems `Lazy`, `RCache`, `Pool`, `Load`).
  Every theorem below quantifies over the number of threads `n`, over all schedules (through
  `Reach`, the inductive closure of the step relation; `…_sched` corollaries restate it for explicit
  schedule lists) and over the computed function / the sensor graph / the borrow plans.  The proofs
  are inductions over executions with the explicit invariants of Lemmas/Threads*.lean.
  The `…_is_false` theorems are concrete schedules (checked by `decide`) showing that the same
  statements fail when the lock is removed (or the RLock replaced by a Lock), i.e. the lock is what
  the proofs rest on.

  What is *not* modelled: bytecode-level atomicity inside one step, the GIL, dask's scheduler.
  The tie to the source is the controlled-scheduler harness (harness/sched.py, harness/props/c20.py)
  which checks that every observed transition of the real code is a step of these systems.
-/
import KatdalModel.Lemmas.ThreadsLazy
import KatdalModel.Lemmas.ThreadsPool
import KatdalModel.Lemmas.ThreadsRCache
open Threads

namespace C20

/-! ## (i) lazy attribute: DaskLazyIndexer.dataset (`clears = true`), SpectralWindow.channel_freqs
    (`clears = false`) -/
section lazy
open Threads.Lazy

/-- `mutex`: at most one thread is between acquiring and releasing the lock. -/
theorem mutex {c : Cfg} (hl : c.locked = true) {n : Nat} {s : State} (h : Reach c n s) {t u : Tid}
    (ht : inCS (s.th t).pc = true) (hu : inCS (s.th u).pc = true) : t = u := by
  have inv := reach_inv hl h
  have h1 := cs_owner (inv.th t) ht
  have h2 := cs_owner (inv.th u) hu
  rw [h1] at h2
  exact Option.some.inj h2

/-- `lazy_once`: the computation runs at most once, and whenever a thread stands at the compute
    step the input is still present and nothing has been published. -/
theorem lazy_once {c : Cfg} (hl : c.locked = true) {n : Nat} {s : State} (h : Reach c n s) :
    s.computes ≤ 1 ∧ ∀ t, (s.th t).pc = .compute → s.input = some c.i0 ∧ s.value = none := by
  have inv := reach_inv hl h
  constructor
  · cases ho : s.owner with
    | none => rcases inv.free ho with hf | hr
              · have := hf.2.2; omega
              · have := hr.2.1; omega
    | some t =>
      have ht := inv.th t
      unfold ThInv at ht
      cases hpc : (s.th t).pc <;> simp [hpc, ho, Fresh, Ready] at ht <;> omega
  · intro t hpc
    have ht := inv.th t
    unfold ThInv at ht
    simp [hpc, Fresh] at ht
    exact ⟨ht.2.2.2.1, ht.2.2.1⟩

/-- `no_raise`: no thread ever raises, i.e. compute never sees a cleared input. -/
theorem no_raise {c : Cfg} (hl : c.locked = true) {n : Nat} {s : State} (h : Reach c n s) (t : Tid) :
    (s.th t).raised = false :=
  ((reach_inv hl h).th t).1

/-- `lazy_agree`: every thread that has returned holds the sequential value `f i0`, and the
    published value, if any, is that value. -/
theorem lazy_agree {c : Cfg} (hl : c.locked = true) {n : Nat} {s : State} (h : Reach c n s) :
    (∀ t, (s.th t).pc = .done → (s.th t).res = some (c.f c.i0)) ∧
    (∀ v, s.value = some v → v = c.f c.i0) := by
  have inv := reach_inv hl h
  constructor
  · intro t hpc
    have ht := inv.th t
    unfold ThInv at ht
    simp [hpc] at ht
    exact ht.2.2
  · intro v hv
    cases ho : s.owner with
    | none => rcases inv.free ho with hf | hr
              · rw [hf.1] at hv; cases hv
              · rw [hr.1] at hv; exact (Option.some.inj hv).symm
    | some t =>
      have ht := inv.th t
      unfold ThInv at ht
      cases hpc : (s.th t).pc <;> simp [hpc, ho, Fresh, Ready, hv] at ht <;> simp_all

/-- the lock is never leaked: while some thread is unfinished, some thread can move -/
theorem lazy_no_deadlock {c : Cfg} (hl : c.locked = true) {n : Nat} {s : State} (h : Reach c n s)
    (hw : ∃ t, t < n ∧ (s.th t).pc ≠ .done) : ∃ u, u < n ∧ (step c s u).isSome = true := by
  have inv := reach_inv hl h
  cases ho : s.owner with
  | some o =>
    refine ⟨o, inv.own o ho, ?_⟩
    have hcs := owner_cs (inv.th o) ho
    unfold step
    cases hpc : (s.th o).pc <;> simp [hpc, inCS] at hcs ⊢
    all_goals (split <;> simp)
  | none =>
    obtain ⟨t, htn, hnd⟩ := hw
    refine ⟨t, htn, ?_⟩
    unfold step
    cases hpc : (s.th t).pc <;> simp [hpc, hl, ho] at hnd ⊢
    all_goals (split <;> simp)

/-- the same for explicit schedules -/
theorem lazy_agree_sched {c : Cfg} (hl : c.locked = true) (n : Nat) (sched : List Tid)
    (hn : ∀ t ∈ sched, t < n) {s : State} (hr : run c (init c) sched = some s) :
    (∀ t, (s.th t).raised = false) ∧ s.computes ≤ 1 ∧
    (∀ t, (s.th t).pc = .done → (s.th t).res = some (c.f c.i0)) := by
  have h := reach_of_run (n := n) sched _ _ Reach.init hn hr
  exact ⟨no_raise hl h, (lazy_once hl h).1, (lazy_agree hl h).1⟩

def cDask : Cfg := ⟨true, true, fun i => i * 3 + 1, 7⟩     -- locked, clears its input
def cSpw : Cfg := ⟨true, false, fun i => i + 100, 5⟩       -- locked, input stays
def cDaskU : Cfg := { cDask with locked := false }
def cSpwU : Cfg := { cSpw with locked := false }

/-- thread 0 up to `check`, thread 1 blocked in between, then both run to completion -/
def schedOK : List Tid := [0, 0, 0, 1, 0, 0, 0, 0, 1, 1, 1]

-- non-vacuity: a complete two-thread execution exists, both threads return f i0 = 22, one compute
example : (run cDask (init cDask) schedOK).map
    (fun s => ((s.th 0).pc, (s.th 0).res, (s.th 1).pc, (s.th 1).res)) =
    some (.done, some 22, .done, some 22) := by decide
example : (run cDask (init cDask) schedOK).map (fun s => (s.computes, s.input, s.owner)) =
    some (1, none, none) := by decide
-- non-vacuity of mutex's hypothesis and of blocking: thread 1 cannot acquire while 0 is inside
example : (run cDask (init cDask) [0, 0, 0, 1]).map
    (fun s => (inCS (s.th 0).pc, (step cDask s 1).isSome)) = some (true, false) := by decide
example : (run cSpw (init cSpw) [0, 0, 0, 0, 0, 0, 1, 1, 1, 1]).map
    (fun s => ((s.th 0).res, (s.th 1).res, s.computes, s.input)) = some (some 105, some 105, 1, some 5) := by
  decide

/-- both threads pass the emptiness check, thread 0 computes, publishes and clears, thread 1 computes -/
def schedRace : List Tid := [0, 0, 0, 1, 1, 1, 0, 0, 0, 1]

/-- without the lock `no_raise` fails for the input-clearing variant (DaskLazyIndexer.dataset) -/
theorem no_raise_unlocked_is_false :
    (run cDaskU (init cDaskU) schedRace).map (fun s => (s.th 1).raised) = some true := by decide

/-- without the lock `lazy_once` fails for the variant that keeps its input (channel_freqs);
    both threads still return the sequential value, which is why that race is benign in Python -/
theorem lazy_once_unlocked_is_false :
    (run cSpwU (init cSpwU) [0, 0, 0, 1, 1, 1, 0, 0, 0, 1, 1, 1]).map
      (fun s => (s.computes, (s.th 0).res, (s.th 1).res)) = some (2, some 105, some 105) := by decide

/-- hence the general statement really needs `locked = true` -/
theorem no_raise_needs_lock :
    ¬ (∀ (n : Nat) (s : State), Reach cDaskU n s → ∀ t, (s.th t).raised = false) := by
  intro hall
  cases hr : run cDaskU (init cDaskU) schedRace with
  | none => have := no_raise_unlocked_is_false; rw [hr] at this; cases this
  | some s =>
    have hreach := reach_of_run (c := cDaskU) (n := 2) schedRace _ _ Reach.init (by decide) hr
    have h1 := hall 2 s hreach 1
    have := no_raise_unlocked_is_false
    rw [hr] at this
    simp at this
    rw [h1] at this
    cases this

end lazy

/-! ## (ii) SensorCache under its RLock -/
section rcache
open Threads.RCache

/-- `rlock_reentrant_safe`: (a) at most one thread holds the lock at any nesting level;
    (b) the recorded depth is exactly the number of `with self._lock:` blocks the owner is inside;
    (c) the owner can always move, in particular its own nested `get` / `__setitem__` never block. -/
theorem rlock_reentrant_safe {c : Cfg} (hre : c.reentrant = true) {sv : Nat → Nat} {bad : Nat → Bool} (hsv : Sound c sv bad)
    {n : Nat} {prog : Tid → List Nat} {s : State} (h : Reach c n prog s) :
    (∀ t u, 0 < held (s.th t).stack → 0 < held (s.th u).stack → t = u) ∧
    (∀ t, s.owner = some t → held (s.th t).stack = s.depth ∧ 0 < s.depth) ∧
    (∀ t, s.owner = some t → (step c s t).isSome = true) := by
  have inv := reach_inv hre hsv h
  refine ⟨?_, ?_, ?_⟩
  · intro t u ht hu
    have ot : s.owner = some t := Classical.byContradiction fun hne => by
      have := inv.notOwner t hne; omega
    have ou : s.owner = some u := Classical.byContradiction fun hne => by
      have := inv.notOwner u hne; omega
    rw [ot] at ou
    exact Option.some.inj ou
  · intro t ho; exact ⟨(inv.isOwner t ho).1, (inv.isOwner t ho).2.1⟩
  · intro t ho; exact owner_can_step hre inv ho

/-- no deadlock: while some thread has work left, some thread can move -/
theorem rlock_no_deadlock {c : Cfg} (hre : c.reentrant = true) {sv : Nat → Nat} {bad : Nat → Bool} (hsv : Sound c sv bad)
    {n : Nat} {prog : Tid → List Nat} {s : State} (h : Reach c n prog s)
    (hw : ∃ t, t < n ∧ active s t = true) : ∃ u, u < n ∧ (step c s u).isSome = true := by
  have inv := reach_inv hre hsv h
  cases ho : s.owner with
  | some o => exact ⟨o, (inv.isOwner o ho).2.2, owner_can_step hre inv ho⟩
  | none =>
    obtain ⟨t, htn, ha⟩ := hw
    exact ⟨t, htn, free_can_step inv ho ha⟩

/-- `cache_agree`: every value returned to any thread and every value stored in the cache is the
    sequential meaning of its key, and that key does not raise sequentially; a `get` raises KeyError into a
    thread only for a key that raises sequentially; raw entries are never lost. -/
theorem cache_agree {c : Cfg} (hre : c.reentrant = true) {sv : Nat → Nat} {bad : Nat → Bool} (hsv : Sound c sv bad)
    {n : Nat} {prog : Tid → List Nat} {s : State} (h : Reach c n prog s) :
    (∀ t k v, (k, v) ∈ (s.th t).results → v = sv k ∧ bad k = false) ∧
    (∀ t k, k ∈ (s.th t).errs → bad k = true) ∧
    (∀ k v, s.cache k = some (.val v) → v = sv k ∧ bad k = false) ∧
    (∀ k, c.kind k = .raw → s.cache k ≠ none) := by
  have inv := reach_inv hre hsv h
  exact ⟨inv.results, inv.errs, inv.cacheVal, inv.cacheRaw⟩

/-- `rlock_released_on_every_exit`: a thread that is not inside `get` holds no level of the lock, whether its
    calls returned or raised (a KeyError for an unknown name, or one passing through a creation function and the
    enclosing `get`); and once no thread is inside `get` the lock is free, so the next caller is not blocked. -/
theorem rlock_released_on_every_exit {c : Cfg} (hre : c.reentrant = true) {sv : Nat → Nat} {bad : Nat → Bool}
    (hsv : Sound c sv bad) {n : Nat} {prog : Tid → List Nat} {s : State} (h : Reach c n prog s) :
    (∀ t, (s.th t).stack = [] → s.owner ≠ some t) ∧
    ((∀ t, t < n → (s.th t).stack = []) → s.owner = none ∧ s.depth = 0) := by
  have inv := reach_inv hre hsv h
  have h1 : ∀ t, (s.th t).stack = [] → s.owner ≠ some t := by
    intro t hst ho
    have := inv.isOwner t ho
    rw [hst] at this
    simp [held] at this
    omega
  refine ⟨h1, fun hall => ?_⟩
  cases ho : s.owner with
  | none => exact ⟨rfl, inv.noOwner ho⟩
  | some o => exact absurd ho (h1 o (hall o (inv.isOwner o ho).2.2))

/-- `cache_stable_while_locked`: while a thread holds the cache lock (at any depth) no step of any OTHER thread
    changes the cache dict - neither its set of names nor any entry.  This is what makes it safe for `__repr__` /
    `__str__` to walk over `self.keys()` and call `get` on each name inside `with self._lock:` while other threads
    first-access virtual sensors (which insert names): they can only do so before or after the walk. -/
theorem cache_stable_while_locked {c : Cfg} (hre : c.reentrant = true) {sv : Nat → Nat} {bad : Nat → Bool}
    (hsv : Sound c sv bad) {n : Nat} {prog : Tid → List Nat} {s s' : State} (h : Reach c n prog s)
    {t u : Tid} (ho : s.owner = some t) (hu : u ≠ t) (hs : step c s u = some s') :
    s'.cache = s.cache := by
  have inv := reach_inv hre hsv h
  apply Classical.byContradiction
  intro hne
  obtain ⟨hou, _⟩ := step_cache_changes_only_by_owner inv hs hne
  rw [ho] at hou
  exact hu (Option.some.inj hou).symm

/-- keys 0,1 raw; key 2 virtual over [0,1]; key 3 virtual over [2,0] (virtual over virtual); key 5 unknown;
    key 6 virtual over [0,5] (its creation function raises) -/
def kinds : Nat → Kind := fun k =>
  if k = 2 then .virt [0, 1] else if k = 3 then .virt [2, 0] else if k = 5 then .missing
  else if k = 6 then .virt [0, 5] else .raw
def cR : Cfg := ⟨true, kinds, fun k => 10 * k + 1, fun k vs => 1000 * k + vs.foldl (· + ·) 0⟩
def cL : Cfg := { cR with reentrant := false }
def svR : Nat → Nat := seqVal cR 3
def badR : Nat → Bool := seqBad cR 3

-- non-vacuity: the hypothesis `Sound` is satisfiable for a graph with nested virtual sensors
example : Sound cR svR badR := by
  intro k
  by_cases h3 : k = 3
  · subst h3; show badR 3 = [2, 0].any badR ∧ (badR 3 = false → svR 3 = cR.vf 3 (List.map svR [2, 0])); decide
  · by_cases h2 : k = 2
    · subst h2; show badR 2 = [0, 1].any badR ∧ (badR 2 = false → svR 2 = cR.vf 2 (List.map svR [0, 1])); decide
    · by_cases h5 : k = 5
      · subst h5; show badR 5 = true; decide
      · by_cases h6 : k = 6
        · subst h6; show badR 6 = [0, 5].any badR ∧ (badR 6 = false → svR 6 = cR.vf 6 (List.map svR [0, 5])); decide
        · simp [cR, kinds, h2, h3, h5, h6, svR, badR, seqVal, seqBad]

def progR : Tid → List Nat := fun t => if t = 0 then [3] else if t = 1 then [2, 0] else []

-- non-vacuity: thread 0 creates the nested virtual sensor 3 (depth reaches 3) while thread 1 waits,
-- then thread 1 finds 2 and 0 cached; all results are the sequential values
example : (run cR (init cR progR) (List.replicate 37 0 ++ List.replicate 10 1)).map
    (fun s => ((s.th 0).results, (s.th 1).results, s.owner, s.depth)) =
    some ([(3, svR 3)], [(2, svR 2), (0, svR 0)], none, 0) := by decide
example : (run cR (init cR progR) (List.replicate 8 0)).map (fun s => (s.owner, s.depth)) =
    some (some 0, 3) := by decide

def progE : Tid → List Nat := fun t => if t = 0 then [5, 6, 1] else if t = 1 then [6, 3] else []

-- non-vacuity of the error paths: thread 0 asks for an unknown name, then for a virtual sensor whose creation
-- raises (the KeyError passes through two `with` blocks), then for a raw sensor; thread 1 interleaved does the
-- same virtual sensor and a good one.  Every raise is recorded, every value is sequential, the lock ends free.

-- non-vacuity of the error paths: thread 0 asks for an unknown name, then for a virtual sensor whose creation
-- raises (the KeyError passes through two `with` blocks), then for a raw sensor; thread 1 interleaved does the
-- same virtual sensor and a good one.  Every raise is recorded, every value is sequential, the lock ends free.
def schedE : List Tid := List.replicate 5 0 ++ List.replicate 1 1 ++ List.replicate 24 0 ++ List.replicate 47 1
example : (run cR (init cR progE) schedE).map (fun s => ((s.th 0).results, (s.th 0).errs)) =
    some ([(1, svR 1)], [5, 6]) := by decide
example : (run cR (init cR progE) schedE).map (fun s => ((s.th 1).results, (s.th 1).errs)) =
    some ([(3, svR 3)], [6]) := by decide
example : (run cR (init cR progE) schedE).map (fun s => (s.owner, s.depth)) = some (none, 0) := by decide
-- inside the failing creation function the lock is held twice by thread 0
example : (run cR (init cR progE) (List.replicate 17 0)).map (fun s => (s.owner, s.depth, (s.th 0).errs)) =
    some (some 0, 2, [5]) := by decide

/-- with a plain `Lock` the first nested `get` of a virtual sensor blocks its own thread for ever:
    after 4 steps thread 0 holds the lock, has work left and cannot move (single thread ⇒ deadlock) -/
theorem lock_not_reentrant_deadlocks :
    (run cL (init cL progR) [0, 0, 0, 0]).map
      (fun s => (s.owner, active s 0, (step cL s 0).isSome)) = some (some 0, true, false) := by decide

end rcache

/-! ## (iii) the session pool -/
section pool
open Threads.Pool

/-- `pool_exclusive`: no item is held by two threads, a held item is not in the free list, the free
    list has no duplicates, and only one thread is inside `get`/`put`'s critical section. -/
theorem pool_exclusive {c : Cfg} (hl : c.locked = true) {n : Nat} {plan : Tid → List Bool} {s : State}
    (h : Reach c n plan s) :
    (∀ t u i, (s.th t).held = some i → (s.th u).held = some i → t = u) ∧
    (∀ t i, (s.th t).held = some i → i ∉ s.free ∧ i ∉ s.dropped) ∧
    s.free.Nodup ∧
    (∀ t u, inCS (s.th t).pc = true → inCS (s.th u).pc = true → t = u) := by
  have inv := reach_inv hl h
  refine ⟨inv.excl, fun t i hi => ((inv.th t).heldOk i hi).2, inv.nodup, ?_⟩
  intro t u ht hu
  have h1 := (inv.th t).cs.mp ht
  have h2 := (inv.th u).cs.mp hu
  rw [h1] at h2
  exact Option.some.inj h2

/-- every borrowed item was made by the factory (`< next`), and every item the factory ever made is
    in exactly one place: free, held by a thread, or dropped by a failed body ("returned or fresh") -/
theorem pool_conserved {c : Cfg} (hl : c.locked = true) {n : Nat} {plan : Tid → List Bool} {s : State}
    (h : Reach c n plan s) :
    (∀ t i, (s.th t).held = some i → i < s.next) ∧
    (∀ i, i < s.next → i ∈ s.free ∨ i ∈ s.dropped ∨ ∃ t, (s.th t).held = some i) ∧
    (∀ i, i ∈ s.free → i < s.next ∧ i ∉ s.dropped) := by
  have inv := reach_inv hl h
  refine ⟨fun t i hi => ((inv.th t).heldOk i hi).1, inv.conserve, ?_⟩
  intro i hi
  refine ⟨inv.freeLt i hi, fun hd => (inv.dropLt i hd).2 hi⟩

/-- `pop()` never meets an empty list -/
theorem pool_no_raise {c : Cfg} (hl : c.locked = true) {n : Nat} {plan : Tid → List Bool} {s : State}
    (h : Reach c n plan s) (t : Tid) : (s.th t).raised = false :=
  ((reach_inv hl h).th t).raised

def planP : Tid → List Bool := fun t => if t = 0 then [true, true] else if t = 1 then [true] else []

-- non-vacuity: thread 0 borrows, returns, borrows again (re-using item 0); thread 1 borrows meanwhile
-- and gets the fresh item 1
example : (run ⟨true⟩ (init planP) (List.replicate 15 0 ++ List.replicate 6 1)).map
    (fun s => ((s.th 0).held, (s.th 1).held, s.free, s.next)) = some (some 0, some 1, [], 2) := by decide

/-- without the lock: thread 0 has seen a non-empty pool, thread 1 takes the only item, thread 0's
    `pop()` raises -/
theorem pool_unlocked_is_false :
    (run ⟨false⟩ (init planP) (List.replicate 12 0 ++ [1, 1, 1, 1, 0])).map
      (fun s => ((s.th 0).raised, (s.th 1).held)) = some (true, some 0) := by decide

/-- **Per-session state is private**: if every pooled session carries its own mutable resource
    (`res` injective — the transport adapter whose retry policy `S3ChunkStore.request()` sets before
    sending; the harness checks this of the sessions the real store makes), then no two threads ever
    hold sessions with the same resource, so what a thread wrote to its borrowed session is what its
    own request uses -/
theorem pool_session_state_private {c : Cfg} (hl : c.locked = true) {n : Nat} {plan : Tid → List Bool}
    {s : State} (h : Reach c n plan s) (res : Nat → Nat) (hinj : ∀ i j, res i = res j → i = j) :
    ∀ t u i j, (s.th t).held = some i → (s.th u).held = some j → res i = res j → t = u := by
  intro t u i j hi hj hr
  have := hinj i j hr
  subst this
  exact (pool_exclusive hl h).1 t u i hi hj

/-- with one resource shared by all sessions the conclusion fails: in the reachable state of the
    non-vacuity example above two different threads hold sessions with the same resource -/
theorem pool_shared_resource_is_false :
    (run ⟨true⟩ (init planP) (List.replicate 15 0 ++ List.replicate 6 1)).map
      (fun s => ((s.th 0).held.map (fun _ => 0), (s.th 1).held.map (fun _ => 0))) = some (some 0, some 0) := by
  decide

end pool

/-! ## (iv) multi-threaded load -/
section load
open Threads.Load

theorem exec_get (f : Nat → Nat) : ∀ (order : List Nat) (out : Nat → Option Nat) (i : Nat),
    exec f order out i = if i ∈ order then some (f i) else out i := by
  intro order
  induction order with
  | nil => intro out i; simp [exec]
  | cons j r ih =>
    intro out i
    simp only [exec, ih]
    by_cases hi : i ∈ r
    · simp [hi]
    · by_cases hij : i = j
      · subst hij; simp [hi]
      · simp [hi, hij, upd]

/-- `load_scheduler_independent`: whatever order (and however often) the workers complete the
    blocks, once every block `< m` has been completed the output is the same array `f` restricted to
    `[0, m)`; so any two complete runs (1 worker, k workers) agree. -/
theorem load_scheduler_independent (f : Nat → Nat) (m : Nat) (o1 o2 : List Nat)
    (h1 : ∀ i, i < m → i ∈ o1) (h2 : ∀ i, i < m → i ∈ o2) (i : Nat) (hi : i < m) :
    exec f o1 (fun _ => none) i = exec f o2 (fun _ => none) i ∧ exec f o1 (fun _ => none) i = some (f i) := by
  simp [exec_get, h1 i hi, h2 i hi]

example : (List.range 4).map (exec (fun i => i * i) [2, 0, 3, 1, 2] (fun _ => none)) =
    (List.range 4).map (exec (fun i => i * i) [0, 1, 2, 3] (fun _ => none)) := by decide

end load

end C20
