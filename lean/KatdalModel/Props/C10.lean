import KatdalModel.Model.Categorical
open Np Categorical
namespace C10
theorem placeholder : (1 : Nat) = 1 := rfl
end C10
