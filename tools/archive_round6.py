#!/venv/bin/python
"""Archive the confirmed seeded changes of the sixth round under seeded/<id>/ (see archive_round2.py)."""
import sys, os
sys.path.insert(0, os.path.dirname(os.path.abspath(__file__)))
import archive_round2 as a

S = 'yes (after strengthening: %s)'
P = 'partly (not by %s; by %s)'
T = [
 ('/tmp/mut6/C01/1', 'C01-15', 'C01', P % ('C01, whose preselected v4 data sets have even channel counts', 'C17, which owns SpectralWindow.subrange'), 'a v4 data set opened with a channels preselect whose stream has an odd number of channels', 'C01 exit 0; C17 VIOLATION'),
 ('/tmp/mut6/C01/2', 'C01-16', 'C01', S % 'v2 files whose correlator configuration is stored as two-row datasets (the last row in force)', 'a v2 file that stores bls_ordering as a dataset with more than one row', 'VIOLATION'),
 ('/tmp/mut6/C01/3', 'C01-17', 'C01', P % ('C01, whose files hold one visibility stream', 'C18, which owns the attachment of flag streams'), 'two L0 streams with the same extents, each with its own flags stream', 'C01 exit 0; C18 VIOLATION'),
 ('/tmp/mut6/C02/1', 'C02-15', 'C02', 'yes', 'a pure ~ deselection of an antenna that is the second input of a cross product', 'VIOLATION'),
 ('/tmp/mut6/C02/2', 'C02-16', 'C02', S % 'a product criterion (or reset naming B) in the call that switches spectral window', 'two spectral windows, an existing product selection, one call changing spw with a product criterion or reset containing B', 'VIOLATION'),
 ('/tmp/mut6/C02/3', 'C02-17', 'C02', 'yes', 'scans=0 or compscans=0 given as a bare integer', 'VIOLATION'),
 ('/tmp/mut6/C03/1', 'C03-15', 'C03', 'yes', 'a target set and superseded before the next scan start, followed by a later target', 'VIOLATION'),
 ('/tmp/mut6/C03/2', 'C03-16', 'C03', P % ('C03, whose iteration checks look at dumps and sensors', 'C01, which reads the data arrays of v2 files with a duplicated final dump'), 'a v2 file whose last timestamp is duplicated', 'C03 exit 0; C01 VIOLATION'),
 ('/tmp/mut6/C03/3', 'C03-17', 'C03', 'yes', 'scans() nested inside compscans(), or a prior compscans selection followed by scans()', 'VIOLATION'),
 ('/tmp/mut6/C04/1', 'C04-15', 'C04', S % 'second-stage indices given as a bare Python list', 'a second-stage index given as a bare Python list of ints or bools', 'VIOLATION'),
 ('/tmp/mut6/C04/2', 'C04-16', 'C04', S % 'non-idempotent transforms on the parent indexers of nested chains', 'nesting depth 2 or more and a parent with a non-idempotent transform', 'VIOLATION'),
 ('/tmp/mut6/C04/3', 'C04-17', 'C04', P % ('C04, which runs one thread', 'C20, which owns the first access from several threads (the same site as C20-14)'), 'two threads first-touching one fresh indexer with a switch inside the build', 'C04 exit 0; C20 VIOLATION'),
 ('/tmp/mut6/C05/1', 'C05-15', 'C05', 'yes', 'two axes taking the dense read strategy in one request', 'VIOLATION'),
 ('/tmp/mut6/C05/2', 'C05-16', 'C05', S % 'concatenated parts that are LazyIndexers with their own dtype-changing transform', 'parts of a concatenation carrying their own dtype-changing transform chain', 'VIOLATION (dtype)'),
 ('/tmp/mut6/C05/3', 'C05-17', 'C05', 'yes', 'an integer sequence increasing within each part but visiting the parts out of order', 'VIOLATION'),
 ('/tmp/mut6/C06/1', 'C06-15', 'C06', S % 'preselections given with only one of the two keys (also caught by C17)', 'a preselection with channels but no dumps key', 'VIOLATION'),
 ('/tmp/mut6/C06/2', 'C06-16', 'C06', S % 'an attached flags stream that stops one time chunk early (also caught by C18)', 'an attached flags stream with another number of dumps than L0', 'VIOLATION'),
 ('/tmp/mut6/C06/3', 'C06-17', 'C06', P % ('C06, which loads from NPY and dict stores', 'C09, which owns the 404 rule of the S3 store'), 'an S3 chunk store with at least one absent chunk', 'C06 exit 0; C09 VIOLATION'),
 ('/tmp/mut6/C07/1', 'C07-14', 'C07', 'yes', 'the dict back-end and a zero-dimensional array written with another value', 'VIOLATION'),
 ('/tmp/mut6/C07/2', 'C07-15', 'C07', 'yes', 'a structured dtype on S3 or NPY with direct_write', 'VIOLATION'),
 ('/tmp/mut6/C07/3', 'C07-16', 'C07', 'yes', 'a zero-size chunk written by put_dask_array and read back with get_chunk', 'VIOLATION'),
 ('/tmp/mut6/C08/1', 'C08-15', 'C08', S % 'the store inferred for an RDB file whose chunk directory is absent and whose S3 endpoint is unreachable', 'an RDB file without the chunk directory next to it and an unreachable s3_endpoint_url', 'VIOLATION'),
 ('/tmp/mut6/C08/2', 'C08-16', 'C08', P % ('C08, which loads one store at a time', 'C07, which reads two stores in one graph (the same idea as C07-13)'), 'two stores with equally named arrays and a damaged chunk in one of them, in one dask computation', 'C08 exit 0; C07 VIOLATION'),
 ('/tmp/mut6/C08/3', 'C08-17', 'C08', S % 'responses framed by closing the connection (neither Content-Length nor chunked)', 'a truncated object served without Content-Length', 'VIOLATION (TypeError)'),
 ('/tmp/mut6/C09/1', 'C09-15', 'C09', S % 'the store a data set gets through infer_chunk_store keeps the caller\'s retries, timeout and token', 'a data set opened with the s3_endpoint_url override and a non-default retry configuration or token', 'VIOLATION'),
 ('/tmp/mut6/C09/2', 'C09-16', 'C09', S % 'listing requests of a non-empty bucket hit by transient faults beyond the budget', 'a chunk 404 followed by budget+1 transient faults on the bucket listing', 'VIOLATION'),
 ('/tmp/mut6/C09/3', 'C09-17', 'C09', P % ('C09, whose arrays have no datetime dtype', 'C07, which reads datetime64 / timedelta64 chunks back from S3'), 'datetime64 or timedelta64 chunks on S3', 'C09 exit 0; C07 VIOLATION'),
 ('/tmp/mut6/C10/1', 'C10-15', 'C10', S % 'greedy values of array-valued sensors written as tuples / lists', 'an ndarray-valued sensor whose greedy values are written as tuples or lists', 'VIOLATION'),
 ('/tmp/mut6/C10/2', 'C10-16', 'C10', P % ('C10, whose cache cases have usable samples', 'C12, which owns the dummy value of sensors without usable samples'), 'a sensor without usable samples read through SensorCache with an initial value', 'C10 exit 0; C12 VIOLATION'),
 ('/tmp/mut6/C10/3', 'C10-17', 'C10', P % ('C10', 'C12, which owns the precedence of properties (the same statements as C12-13)'), 'a wildcard default and an explicit option of the same name on the first extraction', 'C10 exit 0; C12 VIOLATION'),
 ('/tmp/mut6/C11/1', 'C11-15', 'C11', 'yes', 'an unused unique value with a lower index than a surviving one, then remove()', 'VIOLATION'),
 ('/tmp/mut6/C11/2', 'C11-16', 'C11', 'yes', 'partition() with exactly one segment', 'VIOLATION'),
 ('/tmp/mut6/C11/3', 'C11-17', 'C11', 'yes', 'a comparison value that is the identical NaN object held by the series', 'VIOLATION'),
 ('/tmp/mut6/C12/1', 'C12-15', 'C12', 'yes', 'int / uint / bool samples read as numeric with a dump strictly between two samples', 'VIOLATION'),
 ('/tmp/mut6/C12/2', 'C12-16', 'C12', P % ('C12, whose virtual sensors are az / el / mjd and the katpoint ones', 'C17, which after strengthening compares applied_delay / applied_phase with the F-engine model of their source sensor'), 'applied_phase read with a phase rate different from the delay rate', 'C12 exit 0; C17 VIOLATION'),
 ('/tmp/mut6/C12/3', 'C12-17', 'C12', S % 'print(cache) / repr(cache) between the operations', 'print(cache), then a first read with an override', 'VIOLATION'),
 ('/tmp/mut6/C13/1', 'C13-15', 'C13', P % ('C13', 'C14, which owns the cal product sensors'), 'GAMP_PHASE with a first solution after dump 0 and another target before it', 'C13 exit 0; C14 VIOLATION'),
 ('/tmp/mut6/C13/2', 'C13-16', 'C13', P % ('C13, which requests qualified names', 'C14, which owns the expansion of product names'), 'applycal containing a bare product type', 'C13 exit 0; C14 VIOLATION'),
 ('/tmp/mut6/C13/3', 'C13-17', 'C13', P % ('C13', 'C14 (the same statement as C14-12)'), 'exactly one distinct valid gain solution', 'C13 exit 0; C14 VIOLATION'),
 ('/tmp/mut6/C14/1', 'C14-15', 'C14', S % 'delay histories with missing delays after valid ones', 'a K history with a valid non-zero delay followed by a NaN delay', 'VIOLATION'),
 ('/tmp/mut6/C14/2', 'C14-16', 'C14', 'yes', 'a multi-part product announcing exactly one part', 'VIOLATION'),
 ('/tmp/mut6/C14/3', 'C14-17', 'C14', 'yes', 'a target without solutions before targets with solutions (GPHASE / GAMP_PHASE)', 'VIOLATION'),
 ('/tmp/mut6/C15/1', 'C15-15', 'C15', S % 'a dead input (zero / negative autocorrelation) under the Van Vleck correction (also caught by C06)', "van_vleck='autocorr' with a zero or negative autocorrelation", 'VIOLATION'),
 ('/tmp/mut6/C15/2', 'C15-16', 'C15', S % 'v3 files with only one of weights / weights_channel, opened end to end', 'a v3 file with only weights_channel or only weights', 'VIOLATION'),
 ('/tmp/mut6/C15/3', 'C15-17', 'C15', P % ('C15, which sets the declaration explicitly', 'C06, which loads streams without the need_weights_power_scale key'), 'a stream without the need_weights_power_scale key', 'C15 exit 0; C06 VIOLATION'),
 ('/tmp/mut6/C16/1', 'C16-15', 'C16', P % ('C16', 'C18, which owns the attachment of flag streams'), 'two visibility streams one of whose names is a prefix of the other, each with a flags stream', 'C16 exit 0; C18 VIOLATION'),
 ('/tmp/mut6/C16/2', 'C16-16', 'C16', 'yes', 'a v3 selection containing an unknown name and stored bytes >= 0x80', 'VIOLATION'),
 ('/tmp/mut6/C16/3', 'C16-17', 'C16', S % 'the flags of two selections fetched in one dask computation', 'two flag indexers over the same raw flags with different selections in one dask computation', 'VIOLATION'),
 ('/tmp/mut6/C17/1', 'C17-15', 'C17', 'yes', 'a CMC1 capture in 4k mode between 2019-03-03 and 2019-03-15', 'VIOLATION'),
 ('/tmp/mut6/C17/2', 'C17-16', 'C17', 'yes', 're-channelising to an even channel count with a non-integral channel width', 'VIOLATION'),
 ('/tmp/mut6/C17/3', 'C17-17', 'C17', P % ('C17, whose metadata-only sources have no flags stream', 'C18, which owns streams with different numbers of dumps'), 'an archived flags stream with more dumps than L0 and chunk_store=None', 'C17 exit 0; C18 VIOLATION'),
 ('/tmp/mut6/C18/1', 'C18-15', 'C18', 'yes', 'a flags stream with another number of dumps, multi-dump time chunks not dividing the difference', 'VIOLATION'),
 ('/tmp/mut6/C18/2', 'C18-16', 'C18', 'yes', 'a sensor in a non-global namespace whose name begins with a character of that prefix', 'VIOLATION'),
 ('/tmp/mut6/C18/3', 'C18-17', 'C18', S % 'files whose recorded defaults, stream types and inherit links are byte strings', 'a file whose capture_block_id / stream_name / inherit values are stored as bytes', 'VIOLATION'),
 ('/tmp/mut6/C19/1', 'C19-15', 'C19', 'yes', 'a negative scalar second-stage index landing in a non-final part', 'VIOLATION'),
 ('/tmp/mut6/C19/2', 'C19-16', 'C19', S % 'parts narrowed by select() before they are concatenated', 'a non-final part with a selection in force (or scans hidden in another spectral window) when concatenated', 'VIOLATION'),
 ('/tmp/mut6/C19/3', 'C19-17', 'C19', P % ('C19, which reads extracted sensors', 'C12, which reads raw concatenated sensors of parts with and without a status column'), 'the raw form of a sensor over parts of which only some carry a status column', 'C19 exit 0; C12 VIOLATION'),
 ('/tmp/mut6/C20/1', 'C20-15', 'C20', P % ('C20, whose load comparison has no calibration', 'C13, which applies calibration through opened data sets and loads vis and weights'), 'applycal, weights scaled by autocorrelations of the vis chunk, vis and weights loaded together', 'C20 exit 0; C13 VIOLATION'),
 ('/tmp/mut6/C20/2', 'C20-16', 'C20', 'yes', 'a transform that raises during one thread\'s first access, then another thread', 'VIOLATION'),
 ('/tmp/mut6/C20/3', 'C20-17', 'C20', S % 'two sensor caches over one mapping of getters, each used by its own thread', 'two SensorCache objects over the same mapping with different timestamps', 'VIOLATION'),
]

if __name__ == '__main__':
    a.T = []
    a.main(T)
