import Driver.Common
import KatdalModel.Model.Categorical
open Np Drv Categorical

namespace C11Drv

def natList (s : String) : Option (List Nat) := if s = "-" then some [] else parseNatList s
def intList (s : String) : Option (List Int) := if s = "-" then some [] else parseIntList s
def showL (l : List Nat) : String := if l.isEmpty then "-" else showNatList l

def showCat (c : Cat Nat) : String := s!"{showL c.uniq}|{showL c.idx}|{showL c.ev}"

def parseCat (s : String) : Option (Cat Nat) :=
  match s.splitOn "|" with
  | [u, i, e] => do
    let u ← natList u; let i ← natList i; let e ← natList e
    pure { uniq := u, idx := i, ev := e }
  | _ => none

/-- `i:3` | `s:a:b:c` | `m:0110` | `l:1,2` (`l:-` = empty list) -/
def parseKey (s : String) : Option Key :=
  match s.splitOn ":" with
  | ["i", v] => (v.toInt?).map Key.int
  | ["s", a, b, c] => do
    let a ← parseOptInt a; let b ← parseOptInt b; let c ← parseOptInt c
    pure (Key.slice a b c)
  | ["m", v] => (parseMask (if v = "-" then "" else v)).map Key.mask
  | ["l", v] => (intList v).map Key.list
  | _ => none

def showOpt (l : List (Option Nat)) : String :=
  if l.isEmpty then "-" else ",".intercalate (l.map fun o => match o with | some v => toString v | none => "_")

def showOptB (l : List (Option Bool)) : String :=
  if l.isEmpty then "-" else "".intercalate (l.map fun o => match o with | some true => "1" | some false => "0" | none => "_")

structure St where
  main : Cat Nat
  parts : List (Cat Nat)
  /-- float alphabet (`seqf`): codes are decoded by `FV.ofCode` (even = number, odd = NaN object) and
      the value-matching operations are the NaN-aware mirrors of Model Part 4 -/
  nanAware : Bool := false

/-- the code stands for a NaN object -/
def nanCode (n : Nat) : Bool := (FV.ofCode n).isNaN

def cmpOpOf (op : String) : Option CmpOp :=
  match op with
  | "eq" => some .eq | "ne" => some .ne | "lt" => some .lt | "gt" => some .gt
  | "le" => some .le | "ge" => some .ge
  | _ => none

def showSt (s : St) : String :=
  "#".intercalate (showCat s.main :: s.parts.map showCat)

def modifyPart (parts : List (Cat Nat)) (k : Nat) (f : Cat Nat → Except Err (Cat Nat)) :
    Except Err (List (Cat Nat)) :=
  match parts[k]? with
  | none => .error .other
  | some c => do
    let c' ← f c
    pure (parts.set k c')

def cmpFn (op : String) (v : Nat) : Option (Nat → Bool) :=
  match op with
  | "eq" => some (fun x => x == v) | "ne" => some (fun x => x != v)
  | "lt" => some (fun x => decide (x < v)) | "gt" => some (fun x => decide (x > v))
  | "le" => some (fun x => decide (x ≤ v)) | "ge" => some (fun x => decide (x ≥ v))
  | _ => none

/-- one operation: new state and the reply -/
def applyOp (st : St) (op : String) : St × String :=
  let bad := (st, "bad-op")
  let upd (r : Except Err (Cat Nat)) : St × String :=
    match r with
    | .ok c => let s' := { st with main := c }; (s', showSt s')
    | .error e => (st, showErr e)
  let updParts (r : Except Err (List (Cat Nat))) : St × String :=
    match r with
    | .ok ps => let s' := { st with parts := ps }; (s', showSt s')
    | .error e => (st, showErr e)
  match op.splitOn " " with
  | ["get", k] =>
    match parseKey k with
    | some key => (st, match st.main.getitem key with
        | .ok (.one v) => s!"o:{v}"
        | .ok (.many vs) => s!"m:{showL vs}"
        | .error e => showErr e)
    | none => bad
  | ["cmp", o, v] =>
    match v.toNat? with
    | some vv =>
      if st.nanAware then
        -- mirror (wrapper operators over the unique values) / spec (IEEE relation on the per-dump list)
        match cmpOpOf o with
        | some op => (st, showOptB (st.main.cmpPerDump (fun x => FV.cmp op (FV.ofCode x) (FV.ofCode vv))) ++ "/" ++
            showOptB (specCmp (st.main.perDump.map (fun o => o.map FV.ofCode)) op (FV.ofCode vv)))
        | none => bad
      else
      match cmpFn o vv with
      | some f => (st, showOptB (st.main.cmpPerDump f))
      | none => bad
    | none => bad
  | ["perdump"] => (st, showOpt st.main.perDump)
  | ["add", e, v] =>
    match e.toNat?, (if v = "_" then some none else (v.toNat?).map some) with
    | some e, some v => upd (if st.nanAware then st.main.addN nanCode e v else st.main.add e v)
    | _, _ => bad
  | ["remove", v] =>
    match v.toNat? with
    | some v => upd (if st.nanAware then st.main.removeN nanCode v else st.main.remove v)
    | none => bad
  | ["addun", segs, dist] =>
    match natList segs, dist.toNat? with
    | some segs, some d => upd (st.main.addUnmatched segs d)
    | _, _ => bad
  | ["align", segs] =>
    match natList segs with
    | some segs => upd (st.main.align segs)
    | none => bad
  | ["rr"] => upd st.main.removeRepeats
  | ["part", segs] =>
    match natList segs with
    | some segs => updParts (st.main.partition segs)
    | none => bad
  | ["padd", k, e, v] =>
    match k.toNat?, e.toNat?, (if v = "_" then some none else (v.toNat?).map some) with
    | some k, some e, some v =>
      updParts (modifyPart st.parts k (fun c => if st.nanAware then c.addN nanCode e v else c.add e v))
    | _, _, _ => bad
  | ["premove", k, v] =>
    match k.toNat?, v.toNat? with
    | some k, some v =>
      updParts (modifyPart st.parts k (fun c => if st.nanAware then c.removeN nanCode v else c.remove v))
    | _, _ => bad
  | ["prr", k] =>
    match k.toNat? with
    | some k => updParts (modifyPart st.parts k (fun c => c.removeRepeats))
    | none => bad
  | ["concat", rep] =>
    match (if st.nanAware then concatenateN nanCode st.parts (rep = "1") else concatenate st.parts (rep = "1")) with
    | .ok c => let s' : St := { st with main := c, parts := [] }; (s', showSt s')
    | .error e => (st, showErr e)
  | ["dup"] => let s' := { st with parts := [st.main, st.main] }; (s', showSt s')
  | _ => bad

/-- requests:
    `new <values> <events>`                       -> uniq|idx|ev of `CategoricalData(values, events)`
    `seq <uniq|idx|ev> :: op :: op …`             -> reply per op, joined by ` :: `
    `seqf <uniq|idx|ev> :: op :: op …`            -> the same for the float alphabet with NaN (codes: even =
                                                     number, odd = NaN object); `cmp` replies `mirror/spec` -/
def step (line : String) : String :=
  match line.splitOn " :: " with
  | hd :: ops =>
    match hd.splitOn " " with
    | ["new", vals, evs] =>
      match natList vals, natList evs with
      | some v, some e => showCat (Cat.new v e)
      | _, _ => "bad-op"
    | [mode, cat] =>
      if mode ≠ "seq" ∧ mode ≠ "seqf" then "bad-op" else
      match parseCat cat with
      | some c =>
        let r := ops.foldl (fun (acc : St × List String) op =>
          let (s', rep) := applyOp acc.1 op
          (s', acc.2 ++ [rep])) (({ main := c, parts := [], nanAware := mode = "seqf" } : St), [])
        " :: ".intercalate r.2
      | none => "bad-op"
    | _ => "bad-op"
  | [] => "bad-op"

end C11Drv

def main : IO Unit := Drv.loop C11Drv.step
