/-
  Lemmas for the select() refinement: pointwise characterisation of the re-application of
  stored criteria, and membership in the updated `_selection` dict.
-/
import KatdalModel.Model.Select
open Np Index Select

namespace Select

theorem andMask_length (a b : List Bool) (h : a.length = b.length) : (andMask a b).length = a.length := by
  simp [andMask, List.length_zipWith, h]

theorem andMask_getD (a b : List Bool) (h : a.length = b.length) (i : Nat) :
    (andMask a b).getD i false = (a.getD i false && b.getD i false) := by
  unfold andMask
  simp only [List.getD_eq_getElem?_getD, List.getElem?_zipWith]
  by_cases hi : i < a.length
  · have hb : i < b.length := by omega
    simp [List.getElem?_eq_getElem hi, List.getElem?_eq_getElem hb]
  · have ha : a[i]? = none := List.getElem?_eq_none (by omega)
    simp [ha]

/-- two masks of the same length that agree pointwise are equal -/
theorem mask_ext (a b : List Bool) (hl : a.length = b.length)
    (h : ∀ i, i < a.length → a.getD i false = b.getD i false) : a = b := by
  apply List.ext_getElem hl
  intro i h1 h2
  have := h i h1
  simp only [List.getD_eq_getElem?_getD, List.getElem?_eq_getElem h1, List.getElem?_eq_getElem h2,
    Option.getD_some] at this
  exact this

/-- all criteria of dimension `d` in `cs` have masks of length `n` -/
def critsLen (cs : List Crit) (d : Dim) (n : Nat) : Prop := ∀ c ∈ cs, c.key.dim = d → c.mask.length = n

theorem andAll_length (d : Dim) : ∀ (cs : List Crit) (m : List Bool), critsLen cs d m.length →
    (andAll m cs d).length = m.length := by
  intro cs
  induction cs with
  | nil => intro m _; rfl
  | cons c t ih =>
    intro m h
    simp only [andAll, List.foldl_cons]
    by_cases hd : c.key.dim = d
    · have hc : c.mask.length = m.length := h c (List.mem_cons_self ..) hd
      have hl := andMask_length m c.mask hc.symm
      simp only [hd, beq_self_eq_true, if_true]
      have := ih (andMask m c.mask) (by
        intro x hx hxd; rw [hl]; exact h x (List.mem_cons_of_mem _ hx) hxd)
      simp only [andAll] at this
      rw [this, hl]
    · have hne : (c.key.dim == d) = false := by simpa using hd
      simp only [hne, Bool.false_eq_true, if_false]
      exact ih m (fun x hx hxd => h x (List.mem_cons_of_mem _ hx) hxd)

/-- **pointwise meaning of re-applying stored criteria**: position `i` survives iff it was set
    and every stored criterion of that dimension keeps it -/
theorem andAll_getD (d : Dim) : ∀ (cs : List Crit) (m : List Bool), critsLen cs d m.length → ∀ i,
    (andAll m cs d).getD i false =
      (m.getD i false && cs.all (fun c => !(c.key.dim == d) || c.mask.getD i false)) := by
  intro cs
  induction cs with
  | nil => intro m _ i; simp [andAll]
  | cons c t ih =>
    intro m h i
    simp only [andAll, List.foldl_cons, List.all_cons]
    by_cases hd : c.key.dim = d
    · have hc : c.mask.length = m.length := h c (List.mem_cons_self ..) hd
      have hl := andMask_length m c.mask hc.symm
      simp only [hd, beq_self_eq_true, if_true, Bool.not_true, Bool.false_or]
      have := ih (andMask m c.mask) (by
        intro x hx hxd; rw [hl]; exact h x (List.mem_cons_of_mem _ hx) hxd) i
      simp only [andAll] at this
      rw [this, andMask_getD m c.mask hc.symm, Bool.and_assoc]
    · have hne : (c.key.dim == d) = false := by simpa using hd
      simp only [hne, Bool.false_eq_true, if_false, Bool.not_false, Bool.true_or, Bool.true_and]
      exact ih m (fun x hx hxd => h x (List.mem_cons_of_mem _ hx) hxd) i

theorem mem_upsert (sel : List Crit) (x c : Crit) :
    c ∈ upsert sel x ↔ c = x ∨ (c ∈ sel ∧ c.key ≠ x.key) := by
  unfold upsert
  split
  · rename_i hany
    simp only [List.any_eq_true, beq_iff_eq] at hany
    obtain ⟨k, hk, hkk⟩ := hany
    simp only [List.mem_map]
    constructor
    · rintro ⟨y, hy, rfl⟩
      by_cases hyk : y.key = x.key
      · simp [hyk]
      · right; simp [hyk, hy]
    · rintro (rfl | ⟨hc, hne⟩)
      · exact ⟨k, hk, by simp [hkk]⟩
      · exact ⟨c, hc, by simp [hne]⟩
  · rename_i hany
    simp only [List.any_eq_true, beq_iff_eq, not_exists, not_and] at hany
    simp only [List.mem_append, List.mem_singleton]
    constructor
    · rintro (hc | rfl)
      · exact Or.inr ⟨hc, hany c hc⟩
      · exact Or.inl rfl
    · rintro (rfl | ⟨hc, _⟩)
      · exact Or.inr rfl
      · exact Or.inl hc

/-- membership after `_selection.update(kwargs)` when the call's keys are distinct -/
theorem mem_foldl_upsert : ∀ (crits sel : List Crit), (crits.map (·.key)).Nodup → ∀ c,
    c ∈ crits.foldl upsert sel ↔ c ∈ crits ∨ (c ∈ sel ∧ ∀ x ∈ crits, c.key ≠ x.key) := by
  intro crits
  induction crits with
  | nil => intro sel _ c; simp
  | cons x t ih =>
    intro sel hnd c
    simp only [List.map_cons, List.nodup_cons, List.mem_map, not_exists, not_and] at hnd
    obtain ⟨hx, hnd'⟩ := hnd
    simp only [List.foldl_cons]
    rw [ih (upsert sel x) hnd' c, mem_upsert]
    constructor
    · rintro (hc | ⟨(rfl | ⟨hc, hne⟩), hall⟩)
      · exact Or.inl (List.mem_cons_of_mem _ hc)
      · exact Or.inl (List.mem_cons_self ..)
      · right
        refine ⟨hc, ?_⟩
        intro y hy
        simp only [List.mem_cons] at hy
        rcases hy with rfl | hy
        · exact hne
        · exact hall y hy
    · rintro (hc | ⟨hc, hall⟩)
      · simp only [List.mem_cons] at hc
        rcases hc with rfl | hc
        · right
          exact ⟨Or.inl rfl, fun y hy heq => hx y hy heq.symm⟩
        · exact Or.inl hc
      · right
        exact ⟨Or.inr ⟨hc, hall x (List.mem_cons_self ..)⟩, fun y hy => hall y (List.mem_cons_of_mem _ hy)⟩

end Select
