import Driver.Common
import KatdalModel.Model.Categorical
open Np Drv Categorical

namespace C10Drv

def intList (s : String) : Option (List Int) := if s = "-" then some [] else parseIntList s
def natList (s : String) : Option (List Nat) := if s = "-" then some [] else parseNatList s
def optNat (s : String) : Option (Option Nat) := if s = "_" then some none else (s.toNat?).map some

/-- transform given as a table over value codes (`_` = no transform); codes outside the table
    are left unchanged -/
def optTable (s : String) : Option (Option (Nat → Nat)) :=
  if s = "_" then some none else
  (natList s).map fun t => some (fun v => t.getD v v)

def showL (l : List Nat) : String := if l.isEmpty then "-" else showNatList l

def showCat (c : Cat Nat) : String := s!"{showL c.uniq}|{showL c.idx}|{showL c.ev}"

/-- requests (all lists comma separated, `-` = empty list, `_` = None):
    s2c  <ends> <period> <ts> <vals> <tr> <init> <greedy> <rep>   -> uniq|idx|ev of the mirror model
    rule <ends> <period> <ts> <vals> <tr> <init> <greedy>         -> per-dump values of the spec, `U` = undefined
    sepd <events> <greedymask>                                    -> yielded|mutated events of the mirror -/
def step (line : String) : String :=
  match line.splitOn " " with
  | ["s2c", ends, period, ts, vals, tr, init, greedy, rep] =>
    match intList ends, period.toInt?, intList ts, natList vals, optTable tr, optNat init, natList greedy with
    | some ends, some period, some ts, some vals, some tr, some init, some greedy =>
      showExcept showCat (sensorToCategorical ts vals ends period tr init greedy (rep = "1"))
    | _, _, _, _, _, _, _ => "bad-op"
  | ["rule", ends, period, ts, vals, tr, init, greedy] =>
    match intList ends, period.toInt?, intList ts, natList vals, optTable tr, optNat init, natList greedy with
    | some ends, some period, some ts, some vals, some tr, some init, some greedy =>
      match rule ts vals ends period tr init greedy with
      | some l => showL l
      | none => "U"
    | _, _, _, _, _, _, _ => "bad-op"
  | ["sepd", events, mask] =>
    match natList events, parseMask (if mask = "-" then "" else mask) with
    | some ev, some g => showExcept (fun (o, e) => s!"{showL o}|{showL e}") (sepd ev g)
    | _, _ => "bad-op"
  | _ => "bad-op"

end C10Drv

def main : IO Unit := Drv.loop C10Drv.step
