/-
  C15 — Weights, excision and averaging are reconstructed as documented.

  "Visibility weights of a v4 data set equal stored weight times per-channel weight, divided by the
   product of the two inputs' autocorrelation powers at the same dump and channel when the stream
   declares unscaled stored weights (and the unscaled weights are that product multiplied back when
   it does not), with a tiny positive weight substituted where an autocorrelation is zero or not
   finite; HDF5 v3 weights are the product of the two stored weight arrays and absent weights read
   as one. The excision fraction equals one minus the unscaled weight rounded to a whole number of
   correlator dumps over the accumulations per dump, the optional Van Vleck correction changes only
   the real autocorrelations, monotonically, and results do not depend on chunking along the
   baseline axis. Averaging in time and frequency returns the weight-averaged unflagged
   visibilities, the summed weights and the AND (or optionally OR) of the flags of each bin."

  Model: KatdalModel/Model/Weights.lean (mirror of vis_flags_weights.py, visdatav4.py excision
  transforms, van_vleck wiring, averager.py, h5datav3.py weights transform) next to the documented
  meaning (`kernelSpec`, `weightsRowSpec`, `vanVleckRowSpec`, `binSpec`).
  Floats: `Scalar K` classification over any linearly ordered field `K`; rounding is not modelled.
-/
import KatdalModel.Lemmas.WeightsList
import KatdalModel.Lemmas.WeightsField
open Np Weights

namespace C15

/-! ## 1. `corrprod_to_autocorr` -/

section lookup
variable {α : Type} [DecidableEq α]

/-- **autocorr_lookup**: for every correlation product `(x, y)` the two returned indices point
    (through `auto_indices`) at products `(x, x)` and `(y, y)`, wherever those sit in the ordering
    and whatever the polarisations of `x` and `y` are. -/
theorem autocorr_lookup (cps : List (α × α)) (ai i1 i2 : List Nat)
    (h : corrprodToAutocorr cps = .ok (ai, i1, i2)) :
    i1.length = cps.length ∧ i2.length = cps.length ∧
    ∀ (b : Nat) (x y : α), cps[b]? = some (x, y) →
      ∃ k1 k2 p1 p2, i1[b]? = some k1 ∧ i2[b]? = some k2 ∧ ai[k1]? = some p1 ∧ ai[k2]? = some p2 ∧
        cps[p1]? = some (x, x) ∧ cps[p2]? = some (y, y) := by
  unfold corrprodToAutocorr at h
  cases h1 : mapME (fun p => lookupKey (autosFrom 0 cps) p.1) cps with
  | error e => simp [h1] at h
  | ok r1 =>
    cases h2 : mapME (fun p => lookupKey (autosFrom 0 cps) p.2) cps with
    | error e => simp [h1, h2] at h
    | ok r2 =>
      simp [h1, h2] at h
      obtain ⟨rfl, rfl, rfl⟩ := h
      obtain ⟨hl1, hp1⟩ := mapME_ok h1
      obtain ⟨hl2, hp2⟩ := mapME_ok h2
      refine ⟨hl1, hl2, ?_⟩
      intro b x y hb
      obtain ⟨k1, hk1, hf1⟩ := hp1 b (x, y) hb
      obtain ⟨k2, hk2, hf2⟩ := hp2 b (x, y) hb
      obtain ⟨p1, hp1'⟩ := lookupKey_ok hf1
      obtain ⟨p2, hp2'⟩ := lookupKey_ok hf2
      have m1 := autosFrom_mem cps 0 x p1 (List.mem_of_getElem? hp1')
      have m2 := autosFrom_mem cps 0 y p2 (List.mem_of_getElem? hp2')
      refine ⟨k1, k2, p1, p2, hk1, hk2, ?_, ?_, by simpa using m1.2, by simpa using m2.2⟩
      · simp [List.getElem?_map, hp1']
      · simp [List.getElem?_map, hp2']

example : corrprodToAutocorr [("a", "bv"), ("bv", "bv"), ("a", "a"), ("bv", "a")]
    = .ok ([1, 2], [1, 0, 1, 0], [0, 0, 1, 1]) := by decide

/-- `auto_indices` is exactly the increasing list of positions of autocorrelation products -/
theorem autocorr_indices (cps : List (α × α)) (ai i1 i2 : List Nat)
    (h : corrprodToAutocorr cps = .ok (ai, i1, i2)) :
    List.Pairwise (· < ·) ai ∧ ∀ p : Nat, p ∈ ai ↔ ∃ a, cps[p]? = some (a, a) := by
  unfold corrprodToAutocorr at h
  cases h1 : mapME (fun p => lookupKey (autosFrom 0 cps) p.1) cps with
  | error e => simp [h1] at h
  | ok r1 =>
    cases h2 : mapME (fun p => lookupKey (autosFrom 0 cps) p.2) cps with
    | error e => simp [h1, h2] at h
    | ok r2 =>
      simp [h1, h2] at h
      obtain ⟨rfl, rfl, rfl⟩ := h
      refine ⟨autosFrom_sorted cps 0, ?_⟩
      intro p
      constructor
      · intro hp
        simp at hp
        obtain ⟨l, hl⟩ := hp
        exact ⟨l, by simpa using (autosFrom_mem cps 0 l p hl).2⟩
      · intro ⟨a, ha⟩
        have := autosFrom_complete cps 0 p a ha
        simp only [Nat.zero_add] at this
        simp
        exact ⟨a, this⟩

example : ∃ i1 i2, corrprodToAutocorr [("a", "b"), ("b", "b"), ("a", "a")] = .ok ([1, 2], i1, i2) :=
  ⟨[1, 0, 1], [0, 0, 1], by decide⟩

/-- a missing autocorrelation ⇒ `KeyError` (and nothing else ever fails) -/
theorem autocorr_lookup_keyerror (cps : List (α × α)) (e : Err) (h : corrprodToAutocorr cps = .error e) :
    e = .key ∧ ∃ x y, (x, y) ∈ cps ∧ ((∀ p : Nat, cps[p]? ≠ some (x, x)) ∨ (∀ p : Nat, cps[p]? ≠ some (y, y))) := by
  have key : ∀ (a : α), (∀ q ∈ autosFrom 0 cps, q.1 ≠ a) → ∀ p : Nat, cps[p]? ≠ some (a, a) := by
    intro a hq p hp
    have := autosFrom_complete cps 0 p a hp
    exact hq _ this rfl
  unfold corrprodToAutocorr at h
  cases h1 : mapME (fun p => lookupKey (autosFrom 0 cps) p.1) cps with
  | error e1 =>
    simp [h1] at h
    subst h
    obtain ⟨⟨x, y⟩, hm, hf⟩ := mapME_error h1
    obtain ⟨he, hq⟩ := lookupKey_error hf
    exact ⟨he, x, y, hm, Or.inl (key x hq)⟩
  | ok r1 =>
    cases h2 : mapME (fun p => lookupKey (autosFrom 0 cps) p.2) cps with
    | error e2 =>
      simp [h1, h2] at h
      subst h
      obtain ⟨⟨x, y⟩, hm, hf⟩ := mapME_error h2
      obtain ⟨he, hq⟩ := lookupKey_error hf
      exact ⟨he, x, y, hm, Or.inr (key y hq)⟩
    | ok r2 => simp [h1, h2] at h

example : corrprodToAutocorr [("a", "b"), ("a", "a")] = .error .key := by decide

/-- conversely: when every input that occurs has its autocorrelation, the lookup succeeds -/
theorem autocorr_lookup_total (cps : List (α × α))
    (hall : ∀ x y, (x, y) ∈ cps → (∃ p : Nat, cps[p]? = some (x, x)) ∧ (∃ p : Nat, cps[p]? = some (y, y))) :
    ∃ ai i1 i2, corrprodToAutocorr cps = .ok (ai, i1, i2) := by
  have tot : ∀ a, (∃ p : Nat, cps[p]? = some (a, a)) → ∃ k, lookupKey (autosFrom 0 cps) a = .ok k := by
    intro a ⟨p, hp⟩
    apply lookupKey_total
    exact ⟨(a, 0 + p), autosFrom_complete cps 0 p a hp, rfl⟩
  obtain ⟨r1, h1⟩ := mapME_total (f := fun p => lookupKey (autosFrom 0 cps) p.1) (l := cps)
    (fun ⟨x, y⟩ hm => tot x (hall x y hm).1)
  obtain ⟨r2, h2⟩ := mapME_total (f := fun p => lookupKey (autosFrom 0 cps) p.2) (l := cps)
    (fun ⟨x, y⟩ hm => tot y (hall x y hm).2)
  exact ⟨(autosFrom 0 cps).map (·.2), r1, r2, by simp [corrprodToAutocorr, h1, h2]⟩

end lookup

end C15
