"""Which properties are claimed, with the level text that goes into MANIFEST.json."""

CLAIMED = {
    'C04': dict(
        technique='Lean 4 theorems (range_to_slice soundness, simplify/normalise preserve numpy meaning, two-stage '
                  'composition, chunk read-set lemma) + differential correspondence of DaskLazyIndexer against the model',
        text='Kernel-checked theorems about the model of _range_to_slice/_simplify_index/dask_getitem/DaskLazyIndexer '
             'for all shapes, indices and nesting depths; the model is tied to the current source by a seeded '
             'differential run (arrays of coordinate codes, counting chunk store for the read set).',
        note='Trusted: Lean kernel; axioms propext/Classical.choice/Quot.sound; dask applies a normalised per-axis index '
             'with numpy per-axis meaning (assumption, exercised by every case); hand-written model and harness. '
             'dask graph machinery itself is modelled, not verified.',
        design_ref='DESIGN.md 4/C04'),
}

_PENDING = 'check not built yet in this session (the property is within reach of the technique; see DESIGN.md section 4)'
NOT_CLAIMED = {f'C{n:02d}': _PENDING for n in range(1, 21) if f'C{n:02d}' not in CLAIMED}
