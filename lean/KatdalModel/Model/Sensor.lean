/-
  C12 — numeric sensors: clean-up, interpolation, caching, selection.

  Executable, Mathlib-free model of
    katdal/sensordata.py   remove_duplicates_and_invalid_values, dummy_sensor_getter,
                           SensorCache._get_props / _extract / get / __getitem__ / __setitem__ /
                           __delitem__ / add_aliases / _set_keep
    katdal/concatdata.py   ConcatenatedSensorGetter.get, ConcatenatedSensorCache.get / _set_keep /
                           __setitem__ / __delitem__
    katdal/visdatav4.py    _calc_azel          (value = deg2rad(source), `deg2rad` opaque)
    katdal/dataset.py      _calc_mjd           (value = mjd(timestamp), `mjd` opaque)

  Time stamps and sample values are exact rationals (`Rat`); the harness feeds dyadic numbers so
  that the float computation of the implementation can be compared with the exact one.

  The model describes the *property-conformant* behaviour.  One switch, `Cache.inplace`, turns on
  the behaviour of the code as found (`sensor_data.timestamp += time_offset` mutates the getter's
  own array); it is only used (a) to state precisely what goes wrong, (b) by the harness to
  recognise the symptoms of exactly that defect.  All property theorems are about `inplace = false`.

  The categorical branch (`sensor_to_categorical`) is property C10's subject; here only its plain
  rule is modelled (value at a dump = last sample at or before the end of the dump, else
  `initial_value`, else the first sample; optional `transform` on the samples), without greedy
  values, which is all C12 needs to speak about dummies and cache behaviour of non-float sensors.
-/
import KatdalModel.Np.Basic
import KatdalModel.Model.Index
open Np Index

namespace Sensor

/-! ## values -/

/-- numpy dtype kinds the code distinguishes (`dummy_sensor_getter`, `categorical` default) -/
inductive DType
  | float | int | str | bool | obj
  deriving DecidableEq, Repr, Inhabited

/-- A sensor value.  `app f v` is an opaque function applied to a value (`deg2rad`, `mjd`):
    astronomy and π are not modelled, the harness evaluates `f` with katpoint itself. -/
inductive Val
  | num (q : Rat)
  | int (i : Int)
  | nan
  | str (s : String)
  | bool (b : Bool)
  | none
  | obj (k : String)                 -- an opaque Python object (object dtype), identified by a label
  | app (f : String) (a : Val)
  deriving DecidableEq, Repr, Inhabited

/-- dtype numpy infers for a single value (`infer_dtype([value])`) -/
def Val.dtype : Val → DType
  | .num _ => .float
  | .nan => .float
  | .int _ => .int
  | .str _ => .str
  | .bool _ => .bool
  | .none => .obj
  | .obj _ => .obj
  | .app _ _ => .float

/-- One raw sample: timestamp, value, KATCP status (ignored when the getter has no status). -/
structure Sample where
  t : Rat
  v : Val
  st : String
  deriving DecidableEq, Repr, Inhabited

/-- `SensorData` behind a `SensorGetter`: the raw, uninterpolated samples. -/
structure Getter where
  dtype : DType
  hasStatus : Bool
  samples : List Sample
  deriving DecidableEq, Repr, Inhabited

/-! ## remove_duplicates_and_invalid_values -/

/-- statuses with a readable value (`nominal`, `warn`, `error`); everything else (`unknown`,
    `failure`, `unreachable`, `inactive`, integers written by k7_augment, …) is dropped -/
def statusOk (s : String) : Bool := s == "nominal" || s == "warn" || s == "error"

/-- insert `x` in front of the first element that is not earlier: with `sortByTime` this is a
    *stable* sort (`np.argsort(kind='mergesort')`) -/
def ins (x : Sample) : List Sample → List Sample
  | [] => [x]
  | y :: ys => if x.t ≤ y.t then x :: y :: ys else y :: ins x ys

def sortByTime : List Sample → List Sample
  | [] => []
  | a :: l => ins a (sortByTime l)

/-- `last_of_run = list(np.diff(x) != 0) + [True]` on the sorted samples -/
def keepLast : List Sample → List Sample
  | [] => []
  | [x] => [x]
  | x :: y :: l => if x.t = y.t then keepLast (y :: l) else x :: keepLast (y :: l)

/-- sort, keep the last of each run of equal time stamps -/
def dedup (l : List Sample) : List Sample := keepLast (sortByTime l)

/-- the whole clean-up, in the code's order: dedup first, status filter on the survivors -/
def clean (g : Getter) : List Sample :=
  if g.hasStatus then (dedup g.samples).filter (fun s => statusOk s.st) else dedup g.samples

/-! ## np.interp -/

/-- `np.interp(x, xp, fp)` for strictly increasing `xp`: hold the first value up to the first
    knot, linear between neighbours (`slope * (x - xp[j]) + fp[j]`), exact at knots, hold the
    last value after the last knot.  (`0` on an empty knot list, where numpy raises; the cache
    never gets there because an empty sample set is replaced by a dummy first.) -/
def interp : List (Rat × Rat) → Rat → Rat
  | [], _ => 0
  | [(_, y0)], _ => y0
  | (x0, y0) :: (x1, y1) :: rest, x =>
    if x ≤ x0 then y0
    else if x < x1 then y0 + (y1 - y0) * (x - x0) / (x1 - x0)
    else interp ((x1, y1) :: rest) x

/-- numeric meaning of a value for `np.interp` (bool is cast, strings/objects are a TypeError) -/
def asNum : Val → Option Rat
  | .num q => some q
  | .int i => some i
  | .bool b => some (if b then 1 else 0)
  | _ => none

def knotsNum : List (Rat × Val) → Option (List (Rat × Rat))
  | [] => some []
  | (t, v) :: r =>
    match asNum v, knotsNum r with
    | some q, some r' => some ((t, q) :: r')
    | _, _ => none

/-- non-categorical branch of `_extract` -/
def numericPath (knots : List (Rat × Val)) (dumps : List Rat) : Except Err (List Val) :=
  match knots with
  | [(_, .nan)] => .ok (dumps.map fun _ => Val.nan)      -- the float dummy: NaN everywhere
  | _ =>
    match knotsNum knots with
    | some ks => .ok (dumps.map fun x => Val.num (interp ks x))
    | none => .error .type

/-! ## categorical branch (plain rule only, see header) -/

/-- the two transforms the harness uses: numeric negation and `str.upper`; applied to a value of
    another kind Python raises (TypeError / AttributeError) -/
def applyTransform (f : Option String) (v : Val) : Except Err Val :=
  match f, v with
  | none, v => .ok v
  | some "neg", .num q => .ok (.num (-q))
  | some "neg", .int i => .ok (.int (-i))
  | some "neg", .nan => .ok .nan
  | some "up", .str s => .ok (.str s.toUpper)
  | some _, _ => .error .type

def transformKnots (f : Option String) : List (Rat × Val) → Except Err (List (Rat × Val))
  | [] => .ok []
  | k :: r =>
    match applyTransform f k.2, transformKnots f r with
    | .ok v, .ok r' => .ok ((k.1, v) :: r')
    | .error e, _ => .error e
    | _, .error e => .error e

/-- value in force at the end `e` of a dump -/
def catAt (knots : List (Rat × Val)) (init : Option Val) (e : Rat) : Val :=
  match (knots.filter (fun k => k.1 ≤ e)).getLast? with
  | some k => k.2
  | none =>
    match init with
    | some v => v
    | none => match knots with
      | k :: _ => k.2
      | [] => .none

/-- `sensor_to_categorical` expanded to one value per dump.  IndexError when no sample lies at or
    before the end of the last dump (the code indexes an empty event array: C10's finding). -/
def catPath (knots : List (Rat × Val)) (init : Option Val) (tf : Option String)
    (dumps : List Rat) (period : Rat) : Except Err (List Val) :=
  match dumps.getLast? with
  | none => .error .index
  | some dl =>
    -- only the samples up to the end of the last dump are transformed
    let upto := knots.filter (fun k => k.1 ≤ dl + period / 2)
    if upto.isEmpty then .error .index
    else
      match transformKnots tf upto with
      | .error e => .error e
      | .ok ks => .ok (dumps.map fun d => catAt ks init (d + period / 2))

/-! ## sensor properties -/

structure Props where
  timeOffset : Option Rat := none
  categorical : Option Bool := none
  initialValue : Option Val := none
  transform : Option String := none
  deriving DecidableEq, Repr, Inhabited

/-- `dict.update`: entries of `b` win -/
def Props.update (a b : Props) : Props :=
  { timeOffset := b.timeOffset <|> a.timeOffset
    categorical := b.categorical <|> a.categorical
    initialValue := b.initialValue <|> a.initialValue
    transform := b.transform <|> a.transform }

/-- `re.match('^' + '.*'.join(map(re.escape, key.split('*'))) + '$', name)` -/
def globMatch : List Char → List Char → Bool
  | [], [] => true
  | [], _ :: _ => false
  | '*' :: p, [] => globMatch p []
  | '*' :: p, c :: s => globMatch p (c :: s) || globMatch ('*' :: p) s
  | _ :: _, [] => false
  | a :: p, c :: s => a == c && globMatch p s
termination_by p s => p.length + s.length

abbrev PropMap := List (String × Props)

/-- dictionaries are association lists in insertion order -/
def dictSet {α} (k : String) (v : α) : List (String × α) → List (String × α)
  | [] => [(k, v)]
  | (k', v') :: t => if k' = k then (k, v) :: t else (k', v') :: dictSet k v t

def dictDel {α} (k : String) : List (String × α) → List (String × α)
  | [] => []
  | (k', v') :: t => if k' = k then t else (k', v') :: dictDel k t

/-- `SensorCache._get_props`: the entry of the name itself, then every wildcard entry that
    matches (in dict order, later wins, and they win over the specific entry), then the keyword
    arguments of the call. -/
def effProps (name : String) (pm : PropMap) (kw : Props) : Props :=
  let base := (pm.lookup name).getD {}
  let merged := pm.foldl (fun acc kv =>
    if kv.1.toList.contains '*' && globMatch kv.1.toList name.toList then acc.update kv.2 else acc) base
  merged.update kw

/-- … and the merged result is written back into the map (`props` is the dict stored there) -/
def stickProps (name : String) (pm : PropMap) (kw : Props) : PropMap :=
  dictSet name (effProps name pm kw) pm

/-! ## extraction -/

/-- extracted sensor: ndarray (numeric) or `CategoricalData` (expanded to one value per dump) -/
inductive Cached
  | arr (vs : List Val)
  | cat (vs : List Val)
  deriving DecidableEq, Repr, Inhabited

def Cached.vals : Cached → List Val
  | .arr vs => vs
  | .cat vs => vs

/-- `dummy_sensor_getter(name, value=None, dtype)`: the documented filler per type -/
def dummyVal : DType → Val
  | .float => .nan
  | .int => .int (-1)
  | .str => .str ""
  | .bool => .bool false
  | .obj => .none

def shiftSamples (off : Rat) (l : List Sample) : List Sample :=
  l.map fun s => { s with t := s.t + off }

/-- knots handed to interpolation and the dtype that decides `categorical`:
    cleaned samples, or the single dummy sample at time 0 -/
def knotsOf (g : Getter) (p : Props) : List (Rat × Val) × DType :=
  let cleaned := clean { g with samples := shiftSamples (p.timeOffset.getD 0) g.samples }
  if cleaned.isEmpty then
    match p.initialValue with
    | some v => ([(0, v)], v.dtype)
    | none => ([(0, dummyVal g.dtype)], g.dtype)
  else (cleaned.map fun s => (s.t, s.v), g.dtype)

/-- `SensorCache._extract` (pure: the getter is an argument, nothing is written back) -/
def extract (g : Getter) (dumps : List Rat) (period : Rat) (p : Props) : Except Err Cached :=
  let (knots, dt) := knotsOf g p
  let categ := p.categorical.getD (dt != .float)
  if categ then (catPath knots p.initialValue p.transform dumps period).map Cached.cat
  else (numericPath knots dumps).map Cached.arr

/-- what the code as found leaves behind in the getter: `timestamp += time_offset` in place
    (only when the sample set is non-empty) -/
def shiftedGetter (g : Getter) (p : Props) : Getter :=
  { g with samples := shiftSamples (p.timeOffset.getD 0) g.samples }

/-! ## the cache machine -/

inductive Entry
  | getter (id : Nat)
  | data (c : Cached)
  deriving DecidableEq, Repr, Inhabited

/-- virtual sensor templates known to the model -/
inductive Virt
  | azel     -- 'Antennas/{ant}/az', 'Antennas/{ant}/el'  (visdatav4._calc_azel)
  | mjd      -- 'Timestamps/mjd'                          (dataset._calc_mjd)
  | sum      -- 'Calc/{a}/plus/{b}'  harness-defined: cache.get(a) + cache.get(b)
  deriving DecidableEq, Repr, Inhabited

structure Cache where
  raw : List (String × Entry)
  getters : List Getter
  dumps : List Rat
  period : Rat
  keep : Ix
  props : PropMap
  virt : List Virt
  inplace : Bool := false
  deriving Repr, Inhabited

inductive Out
  | getter (id : Nat)
  | full (c : Cached)
  | sel (vs : List Val)
  | scalar (v : Val)
  | unit
  | rawcat (hasStatus : Bool) (samples : List Sample)   -- ConcatenatedSensorGetter.get()
  deriving DecidableEq, Repr, Inhabited

/-- positions selected by `keep` on a `CategoricalData` of `n` dumps (`__getitem__`/`_lookup`):
    slices and full-length masks as numpy, integers must be non-negative and in range -/
def catResolve (n : Nat) : Ix → Except Err Sel
  | .slice a b c =>
    match sliceList n a b c with
    | none => .error .value
    | some l => .ok (.many (l.map Int.toNat))
  | .mask m => if m.length = n then .ok (.many (nonzero m)) else .error .index
  | .int i => if 0 ≤ i ∧ i < n then .ok (.one i.toNat) else .error .index
  | .list l => if l.all (fun i => 0 ≤ i && i < n) then .ok (.many (l.map Int.toNat)) else .error .index

def pick (vs : List Val) : Sel → Except Err Out
  | .one k => (getNat vs k).map Out.scalar
  | .many ks => (ks.mapM (getNat vs)).map Out.sel

/-- `sensor_data[self.keep]` -/
def select (c : Cached) (keep : Ix) : Except Err Out :=
  match c with
  | .arr vs => do let s ← keep.resolve vs.length; pick vs s
  | .cat vs => do let s ← catResolve vs.length keep; pick vs s

/-- raw lookup and first extraction: the part of `get` below the virtual-sensor dispatch.
    Returns the outcome and the new state (Python may have changed state before raising). -/
def getPlain (s : Cache) (name : String) (sel ext : Bool) (kw : Props) : Except Err Out × Cache :=
  if sel && !ext then (.error .value, s) else
  match s.raw.lookup name with
  | none => (.error .key, s)
  | some (.data c) => (if sel then select c s.keep else .ok (.full c), s)
  | some (.getter id) =>
    if !ext then (.ok (.getter id), s) else
    match s.getters[id]? with
    | none => (.error .other, s)
    | some g =>
      let p := effProps name s.props kw
      let s1 := { s with props := stickProps name s.props kw }
      let s2 := if s.inplace then { s1 with getters := s1.getters.set id (shiftedGetter g p) } else s1
      match extract g s.dumps s.period p with
      | .error e => (.error e, s2)
      | .ok c =>
        let s3 := { s2 with raw := dictSet name (.data c) s2.raw }
        (if sel then select c s3.keep else .ok (.full c), s3)

def fullArr (s : Cache) (name : String) : Except Err (List Val) × Cache :=
  match getPlain s name false true {} with
  | (.ok (.full (.arr vs)), s') => (.ok vs, s')
  | (.ok _, s') => (.error .type, s')
  | (.error e, s') => (.error e, s')

/-- `str.split(sep)` for a one-character separator, structurally recursive (kernel-evaluable) -/
def splitChars (sep : Char) : List Char → List Char → List (List Char)
  | [], cur => [cur.reverse]
  | c :: cs, cur => if c = sep then cur.reverse :: splitChars sep cs [] else splitChars sep cs (c :: cur)

def splitOnChar (s : String) (sep : Char) : List String :=
  (splitChars sep s.toList []).map String.ofList

def addVal : Val → Val → Val
  | .num a, .num b => .num (a + b)
  | _, _ => .nan

def zipAdd : List Val → List Val → List Val
  | a :: as, b :: bs => addVal a b :: zipAdd as bs
  | _, _ => []

/-- the virtual sensor functions; each stores its result with `cache[name] = …` and returns it -/
def runVirt (s : Cache) (name : String) : Virt → Option (Except Err (List Val) × Cache)
  | .mjd => if name = "Timestamps/mjd" then
      some (.ok (s.dumps.map fun t => Val.app "mjd" (.num t)), s) else none
  | .azel =>
    match splitOnChar name '/' with
    | ["Antennas", ant, which] =>
      if ant ≠ "" ∧ (which = "az" ∨ which = "el") then
        let src := ant ++ "_pos_actual_scan_" ++ (if which = "az" then "azim" else "elev")
        match fullArr s src with
        | (.ok vs, s') => some (.ok (vs.map (Val.app "deg2rad")), s')
        | (.error e, s') => some (.error e, s')
      else none
    | _ => none
  | .sum =>
    match splitOnChar name '/' with
    | ["Calc", a, "plus", b] =>
      if a ≠ "" ∧ b ≠ "" then
        match fullArr s a with
        | (.error e, s') => some (.error e, s')
        | (.ok va, s') =>
          match fullArr s' b with
          | (.error e, s'') => some (.error e, s'')
          | (.ok vb, s'') => some (.ok (zipAdd va vb), s'')
      else none
    | _ => none

def firstVirt (s : Cache) (name : String) : List Virt → Option (Except Err (List Val) × Cache)
  | [] => none
  | v :: vs => match runVirt s name v with
    | some r => some r
    | none => firstVirt s name vs

/-- `SensorCache.get(name, select, extract, **kw)` -/
def get (s : Cache) (name : String) (sel ext : Bool) (kw : Props) : Except Err Out × Cache :=
  if sel && !ext then (.error .value, s) else
  match s.raw.lookup name with
  | some _ => getPlain s name sel ext kw
  | none =>
    match firstVirt s name s.virt with
    | none => (.error .key, s)
    | some (.error e, s') => (.error e, s')
    | some (.ok vs, s') =>
      let s'' := { s' with raw := dictSet name (.data (.arr vs)) s'.raw }
      (if sel then select (.arr vs) s''.keep else .ok (.full (.arr vs)), s'')

/-- `add_aliases(alias, original)` over a snapshot of the items -/
def addAliases (alias original : String) (raw : List (String × Entry)) : List (String × Entry) :=
  raw.foldl (fun acc kv =>
    if kv.1.endsWith original then dictSet (kv.1.replace original alias) kv.2 acc else acc) raw

inductive Op
  | get (name : String) (sel ext : Bool) (kw : Props)
  | setData (name : String) (c : Cached)
  | setGetter (name : String) (id : Nat)
  | del (name : String)
  | setKeep (k : Option Ix)
  | alias (alias original : String)
  | keys
  deriving Repr, Inhabited

def step (s : Cache) : Op → Except Err Out × Cache
  | .get name sel ext kw => get s name sel ext kw
  | .setData name c => (.ok .unit, { s with raw := dictSet name (.data c) s.raw })
  | .setGetter name id => (.ok .unit, { s with raw := dictSet name (.getter id) s.raw })
  | .del name =>
    match s.raw.lookup name with
    | none => (.error .key, s)
    | some _ => (.ok .unit, { s with raw := dictDel name s.raw })
  | .setKeep none => (.ok .unit, s)
  | .setKeep (some k) => (.ok .unit, { s with keep := k })
  | .alias a o => (.ok .unit, { s with raw := addAliases a o s.raw })
  | .keys => (.ok .unit, s)

/-- state after a sequence of operations (outcomes dropped) -/
def run (s : Cache) : List Op → Cache
  | [] => s
  | op :: ops => run (step s op).2 ops

/-! ## concatenated cache -/

structure Concat where
  parts : List Cache
  props : PropMap
  deriving Repr, Inhabited

/-- `_get`: one outcome per part, `none` for KeyError; any other error aborts -/
def cget (name : String) (sel ext : Bool) (kw : Props) :
    List Cache → Except Err (List (Option Out)) × List Cache
  | [] => (.ok [], [])
  | c :: cs =>
    match get c name sel ext kw with
    | (.error .key, c') =>
      match cget name sel ext kw cs with
      | (.ok r, cs') => (.ok (none :: r), c' :: cs')
      | (.error e, cs') => (.error e, c' :: cs')
    | (.error e, c') => (.error e, c' :: cs)
    | (.ok o, c') =>
      match cget name sel ext kw cs with
      | (.ok r, cs') => (.ok (some o :: r), c' :: cs')
      | (.error e, cs') => (.error e, c' :: cs')

def promote : DType → DType → DType
  | .float, .int => .float
  | .int, .float => .float
  | a, b => if a = b then a else .obj

def valsDtype : List Val → Option DType
  | [] => none
  | v :: vs => match valsDtype vs with
    | none => some v.dtype
    | some d => some (promote v.dtype d)

/-- `common_dtype`: ndarrays from `np.interp` are float64, `CategoricalData.dtype` is inferred
    from its values -/
def outDtype : Out → Option DType
  | .full (.arr _) => some .float
  | .full (.cat vs) => valsDtype vs
  | _ => none

def commonDtype : List (Option Out) → Option DType
  | [] => none
  | none :: r => commonDtype r
  | some o :: r =>
    match outDtype o, commonDtype r with
    | some d, some d' => some (promote d d')
    | some d, none => some d
    | none, d' => d'

/-- fill the parts that lack the sensor: extract the dummy on that part's dumps, store it, read
    it back through the part's own `get` -/
def fillMissing (name : String) (sel : Bool) (kw : Props) (dummy : Getter) (p : Props) :
    List (Option Out) → List Cache → Except Err (List Out) × List Cache
  | some o :: r, c :: cs =>
    match fillMissing name sel kw dummy p r cs with
    | (.ok os, cs') => (.ok (o :: os), c :: cs')
    | (.error e, cs') => (.error e, c :: cs')
  | none :: r, c :: cs =>
    match extract dummy c.dumps c.period p with
    | .error e => (.error e, c :: cs)
    | .ok d =>
      let c1 := { c with raw := dictSet name (.data d) c.raw }
      match get c1 name sel true kw with
      | (.error e, c2) => (.error e, c2 :: cs)
      | (.ok o, c2) =>
        match fillMissing name sel kw dummy p r cs with
        | (.ok os, cs') => (.ok (o :: os), c2 :: cs')
        | (.error e, cs') => (.error e, c2 :: cs')
  | _, cs => (.ok [], cs)

def isGetterOrNone : Option Out → Bool
  | none => true
  | some (.getter _) => true
  | _ => false

def joinOuts : List Out → Except Err Out
  | outs =>
    if outs.any (fun o => match o with | .full (.cat _) => true | _ => false) then
      -- concatenate_categorical wants CategoricalData everywhere
      if outs.all (fun o => match o with | .full (.cat _) => true | _ => false) then
        .ok (.full (.cat (outs.flatMap fun o => match o with | .full c => c.vals | _ => [])))
      else .error .type
    else if outs.all (fun o => match o with | .full (.arr _) => true | _ => false) then
      .ok (.full (.arr (outs.flatMap fun o => match o with | .full c => c.vals | _ => [])))
    else if outs.all (fun o => match o with | .sel _ => true | _ => false) then
      .ok (.sel (outs.flatMap fun o => match o with | .sel vs => vs | _ => []))
    else .error .type

/-- `ConcatenatedSensorGetter.get()`: concatenate the non-empty parts; status only if every
    (non-empty) part has one -/
def rawConcat (gs : List Getter) : Out :=
  let parts := gs.filter (fun g => !g.samples.isEmpty)
  .rawcat (parts.all (·.hasStatus) ) (parts.flatMap (·.samples))

def getterOf (c : Cache) : Option Out → Option Getter
  | some (.getter id) => c.getters[id]?
  | _ => none

def zipGetters : List Cache → List (Option Out) → List Getter
  | c :: cs, o :: os => (match getterOf c o with | some g => [g] | none => []) ++ zipGetters cs os
  | _, _ => []

/-- `ConcatenatedSensorCache.get` -/
def Concat.get (cc : Concat) (name : String) (sel ext : Bool) (kw : Props) : Except Err Out × Concat :=
  match cget name sel ext kw cc.parts with
  | (.error e, ps) => (.error e, { cc with parts := ps })
  | (.ok split, ps) =>
    if split.all (·.isNone) then (.error .key, { cc with parts := ps }) else
    -- already partially extracted: forced to extract the rest too
    let force := !ext && !(split.all isGetterOrNone)
    let ext' := ext || force
    match (if force then cget name sel true kw ps else (.ok split, ps)) with
    | (.error e, ps) => (.error e, { cc with parts := ps })
    | (.ok split, ps) =>
      if !ext' then (.ok (rawConcat (zipGetters ps split)), { cc with parts := ps }) else
      let p := effProps name cc.props kw
      let cc1 : Concat := { parts := ps, props := stickProps name cc.props kw }
      if split.any (·.isNone) then
        match (if sel then cget name false true kw ps else (.ok split, ps)) with
        | (.error e, ps) => (.error e, { cc1 with parts := ps })
        | (.ok split2, ps) =>
          let dummy : Getter :=
            match p.initialValue with
            | some v => { dtype := v.dtype, hasStatus := false, samples := [⟨0, v, ""⟩] }
            | none =>
              let dt := (commonDtype split2).getD .float
              { dtype := dt, hasStatus := false, samples := [⟨0, dummyVal dt, ""⟩] }
          match fillMissing name sel kw dummy p split ps with
          | (.error e, ps) => (.error e, { cc1 with parts := ps })
          | (.ok outs, ps) => (joinOuts outs, { cc1 with parts := ps })
      else (joinOuts (split.filterMap id), cc1)

def splitAt' {α} (l : List α) : List Nat → List (List α)
  | [] => []
  | n :: ns => l.take n :: splitAt' (l.drop n) ns

/-- `_set_keep(mask)`: each part gets its slice of the global mask -/
def Concat.setKeep (cc : Concat) (m : List Bool) : Concat :=
  let lens := cc.parts.map (·.dumps.length)
  { cc with parts := (cc.parts.zip (splitAt' m lens)).map fun (c, mpart) => { c with keep := .mask mpart } }

def Concat.setData (cc : Concat) (name : String) (c : Cached) : Concat :=
  let lens := cc.parts.map (·.dumps.length)
  let pieces := splitAt' c.vals lens
  { cc with parts := (cc.parts.zip pieces).map fun (pt, vs) =>
      { pt with raw := dictSet name (.data (match c with | .arr _ => .arr vs | .cat _ => .cat vs)) pt.raw } }

def Concat.del (cc : Concat) (name : String) : Except Err Out × Concat :=
  if cc.parts.any (fun c => (c.raw.lookup name).isSome) then
    (.ok .unit, { cc with parts := cc.parts.map fun c => { c with raw := dictDel name c.raw } })
  else (.error .key, cc)

def Concat.step (cc : Concat) : Op → Except Err Out × Concat
  | .get name sel ext kw => cc.get name sel ext kw
  | .setData name c => (.ok .unit, cc.setData name c)
  | .setGetter _ _ => (.error .other, cc)
  | .del name => cc.del name
  | .setKeep (some (.mask m)) => (.ok .unit, cc.setKeep m)
  | .setKeep _ => (.ok .unit, cc)
  | .alias _ _ => (.error .other, cc)
  | .keys => (.ok .unit, cc)

end Sensor
