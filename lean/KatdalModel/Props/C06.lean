/-
  C06 — Lost data become zeros flagged data_lost, exactly where they were lost.

  "When any set of stored chunks of visibilities, weights, per-channel weights or flags is absent
   from the chunk store, including whole trailing dumps missing from one array or from an attached
   flags stream, loading still succeeds: visibilities and weights are zero exactly on the elements
   covered by their own missing chunks, the data_lost flag bit is set exactly on the elements
   covered by a missing chunk of any of the arrays, and every other element and flag bit equals
   what was stored.  This holds for any chunking schemes of the individual arrays and any
   preselection of dumps and channels."

  Model: KatdalModel/Model/Chunks.lean.  The code attributes lost regions through the common
  refinement ("pieces") of the flags chunking and each other array's chunking; the spec attributes
  them element-wise through `chunkOf`.
-/
import KatdalModel.Model.Chunks
open Np Chunks

namespace C06

def covers (p : Nat) (q : Piece) : Bool := decide (q.start ≤ p ∧ p < q.start + q.len)

theorem chunkOf_zero_cons (t : List Nat) (x : Nat) : chunkOf (0 :: t) x = 1 + chunkOf t x := by
  simp [chunkOf]

theorem chunkOf_lt (a : Nat) (t : List Nat) (x : Nat) (h : x < a) : chunkOf (a :: t) x = 0 := by
  simp [chunkOf, h]

theorem chunkOf_ge (a : Nat) (t : List Nat) (x : Nat) (h : a ≤ x) : chunkOf (a :: t) x = 1 + chunkOf t (x - a) := by
  have : ¬ x < a := by omega
  simp [chunkOf, this]

/-- **The piece decomposition is the common refinement**: every position below the common
    length is covered by a piece, and the first piece covering it names exactly the chunk of either
    chunking that contains the position. -/
theorem piecesAux_spec : ∀ (fuel pos : Nat) (as : List Nat) (i : Nat) (bs : List Nat) (j p : Nat),
    as.length + bs.length < fuel → as.sum = bs.sum → pos ≤ p → p - pos < as.sum →
    ∃ q, (piecesAux fuel pos as i bs j).find? (covers p) = some q ∧
      q.dst = i + chunkOf as (p - pos) ∧ q.src = j + chunkOf bs (p - pos) := by
  intro fuel
  induction fuel with
  | zero => intro pos as i bs j p h; omega
  | succ fuel ih =>
    intro pos as i bs j p hf hs hp hlt
    cases as with
    | nil => simp at hlt
    | cons a as' =>
      cases bs with
      | nil => rw [hs] at hlt; simp at hlt
      | cons b bs' =>
        simp only [List.sum_cons, List.length_cons] at hs hf hlt
        unfold piecesAux
        by_cases ha : a = 0
        · subst ha
          simp only [if_true]
          obtain ⟨q, h1, h2, h3⟩ := ih pos as' (i + 1) (b :: bs') j p (by simp; omega) (by simp; omega) hp (by omega)
          exact ⟨q, h1, by rw [h2, chunkOf_zero_cons]; omega, h3⟩
        · simp only [ha, if_false]
          by_cases hb : b = 0
          · subst hb
            simp only [if_true]
            obtain ⟨q, h1, h2, h3⟩ := ih pos (a :: as') i bs' (j + 1) p (by simp; omega) (by simp; omega) hp (by simp; omega)
            exact ⟨q, h1, h2, by rw [h3, chunkOf_zero_cons]; omega⟩
          · simp only [hb, if_false]
            by_cases hab : a < b
            · simp only [hab, if_true]
              by_cases hin : p < pos + a
              · refine ⟨⟨pos, a, i, j⟩, ?_, ?_, ?_⟩
                · simp [List.find?, covers, hp, hin]
                · simp [chunkOf_lt a as' (p - pos) (by omega)]
                · simp [chunkOf_lt b bs' (p - pos) (by omega)]
              · obtain ⟨q, h1, h2, h3⟩ := ih (pos + a) as' (i + 1) ((b - a) :: bs') j p
                  (by simp; omega) (by simp; omega) (by omega) (by omega)
                refine ⟨q, ?_, ?_, ?_⟩
                · have : covers p ⟨pos, a, i, j⟩ = false := by simp [covers]; omega
                  simp [List.find?, this, h1]
                · rw [h2, chunkOf_ge a as' (p - pos) (by omega)]
                  have : p - (pos + a) = p - pos - a := by omega
                  rw [this]; omega
                · rw [h3]
                  have e : p - (pos + a) = p - pos - a := by omega
                  rw [e]
                  by_cases hpb : p - pos < b
                  · rw [chunkOf_lt b bs' _ hpb, chunkOf_lt (b - a) bs' _ (by omega)]
                  · rw [chunkOf_ge b bs' _ (by omega), chunkOf_ge (b - a) bs' _ (by omega)]
                    have : p - pos - a - (b - a) = p - pos - b := by omega
                    rw [this]
            · simp only [hab, if_false]
              by_cases hba : b < a
              · simp only [hba, if_true]
                by_cases hin : p < pos + b
                · refine ⟨⟨pos, b, i, j⟩, ?_, ?_, ?_⟩
                  · simp [List.find?, covers, hp, hin]
                  · simp [chunkOf_lt a as' (p - pos) (by omega)]
                  · simp [chunkOf_lt b bs' (p - pos) (by omega)]
                · obtain ⟨q, h1, h2, h3⟩ := ih (pos + b) ((a - b) :: as') i bs' (j + 1) p
                    (by simp; omega) (by simp; omega) (by omega) (by simp; omega)
                  refine ⟨q, ?_, ?_, ?_⟩
                  · have : covers p ⟨pos, b, i, j⟩ = false := by simp [covers]; omega
                    simp [List.find?, this, h1]
                  · rw [h2]
                    have e : p - (pos + b) = p - pos - b := by omega
                    rw [e]
                    by_cases hpa : p - pos < a
                    · rw [chunkOf_lt a as' _ hpa, chunkOf_lt (a - b) as' _ (by omega)]
                    · rw [chunkOf_ge a as' _ (by omega), chunkOf_ge (a - b) as' _ (by omega)]
                      have : p - pos - b - (a - b) = p - pos - a := by omega
                      rw [this]
                  · rw [h3, chunkOf_ge b bs' (p - pos) (by omega)]
                    have : p - (pos + b) = p - pos - b := by omega
                    rw [this]; omega
              · simp only [hba, if_false]
                have heq : a = b := by omega
                subst heq
                by_cases hin : p < pos + a
                · refine ⟨⟨pos, a, i, j⟩, ?_, ?_, ?_⟩
                  · simp [List.find?, covers, hp, hin]
                  · simp [chunkOf_lt a as' (p - pos) (by omega)]
                  · simp [chunkOf_lt a bs' (p - pos) (by omega)]
                · obtain ⟨q, h1, h2, h3⟩ := ih (pos + a) as' (i + 1) bs' (j + 1) p
                    (by omega) (by omega) (by omega) (by omega)
                  refine ⟨q, ?_, ?_, ?_⟩
                  · have : covers p ⟨pos, a, i, j⟩ = false := by simp [covers]; omega
                    simp [List.find?, this, h1]
                  · rw [h2, chunkOf_ge a as' (p - pos) (by omega)]
                    have : p - (pos + a) = p - pos - a := by omega
                    rw [this]; omega
                  · rw [h3, chunkOf_ge a bs' (p - pos) (by omega)]
                    have : p - (pos + a) = p - pos - a := by omega
                    rw [this]; omega

/-- what the code's piece decomposition attributes to a position is the chunk containing it -/
theorem c06_pieces_src (c1 c2 : List Nat) (hs : c1.sum = c2.sum) (p : Nat) (hp : p < c1.sum) :
    srcOfPieces (pieces c1 c2) p = some (chunkOf c2 p) ∧ dstOfPieces (pieces c1 c2) p = some (chunkOf c1 p) := by
  obtain ⟨q, h1, h2, h3⟩ := piecesAux_spec (c1.length + c2.length + 1) 0 c1 0 c2 0 p (by omega) hs (by omega) (by omega)
  have hfind : (pieces c1 c2).find? (fun q => decide (q.start ≤ p ∧ p < q.start + q.len)) = some q := h1
  simp only [srcOfPieces, dstOfPieces, hfind, Option.map_some]
  simp only [Nat.zero_add, Nat.sub_zero] at h2 h3
  rw [h2, h3]
  exact ⟨rfl, rfl⟩

/-- **C06, one axis**: the lost map the code computes through intersecting the flags chunking
    with another array's chunking equals the element-wise specification "a position is lost iff
    the chunk of that array containing it is absent", for all chunkings of the same axis and
    every presence predicate. -/
theorem c06_lost_axis (c1 c2 : List Nat) (present : Nat → Bool) (hs : c1.sum = c2.sum) :
    lostByPieces c1 c2 present c1.sum = lostSpec c2 present c1.sum := by
  unfold lostByPieces lostSpec
  apply List.map_congr_left
  intro p hp
  have hp' : p < c1.sum := List.mem_range.mp hp
  rw [(c06_pieces_src c1 c2 hs p hp').1]

/-- N-dimensional lifting: a chunk of an N-D array is named by the tuple of per-axis chunk
    indices; if on every axis the piece lookup agrees with `chunkOf`, the tuple lookup agrees. -/
theorem c06_lost_nd (lookups specs : List (Nat → Nat)) (coord : List Nat)
    (h : ∀ k, k < lookups.length → ∀ x, (lookups.getD k id) x = (specs.getD k id) x)
    (hl : lookups.length = specs.length) :
    (List.zipWith (fun f x => f x) lookups coord) = (List.zipWith (fun f x => f x) specs coord) := by
  induction lookups generalizing specs coord with
  | nil => cases specs <;> simp_all
  | cons f t ih =>
    cases specs with
    | nil => simp at hl
    | cons g t' =>
      cases coord with
      | nil => simp
      | cons x xs =>
        simp only [List.zipWith_cons_cons]
        have h0 := h 0 (by simp) x
        simp only [List.getD_cons_zero] at h0
        rw [h0, ih t' xs (fun k hk y => by
          have := h (k + 1) (by simp; omega) y
          simpa using this) (by simpa using hl)]

theorem sum_replicate_one (k : Nat) : (List.replicate k 1).sum = k := by
  induction k with
  | zero => rfl
  | succ k ih => simp [List.replicate_succ, ih]; omega

/-- phantom-chunk alignment (`_align_chunk_info`): the padded chunking has the maximum number of
    dumps, keeps every original chunk and adds only one-dump chunks -/
theorem c06_align (tc : List Nat) (mx : Nat) (h : tc.sum ≤ mx) :
    (alignTime tc mx).sum = mx ∧ (alignTime tc mx).take tc.length = tc ∧
    ∀ c ∈ (alignTime tc mx).drop tc.length, c = 1 := by
  unfold alignTime total
  refine ⟨?_, by simp, ?_⟩
  · rw [List.sum_append, sum_replicate_one]; omega
  · intro c hc
    simp at hc
    exact hc.2

theorem chunkOf_append_ge (tc rest : List Nat) : ∀ (p : Nat), tc.sum ≤ p →
    chunkOf (tc ++ rest) p = tc.length + chunkOf rest (p - tc.sum) := by
  induction tc with
  | nil => intro p _; simp
  | cons a t ih =>
    intro p hp
    simp only [List.sum_cons] at hp
    simp only [List.cons_append, List.length_cons, List.sum_cons]
    rw [chunkOf_ge a _ p (by omega), ih (p - a) (by omega)]
    have : p - a - t.sum = p - (a + t.sum) := by omega
    rw [this]; omega

/-- a position at or beyond an array's own number of dumps falls in a phantom chunk (index at
    least the number of real chunks), which is never in the store, hence counts as lost -/
theorem c06_phantom_position (tc : List Nat) (mx p : Nat) (hp : tc.sum ≤ p) :
    tc.length ≤ chunkOf (alignTime tc mx) p := by
  unfold alignTime
  rw [chunkOf_append_ge tc _ p hp]
  omega

/-- and a position below it keeps the chunk it had before alignment -/
theorem c06_real_position (tc rest : List Nat) : ∀ (p : Nat), p < tc.sum →
    chunkOf (tc ++ rest) p = chunkOf tc p := by
  induction tc with
  | nil => intro p hp; simp at hp
  | cons a t ih =>
    intro p hp
    simp only [List.sum_cons] at hp
    simp only [List.cons_append]
    by_cases h : p < a
    · rw [chunkOf_lt a _ p h, chunkOf_lt a _ p h]
    · rw [chunkOf_ge a _ p (by omega), chunkOf_ge a _ p (by omega), ih (p - a) (by omega)]

example : pieces [3, 3] [2, 3, 1] = [⟨0, 2, 0, 0⟩, ⟨2, 1, 0, 1⟩, ⟨3, 2, 1, 1⟩, ⟨5, 1, 1, 2⟩] := by decide
example : lostByPieces [3, 3] [2, 3, 1] (fun k => k != 1) 6 = [false, false, true, true, true, false] := by decide

/-! ### element level -/

/-- a statement about every byte follows from its 256 instances (discharged by `decide +kernel`) -/
theorem u8_forall (P : UInt8 → Prop) (h : ∀ k : Fin 256, P (UInt8.ofNat k.val)) : ∀ x : UInt8, P x := by
  intro x
  have := h ⟨x.toNat, x.toNat_lt⟩
  simpa using this

/-- **Visibilities and weights are zero exactly on the elements covered by their own missing
    chunks, every other element equals what was stored** -/
theorem c06_value {α} (zero : α) (lost : Bool) (stored : α) :
    (lost = true → loadValue zero lost stored = zero) ∧ (lost = false → loadValue zero lost stored = stored) := by
  cases lost <;> simp [loadValue]

/-- **The data_lost bit is set exactly on the elements covered by a missing chunk of any of the
    arrays** (for stored flags that do not carry the bit themselves), for every stored byte -/
theorem c06_data_lost_bit (stored : UInt8) (lv lw lc lf : Bool) (hclear : stored &&& dataLost = 0) :
    (loadFlags stored lv lw lc lf &&& dataLost ≠ 0) ↔ (lv || lw || lc || lf) = true := by
  revert stored lv lw lc lf
  apply u8_forall
  decide +kernel

/-- **Every other flag bit equals what was stored** (zero where the flags chunk itself is missing),
    for every stored byte and every combination of missing arrays -/
theorem c06_other_bits (stored : UInt8) (lv lw lc lf : Bool) :
    loadFlags stored lv lw lc lf &&& ~~~dataLost = (if lf then 0 else stored) &&& ~~~dataLost := by
  revert stored lv lw lc lf
  apply u8_forall
  decide +kernel

/-- nothing is lost ⇒ the stored byte comes back unchanged -/
theorem c06_nothing_lost (stored : UInt8) : loadFlags stored false false false false = stored := by
  revert stored
  apply u8_forall
  decide +kernel

example : loadFlags 0x81 false false true false = 0x89 := by decide
example : loadFlags 0x81 false false false true = 0x08 := by decide

end C06
