/-
  C07 / C08 model: katdal.chunkstore (names, chunk_metadata, _prune_chunks, generate_chunks,
  _standard_errors, get_chunk_or_default/placeholder), the three back-ends seen as
  name -> location maps (chunkstore_dict / chunkstore_npy / chunkstore_s3), katdal's own NPY
  stream reader (chunkstore_s3.read_array with _DetectTruncation) and the sequence of
  file-system operations of NpyFileChunkStore.put_chunk.

  Import-free apart from the Np layer, the C04 model (dask's slice normalisation) and the
  generated constants, so that it compiles into the drivers.  Strings are `List Char`
  (proof friendly); the drivers convert.
-/
import KatdalModel.Np.Basic
import KatdalModel.Model.DaskIndexer
import KatdalModel.Generated.Tables
open Np

namespace ChunkStore

/-- the exception classes this model distinguishes -/
inductive CErr
  | typeError | badChunk | chunkNotFound | storeUnavailable | valueError | incompleteRead
  | indexError | osError | other
  deriving DecidableEq, Repr, Inhabited

def CErr.name : CErr → String
  | .typeError => "TypeError" | .badChunk => "BadChunk" | .chunkNotFound => "ChunkNotFound"
  | .storeUnavailable => "StoreUnavailable" | .valueError => "ValueError"
  | .incompleteRead => "IncompleteRead" | .indexError => "IndexError" | .osError => "OSError"
  | .other => "Error"

abbrev Name := List Char
abbrev Bytes := List UInt8

/-! ## 1. Chunk names (chunkstore.py:417-435, 482) -/

/-- `"{:0{w}d}".format(n)` for `n ≥ 0`: decimal digits, left-padded with `0` to width `w` -/
def padDec (w n : Nat) : List Char :=
  List.replicate (w - (Nat.toDigits 10 n).length) '0' ++ Nat.toDigits 10 n

/-- the same for any Python int: the sign counts towards the width -/
def fmtInt (w : Nat) (v : Int) : List Char :=
  if v < 0 then '-' :: padDec (w - 1) (-v).toNat else padDec w v.toNat

/-- `sep.join(parts)` -/
def joinWith (sep : Char) : List (List Char) → List Char
  | [] => []
  | [a] => a
  | a :: b :: t => a ++ sep :: joinWith sep (b :: t)

/-- `ChunkStore.chunk_id_str` with index width `w` -/
def chunkIdStrW (w : Nat) (starts : List Nat) : Name := joinWith '_' (starts.map (padDec w))

/-- `ChunkStore.chunk_id_str` (width = the current `NAME_INDEX_WIDTH`) -/
def chunkIdStr (starts : List Nat) : Name := chunkIdStrW Tables.nameIndexWidth starts

/-- the executable version over Python ints (negative starts format with a sign) -/
def chunkIdStrInt (starts : List Int) : Name :=
  joinWith '_' (starts.map (fmtInt Tables.nameIndexWidth))

def nameSep : List Char := Tables.nameSep.toList

/-- `ChunkStore.join(array_name, chunk_id_str(slices))` -/
def chunkName (array : Name) (starts : List Nat) : Name := array ++ nameSep ++ chunkIdStr starts

def chunkNameInt (array : Name) (starts : List Int) : Name :=
  array ++ nameSep ++ chunkIdStrInt starts

/-! ## 2. chunk_metadata (chunkstore.py:437-492) -/

/-- a Python `slice(start, stop, step)` whose members are ints or None -/
structure Slc where
  start : Option Int
  stop : Option Int
  step : Option Int
  deriving DecidableEq, Repr, Inhabited

def sliceShape : List Slc → Option (List Int)
  | [] => some []
  | s :: t =>
    match s.start, s.stop, sliceShape t with
    | some a, some b, some r => some ((b - a) :: r)
    | _, _, _ => none

def sliceStarts (sl : List Slc) : List Int := sl.map fun s => s.start.getD 0

/-- `chunk_metadata(array_name, slices, chunk, dtype)`; the chunk enters through its shape and
    `dtype.hasobject`, the requested dtype through `hasobject`. -/
def chunkMetadata (array : Name) (slices : List Slc) (chunkShape : Option (List Nat))
    (chunkHasObj : Bool) (dtypeHasObj : Bool) : Except CErr (Name × List Int) :=
  match sliceShape slices with
  | none => .error .typeError
  | some shape =>
    if !(slices.all fun s => s.step = none ∨ s.step = some 1) then .error .typeError else
    let name := chunkNameInt array (sliceStarts slices)
    match chunkShape with
    | some cs =>
      if cs.map Int.ofNat ≠ shape then .error .badChunk
      else if chunkHasObj then .error .badChunk
      else if dtypeHasObj then .error .badChunk
      else .ok (name, shape)
    | none => if dtypeHasObj then .error .badChunk else .ok (name, shape)

/-! ## 3. Abstract keyed store: NPY files and S3 objects

  Both keep one self-describing NPY blob per chunk under a location derived from the chunk
  name; they differ in the name -> location map only. -/

/-- a stored chunk: dtype descriptor, shape, raw element bytes -/
structure Chunk where
  dtype : List Char
  shape : List Nat
  data : Bytes
  deriving DecidableEq, Repr, Inhabited

/-- store contents: location -> chunk (a location holding the completion marker maps to
    `marker`) -/
inductive Obj
  | chunk (c : Chunk)
  | marker
  deriving DecidableEq, Repr, Inhabited

abbrev KV (L : Type) := L → Option Obj

def KV.set {L} [DecidableEq L] (σ : KV L) (l : L) (o : Obj) : KV L :=
  fun x => if x = l then some o else σ x

def npySuffix : List Char := ".npy".toList
def writingSuffix : List Char := ".writing".toList
def completeName : List Char := "complete".toList

/-- NpyFileChunkStore: `os.path.join(path, chunk_name) + '.npy'` (relative chunk names) -/
def npyLoc (root : Name) (chunkNm : Name) : Name := root ++ '/' :: chunkNm ++ npySuffix

/-- the temporary name used while writing -/
def npyTmpLoc (root : Name) (chunkNm : Name) : Name :=
  root ++ '/' :: chunkNm ++ writingSuffix ++ npySuffix

def npyMarkerLoc (root : Name) (array : Name) : Name := root ++ '/' :: array ++ '/' :: completeName

/-- `_normalise_bucket_name` on the path of the URL: strip leading `/`, replace `_` by `-`
    in the first component only -/
def normaliseBucketPath (path : List Char) : List Char :=
  let p := path.dropWhile (· = '/')
  let bucket := p.takeWhile (· ≠ '/')
  let rest := p.dropWhile (· ≠ '/')
  '/' :: bucket.map (fun c => if c = '_' then '-' else c) ++ rest

/-- S3ChunkStore.make_url(chunk_name + '.npy'), path part, for a store URL without path -/
def s3Loc (chunkNm : Name) : Name := normaliseBucketPath ('/' :: chunkNm ++ npySuffix)

def s3MarkerLoc (array : Name) : Name := normaliseBucketPath ('/' :: array ++ '/' :: completeName)

/-- put_chunk on a keyed store with location map `loc` -/
def kvPut {L} [DecidableEq L] (loc : Name → L) (σ : KV L) (array : Name) (slices : List Slc)
    (c : Chunk) (hasObj : Bool) : Except CErr (KV L) :=
  match chunkMetadata array slices (some c.shape) hasObj false with
  | .error e => .error e
  | .ok (name, _) => .ok (σ.set (loc name) (.chunk c))

/-- get_chunk on a keyed store: metadata check, lookup, dtype/shape check after decoding -/
def kvGet {L} (loc : Name → L) (σ : KV L) (array : Name) (slices : List Slc) (dtype : List Char)
    (dtypeHasObj : Bool) : Except CErr Chunk :=
  match chunkMetadata array slices none false dtypeHasObj with
  | .error e => .error e
  | .ok (name, shape) =>
    match σ (loc name) with
    | some (.chunk c) =>
      if c.shape.map Int.ofNat ≠ shape ∨ c.dtype ≠ dtype then .error .badChunk else .ok c
    | _ => .error .chunkNotFound

def kvMarkComplete {L} [DecidableEq L] (mloc : Name → L) (σ : KV L) (array : Name) : KV L :=
  σ.set (mloc array) .marker

def kvIsComplete {L} (mloc : Name → L) (σ : KV L) (array : Name) : Bool :=
  (σ (mloc array)).isSome

/-- unit-step slices with non-negative starts, the way every caller in katdal builds them -/
def natSlices (starts : List Nat) (shape : List Nat) : List Slc :=
  (starts.zip shape).map fun (a, n) => ⟨some (a : Int), some ((a : Int) + n), none⟩

/-! ## 4. DictChunkStore: whole arrays, chunks are views -/

/-- one array of the dict store: dtype, shape and elements as a function of coordinates -/
structure DArr (α : Type) where
  dtype : List Char
  shape : List Nat
  get : List Nat → α

/-- numpy basic slicing clips `start:stop` to the axis length -/
def clipLen (n : Nat) (a b : Int) : Int :=
  let a' := if a < 0 then max (a + n) 0 else min a n
  let b' := if b < 0 then max (b + n) 0 else min b n
  if b' > a' then b' - a' else 0

def clippedShape : List Nat → List Slc → List Int
  | n :: ns, s :: ss => clipLen n (s.start.getD 0) (s.stop.getD n) :: clippedShape ns ss
  | ns, [] => ns.map Int.ofNat
  | [], _ :: _ => []

def addCoords : List Nat → List Nat → List Nat
  | a :: as, j :: js => (a + j) :: addCoords as js
  | _, _ => []

def inRegion : List Nat → List Nat → List Nat → Bool
  | a :: as, n :: ns, j :: js => decide (a ≤ j ∧ j < a + n) && inRegion as ns js
  | [], [], [] => true
  | _, _, _ => false

def subCoords : List Nat → List Nat → List Nat
  | a :: as, j :: js => (j - a) :: subCoords as js
  | _, _ => []

/-- `array[slices]` for in-range unit-step slices with starts `starts` and shape `shape` -/
def DArr.view {α} (a : DArr α) (starts shape : List Nat) : DArr α :=
  { dtype := a.dtype, shape := shape, get := fun j => a.get (addCoords starts j) }

/-- `array[slices][()] = chunk` -/
def DArr.assign {α} (a : DArr α) (starts : List Nat) (c : DArr α) : DArr α :=
  { dtype := a.dtype, shape := a.shape,
    get := fun j => if inRegion starts c.shape j then c.get (subCoords starts j) else a.get j }

/-- DictChunkStore.get_chunk -/
def dictGet {α} (arrays : Name → Option (DArr α)) (array : Name) (starts shape : List Nat)
    (dtype : List Char) (dtypeHasObj : Bool) : Except CErr (DArr α) :=
  let slices := natSlices starts shape
  match chunkMetadata array slices none false dtypeHasObj with
  | .error e => .error e
  | .ok (_, shp) =>
    match arrays array with
    | none => .error .chunkNotFound
    | some a =>
      if slices.length > a.shape.length then .error .chunkNotFound   -- IndexError -> ChunkNotFound
      else if clippedShape a.shape slices ≠ shp ∨ a.dtype ≠ dtype then .error .badChunk
      else .ok (a.view starts shape)

/-! ## 5. _prune_chunks (chunkstore.py:161-206) -/

/-- the first `while` loop on one axis: number of leading chunks dropped and their total size -/
def leadLoop : List Nat → Nat → Nat × Nat
  | [], _ => (0, 0)
  | c :: t, start =>
    if c ≤ start then
      let r := leadLoop t (start - c)
      (r.1 + 1, r.2 + c)
    else (0, 0)

structure Pruned where
  chunks : List Nat
  start : Nat
  stop : Nat
  offset : Nat
  deriving DecidableEq, Repr, Inhabited

/-- start_chunk and stop_chunk of the code, for `0 ≤ start ≤ stop ≤ sum chunks` -/
def pruneCounts (chunks : List Nat) (start stop : Nat) : Nat × Nat :=
  let a := (leadLoop chunks start).1
  let rest := chunks.drop a
  -- second loop: drop trailing chunks of `rest` while `c ≤ shape - stop`; the slack
  -- `shape - stop` is invariant under the first loop
  let b := (leadLoop rest.reverse (chunks.sum - stop)).1
  (a, chunks.length - b)

/-- one axis of `_prune_chunks` before the "dask doesn't allow empty chunk lists" patch -/
def pruneAxisRaw (chunks : List Nat) (start stop : Nat) : Pruned :=
  let a := (pruneCounts chunks start stop).1
  let e := (pruneCounts chunks start stop).2
  let off := (leadLoop chunks start).2
  { chunks := (chunks.take e).drop a, start := start - off, stop := stop - off, offset := off }

/-- one axis of `_prune_chunks` -/
def pruneAxis (chunks : List Nat) (start stop : Nat) : Pruned :=
  let r := pruneAxisRaw chunks start stop
  if r.chunks.isEmpty then { r with chunks := [0] } else r

/-- per-axis index of get_dask_array after dask's normalize_index -/
inductive PIx
  | full
  | range (start stop : Nat)
  deriving DecidableEq, Repr, Inhabited

/-- normalise a unit-step slice on an axis of length `n` the way `_prune_chunks` sees it:
    `normalize_index`, the `== slice(None)` test, then `slice.indices` -/
def normPIx (n : Nat) (a b c : Option Int) : Except CErr PIx :=
  match DaskIx.normalizeSlice n a b c with
  | none => .error .valueError
  | some (a', b', c') =>
    if !(c' = none ∨ c' = some 1) then .error .indexError
    else if a' = none ∧ b' = none ∧ c' = none then .ok .full
    else
      match sliceIndices n a' b' c' with
      | some (s, e, _) => .ok (.range s.toNat e.toNat)
      | none => .error .valueError

def pruneAxisIx (chunks : List Nat) : PIx → Pruned
  | .full => { chunks := chunks, start := 0, stop := chunks.sum, offset := 0 }
  | .range s e => pruneAxis chunks s e

/-- chunk boundaries `(lo, hi)` in store coordinates of a chunk list starting at `off` -/
def chunkBounds : Nat → List Nat → List (Nat × Nat)
  | _, [] => []
  | off, c :: t => (off, off + c) :: chunkBounds (off + c) t

/-! ## 6. generate_chunks (chunkstore.py:74-141), exact arithmetic -/

/-- `_floor_power_of_two(x)` for a real `x ≥ 1` with `⌊x⌋ = n` -/
def floorPow2 (n : Nat) : Nat := 2 ^ n.log2

def lookupDim : List (Nat × Nat) → Nat → Option Nat
  | [], _ => none
  | (k, v) :: t, i => if k = i then some v else lookupDim t i

/-- first loop: apply `max_dim_elements` to the dimensions that may be split -/
def limitDims (shape : List Nat) (pow2 : Bool) (maxDim : List (Nat × Nat)) :
    List Nat → List Nat → List Nat
  | [], de => de
  | i :: rest, de =>
    match lookupDim maxDim i with
    | some m =>
      if m < shape.getD i 0 then
        limitDims shape pow2 maxDim rest (de.set i (if pow2 then floorPow2 m else m))
      else limitDims shape pow2 maxDim rest de
    | none => limitDims shape pow2 maxDim rest de

def ceilDiv (a b : Nat) : Nat := (a + b - 1) / b

/-- target number of elements along `dim`:
    `trg_real = d * max_elements / cur = d * maxBytes / (itemsize * cur)` as the exact
    rational `num / den` -/
def targetElements (pow2 : Bool) (sh num den : Nat) : Nat :=
  if num < den then 1
  else if pow2 then floorPow2 (num / den)
  else sh / ceilDiv (sh * den) num

/-- greedy split loop in order of `dims_to_split` -/
def splitLoop (shape : List Nat) (itemsize maxBytes : Nat) (pow2 : Bool) :
    List Nat → List Nat → List Nat
  | [], de => de
  | dim :: rest, de =>
    let cur := de.prod
    if cur * itemsize ≤ maxBytes then de
    else
      let trg := targetElements pow2 (shape.getD dim 0) (de.getD dim 0 * maxBytes) (itemsize * cur)
      splitLoop shape itemsize maxBytes pow2 rest (de.set dim trg)

/-- `dask.array.core.blockdims_from_blockshape` on one axis -/
def blockdims (d bd : Nat) : List Nat :=
  if d = 0 then [0]
  else List.replicate (d / bd) bd ++ (if d % bd = 0 then [] else [d % bd])

def dimElements (shape : List Nat) (itemsize maxBytes : Nat) (dims : List Nat) (pow2 : Bool)
    (maxDim : List (Nat × Nat)) : List Nat :=
  splitLoop shape itemsize maxBytes pow2 dims (limitDims shape pow2 maxDim dims shape)

def zipBlockdims : List Nat → List Nat → List (List Nat)
  | d :: ds, bd :: bds => blockdims d bd :: zipBlockdims ds bds
  | _, _ => []

/-- `generate_chunks(shape, dtype, max_chunk_size, dims_to_split, power_of_two,
    max_dim_elements)` for `itemsize ≥ 1`, in-range distinct `dims` and limits `≥ 1` -/
def generateChunks (shape : List Nat) (itemsize maxBytes : Nat) (dims : List Nat) (pow2 : Bool)
    (maxDim : List (Nat × Nat)) : List (List Nat) :=
  zipBlockdims shape (dimElements shape itemsize maxBytes dims pow2 maxDim)

/-! ## 7. katdal's NPY stream reader (chunkstore_s3.py:91-169) -/

/-- a blocking byte source that may deliver short reads: `sched` bounds the size of successive
    raw reads (each at least one byte while data remain; unbounded once the list is used up);
    when `data` is exhausted every read returns nothing (end of stream) -/
structure Stream where
  data : Bytes
  sched : List Nat
  deriving Repr, Inhabited

/-- raw `read(size)` / `readinto(buffer of size)`: the bytes delivered and the new stream -/
def Stream.read (s : Stream) (size : Nat) : Bytes × Stream :=
  let want := match s.sched with
    | [] => size
    | k :: _ => min size (max 1 k)
  (s.data.take want, { data := s.data.drop want, sched := s.sched.tail })

/-- numpy `_read_bytes(fp, size)` over `_DetectTruncation.read`: loop until `size` bytes have
    arrived; an empty raw read while bytes are still wanted raises IncompleteRead -/
def readBytes : Nat → Stream → Nat → Bytes → Except CErr (Bytes × Stream)
  | 0, s, rem, acc => if rem = 0 then .ok (acc, s) else .error .valueError
  | fuel + 1, s, rem, acc =>
    if rem = 0 then .ok (acc, s)
    else
      let r := s.read rem
      if r.1.isEmpty then .error .incompleteRead
      else if r.1.length ≥ rem then .ok (acc ++ r.1, r.2)
      else readBytes fuel r.2 (rem - r.1.length) (acc ++ r.1)

/-- `_DetectTruncation.readinto(buffer)`: one raw call, anything short raises IncompleteRead -/
def readInto (s : Stream) (n : Nat) : Except CErr (Bytes × Stream) :=
  let r := s.read n
  if r.1.length = n then .ok r else .error .incompleteRead

/-- what numpy's header parser extracts from the header bytes -/
structure Hdr where
  dtype : List Char
  shape : List Nat
  fortran : Bool
  hasObject : Bool
  itemsize : Nat
  deriving DecidableEq, Repr, Inhabited

def magicPrefix : Bytes := [0x93, 0x4E, 0x55, 0x4D, 0x50, 0x59]   -- b'\x93NUMPY'

def leNat : Bytes → Nat
  | [] => 0
  | b :: t => b.toNat + 256 * leNat t

def Hdr.nbytes (h : Hdr) : Nat := h.shape.prod * h.itemsize

/-- `read_array(fp)`: header facts and the body bytes.  `parse` stands for numpy's
    `_read_array_header` on the header bytes (`none` = it raises ValueError). -/
def readArray (parse : Bytes → Option Hdr) (s : Stream) : Except CErr (Hdr × Bytes) :=
  match readBytes 8 s 8 [] with
  | .error e => .error e
  | .ok (magic, s1) =>
    if magic.take 6 ≠ magicPrefix then .error .valueError else
    let ver := magic.drop 6
    let lenBytes : Nat := if ver = [1, 0] then 2 else if ver = [2, 0] then 4 else 0
    if lenBytes = 0 then .error .valueError else
    match readBytes lenBytes s1 lenBytes [] with
    | .error e => .error e
    | .ok (hl, s2) =>
      let hlen := leNat hl
      match readBytes hlen s2 hlen [] with
      | .error e => .error e
      | .ok (hb, s3) =>
        match parse hb with
        | none => .error .valueError
        | some h =>
          if h.hasObject then .error .valueError else
          match readInto s3 h.nbytes with
          | .error e => .error e
          | .ok (body, _) => .ok (h, body)

def natToLE : Nat → Nat → Bytes
  | 0, _ => []
  | k + 1, n => UInt8.ofNat (n % 256) :: natToLE k (n / 256)

/-- a version-1.0 or 2.0 NPY blob: magic, version, little-endian header length, header, body -/
def encodeNpy (v2 : Bool) (header body : Bytes) : Bytes :=
  magicPrefix ++ (if v2 then [2, 0] else [1, 0]) ++ natToLE (if v2 then 4 else 2) header.length
    ++ header ++ body

/-! ## 8. _standard_errors and the callers that swallow errors (chunkstore.py:327-392, 494-517) -/

/-- `_standard_errors`: `mro` is `type(e).__mro__` by name, `map` the store's `_error_map` in
    dict order.  `none` = the exception is not caught and propagates unchanged. -/
def classify (map : List (String × String)) (mro : List String) : Option String :=
  if map.any (fun kv => mro.contains kv.1) then
    match map.find? (fun kv => some kv.1 == mro.head?) with
    | some kv => some kv.2
    | none => (map.find? (fun kv => mro.contains kv.1)).map (·.2)
  else none

/-- class of the exception leaving a `with self._standard_errors():` block -/
def standardised (map : List (String × String)) (mro : List String) : String :=
  (classify map mro).getD (mro.headD "")

/-- `isinstance(e, cls)` by MRO -/
def isInstance (mro : List String) (cls : String) : Bool := mro.contains cls

/-- `try: get_chunk(...) except <catches>: <substitute>`: an error is swallowed exactly when it
    is an instance of one of `catches` -/
def swallow {α} (catches : List String) (mroOf : String → List String) (sub : α)
    (r : Except String α) : Except String α :=
  match r with
  | .ok v => .ok v
  | .error e => if catches.any (isInstance (mroOf e)) then .ok sub else .error e

/-- `put_chunk_noraise`: `none` on success, the error when it is one of `catches`, else raised -/
def noraise (catches : List String) (mroOf : String → List String) (r : Except String Unit) :
    Except String (Option String) :=
  match r with
  | .ok _ => .ok none
  | .error e => if catches.any (isInstance (mroOf e)) then .ok (some e) else .error e

/-- `chunkstore_s3._raise_for_status`: the exception class for an HTTP status (`none` = no error) -/
def httpStatusError (status : Nat) (ignored : List Nat) : Option String :=
  if 400 ≤ status ∧ status < 600 ∧ !ignored.contains status then
    if status = 401 ∨ status = 403 then some "katdal.chunkstore_s3.AuthorisationFailed"
    else if status = 404 then some "katdal.chunkstore_s3.S3ObjectNotFound"
    else some "katdal.chunkstore.StoreUnavailable"
  else none

/-! ## 9. NpyFileChunkStore.put_chunk as file-system operations (chunkstore_npy.py:30-47, 114-122) -/

inductive FsOp (P : Type)
  | openTrunc (p : P)               -- open(p, O_CREAT|O_TRUNC)
  | write (p : P) (b : Bytes)       -- sequential write through a descriptor of p
  | ftruncate (p : P) (n : Nat)
  | close
  | rename (p q : P)
  | junk (p : P) (c : Option Bytes) -- arbitrary damage confined to p (effect of a failing op)
  deriving Repr

abbrev FS (P : Type) := P → Option Bytes

def FsOp.apply {P} [DecidableEq P] : FsOp P → FS P → FS P
  | .openTrunc p, fs => fun x => if x = p then some [] else fs x
  | .write p b, fs => fun x => if x = p then (fs p).map (· ++ b) else fs x
  | .ftruncate p n, fs => fun x =>
      if x = p then (fs p).map (fun c => c.take n ++ List.replicate (n - c.length) 0) else fs x
  | .close, fs => fs
  | .rename p q, fs =>
      match fs p with
      | none => fs
      | some c => fun x => if x = q then some c else if x = p then none else fs x
  | .junk p c, fs => fun x => if x = p then c else fs x

def runOps {P} [DecidableEq P] (ops : List (FsOp P)) (fs : FS P) : FS P :=
  ops.foldl (fun s o => o.apply s) fs

/-- an operation that can only affect the temporary name -/
def FsOp.tmpOnly {P} [DecidableEq P] (tmp : P) : FsOp P → Bool
  | .openTrunc p => p = tmp
  | .write p _ => p = tmp
  | .ftruncate p _ => p = tmp
  | .close => true
  | .rename _ _ => false
  | .junk p _ => p = tmp

/-- `np.save(temp, chunk)` then `os.rename` (`direct_write=False`); `pieces` are the successive
    `write` calls (header, then the body in as many pieces as the C library likes) -/
def putOpsBuffered {P} (tmp fin : P) (pieces : List Bytes) : List (FsOp P) :=
  .openTrunc tmp :: pieces.map (.write tmp) ++ [.close, .rename tmp fin]

/-- `direct_write=True`: one page-aligned O_DIRECT write, ftruncate back to the exact size -/
def putOpsDirect {P} (tmp fin : P) (content : Bytes) (pad : Nat) : List (FsOp P) :=
  [.openTrunc tmp, .write tmp (content ++ List.replicate pad 0), .ftruncate tmp content.length,
   .close, .rename tmp fin]

/-- the op language of a complete put: open-truncate the temp name, then only writes,
    truncates and closes on it, finally one rename onto the final name -/
def isPutBody {P} [DecidableEq P] (tmp fin : P) : List (FsOp P) → Bool
  | [] => false
  | [.rename p q] => p = tmp && q = fin
  | o :: rest =>
    (match o with
     | .write p _ => p = tmp
     | .ftruncate p _ => p = tmp
     | .close => true
     | _ => false) && isPutBody tmp fin rest

def isPutWord {P} [DecidableEq P] (tmp fin : P) : List (FsOp P) → Bool
  | .openTrunc p :: rest => p = tmp && isPutBody tmp fin rest
  | _ => false

/-- a crashed or failed put: a trace that never renames -/
def isPutPrefix {P} [DecidableEq P] (tmp : P) (ops : List (FsOp P)) : Bool :=
  ops.all (FsOp.tmpOnly tmp)

/-- put_chunk with an optional failing operation: ops before `failAt` take effect, the failing
    one leaves `damage` on the temp name, the exception unwinds (no rename) and is reported -/
def runPut {P} [DecidableEq P] (tmp : P) (ops : List (FsOp P)) (failAt : Option Nat)
    (damage : Option Bytes) (fs : FS P) : Except CErr Unit × FS P :=
  match failAt with
  | none => (.ok (), runOps ops fs)
  | some k =>
    if k < ops.length then (.error .osError, (FsOp.junk tmp damage).apply (runOps (ops.take k) fs))
    else (.ok (), runOps ops fs)

end ChunkStore
