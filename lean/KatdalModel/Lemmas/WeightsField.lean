/-
  C15 helper lemmas over a linearly ordered field (single Mathlib modules only):
  scalar kernel = documented kernel, `np.interp` monotonicity, averaging sums, rounding.
-/
import KatdalModel.Model.Weights
import Mathlib.Algebra.Order.Field.Basic
import Mathlib.Algebra.Order.Field.Rat
import Mathlib.Tactic.Linarith
import Mathlib.Tactic.FieldSimp
import Mathlib.Tactic.Ring
open Np

namespace Weights

set_option linter.unusedSimpArgs false
set_option linter.unusedSectionVars false

/-! ### the scalar kernel -/

theorem isFinite_val {K : Type} (x : K) : (Scalar.val x).isFinite = true := rfl
theorem isFinite_nan {K : Type} : (Scalar.nan : Scalar K).isFinite = false := rfl
theorem isFinite_posInf {K : Type} : (Scalar.posInf : Scalar K).isFinite = false := rfl
theorem isFinite_negInf {K : Type} : (Scalar.negInf : Scalar K).isFinite = false := rfl

section kernel
variable {K : Type} [Field K] [LinearOrder K] [IsStrictOrderedRing K]

theorem infTimes_not_finite (pos : Bool) (x : K) : (infTimes pos x).isFinite = false := by
  unfold infTimes
  split
  · rfl
  · split <;> cases pos <;> rfl


/-- **as coded = as documented**, for every input -/
theorem kernelImpl_eq_spec (bad : K) (divide : Bool) (a1 a2 w : Scalar K) :
    kernelImpl bad divide a1 a2 w = kernelSpec bad divide a1 a2 w := by
  cases divide
  · -- multiply
    cases a1 <;> cases a2 <;>
      simp [kernelImpl, kernelSpec, Scalar.autoScale, Scalar.mul, isFinite_val, isFinite_nan, isFinite_posInf,
        isFinite_negInf, infTimes_not_finite]
  · -- divide
    cases a1 with
    | nan => cases a2 <;> simp [kernelImpl, kernelSpec, Scalar.autoScale, Scalar.recip, Scalar.mul, isFinite_val,
        isFinite_nan, isFinite_posInf, isFinite_negInf]
    | posInf => cases a2 <;> simp [kernelImpl, kernelSpec, Scalar.autoScale, Scalar.recip, Scalar.mul, isFinite_val,
        isFinite_nan, isFinite_posInf, isFinite_negInf]
    | negInf => cases a2 <;> simp [kernelImpl, kernelSpec, Scalar.autoScale, Scalar.recip, Scalar.mul, isFinite_val,
        isFinite_nan, isFinite_posInf, isFinite_negInf]
    | val x =>
      cases a2 with
      | nan =>
        by_cases hx : x = 0 <;> simp [kernelImpl, kernelSpec, Scalar.autoScale, Scalar.recip, Scalar.mul,
          isFinite_val, isFinite_nan, isFinite_posInf, isFinite_negInf, hx]
      | posInf =>
        by_cases hx : x = 0 <;> simp [kernelImpl, kernelSpec, Scalar.autoScale, Scalar.recip, Scalar.mul,
          isFinite_val, isFinite_nan, isFinite_posInf, isFinite_negInf, hx]
      | negInf =>
        by_cases hx : x = 0 <;> simp [kernelImpl, kernelSpec, Scalar.autoScale, Scalar.recip, Scalar.mul,
          isFinite_val, isFinite_nan, isFinite_posInf, isFinite_negInf, hx]
      | val y =>
        by_cases hx : x = 0
        · by_cases hy : y = 0
          · simp [kernelImpl, kernelSpec, Scalar.autoScale, Scalar.recip, Scalar.mul, isFinite_val, isFinite_nan,
              isFinite_posInf, isFinite_negInf, hx, hy]
          · simp [kernelImpl, kernelSpec, Scalar.autoScale, Scalar.recip, Scalar.mul, isFinite_val, hx, hy,
              infTimes_not_finite]
        · by_cases hy : y = 0
          · simp [kernelImpl, kernelSpec, Scalar.autoScale, Scalar.recip, Scalar.mul, isFinite_val, hx, hy,
              infTimes_not_finite]
          · have e : 1 / x * (1 / y) = 1 / (x * y) := by field_simp
            simp only [kernelImpl, kernelSpec, Scalar.autoScale, Scalar.recip, hx, hy, if_true, if_false, Scalar.mul,
              isFinite_val, or_self, e]

/-- the documented kernel on finite values, spelled out -/
theorem kernelSpec_divide_val (bad x y z : K) (hx : x ≠ 0) (hy : y ≠ 0) :
    kernelSpec bad true (.val x) (.val y) (.val z) = .val (z / (x * y)) := by
  simp only [kernelSpec, if_true, hx, hy, or_self, if_false, Scalar.mul]
  congr 1
  field_simp

theorem kernelSpec_divide_bad (bad z : K) (a1 a2 : Scalar K) (h : a1.isBadAuto = true ∨ a2.isBadAuto = true) :
    kernelSpec bad true a1 a2 (.val z) = .val (bad * z) := by
  cases a1 <;> cases a2 <;> simp_all [kernelSpec, Scalar.isBadAuto, Scalar.mul]

theorem kernelSpec_multiply_val (bad x y z : K) :
    kernelSpec bad false (.val x) (.val y) (.val z) = .val (x * y * z) := by
  simp [kernelSpec, Scalar.mul]

end kernel

/-! ### np.interp -/

section interp
variable {K : Type} [Field K] [LinearOrder K] [IsStrictOrderedRing K]

/-- consecutive table points are non-decreasing in both coordinates -/
def tableMono : K × K → List (K × K) → Prop
  | _, [] => True
  | p0, p1 :: rest => p0.1 ≤ p1.1 ∧ p0.2 ≤ p1.2 ∧ tableMono p1 rest

def tableMonoList : List (K × K) → Prop
  | [] => True
  | p0 :: rest => tableMono p0 rest

theorem seg_nonneg {x x0 x1 y0 y1 : K} (h0 : x0 ≤ x) (h1 : x < x1) (hy : y0 ≤ y1) :
    0 ≤ (y1 - y0) / (x1 - x0) * (x - x0) := by
  have hd : 0 < x1 - x0 := by linarith
  exact mul_nonneg (div_nonneg (by linarith) hd.le) (by linarith)

theorem seg_le {x x0 x1 y0 y1 : K} (h0 : x0 ≤ x) (h1 : x < x1) (hy : y0 ≤ y1) :
    y0 + (y1 - y0) / (x1 - x0) * (x - x0) ≤ y1 := by
  have hd : 0 < x1 - x0 := by linarith
  have hs : 0 ≤ (y1 - y0) / (x1 - x0) := div_nonneg (by linarith) hd.le
  have : (y1 - y0) / (x1 - x0) * (x - x0) ≤ (y1 - y0) / (x1 - x0) * (x1 - x0) :=
    mul_le_mul_of_nonneg_left (by linarith) hs
  rw [div_mul_cancel₀ _ (ne_of_gt hd)] at this
  linarith

theorem seg_mono {x x' x0 x1 y0 y1 : K} (h0 : x0 ≤ x) (hxx : x ≤ x') (h1 : x' < x1) (hy : y0 ≤ y1) :
    y0 + (y1 - y0) / (x1 - x0) * (x - x0) ≤ y0 + (y1 - y0) / (x1 - x0) * (x' - x0) := by
  have hd : 0 < x1 - x0 := by linarith
  have hs : 0 ≤ (y1 - y0) / (x1 - x0) := div_nonneg (by linarith) hd.le
  have := mul_le_mul_of_nonneg_left (show x - x0 ≤ x' - x0 by linarith) hs
  linarith

theorem interpAux_ge (x : K) : ∀ (rest : List (K × K)) (p0 : K × K), tableMono p0 rest → p0.1 ≤ x →
    p0.2 ≤ interpAux x p0 rest := by
  intro rest
  induction rest with
  | nil => intro p0 _ _; simp [interpAux]
  | cons p1 rest ih =>
    intro p0 hm h0
    obtain ⟨hx, hy, hm'⟩ := hm
    unfold interpAux
    split
    · rename_i hlt
      have := seg_nonneg h0 hlt hy
      linarith
    · rename_i hge
      exact le_trans hy (ih p1 hm' (not_lt.mp hge))

theorem le_lastFp : ∀ (rest : List (K × K)) (p0 : K × K), tableMono p0 rest → p0.2 ≤ lastFp p0 rest := by
  intro rest
  induction rest with
  | nil => intro p0 _; simp [lastFp]
  | cons p1 rest ih =>
    intro p0 hm
    obtain ⟨_, hy, hm'⟩ := hm
    exact le_trans hy (ih p1 hm')

theorem interpAux_le_last (x : K) : ∀ (rest : List (K × K)) (p0 : K × K), tableMono p0 rest → p0.1 ≤ x →
    interpAux x p0 rest ≤ lastFp p0 rest := by
  intro rest
  induction rest with
  | nil => intro p0 _ _; simp [interpAux, lastFp]
  | cons p1 rest ih =>
    intro p0 hm h0
    obtain ⟨hx, hy, hm'⟩ := hm
    unfold interpAux
    split
    · rename_i hlt
      exact le_trans (seg_le h0 hlt hy) (le_lastFp rest p1 hm')
    · rename_i hge
      exact ih p1 hm' (not_lt.mp hge)

theorem interpAux_mono {x y : K} (hxy : x ≤ y) : ∀ (rest : List (K × K)) (p0 : K × K), tableMono p0 rest →
    p0.1 ≤ x → interpAux x p0 rest ≤ interpAux y p0 rest := by
  intro rest
  induction rest with
  | nil => intro p0 _ _; simp [interpAux]
  | cons p1 rest ih =>
    intro p0 hm h0
    obtain ⟨hx, hy, hm'⟩ := hm
    by_cases hx1 : x < p1.1
    · by_cases hy1 : y < p1.1
      · simp only [interpAux, hx1, hy1, if_true]
        exact seg_mono h0 hxy hy1 hy
      · simp only [interpAux, hx1, hy1, if_true, if_false]
        exact le_trans (seg_le h0 hx1 hy) (interpAux_ge y rest p1 hm' (not_lt.mp hy1))
    · have hy1 : ¬ y < p1.1 := fun h => hx1 (lt_of_le_of_lt hxy h)
      simp only [interpAux, hx1, hy1, if_false]
      exact ih p1 hm' (not_lt.mp hx1)

/-- **`np.interp` is monotone when the table is** -/
theorem interp_monotone (tbl : List (K × K)) (hm : tableMonoList tbl) {x y vx vy : K} (hxy : x ≤ y)
    (hx : interp x tbl = .ok vx) (hy : interp y tbl = .ok vy) : vx ≤ vy := by
  cases tbl with
  | nil => simp [interp] at hx
  | cons p0 rest =>
    simp only [interp, Except.ok.injEq] at hx hy
    subst hx; subst hy
    have hm' : tableMono p0 rest := hm
    by_cases h0 : x ≤ p0.1
    · by_cases h1 : y ≤ p0.1
      · simp [h0, h1]
      · simp only [h0, h1, if_true, if_false]
        exact interpAux_ge y rest p0 hm' (le_of_lt (not_le.mp h1))
    · have h1 : ¬ y ≤ p0.1 := fun h => h0 (le_trans hxy h)
      simp only [h0, h1, if_false]
      exact interpAux_mono hxy rest p0 hm' (le_of_lt (not_le.mp h0))

/-- the interpolated value stays between the first and the last table value -/
theorem interp_bounds (p0 : K × K) (rest : List (K × K)) (hm : tableMono p0 rest) (x v : K)
    (hx : interp x (p0 :: rest) = .ok v) : p0.2 ≤ v ∧ v ≤ lastFp p0 rest := by
  simp only [interp, Except.ok.injEq] at hx
  subst hx
  by_cases h0 : x ≤ p0.1
  · simp only [h0, if_true]
    exact ⟨le_refl _, le_lastFp rest p0 hm⟩
  · simp only [h0, if_false]
    have := le_of_lt (not_le.mp h0)
    exact ⟨interpAux_ge x rest p0 hm this, interpAux_le_last x rest p0 hm this⟩

end interp

/-! ### averaging -/

section avg
variable {K : Type} [Field K] [DecidableEq K]

/-- left fold of `+` from an arbitrary start -/
def sumFrom (a : K) (l : List K) : K := l.foldl (· + ·) a

theorem sumFrom_zero (l : List K) : sumFrom 0 l = sumK l := rfl

theorem sumFrom_filter (g : Sample K → K) : ∀ (l : List (Sample K)) (a : K),
    sumFrom a (l.map (fun s => if s.2.2 then 0 else g s)) =
      sumFrom a ((l.filter (fun s => !s.2.2)).map g) := by
  intro l
  induction l with
  | nil => intro a; rfl
  | cons s t ih =>
    intro a
    cases hf : s.2.2
    · simp only [List.map_cons, List.filter_cons, hf, Bool.not_false, if_true, sumFrom, List.foldl_cons,
        Bool.false_eq_true, if_false]
      exact ih _
    · simp only [List.map_cons, List.filter_cons, hf, Bool.not_true, sumFrom, List.foldl_cons, if_true,
        Bool.false_eq_true, if_false, add_zero]
      exact ih _

theorem foldl_accStep : ∀ (l : List (Sample K)) (acc : Acc K),
    l.foldl accStep acc =
      { vsum := ⟨sumFrom acc.vsum.re (l.map (·.1.re)), sumFrom acc.vsum.im (l.map (·.1.im))⟩,
        vwsum := ⟨sumFrom acc.vwsum.re (l.map (fun s => if s.2.2 then 0 else s.2.1 * s.1.re)),
                  sumFrom acc.vwsum.im (l.map (fun s => if s.2.2 then 0 else s.2.1 * s.1.im))⟩,
        wsum := sumFrom acc.wsum (l.map (fun s => if s.2.2 then 0 else s.2.1)),
        fany := acc.fany || l.any (·.2.2),
        fall := acc.fall && l.all (·.2.2) } := by
  intro l
  induction l with
  | nil => intro acc; simp [sumFrom]
  | cons s t ih =>
    intro acc
    rw [List.foldl_cons, ih]
    cases hf : s.2.2 <;>
      simp [accStep, sumFrom, hf, Bool.or_assoc, Bool.and_assoc]

/-- one bin: the accumulation loop followed by the epilogue is the documented bin value -/
theorem bin_eq_spec (flagav : Bool) (samples : List (Sample K)) :
    binOut flagav (1 / ((samples.length : Nat) : K)) (samples.foldl accStep acc0) = binSpec flagav samples := by
  rw [foldl_accStep]
  simp only [acc0, Bool.false_or, Bool.true_and, binOut, binSpec, sumFrom_filter (fun s => s.2.1),
    sumFrom_filter (fun s => s.2.1 * s.1.re), sumFrom_filter (fun s => s.2.1 * s.1.im), sumFrom_zero]

theorem binSamples_length (inp : Nat → Nat → Nat → Sample K) (ts cs ta ca b : Nat) :
    (binSamples inp ts cs ta ca b).length = ta * ca := by
  unfold binSamples
  induction ta with
  | zero => simp
  | succ n ih =>
    rw [List.range_succ, List.flatMap_append, List.length_append, ih]
    simp [Nat.succ_mul]

theorem binLoops_eq_foldl (inp : Nat → Nat → Nat → Sample K) (ts cs ta ca b : Nat) (acc : Acc K) :
    (List.range ta).foldl (fun acc dt =>
        (List.range ca).foldl (fun acc dc => accStep acc (inp (ts + dt) (cs + dc) b)) acc) acc
      = (binSamples inp ts cs ta ca b).foldl accStep acc := by
  unfold binSamples
  rw [List.foldl_flatMap]
  congr 1
  funext acc dt
  rw [List.foldl_map]

end avg

/-! ### rounding and excision (rationals) -/

theorem roundHalfEven_bounds (x : Rat) :
    x - 1 / 2 ≤ (roundHalfEven x : Rat) ∧ (roundHalfEven x : Rat) ≤ x + 1 / 2 := by
  have h1 := Rat.floor_le (x + 1 / 2)
  have h2 := Rat.lt_floor_add_one (x + 1 / 2)
  unfold roundHalfEven
  simp only
  split
  · rename_i h
    rw [Int.cast_sub, Int.cast_one, h.1]
    constructor <;> linarith
  · rw [Int.cast_add, Int.cast_one] at h2
    constructor <;> linarith

/-- ties go to the even neighbour -/
theorem roundHalfEven_tie_even (x : Rat)
    (h : (roundHalfEven x : Rat) = x + 1 / 2 ∨ (roundHalfEven x : Rat) = x - 1 / 2) :
    roundHalfEven x % 2 = 0 := by
  have h2 := Rat.lt_floor_add_one (x + 1 / 2)
  rw [Int.cast_add, Int.cast_one] at h2
  unfold roundHalfEven at h ⊢
  simp only at h ⊢
  split
  · rename_i hc
    omega
  · rename_i hc
    rw [if_neg hc] at h
    rcases h with h | h
    · have : ¬ ((x + 1 / 2).floor % 2 ≠ 0) := fun ho => hc ⟨h, ho⟩
      omega
    · exfalso
      linarith

theorem roundHalfEven_nonneg {x : Rat} (hx : 0 ≤ x) : 0 ≤ roundHalfEven x := by
  have := (roundHalfEven_bounds x).1
  by_contra hneg
  have h1 : roundHalfEven x ≤ -1 := by omega
  have h2 : (roundHalfEven x : Rat) ≤ -1 := by exact_mod_cast h1
  linarith

theorem roundHalfEven_le_int {x : Rat} {n : Int} (hx : x ≤ n) : roundHalfEven x ≤ n := by
  have := (roundHalfEven_bounds x).2
  by_contra hgt
  have h1 : n + 1 ≤ roundHalfEven x := by omega
  have h2 : ((n + 1 : Int) : Rat) ≤ (roundHalfEven x : Rat) := by exact_mod_cast h1
  rw [Int.cast_add, Int.cast_one] at h2
  linarith

theorem excision_formula (A : Rat) (d : Int) (w : Rat) (hA : A ≠ 0) :
    excision A d w = 1 - ((roundHalfEven (w / (A / (d : Rat))) : Rat) * (A / (d : Rat))) / A := by
  unfold excision excisionFraction integerCbfDumps
  simp only
  rw [sub_div, div_self hA]

theorem excision_bounds (A : Rat) (d : Int) (w : Rat) (hA : 0 < A) (hd : 1 ≤ d) (h0 : 0 ≤ w) (h1 : w ≤ A) :
    0 ≤ excision A d w ∧ excision A d w ≤ 1 := by
  have hdq : (0 : Rat) < (d : Rat) := by exact_mod_cast (show (0 : Int) < d by omega)
  have ha : 0 < A / (d : Rat) := div_pos hA hdq
  have hx0 : 0 ≤ w / (A / (d : Rat)) := div_nonneg h0 ha.le
  have hx1 : w / (A / (d : Rat)) ≤ (d : Rat) := by
    rw [div_le_iff₀ ha]
    have : (d : Rat) * (A / (d : Rat)) = A := by field_simp
    linarith
  have r0 : (0 : Rat) ≤ (roundHalfEven (w / (A / (d : Rat))) : Rat) := by
    exact_mod_cast roundHalfEven_nonneg hx0
  have r1 : (roundHalfEven (w / (A / (d : Rat))) : Rat) ≤ (d : Rat) := by
    exact_mod_cast roundHalfEven_le_int hx1
  rw [excision_formula A d w (ne_of_gt hA)]
  have hw0 : 0 ≤ (roundHalfEven (w / (A / (d : Rat))) : Rat) * (A / (d : Rat)) := mul_nonneg r0 ha.le
  have hw1 : (roundHalfEven (w / (A / (d : Rat))) : Rat) * (A / (d : Rat)) ≤ A := by
    have := mul_le_mul_of_nonneg_right r1 ha.le
    have e : (d : Rat) * (A / (d : Rat)) = A := by field_simp
    linarith
  constructor
  · have : (roundHalfEven (w / (A / (d : Rat))) : Rat) * (A / (d : Rat)) / A ≤ 1 := by
      rw [div_le_one hA]; exact hw1
    linarith
  · have : 0 ≤ (roundHalfEven (w / (A / (d : Rat))) : Rat) * (A / (d : Rat)) / A := div_nonneg hw0 hA.le
    linarith

end Weights
