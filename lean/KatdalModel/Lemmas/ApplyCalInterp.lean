/-
  Order-theoretic lemmas for C13/C14 over a linearly ordered field:
  first-minimum (`np.argmin`) of the nearest-channel map, and `np.interp` as used by
  `complex_interp`: exact at the nodes, held before the first and after the last node.
-/
import Mathlib.Algebra.Field.Basic
import Mathlib.Order.Defs.LinearOrder
import Mathlib.Tactic.Ring
import Mathlib.Tactic.Linarith
import KatdalModel.Model.ApplyCal
open Np

namespace ApplyCal

/-! ### `np.argmin` -/

section argmin
variable {F : Type} [LinearOrder F]

theorem argminGo_spec : ∀ (l pre : List F) (b : F) (bi : Nat),
    pre[bi]? = some b → (∀ v ∈ pre, b ≤ v) → (∀ k, k < bi → ∀ v, pre[k]? = some v → b < v) →
    ∃ m, (pre ++ l)[argminGo l pre.length b bi]? = some m ∧ (∀ v ∈ pre ++ l, m ≤ v) ∧
      (∀ k, k < argminGo l pre.length b bi → ∀ v, (pre ++ l)[k]? = some v → m < v)
  | [], pre, b, bi, hbi, hmin, hst => by
    refine ⟨b, by simpa [argminGo] using hbi, by simpa using hmin, ?_⟩
    intro k hk v hv
    simp only [argminGo] at hk
    exact hst k hk v (by simpa using hv)
  | x :: t, pre, b, bi, hbi, hmin, hst => by
    have hbilt : bi < pre.length := by
      by_contra h
      rw [List.getElem?_eq_none (by omega)] at hbi
      exact absurd hbi (by simp)
    unfold argminGo
    split
    · rename_i hx
      have := argminGo_spec t (pre ++ [x]) x pre.length (by simp)
        (by
          intro v hv
          simp only [List.mem_append, List.mem_singleton] at hv
          rcases hv with hv | hv
          · exact le_of_lt (lt_of_lt_of_le hx (hmin v hv))
          · exact le_of_eq hv.symm)
        (by
          intro k hk v hv
          rw [List.getElem?_append_left hk] at hv
          exact lt_of_lt_of_le hx (hmin v (List.mem_of_getElem? hv)))
      simpa [List.append_assoc] using this
    · rename_i hx
      have hbx : b ≤ x := le_of_not_gt hx
      have := argminGo_spec t (pre ++ [x]) b bi
        (by rw [List.getElem?_append_left hbilt]; exact hbi)
        (by
          intro v hv
          simp only [List.mem_append, List.mem_singleton] at hv
          rcases hv with hv | hv
          · exact hmin v hv
          · exact hv ▸ hbx)
        (by
          intro k hk v hv
          rw [List.getElem?_append_left (by omega)] at hv
          exact hst k hk v hv)
      simpa [List.append_assoc] using this

/-- **`np.argmin` picks the first minimum**: the entry at the returned index is `≤` every entry and
    strictly `<` every earlier entry. -/
theorem argminFirst_spec (l : List F) (hne : l ≠ []) :
    ∃ m, l[argminFirst l]? = some m ∧ (∀ v ∈ l, m ≤ v) ∧
      (∀ k, k < argminFirst l → ∀ v, l[k]? = some v → m < v) := by
  cases l with
  | nil => exact absurd rfl hne
  | cons x t =>
    have := argminGo_spec t [x] x 0 (by simp) (by simp) (by simp)
    simpa [argminFirst] using this

end argmin

/-! ### `np.interp` -/

section interp
variable {F : Type} [Field F] [LinearOrder F]

/-- nodes strictly increasing in `x` -/
def SortedX (pts : List (F × F)) : Prop := pts.Pairwise (fun p q => p.1 < q.1)

theorem interpGo_node : ∀ (t : List (F × F)) (p0 : F × F) (xk yk : F),
    SortedX (p0 :: t) → (xk, yk) ∈ p0 :: t → interpGo xk p0 t = yk
  | [], p0, xk, yk, _, hm => by
    simp only [List.mem_singleton] at hm
    subst hm
    simp [interpGo]
  | p1 :: t, p0, xk, yk, hs, hm => by
    obtain ⟨x0, y0⟩ := p0
    obtain ⟨x1, y1⟩ := p1
    have hs' : SortedX ((x1, y1) :: t) := (List.pairwise_cons.mp hs).2
    have h01 : x0 < x1 := (List.pairwise_cons.mp hs).1 _ (List.mem_cons_self ..)
    rcases List.mem_cons.mp hm with h | h
    · obtain ⟨rfl, rfl⟩ := Prod.mk.inj h
      simp [interpGo, h01]
    · have hle : x1 ≤ xk := by
        rcases List.mem_cons.mp h with h' | h'
        · exact le_of_eq (Prod.mk.inj h').1.symm
        · exact le_of_lt ((List.pairwise_cons.mp hs').1 _ h')
      have : ¬ xk < x1 := not_lt.mpr hle
      simp only [interpGo, this, if_false]
      exact interpGo_node t (x1, y1) xk yk hs' h

/-- **exact at every node** -/
theorem interp_node (pts : List (F × F)) (xk yk : F) (hs : SortedX pts) (hm : (xk, yk) ∈ pts) :
    interp xk pts = some yk := by
  cases pts with
  | nil => simp at hm
  | cons p0 t =>
    obtain ⟨x0, y0⟩ := p0
    have hge : ¬ xk < x0 := by
      rcases List.mem_cons.mp hm with h | h
      · rw [(Prod.mk.inj h).1]; exact lt_irrefl _
      · exact not_lt.mpr (le_of_lt ((List.pairwise_cons.mp hs).1 _ h))
    simp only [interp, hge, if_false]
    rw [interpGo_node t (x0, y0) xk yk hs hm]

/-- **held before the first node** -/
theorem interp_before (x x0 y0 : F) (t : List (F × F)) (h : x < x0) : interp x ((x0, y0) :: t) = some y0 := by
  simp [interp, h]

theorem interpGo_after : ∀ (t : List (F × F)) (p0 : F × F) (x : F), (∀ p ∈ t, p.1 ≤ x) →
    interpGo x p0 t = ((p0 :: t).getLast (by simp)).2
  | [], p0, x, _ => by simp [interpGo]
  | p1 :: t, p0, x, h => by
    obtain ⟨x0, y0⟩ := p0
    obtain ⟨x1, y1⟩ := p1
    have : ¬ x < x1 := not_lt.mpr (h (x1, y1) (List.mem_cons_self ..))
    simp only [interpGo, this, if_false]
    rw [interpGo_after t (x1, y1) x (fun p hp => h p (List.mem_cons_of_mem _ hp))]
    simp [List.getLast_cons]

/-- **held after the last node** -/
theorem interp_after (x : F) (pts : List (F × F)) (hne : pts ≠ []) (h : ∀ p ∈ pts, p.1 ≤ x) :
    interp x pts = some (pts.getLast hne).2 := by
  cases pts with
  | nil => exact absurd rfl hne
  | cons p0 t =>
    obtain ⟨x0, y0⟩ := p0
    have : ¬ x < x0 := not_lt.mpr (h (x0, y0) (List.mem_cons_self ..))
    simp only [interp, this, if_false]
    rw [interpGo_after t (x0, y0) x (fun p hp => h p (List.mem_cons_of_mem _ hp))]

theorem interp_isSome (x : F) (pts : List (F × F)) (hne : pts ≠ []) : (interp x pts).isSome := by
  cases pts with
  | nil => exact absurd rfl hne
  | cons p0 t => obtain ⟨x0, y0⟩ := p0; simp [interp]

end interp

end ApplyCal
