/-
  Line-protocol driver for the C12 model (KatdalModel/Model/Sensor.lean).

  request:  run <inplace 0|1|2 (2 = in place, raw arrays restored after every op)> <s|c> <P> {<dumps> <period> <keep> <getters> <raw> <props> <virt>}xP <cprops> <ops>
            clean <getter>                   remove_duplicates_and_invalid_values on one getter
            interp <knots t:v,..> <xs>       np.interp
  separators: ' ' fields, '!' list of getters/ops, ';' fields of a getter/op or list of samples,
              ',' fields of a sample / list of values, ':' value tag, '&' '=' properties.
  reply:    one token per op joined by '!':
            G:<id> | A:<vals> | C:<vals> | S:<vals> | X:<val> | U | R:<hs>:<samples> | K:<keys> | E:<Error>
-/
import Driver.Common
import KatdalModel.Model.Sensor
open Drv Np Index Sensor

def parseRat (s : String) : Option Rat :=
  match s.splitOn "/" with
  | [n] => n.toInt?.map fun i => (i : Rat)
  | [n, d] => do
    let n ← n.toInt?
    let d ← d.toNat?
    if d = 0 then none else pure (mkRat n d)
  | _ => none

def showRat (q : Rat) : String := if q.den = 1 then toString q.num else s!"{q.num}/{q.den}"

def parseList {α} (sep : String) (f : String → Option α) (s : String) : Option (List α) :=
  if s = "-" || s = "" then some [] else (s.splitOn sep).mapM f

def parseVal (s : String) : Option Val :=
  if s = "nan" then some .nan
  else if s = "N" then some .none
  else match s.splitOn ":" with
    | ["f", q] => (parseRat q).map Val.num
    | ["i", i] => i.toInt?.map Val.int
    | ["s", v] => some (.str v)
    | ["o", v] => some (.obj v)
    | ["b", b] => some (.bool (b = "1"))
    | _ => none

def showVal : Val → String
  | .num q => s!"f:{showRat q}"
  | .int i => s!"i:{i}"
  | .nan => "nan"
  | .str s => s!"s:{s}"
  | .bool b => if b then "b:1" else "b:0"
  | .none => "N"
  | .obj k => s!"o:{k}"
  | .app f a => s!"@{f}@{showVal a}"

def showVals (vs : List Val) : String := ",".intercalate (vs.map showVal)

def parseDType : String → Option DType
  | "float" => some .float | "int" => some .int | "str" => some .str
  | "bool" => some .bool | "obj" => some .obj | _ => none

def parseSample (s : String) : Option Sample :=
  match s.splitOn "," with
  | [t, v, st] => do
    let t ← parseRat t
    let v ← parseVal v
    pure ⟨t, v, st⟩
  | _ => none

def showSample (s : Sample) : String := s!"{showRat s.t},{showVal s.v},{s.st}"

/-- `dtype;hs;sample;sample…` -/
def parseGetter (s : String) : Option Getter :=
  match s.splitOn ";" with
  | dt :: hs :: rest => do
    let dt ← parseDType dt
    let samples ← (rest.filter (· ≠ "")).mapM parseSample
    pure { dtype := dt, hasStatus := hs = "1", samples := samples }
  | _ => none

def parseProps (s : String) : Option Props :=
  if s = "-" || s = "" then some {} else
  (s.splitOn "&").foldlM (fun (p : Props) kv =>
    match kv.splitOn "=" with
    | ["o", v] => (parseRat v).map fun q => { p with timeOffset := some q }
    | ["c", v] => some { p with categorical := some (v = "1") }
    | ["v", v] => (parseVal v).map fun x => { p with initialValue := some x }
    | ["t", v] => some { p with transform := some v }
    | _ => none) {}

def parsePropMap (s : String) : Option PropMap :=
  parseList ";" (fun kv => match kv.splitOn "," with
    | [k, p] => (parseProps p).map fun p => (k, p)
    | _ => none) s

def parseRaw (s : String) : Option (List (String × Entry)) :=
  parseList ";" (fun kv => match kv.splitOn "," with
    | [k, id] => id.toNat?.map fun i => (k, Entry.getter i)
    | _ => none) s

def parseVirt (s : String) : Option (List Virt) :=
  parseList "," (fun v => match v with
    | "azel" => some Virt.azel | "mjd" => some Virt.mjd | "sum" => some Virt.sum | _ => none) s

def parsePart (inplace : Bool) : List String → Option Cache
  | [dumps, period, keep, getters, raw, props, virt] => do
    let dumps ← parseList "," parseRat dumps
    let period ← parseRat period
    let keep ← parseIx keep
    let getters ← parseList "!" parseGetter getters
    let raw ← parseRaw raw
    let props ← parsePropMap props
    let virt ← parseVirt virt
    pure { raw, getters, dumps, period, keep, props, virt, inplace }
  | _ => none

def parseOp (s : String) : Option Op :=
  match s.splitOn ";" with
  | ["get", name, sel, ext, p] => (parseProps p).map fun p => Op.get name (sel = "1") (ext = "1") p
  | ["setd", name, kind, vals] => do
    let vs ← parseList "," parseVal vals
    pure (Op.setData name (if kind = "c" then .cat vs else .arr vs))
  | ["setg", name, id] => id.toNat?.map fun i => Op.setGetter name i
  | ["del", name] => some (.del name)
  | ["keep", "none"] => some (.setKeep none)
  | ["keep", ix] => (parseIx ix).map fun k => Op.setKeep (some k)
  | ["alias", a, o] => some (.alias a o)
  | ["keys"] => some .keys
  | _ => none

def showOut : Out → String
  | .getter id => s!"G:{id}"
  | .full (.arr vs) => s!"A:{showVals vs}"
  | .full (.cat vs) => s!"C:{showVals vs}"
  | .sel vs => s!"S:{showVals vs}"
  | .scalar v => s!"X:{showVal v}"
  | .unit => "U"
  | .rawcat hs l => s!"R:{if hs then 1 else 0}:{";".intercalate (l.map showSample)}"

def showKeys (raw : List (String × Entry)) : String :=
  ",".intercalate (raw.map fun kv => match kv.2 with
    | .getter id => s!"{kv.1}=g{id}"
    | .data _ => s!"{kv.1}=d")

def showRes (r : Except Err Out) : String :=
  match r with
  | .ok o => showOut o
  | .error e => showErr e

/-- `fresh`: the harness restores the raw arrays after every operation (in-place mode only) -/
def runSingle (fresh : Bool) (s : Cache) (ops : List Op) : List String :=
  (ops.foldl (fun (acc : Cache × List String) op =>
    match op with
    | .keys => (acc.1, s!"K:{showKeys acc.1.raw}" :: acc.2)
    | _ =>
      let s0 := if fresh then { acc.1 with getters := s.getters } else acc.1
      let (r, s') := step s0 op; (s', showRes r :: acc.2)) (s, [])).2.reverse

def runConcat (fresh : Bool) (cc : Concat) (ops : List Op) : List String :=
  (ops.foldl (fun (acc : Concat × List String) op =>
    match op with
    | .keys => (acc.1, s!"K:{"^".intercalate (acc.1.parts.map fun c => showKeys c.raw)}" :: acc.2)
    | _ =>
      let c0 : Concat := if fresh then
          { acc.1 with parts := (acc.1.parts.zip cc.parts).map fun (a, o) => { a with getters := o.getters } }
        else acc.1
      let (r, s') := Concat.step c0 op; (s', showRes r :: acc.2)) (cc, [])).2.reverse

def chunk7 : List String → Nat → Option (List (List String) × List String)
  | rest, 0 => some ([], rest)
  | a :: b :: c :: d :: e :: f :: g :: rest, n + 1 =>
    (chunk7 rest n).map fun (ps, r) => ([a, b, c, d, e, f, g] :: ps, r)
  | _, _ => none

def step (line : String) : String :=
  match line.splitOn " " with
  | "run" :: inplace :: kind :: np :: rest =>
    match np.toNat? with
    | none => "bad-op"
    | some n =>
      match chunk7 rest n with
      | some (parts, [cprops, ops]) =>
        match parts.mapM (parsePart (inplace ≠ "0")), parsePropMap cprops, parseList "!" parseOp ops with
        | some ps, some cp, some ops =>
          if kind = "s" then
            match ps with
            | [p] => "!".intercalate (runSingle (inplace = "2") p ops)
            | _ => "bad-op"
          else "!".intercalate (runConcat (inplace = "2") { parts := ps, props := cp } ops)
        | _, _, _ => "bad-op"
      | _ => "bad-op"
  | ["clean", g] =>
    match parseGetter g with
    | some g => ";".intercalate ((clean g).map showSample)
    | none => "bad-op"
  | ["interp", knots, xs] =>
    match parseList "," (fun kv => match kv.splitOn ":" with
        | [a, b] => do let a ← parseRat a; let b ← parseRat b; pure (a, b)
        | _ => none) knots, parseList "," parseRat xs with
    | some ks, some xs => ",".intercalate (xs.map fun x => showRat (interp ks x))
    | _, _ => "bad-op"
  | _ => "bad-op"

def main : IO Unit := Drv.loop step
