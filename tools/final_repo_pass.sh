#!/bin/bash
# Final confirmation pass, to the letter of the brief: for every kept seeded change apply it to /repo itself
# (git -C /repo apply), run the check(s), and undo it straight afterwards (git -C /repo checkout -- .).
# Writes seeded/<id>/repo_run.txt.  Only run when nothing else uses /repo's working tree.
cd /verif || exit 2
for d in seeded/C*/; do
  id=$(basename "$d")
  [ -f "$d/repo_run.txt" ] && [ -z "${FORCE:-}" ] && continue
  prop=$(python3 -c "import json;print(json.load(open('$d/meta.json'))['breaks_property'])")
  # changes caught only by the check of a sibling property: run those checks too (named in meta.json)
  extra=$(python3 -c "
import json,re
m=json.load(open('$d/meta.json'))
own=m['breaks_property']
txt=(m.get('check_result','')+' '+m.get('caught_by_check','')) if str(m.get('caught_by_check','')).startswith('partly') else ''
print(' '.join(sorted({c for c in re.findall(r'C[0-9][0-9]', txt) if c != own})))")
  MODE=repo tools/try_seeded.sh "/verif/$d" "$prop" $extra 2>&1 | grep -E "^SUMMARY|^   C..: " > "$d/repo_run.txt"
  git -C /repo diff --quiet || { echo "REPO DIRTY after $id"; git -C /repo checkout -- .; }
  echo "$id: $(grep SUMMARY $d/repo_run.txt | sed 's/.*checks=//')"
done
