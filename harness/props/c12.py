"""C12 - numeric sensors are cleaned, interpolated, cached and selected consistently.

Differential correspondence of katdal.sensordata.SensorCache / remove_duplicates_and_invalid_values,
katdal.concatdata.ConcatenatedSensorCache and the az/el/mjd virtual sensors against the Lean model
KatdalModel/Model/Sensor.lean (driver kd_c12).  Every number in a case is an exact dyadic rational
(written "n/d"), so np.interp can be compared with the model's exact rational arithmetic.
"""
import copy
import json
import logging
import math
import os
import random
from fractions import Fraction

import numpy as np

from harness import common, ixgen
from harness.common import Broken

RULE = ('cache cases = (1 cache or a concatenation of 2-3 caches; per cache: 1-8 dump timestamps on a quarter-second '
        'grid with dump period 1/2..4 and occasional gaps; 1-5 getters of dtype float/int/str/bool/object backed by '
        'SimpleSensorGetter or RecordSensorGetter; samples drawn to hit the branches: unsorted, runs of 2-4 equal '
        'timestamps, every KATCP status plus integer statuses, empty, single, all-unreadable, entirely before / after '
        'the dumps, sample times equal to dump times; names with aliases (constructor and add_aliases), wildcard and '
        'per-name default properties; a sequence of 6-14 operations get(name, select, extract, time_offset / '
        'categorical / initial_value / transform / allow_repeats / greedy_values), cache[name], cache[name] = array, '
        'cache[name] = getter, del, _set_keep(slice / mask / int list / int), add_aliases, key listing, virtual '
        'sensors Antennas/<ant>/az|el, Timestamps/mjd and a two-parameter template).  After every operation the raw '
        'arrays behind every getter are compared with pristine copies.  clean cases = '
        'remove_duplicates_and_invalid_values called directly.  non-trivial = at least one operation returned '
        'interpolated / categorical values that were compared element by element; distinct = hash of the request line.')
TRUSTED = ['Lean 4.33 kernel', 'axioms: propext, Classical.choice, Quot.sound only',
           'hand-written model KatdalModel/Model/Sensor.lean tied to /repo by this differential run',
           'np.interp on strictly increasing knots = Sensor.interp (exercised by the glue cases of every run)',
           'katpoint.deg2rad and katpoint.Timestamp.to_mjd are opaque functions evaluated by katpoint itself',
           'the categorical branch is modelled by its plain rule only (full rule: property C10)']
CHECKER = 'lake build KatdalModel.Props.C12 kd_c12 && lake env lean <#print axioms audit>'

F = Fraction
STATUS_OK = ['nominal', 'warn', 'error']
STATUS_BAD = ['unknown', 'failure', 'unreachable', 'inactive', '', '0', '1', '2']
OFFSETS = [F(1, 4), F(-1, 4), F(1), F(-1), F(5, 2), F(-3), F(40), F(-40)]
STRS = ['a', 'b', 'c', 'idle', 'track', 'slew']


class Obj:
    """hashable opaque sensor value (object dtype)"""

    def __init__(self, k):
        self.k = k

    def __eq__(self, other):
        return isinstance(other, Obj) and other.k == self.k

    def __ne__(self, other):
        return not self == other

    def __hash__(self):
        return hash(('Obj', self.k))

    def __repr__(self):
        return f'Obj({self.k})'


# ------------------------------------------------------------------------------------------------
# encoding

def fr(x):
    return x if isinstance(x, Fraction) else Fraction(x)


def enc_rat(q):
    q = fr(q)
    return str(q.numerator) if q.denominator == 1 else f'{q.numerator}/{q.denominator}'


def enc_props(p):
    if not p:
        return '-'
    out = []
    for k in ('o', 'c', 'v', 't'):
        if k in p:
            out.append(f'{k}={p[k]}')
    return '&'.join(out) if out else '-'


def enc_getter(g):
    return ';'.join([g['dtype'], '1' if g['hs'] else '0'] + [f'{t},{v},{st if st != "" else ""}' for t, v, st in g['samples']])


def enc_part(p):
    toks = [','.join(p['dumps']), p['period'], ixgen.enc_ix(tuple_ix(p['keep'])),
            '!'.join(enc_getter(g) for g in p['getters']) or '-',
            ';'.join(f'{n},{i}' for n, i in p['raw']) or '-',
            ';'.join(f'{k},{enc_props(v)}' for k, v in p['props']) or '-',
            ','.join(p['virt']) or '-']
    return ' '.join(toks)


def enc_op(op):
    k = op[0]
    if k in ('get', 'item'):
        _, name, sel, ext, props = op
        return f'get;{name};{int(sel)};{int(ext)};{enc_props(props)}'
    if k == 'setd':
        return f'setd;{op[1]};{op[2]};' + (','.join(op[3]) or '-')
    if k == 'setg':
        return f'setg;{op[1]};{op[2]}'
    if k == 'del':
        return f'del;{op[1]}'
    if k == 'keep':
        return 'keep;none' if op[1] is None else 'keep;' + ixgen.enc_ix(tuple_ix(op[1]))
    if k == 'alias':
        return f'alias;{op[1]};{op[2]}'
    if k == 'keys':
        return 'keys'
    raise ValueError(op)


def tuple_ix(ix):
    ix = list(ix)
    if ix[0] in ('m', 'l'):
        return (ix[0], list(ix[1]))
    return tuple(ix)


def all_ops(case):
    """constructor aliases are add_aliases calls made by __init__"""
    pre = [['alias', a, o] for a, o in case.get('aliases', [])]
    return pre + [list(o) for o in case['ops']]


def request_line(case, inplace):
    parts = case['parts']
    kind = case['kind']
    mode = '0' if not inplace else ('2' if case.get('restore') else '1')
    return ' '.join(['run', mode, kind, str(len(parts))] + [enc_part(p) for p in parts] +
                    [';'.join(f'{k},{enc_props(v)}' for k, v in case.get('cprops', [])) or '-',
                     '!'.join(enc_op(o) for o in all_ops(case)) or '-'])


# ------------------------------------------------------------------------------------------------
# canonical values

def canon(v):
    """python / numpy value -> canonical tuple"""
    from katdal.categorical import ComparableArrayWrapper
    if isinstance(v, ComparableArrayWrapper):
        v = v.unwrapped
    if v is None:
        return ('N',)
    if isinstance(v, Obj):
        return ('o', f'o{v.k}')
    if isinstance(v, (bool, np.bool_)):
        return ('b', bool(v))
    if isinstance(v, (bytes, np.bytes_)):
        return ('s', v.decode())
    if isinstance(v, (str, np.str_)):
        return ('s', str(v))
    if isinstance(v, (int, np.integer)):
        return ('n', Fraction(int(v)))
    if isinstance(v, (float, np.floating)):
        v = float(v)
        if math.isnan(v):
            return ('nan',)
        if math.isinf(v):
            return ('inf', v > 0)
        return ('n', Fraction(v))
    return ('?', repr(v))


def parse_val(tok):
    if tok == 'nan':
        return ('nan',)
    if tok == 'N':
        return ('N',)
    if tok.startswith('@'):
        _, f, arg = tok.split('@', 2)
        return ('app', f, parse_val(arg))
    k, v = tok.split(':', 1)
    if k in ('f', 'i'):
        return ('n', Fraction(v))
    if k == 's':
        return ('s', v)
    if k == 'o':
        return ('o', v)
    if k == 'b':
        return ('b', v == '1')
    raise Broken(f'cannot parse model value {tok!r}')


def parse_vals(s):
    return [parse_val(t) for t in s.split(',')] if s else []


def parse_reply_tok(tok):
    if tok == 'U':
        return ('U',)
    if tok.startswith('E:'):
        return ('E', tok[2:])
    k, rest = tok.split(':', 1)
    if k == 'G':
        return ('G', int(rest))
    if k in ('A', 'C', 'S'):
        return (k, parse_vals(rest))
    if k == 'X':
        return ('X', parse_val(rest))
    if k == 'R':
        hs, samples = rest.split(':', 1)
        out = []
        for s in samples.split(';') if samples else []:
            t, v, st = s.split(',')
            out.append((Fraction(t), parse_val(v), st))
        return ('R', hs == '1', out)
    if k == 'K':
        parts = []
        for p in rest.split('^'):
            d = {}
            for kv in p.split(',') if p else []:
                a, b = kv.rsplit('=', 1)
                d[a] = b
            parts.append(d)
        return ('K', parts)
    raise Broken(f'cannot parse model reply {tok!r}')


def eval_app(v):
    """opaque functions of the model, evaluated with katpoint itself"""
    import katpoint
    _, f, arg = v
    if arg[0] != 'n':
        return float('nan')
    x = float(arg[1])
    if f == 'deg2rad':
        return float(katpoint.deg2rad(x))
    if f == 'mjd':
        return float(katpoint.Timestamp(x).to_mjd())
    raise Broken(f'unknown opaque function {f}')


def val_eq(impl, model, scale=1.0):
    """-> (equal, exact)"""
    if model[0] == 'app':
        want = eval_app(model)
        if math.isnan(want):
            return impl == ('nan',), True
        if impl[0] != 'n':
            return False, True
        got = float(impl[1])
        return (got == want or abs(got - want) <= 1e-15 * max(1.0, abs(want))), True
    if impl[0] == 'n' and model[0] == 'n':
        if impl[1] == model[1]:
            return True, True
        return abs(impl[1] - model[1]) <= Fraction(1, 10 ** 12) * max(Fraction(1), abs(model[1]), Fraction(scale)), False
    return impl == model, True


def vals_eq(impl, model, ctx=None):
    if len(impl) != len(model):
        return False
    for a, b in zip(impl, model):
        ok, exact = val_eq(a, b)
        if not ok:
            return False
        if not exact and ctx is not None:
            ctx.tag('float-inexact')
    return True


def show_vals(vs):
    def one(v):
        if v[0] == 'n':
            return str(float(v[1]))
        if v[0] == 'app':
            return f'{v[1]}({one(v[2])})'
        return str(v[-1]) if len(v) > 1 else v[0]
    return '[' + ', '.join(one(v) for v in vs[:16]) + (', ...' if len(vs) > 16 else '') + ']'


# ------------------------------------------------------------------------------------------------
# building the real objects

def tok_to_py(tok, dtype=None):
    v = parse_val(tok)
    if v[0] == 'n':
        return int(v[1]) if tok.startswith('i:') else float(v[1])
    if v[0] == 'o':
        return Obj(int(v[1][1:]))
    if v[0] == 's':
        return v[1]
    if v[0] == 'b':
        return v[1]
    if v[0] == 'nan':
        return float('nan')
    return None


def status_array(sts):
    if sts and all(s.isdigit() for s in sts):
        return np.array([int(s) for s in sts])
    return np.array(list(sts), dtype='U11') if sts else np.array([], dtype='U7')


def value_array(dtype, toks):
    from katdal.categorical import ComparableArrayWrapper
    vals = [tok_to_py(t, dtype) for t in toks]
    if dtype == 'float':
        return np.array(vals, dtype=np.float64)
    if dtype == 'int':
        return np.array(vals, dtype=np.int64)
    if dtype == 'bool':
        return np.array(vals, dtype=bool)
    if dtype == 'str':
        return np.array(vals, dtype='U8') if vals else np.array([], dtype='U1')
    out = np.empty(len(vals), dtype=object)
    for i, v in enumerate(vals):
        out[i] = ComparableArrayWrapper(v)
    return out


def build_getter(g, name):
    from katdal.sensordata import RecordSensorGetter, SimpleSensorGetter
    ts = np.array([float(Fraction(t)) for t, _, _ in g['samples']], dtype=np.float64)
    vals = value_array(g['dtype'], [v for _, v, _ in g['samples']])
    if g.get('fw') and g['dtype'] == 'float':
        vals = vals.astype({32: np.float32, 16: np.float16}[g['fw']])
    sts = [s for _, _, s in g['samples']]
    if g.get('backing') == 'record' and g['dtype'] in ('float', 'int', 'str'):
        vdt = {'float': 'f8', 'int': 'i8', 'str': 'S8'}[g['dtype']]
        fields = [('timestamp', 'f8'), ('value', vdt)] + ([('status', 'S7')] if g['hs'] else [])
        rec = np.zeros(len(ts), dtype=fields)
        rec['timestamp'] = ts
        rec['value'] = [v.encode() for v in vals] if g['dtype'] == 'str' else vals
        if g['hs']:
            rec['status'] = [s.encode() for s in sts]
        return RecordSensorGetter(rec, name)
    return SimpleSensorGetter(name, ts, vals, status_array(sts) if g['hs'] else None)


def snapshot(getter):
    from katdal.sensordata import RecordSensorGetter
    if isinstance(getter, RecordSensorGetter):
        return ('rec', getter._data.copy())
    d = getter._data
    return ('simple', d.timestamp.copy(), d.value.copy(), None if d.status is None else d.status.copy())


def raw_diff(getter, snap):
    """None if the getter's raw arrays equal the snapshot, else (description, uniform shift or None)"""
    if snap[0] == 'rec':
        cur = getter._data
        old = snap[1]
        same_other = all(np.array_equal(cur[f], old[f]) for f in old.dtype.names if f != 'timestamp')
        ct, ot = cur['timestamp'], old['timestamp']
    else:
        d = getter._data
        ct, ot = d.timestamp, snap[1]
        same_other = (len(d.value) == len(snap[2]) and all(canon(a) == canon(b) for a, b in zip(d.value, snap[2])) and
                      ((d.status is None) == (snap[3] is None)) and
                      (d.status is None or np.array_equal(d.status, snap[3])))
    if len(ct) == len(ot) and np.array_equal(ct, ot) and same_other:
        return None
    shift = None
    if same_other and len(ct) == len(ot) and len(ct):
        d = set((Fraction(float(a)) - Fraction(float(b))) for a, b in zip(ct, ot))
        if len(d) == 1:
            shift = d.pop()
    return (f'timestamps {list(map(float, ot))[:6]} became {list(map(float, ct))[:6]}' if same_other
            else 'values/status of the raw samples changed', shift)


def restore(getter, snap):
    if snap[0] == 'rec':
        getter._data[...] = snap[1]
    else:
        getter._data.timestamp[...] = snap[1]


def _calc_sum(cache, name, a, b):
    cache[name] = v = cache.get(a) + cache.get(b)
    return v


def virtual_dict(kinds):
    from katdal.dataset import _calc_mjd
    from katdal.visdatav4 import _calc_azel
    out = {}
    for k in kinds:
        if k == 'mjd':
            out['Timestamps/mjd'] = _calc_mjd
        elif k == 'azel':
            out['Antennas/{ant}/az'] = _calc_azel
            out['Antennas/{ant}/el'] = _calc_azel
        elif k == 'sum':
            out['Calc/{a}/plus/{b}'] = _calc_sum
    return out


def props_to_py(p, dtype=None):
    out = {}
    if 'o' in p:
        out['time_offset'] = float(Fraction(p['o']))
    if 'c' in p:
        out['categorical'] = p['c'] == '1' or p['c'] is True
    if 'v' in p:
        out['initial_value'] = tok_to_py(p['v'], None)
    if 't' in p:
        out['transform'] = {'neg': (lambda v: -v), 'up': (lambda v: v.upper())}[p['t']]
    for k in p.get('x', []):
        if k == 'allow_repeats':
            out['allow_repeats'] = True
        elif k == 'greedy':
            out['greedy_values'] = [987654321]
    return out


class Impl:
    def __init__(self, case):
        from katdal.concatdata import ConcatenatedSensorCache
        from katdal.sensordata import SensorCache
        self.case = case
        self.caches, self.G, self.snaps = [], [], []
        for pi, p in enumerate(case['parts']):
            first_name = {}
            for n, i in p['raw']:
                first_name.setdefault(i, n)
            gs = [build_getter(g, first_name.get(i, f'g{i}')) for i, g in enumerate(p['getters'])]
            self.G.append(gs)
            self.snaps.append([snapshot(g) for g in gs])
            raw = {n: gs[i] for n, i in p['raw']}
            dumps = np.array([float(Fraction(t)) for t in p['dumps']])
            props = {k: props_to_py(v) for k, v in p['props']}
            aliases = dict((a, o) for a, o in case.get('aliases', [])) if case['kind'] == 's' else {}
            self.caches.append(SensorCache(raw, dumps, float(Fraction(p['period'])),
                                           keep=ixgen.to_py(tuple_ix(p['keep']), as_array=True),
                                           props=props, virtual=virtual_dict(p['virt']), aliases=aliases))
        if case['kind'] == 'c':
            keep = np.concatenate([np.asarray(ixgen.to_py(tuple_ix(p['keep']), as_array=True))
                                   for p in case['parts']])
            self.top = ConcatenatedSensorCache(self.caches, keep=keep)
        else:
            self.top = self.caches[0]

    def getter_id(self, obj):
        for gs in self.G:
            for i, g in enumerate(gs):
                if g is obj:
                    return i
        return -1

    def canon_result(self, r, select):
        from katdal.categorical import CategoricalData
        from katdal.concatdata import ConcatenatedSensorGetter
        from katdal.sensordata import SensorGetter
        if isinstance(r, ConcatenatedSensorGetter):
            d = r.get()
            sts = [''] * len(d.timestamp) if d.status is None else [canon(s)[1] if canon(s)[0] == 's' else str(s)
                                                                    for s in d.status]
            return ('R', d.status is not None,
                    [(Fraction(float(t)), canon(v), st) for t, v, st in zip(d.timestamp, d.value, sts)])
        if isinstance(r, SensorGetter):
            return ('G', self.getter_id(r))
        if isinstance(r, CategoricalData):
            n = int(r.events[-1])
            return ('C', [canon(r[i]) for i in range(n)])
        if isinstance(r, (np.ndarray, list)):
            r = np.asarray(r)
            if r.ndim == 0:
                return ('X', canon(r[()]))
            return ('S' if select else 'A', [canon(v) for v in r])
        return ('X', canon(r))

    def do(self, op):
        """-> canonical result; exceptions -> ('E', class name, message)"""
        k = op[0]
        top = self.top
        if self.case.get('listing'):
            # print(cache) / repr(cache) between the operations: listing the cache is not an access
            for c in self.caches:
                try:
                    str(c)
                    repr(c)
                except Exception:   # noqa: BLE001
                    pass
        try:
            if k == 'get':
                _, name, sel, ext, props = op
                return self.canon_result(top.get(name, select=bool(sel), extract=bool(ext), **props_to_py(props)),
                                         bool(sel))
            if k == 'item':
                return self.canon_result(top[op[1]], True)
            if k == 'setd':
                vals = [tok_to_py(t) for t in op[3]]
                top[op[1]] = np.array(vals, dtype=np.float64 if all(t.startswith('f:') or t == 'nan' for t in op[3])
                                      else np.int64)
                return ('U',)
            if k == 'setg':
                top[op[1]] = self.G[0][op[2]]
                return ('U',)
            if k == 'del':
                del top[op[1]]
                return ('U',)
            if k == 'keep':
                top._set_keep(None if op[1] is None else ixgen.to_py(tuple_ix(op[1]), as_array=True))
                return ('U',)
            if k == 'alias':
                top.add_aliases(op[1], op[2])
                return ('U',)
            if k == 'keys':
                parts = []
                for c in self.caches:
                    d = {}
                    for n in c:
                        obj = c._raw[n]
                        gid = self.getter_id(obj)
                        d[n] = f'g{gid}' if gid >= 0 else 'd'
                    parts.append(d)
                return ('K', parts)
        except Exception as e:   # noqa: BLE001 - classification is the point
            return ('E', type(e).__name__, str(e)[:200])
        raise ValueError(op)

    def raw_changes(self):
        out = []
        for pi, gs in enumerate(self.G):
            for i, g in enumerate(gs):
                d = raw_diff(g, self.snaps[pi][i])
                if d is not None:
                    out.append((pi, i, d[0], d[1]))
        return out

    def resnapshot(self):
        self.snaps = [[snapshot(g) for g in gs] for gs in self.G]

    def restore_all(self):
        for pi, gs in enumerate(self.G):
            for i, g in enumerate(gs):
                restore(g, self.snaps[pi][i])


# ------------------------------------------------------------------------------------------------
# judging one case

def has_offset(case):
    for p in case['parts']:
        for _, v in p['props']:
            if 'o' in v and Fraction(v['o']) != 0:
                return True
    for _, v in case.get('cprops', []):
        if 'o' in v and Fraction(v['o']) != 0:
            return True
    for op in case['ops']:
        if op[0] == 'get' and 'o' in op[4] and Fraction(op[4]['o']) != 0:
            return True
    return False


def is_nonnumeric_dummy(case, k_abs, op):
    """is the full-length value the model expects for this read (partly) the filler of a str / bool / object sensor?
    Asked from the model itself: same history, then an unselected read of the same name with the same properties."""
    if op[0] not in ('get', 'item'):
        return False
    pre = case['ops'][:k_abs]
    probe = dict(case, ops=pre + [['get', op[1], False, True, op[4]]], aliases=case.get('aliases', []))
    rep = common.run_model('C12', [request_line(probe, False)])[0].split('!')[-1]
    m = parse_reply_tok(rep)
    if m[0] not in ('C', 'A'):
        return False
    fillers = (('s', ''), ('b', False), ('N',))
    if case['kind'] == 's':
        return bool(m[1]) and all(v == m[1][0] for v in m[1]) and m[1][0] in fillers
    return any(v in fillers for v in m[1])


def same_result(impl, model, ctx=None):
    if impl[0] != model[0]:
        return False
    k = impl[0]
    if k in ('A', 'C', 'S'):
        return vals_eq(impl[1], model[1], ctx)
    if k == 'X':
        return val_eq(impl[1], model[1])[0]
    if k == 'G':
        return impl[1] == model[1]
    if k == 'U':
        return True
    if k == 'K':
        return impl[1] == model[1]
    if k == 'R':
        if impl[1] != model[1] or len(impl[2]) != len(model[2]):
            return False
        for (t1, v1, s1), (t2, v2, s2) in zip(impl[2], model[2]):
            if t1 != t2 or not val_eq(v1, v2)[0] or (impl[1] and s1 != s2[:len(s1)] and s1 != s2):
                return False
        return True
    return impl == model


def describe(res):
    if res[0] in ('A', 'C', 'S'):
        return f'{res[0]}{show_vals(res[1])}'
    if res[0] == 'X':
        return f'X{show_vals([res[1]])}'
    return str(res)[:200]


def judge_case(ctx, case, spec_reply, mirror_reply, count=True):
    """Run the implementation op by op against the model replies.
    Returns (list of findings, number of value results compared)."""
    spec = [parse_reply_tok(t) for t in spec_reply.split('!')] if spec_reply else []
    mirror = [parse_reply_tok(t) for t in mirror_reply.split('!')] if mirror_reply else []
    ops = all_ops(case)
    n_pre = len(ops) - len(case['ops'])
    if len(spec) != len(ops):
        raise Broken(f'model answered {len(spec)} results for {len(ops)} ops: {spec_reply[:200]}')
    impl = Impl(case)
    compared = 0
    findings = []
    for k in range(n_pre, len(ops)):
        op = ops[k]
        res = impl.do(op)
        m = spec[k]
        opname = enc_op(op)
        if ctx is not None and count:
            ctx.tag('op-' + ('getitem' if op[0] == 'item' else op[0]))
        # ---- raw samples must never change
        changes = impl.raw_changes()
        if changes:
            pi, gi, desc, shift = changes[0]
            if shift is not None and shift != 0 and has_offset(case):
                what = (f'inplace-offset: raw samples of getter {gi} (part {pi}) altered by op {k - n_pre} `{opname}`: '
                        f'{desc} (uniform shift {float(shift)} = the time_offset applied in place)')
            else:
                what = f'raw samples of getter {gi} (part {pi}) altered by op {k - n_pre} `{opname}`: {desc}'
            if what.startswith('inplace-offset'):
                # the root cause is on record; go on so that the rest of the history is checked too:
                # either undo the damage (everything else must then agree with the specification) or leave
                # it (the next extraction of this getter then shows the doubly shifted values)
                findings.append(what)
                if case.get('restore'):
                    impl.restore_all()
                else:
                    impl.resnapshot()
            else:
                findings.append(what)
                break
        # ---- outcome
        if m[0] == 'E':
            if res[0] != 'E':
                if ctx is not None:
                    ctx.advise(f'model rejects `{opname}` with {m[1]} (outside the property) but the implementation '
                               f'answered {describe(res)}')
                    ctx.tag('invalid-request-answered')
                break
            if ctx is not None and count:
                ctx.tag('error-' + m[1])
            if m[1] in ('KeyError', 'ValueError') and res[1] == m[1]:
                continue
            break
        if res[0] == 'E':
            if res[1] == 'AttributeError' and 'string_' in res[2] and is_nonnumeric_dummy(case, k - n_pre, op):
                what = (f'dummy-nonnumeric: op {k - n_pre} `{opname}` raised AttributeError ({res[2][:80]}) where the '
                        f'documented dummy value {describe(m)} is expected')
            elif k < len(mirror) and mirror[k][0] == 'E' and has_offset(case):
                what = (f'inplace-offset: op {k - n_pre} `{opname}` raised {res[1]} where {describe(m)} is expected; the '
                        f'samples it extracted had been shifted by time_offset before')
            else:
                what = f'op {k - n_pre} `{opname}` raised {res[1]} ({res[2][:100]}) where {describe(m)} is expected'
            findings.append(what)
            break
        if not same_result(res, m, ctx):
            mm = mirror[k] if k < len(mirror) else None
            if mm is not None and mm[0] != 'E' and same_result(res, mm) and has_offset(case):
                what = (f'inplace-offset: op {k - n_pre} `{opname}` returned {describe(res)}, expected {describe(m)}; the '
                        f'returned values are those of samples shifted by time_offset more than once')
            else:
                what = f'op {k - n_pre} `{opname}` returned {describe(res)}, expected {describe(m)}'
            findings.append(what)
            break
        if res[0] in ('A', 'C', 'S', 'X'):
            compared += 1
            if ctx is not None and count:
                ctx.tag('result-' + res[0])
                if res[0] != 'X' and any(v == ('nan',) for v in res[1]):
                    ctx.tag('result-nan')
    return findings, compared


# ------------------------------------------------------------------------------------------------
# generators

def q4(rng, lo, hi):
    """random quarter-step rational in [lo, hi]"""
    return Fraction(rng.randint(int(lo * 4), int(hi * 4)), 4)


def gen_dumps(rng, start=None):
    period = rng.choice([F(1), F(1), F(1, 2), F(2), F(4)])
    n = rng.choice([1, 2, 3, 4, 5, 6, 8])
    t = start if start is not None else F(100) + q4(rng, 0, 8)
    dumps = []
    for _ in range(n):
        dumps.append(t)
        t += period * (1 if rng.random() < 0.8 else rng.randint(2, 3))
    return dumps, period


def gen_value(rng, dtype):
    if dtype == 'float':
        return 'f:' + enc_rat(q4(rng, -8, 8))
    if dtype == 'int':
        return f'i:{rng.randint(-5, 9)}'
    if dtype == 'str':
        return 's:' + rng.choice(STRS)
    if dtype == 'bool':
        return 'b:' + rng.choice('01')
    return f'o:o{rng.randint(0, 4)}'


def gen_samples(rng, dtype, dumps, period):
    lo, hi = dumps[0], dumps[-1]
    mode = rng.choices(['normal', 'dups', 'empty', 'before', 'after', 'single', 'allbad', 'ondumps'],
                       [40, 18, 7, 7, 7, 7, 7, 7])[0]
    hs = rng.random() < 0.6 or mode == 'allbad'
    if mode == 'empty':
        return [], hs, mode
    n = 1 if mode == 'single' else rng.randint(2, 8)
    if mode == 'before':
        pool = [q4(rng, lo - 12, lo - 1) for _ in range(n)]
    elif mode == 'after':
        pool = [q4(rng, hi + period, hi + 12) for _ in range(n)]
    elif mode == 'dups':
        base = [q4(rng, lo - 2, hi + 2) for _ in range(rng.randint(1, 3))]
        pool = [rng.choice(base) for _ in range(n)]
    elif mode == 'ondumps':
        pool = [rng.choice(dumps) + rng.choice([F(0), F(0), period / 2, -period / 2, period]) for _ in range(n)]
    else:
        pool = []
        for _ in range(n):
            if pool and rng.random() < 0.25:
                pool.append(pool[-1])            # run of equal time stamps
            else:
                pool.append(q4(rng, lo - 3, hi + 3))
    if rng.random() < 0.4:
        pool.sort()                               # sorted (duplicates stay in generation order)
    samples = []
    for t in pool:
        if hs:
            if mode == 'allbad':
                st = rng.choice(STATUS_BAD)
            else:
                st = rng.choice(STATUS_OK) if rng.random() < 0.65 else rng.choice(STATUS_BAD)
        else:
            st = ''
        samples.append([enc_rat(t), gen_value(rng, dtype), st])
    return samples, hs, mode


def gen_getter(rng, dtype, dumps, period):
    samples, hs, mode = gen_samples(rng, dtype, dumps, period)
    backing = 'record' if (dtype in ('float', 'int', 'str') and rng.random() < 0.25) else 'simple'
    if backing == 'record' and hs:
        # a structured array holds byte-string statuses: no integer statuses there
        for s in samples:
            if s[2].isdigit():
                s[2] = 'unknown'
    g = dict(dtype=dtype, hs=hs, samples=samples, backing=backing, mode=mode)
    if dtype == 'float' and backing == 'simple' and rng.random() < 0.3:
        # narrower float dtypes are numeric sensors too (the generated values are exact in float16)
        g['fw'] = rng.choice([32, 16])
    return g


def gen_keep(rng, n, concat=False):
    r = rng.random()
    if concat or r < 0.45:
        return ixgen.gen_mask(rng, n)
    if r < 0.75:
        return ixgen.gen_slice(rng, n, wild=False)
    if r < 0.93:
        return ('l', sorted(rng.sample(range(n), rng.randint(0, n))))
    return ('i', rng.randrange(n))


def gen_kw(rng, dtype):
    """keyword properties compatible with the sensor's dtype"""
    p = {}
    if rng.random() < 0.5:
        return p
    if rng.random() < 0.55:
        p['o'] = enc_rat(rng.choice(OFFSETS))
    if dtype in ('float', 'int') and rng.random() < 0.35:
        p['c'] = rng.choice('01')
    if rng.random() < 0.35:
        if dtype == 'float':
            p['v'] = gen_value(rng, 'float' if rng.random() < 0.75 else 'int')
        elif dtype == 'obj':
            p['v'] = gen_value(rng, 'str')
        else:
            p['v'] = gen_value(rng, dtype)
    if rng.random() < 0.2 and dtype in ('float', 'int', 'str'):
        p['t'] = 'up' if dtype == 'str' else 'neg'
    x = []
    if rng.random() < 0.2:
        x.append('allow_repeats')
    if rng.random() < 0.15:
        x.append('greedy')
    if x:
        p['x'] = x
    return p


BASE_NAMES = ['alpha_x', 'beta_x', 'gamma_y', 'delta', 'eps_x_x']


def gen_part(rng, start=None, concat=False, force_names=None):
    dumps, period = gen_dumps(rng, start)
    n = len(dumps)
    part = dict(dumps=[enc_rat(d) for d in dumps], period=enc_rat(period), keep=list(gen_keep(rng, n, concat)),
                getters=[], raw=[], props=[], virt=[])
    names = force_names if force_names is not None else rng.sample(BASE_NAMES, rng.randint(1, 4))
    dtypes = {}
    for nm in names:
        dt = (force_names or {}).get(nm) if isinstance(force_names, dict) else None
        dt = dt or rng.choices(['float', 'int', 'str', 'bool', 'obj'], [50, 18, 14, 9, 9])[0]
        part['getters'].append(gen_getter(rng, dt, dumps, period))
        part['raw'].append([nm, len(part['getters']) - 1])
        dtypes[nm] = dt
    # explicit alias: a second name for the first getter
    if not concat and rng.random() < 0.5:
        part['raw'].append(['twin', 0])
        dtypes['twin'] = dtypes[names[0]] if not isinstance(names, dict) else None
    # az / el sources
    if rng.random() < (0.3 if concat else 0.4):
        part['virt'].append('azel')
        for suffix in ('azim', 'elev'):
            if rng.random() < 0.85:
                part['getters'].append(gen_getter(rng, 'float', dumps, period))
                part['raw'].append([f'm000_pos_actual_scan_{suffix}', len(part['getters']) - 1])
                dtypes[f'm000_pos_actual_scan_{suffix}'] = 'float'
    if rng.random() < 0.35:
        part['virt'].append('mjd')
    if rng.random() < 0.25:
        part['virt'].append('sum')
    return part, dtypes, dumps, period


def gen_default_props(rng, dtypes):
    props = []
    if rng.random() < 0.3:
        # (the last four match a proper PREFIX of a sensor name only: a wildcard key covers the whole name or nothing)
        props.append([rng.choice(['*_x', '*', 'alpha*', '*a*x', 'alp*a', 'g*ma', '*ps_x', 'b*a']),
                      {'o': enc_rat(rng.choice(OFFSETS))}])
    for nm, dt in dtypes.items():
        if rng.random() < 0.15:
            kw = gen_kw(rng, dt)
            kw.pop('x', None)
            if kw:
                props.append([nm, kw])
    if rng.random() < 0.1:
        props.append(['*', {'o': enc_rat(rng.choice(OFFSETS))}])
    rng.shuffle(props)
    return props


def gen_ops(rng, names, dtypes, n_dumps, kind, n_getters, virt):
    ops = []
    readable = list(names)
    if 'azel' in virt:
        readable += ['Antennas/m000/az', 'Antennas/m000/el']
    if 'mjd' in virt:
        readable += ['Timestamps/mjd']
    floats = [n for n in names if dtypes.get(n) == 'float']
    if 'sum' in virt and floats:
        readable += [f'Calc/{rng.choice(floats)}/plus/{rng.choice(floats)}']
    focus = rng.sample(readable, min(len(readable), rng.randint(1, 3)))
    for _ in range(rng.randint(6, 14)):
        r = rng.random()
        name = rng.choice(focus) if rng.random() < 0.7 else rng.choice(readable)
        dt = dtypes.get(name, 'float')
        if r < 0.48:
            sel = rng.random() < 0.4
            ext = rng.random() < 0.88 or sel
            ops.append(['get', name, sel, ext, gen_kw(rng, dt) if name in dtypes else {}])
        elif r < 0.62:
            ops.append(['item', name, True, True, {}])
        elif r < 0.74:
            n = sum(n_dumps) if kind == 'c' else n_dumps[0]
            ops.append(['keep', list(gen_keep(rng, n, kind == 'c')) if rng.random() < 0.93 else None])
        elif r < 0.79:
            n = sum(n_dumps) if kind == 'c' else n_dumps[0]
            nm = rng.choice(['user1', name])
            ops.append(['setd', nm, 'a', [gen_value(rng, 'float') for _ in range(n)]])
            if nm not in readable:
                readable.append(nm)
        elif r < 0.84 and kind == 's':
            ops.append(['setg', rng.choice(['user2', name]), rng.randrange(n_getters)])
            if ops[-1][1] not in readable:
                readable.append(ops[-1][1])
        elif r < 0.89:
            ops.append(['del', name if rng.random() < 0.85 else 'nope'])
        elif r < 0.92 and kind == 's':
            ops.append(['alias', '_ax', rng.choice(['_x', '_y', 'delta'])])
            for nm in list(readable):
                if nm.endswith(ops[-1][2]):
                    new = nm.replace(ops[-1][2], '_ax')
                    if new not in readable:
                        readable.append(new)
                        if nm in dtypes:
                            dtypes[new] = dtypes[nm]
        elif r < 0.96:
            ops.append(['keys'])
        else:
            ops.append(['get', 'nope', rng.random() < 0.5, True, {}])
    return ops


def fix_setg_dtypes(case, dtypes):
    """a name that receives another getter through cache[name] = getter changes dtype, and the keyword properties
    of every earlier read of that name stick to it: keep only dtype-independent properties on such names"""
    changed = set(op[1] for op in case['ops'] if op[0] == 'setg')
    for op in case['ops']:            # names that an add_aliases call derives from such a name
        if op[0] == 'alias':
            changed |= set(n.replace(op[2], op[1]) for n in list(changed) if n.endswith(op[2]))
    for op in case['ops']:
        if op[0] == 'get' and op[1] in changed:
            op[4] = {k: v for k, v in op[4].items() if k in ('o', 'x')}
    for p in case['parts']:
        p['props'] = [[k, ({kk: vv for kk, vv in v.items() if kk in ('o',)} if k in changed else v)] for k, v in p['props']]
        p['props'] = [kv for kv in p['props'] if kv[1]]


def gen_single(rng):
    part, dtypes, dumps, period = gen_part(rng)
    names = [n for n, _ in part['raw']]
    aliases = []
    if rng.random() < 0.45:
        orig = rng.choice(['_x', '_y', 'delta'])
        aliases.append(['_zz', orig])
        for nm in list(names):
            if nm.endswith(orig):
                new = nm.replace(orig, '_zz')
                names.append(new)
                dtypes[new] = dtypes.get(nm)
    if 'twin' in dtypes and dtypes['twin'] is None:
        dtypes['twin'] = part['getters'][0]['dtype']
    part['props'] = gen_default_props(rng, {k: v for k, v in dtypes.items() if v})
    case = dict(kind='s', parts=[part], aliases=aliases, cprops=[], restore=rng.random() < 0.5,
                ops=gen_ops(rng, names, dtypes, [len(dumps)], 's', len(part['getters']), part['virt']))
    fix_setg_dtypes(case, dtypes)
    case['listing'] = rng.random() < 0.25
    return case


def gen_concat(rng):
    nparts = rng.choice([2, 2, 3])
    names = rng.sample(BASE_NAMES, rng.randint(1, 3))
    dts = {nm: rng.choices(['float', 'int', 'str', 'bool', 'obj'], [55, 18, 12, 8, 7])[0] for nm in names}
    parts, n_dumps = [], []
    start = F(100) + q4(rng, 0, 4)
    all_dtypes = {}
    for pi in range(nparts):
        present = [nm for nm in names if rng.random() < 0.65]
        if pi == 0 and not present:
            present = [names[0]]
        part, dtypes, dumps, period = gen_part(rng, start, concat=True, force_names={nm: dts[nm] for nm in present})
        # statuses of all parts are strings (np.concatenate of the raw parts)
        for g in part['getters']:
            for s in g['samples']:
                if s[2].isdigit():
                    s[2] = 'failure'
        parts.append(part)
        n_dumps.append(len(dumps))
        all_dtypes.update(dtypes)
        start = dumps[-1] + period * rng.randint(1, 5)
    virt = sorted(set(v for p in parts for v in p['virt']))
    for p in parts:
        p['virt'] = list(virt)            # the concatenated cache merges the templates anyway
    props = gen_default_props(rng, dts) if rng.random() < 0.4 else []
    for p in parts:
        p['props'] = copy.deepcopy(props)
    all_names = sorted(all_dtypes)
    case = dict(kind='c', parts=parts, aliases=[], cprops=copy.deepcopy(props), restore=rng.random() < 0.5,
                ops=gen_ops(rng, all_names, all_dtypes, n_dumps, 'c', 0, virt))
    return case


def gen_clean_case(rng):
    dumps, period = gen_dumps(rng)
    dt = rng.choices(['float', 'int', 'str', 'bool', 'obj'], [40, 15, 25, 10, 10])[0]
    g = gen_getter(rng, dt, dumps, period)
    g['backing'] = 'simple'
    return dict(kind='clean', getter=g)


# ------------------------------------------------------------------------------------------------
# evaluation

def judge_clean(ctx, case, reply):
    from katdal.sensordata import remove_duplicates_and_invalid_values
    g = case['getter']
    if not g['samples']:
        return None, 0      # the cache never calls the clean-up on an empty sample set
    getter = build_getter(g, 'x')
    snap = snapshot(getter)
    try:
        out = remove_duplicates_and_invalid_values(getter.get())
    except Exception as e:   # noqa: BLE001
        return (f'remove_duplicates_and_invalid_values raised {type(e).__name__}: {e}', 0), 0
    want = []
    for s in reply.split(';') if reply else []:
        t, v, _ = s.split(',')
        want.append((Fraction(t), parse_val(v)))
    got = [(Fraction(float(t)), canon(v)) for t, v in zip(out.timestamp, out.value)]
    if out.status is not None:
        return ('clean-up left a status field behind', 0), 0
    if got != want:
        return (f'remove_duplicates_and_invalid_values kept {[(float(t), v[-1]) for t, v in got]}, expected '
                f'{[(float(t), v[-1]) for t, v in want]} (stable sort, last of equal timestamps, then status filter)', 0), 0
    if raw_diff(getter, snap) is not None:
        return ('remove_duplicates_and_invalid_values altered its input', 0), 0
    ts = [t for t, _ in got]
    if any(a >= b for a, b in zip(ts, ts[1:])):
        return ('cleaned timestamps are not strictly increasing', 0), 0
    return None, 1


def evaluate(ctx, cases, count=True):
    """-> list of (case, what)"""
    lines, idx = [], []
    for c in cases:
        if c['kind'] == 'clean':
            idx.append((len(lines), 1))
            lines.append('clean ' + enc_getter(c['getter']))
        else:
            idx.append((len(lines), 2))
            lines.append(request_line(c, False))
            lines.append(request_line(c, True))
    replies = common.run_model('C12', lines)
    bad = []
    logging.disable(logging.CRITICAL)
    try:
        for c, (at, _) in zip(cases, idx):
            if 'bad-op' in replies[at]:
                raise Broken(f'model driver rejected request: {lines[at][:300]}')
            if c['kind'] == 'clean':
                verdict, compared = judge_clean(ctx, c, replies[at])
                findings = [verdict[0]] if verdict else []
                if count and ctx is not None:
                    ctx.tag('clean-' + c['getter']['mode'], 'clean-dtype-' + c['getter']['dtype'],
                            'clean-status' if c['getter']['hs'] else 'clean-nostatus')
            else:
                findings, compared = judge_case(ctx, c, replies[at], replies[at + 1], count)
                if count and ctx is not None:
                    ctx.tag('kind-' + ('concat' if c['kind'] == 'c' else 'single'),
                            'restore' if c.get('restore') else 'no-restore')
                    for p in c['parts']:
                        for g in p['getters']:
                            ctx.tag('samples-' + g.get('mode', '?'), 'dtype-' + g['dtype'] + (str(g['fw']) if g.get('fw') else ''),
                                    'backing-' + g['backing'])
                        if p['props']:
                            ctx.tag('default-props')
                    if c.get('aliases'):
                        ctx.tag('ctor-aliases')
            if count and ctx is not None:
                ctx.count(lines[at], compared > 0,
                          sample={'request': lines[at][:400], 'model': replies[at][:200]})
            for w in findings:
                bad.append((c, w))
    finally:
        logging.disable(logging.NOTSET)
    return bad


def glue_interp(ctx, n):
    """np.interp on strictly increasing knots == Sensor.interp (the numpy assumption of the model)"""
    rng = ctx.rng
    lines, data = [], []
    for _ in range(n):
        k = rng.randint(1, 6)
        xs = sorted(set(q4(rng, -6, 6) for _ in range(k)))
        ys = [q4(rng, -8, 8) for _ in xs]
        qs = [q4(rng, -8, 8) for _ in range(6)] + [rng.choice(xs)]
        lines.append('interp ' + ','.join(f'{enc_rat(a)}:{enc_rat(b)}' for a, b in zip(xs, ys)) + ' ' +
                     ','.join(enc_rat(q) for q in qs))
        data.append((xs, ys, qs))
    for line, rep, (xs, ys, qs) in zip(lines, common.run_model('C12', lines), data):
        want = [Fraction(t) for t in rep.split(',')]
        got = np.interp(np.array([float(q) for q in qs]), np.array([float(x) for x in xs]),
                        np.array([float(y) for y in ys]))
        for w, g in zip(want, got):
            if abs(Fraction(float(g)) - w) > Fraction(1, 10 ** 12) * max(1, abs(w)):
                raise Broken(f'model of np.interp disagrees with numpy on `{line}`: {float(w)} vs {g}')
        ctx.tag('glue-interp')


# ------------------------------------------------------------------------------------------------
# the data set's own virtual sensors against katpoint evaluated dump by dump

DV_PROJ = ['ARC', 'SIN', 'TAN', 'STG', 'CAR', 'SSN']
ANT_M000 = 'm000, -30:42:39.8, 21:26:38.0, 1086.6, 13.5, -8.264 -207.29 8.597, 0:00:00.0 0 0 0 0, 1.22'
ANT_M001 = 'm001, -30:42:39.8, 21:26:38.0, 1086.6, 13.5, 1.121 -171.762 8.471, 0:00:00.0 0 0 0 0, 1.22'
ANT_ARRAY = 'array, -30:42:39.8, 21:26:38.0, 1086.6, 0.0, , , 1.22'


def gen_dv(rng):
    T = rng.randint(2, 7)
    names = []
    for ant in ('m000', 'm001'):
        names += [f'Antennas/{ant}/{x}' for x in ('lst', 'ra', 'dec', 'parangle', 'u', 'v', 'w')]
        for proj in rng.sample(DV_PROJ, 2):
            for cs in ('azel', 'radec'):
                names += [f'Antennas/{ant}/target_{xy}_{proj}_{cs}' for xy in 'xy']
    names += ['Timestamps/mjd'] + [f'Antennas/array/basis_{x}' for x in 'uvw']
    order = rng.sample(names, rng.randint(3, 10))
    lo = rng.randint(0, T - 1)
    return dict(kind='dv', seed=rng.randrange(2 ** 31), T=T, over=rng.random() < 0.4, n_targets=rng.randint(1, 2),
                keep=[lo, rng.randint(lo + 1, T)], order=order)


def run_dv(case):
    """-> (violation text or None, tags)"""
    import katpoint
    from katdal.categorical import CategoricalData
    from katdal.dataset import DEFAULT_SENSOR_PROPS, DEFAULT_VIRTUAL_SENSORS
    from katdal.sensordata import SensorCache
    rs = np.random.RandomState(case['seed'])
    T = case['T']
    ts = 1600000000.0 + rs.randint(0, 86400) + 8.0 * np.arange(T)
    ants = {'m000': katpoint.Antenna(ANT_M000), 'm001': katpoint.Antenna(ANT_M001), 'array': katpoint.Antenna(ANT_ARRAY)}
    # targets that are well above the horizon: one fixed in (az, el), one fixed on the sky
    az0, el0 = rs.uniform(-np.pi, np.pi), rs.uniform(0.6, 1.1)
    t_azel = katpoint.construct_azel_target(az0, el0)
    ra0, dec0 = t_azel.radec(ts[T // 2], ants['array'])
    t_radec = katpoint.construct_radec_target(ra0, dec0)
    tg = [t_radec, t_azel] if rs.randint(2) else [t_azel, t_radec]
    tg = tg[:case['n_targets']]
    cut = [0, T] if len(tg) == 1 else [0, int(rs.randint(1, T)), T]
    keep = np.zeros(T, dtype=bool)
    keep[case['keep'][0]:case['keep'][1]] = True
    cache = SensorCache({}, ts, 8.0, keep=keep, props=DEFAULT_SENSOR_PROPS, virtual=DEFAULT_VIRTUAL_SENSORS)
    cache['Observation/target'] = CategoricalData(tg, cut)
    which = np.zeros(T, dtype=int)
    if len(tg) == 2:
        which[cut[1]:] = 1
    src = {}
    for a in ('m000', 'm001', 'array'):
        cache[f'Antennas/{a}/antenna'] = CategoricalData([ants[a]], [0, T])
        if a == 'array':
            continue
        # point near the target of each dump; optionally "over the top" (el > 90 deg means the same direction as
        # (az + 180 deg, 180 deg - el))
        az = np.empty(T)
        el = np.empty(T)
        for i in range(T):
            a_t, e_t = tg[which[i]].azel(ts[i], ants[a])
            az[i] = a_t + rs.uniform(-0.03, 0.03)
            el[i] = e_t + rs.uniform(-0.03, 0.03)
            if case['over'] and rs.randint(2):
                az[i], el[i] = az[i] - np.pi, np.pi - el[i]
        cache[f'Antennas/{a}/az'] = az
        cache[f'Antennas/{a}/el'] = el
        src[a] = (az.copy(), el.copy())

    def sane(a):
        az, el = src[a]
        over = (el > np.pi / 2) & (el < np.pi)
        return np.where(over, az + np.pi, az), np.where(over, np.pi - el, el)

    def radec(a):
        az, el = src[a]
        return np.array([katpoint.construct_azel_target(x, y).radec(t, ants[a]) for t, x, y in zip(ts, az, el)]).T

    def oracle(name):
        parts = name.split('/')
        if name == 'Timestamps/mjd':
            return np.array([katpoint.Timestamp(t).to_mjd() for t in ts])
        a, what = parts[1], parts[2]
        if what == 'lst':
            return np.array([ants[a].local_sidereal_time(t) for t in ts])
        if what in ('ra', 'dec'):
            return radec(a)[0 if what == 'ra' else 1]
        if what == 'parangle':
            az, el = src[a]
            return np.array([katpoint.construct_azel_target(x, y).parallactic_angle(t, ants[a])
                             for t, x, y in zip(ts, az, el)])
        if what.startswith('target_'):
            _, xy, proj, cs = what.split('_')
            if cs == 'radec':
                lon, lat = radec(a)
                over = (lat > np.pi / 2) & (lat < np.pi)
                lon, lat = np.where(over, lon + np.pi, lon), np.where(over, np.pi - lat, lat)
            else:
                lon, lat = sane(a)
            out = np.array([tg[which[i]].sphere_to_plane(lon[i], lat[i], ts[i], ants[a], proj, cs) for i in range(T)])
            return out[:, 0 if xy == 'x' else 1]
        if what.startswith('basis_'):
            k = 'uvw'.index(what[-1])
            return np.array([tg[which[i]].uvw_basis(ts[i], ants[a])[k] for i in range(T)])
        if what in 'uvw':
            k = 'uvw'.index(what)
            return np.array([tg[which[i]].uvw(ants[a], ts[i], ants['array'])[k] for i in range(T)])
        raise KeyError(name)

    tags = set()
    for name in case['order']:
        what = name.split('/')[-1]
        tags.add('dv-' + (what if not what.startswith('target_') else 'target_' + what.split('_')[-1]))
        try:
            want = np.asarray(oracle(name), dtype=float)
        except Exception:   # noqa: BLE001  (katpoint refuses the geometry: nothing to compare)
            tags.add('dv-oracle-refused')
            continue
        try:
            full = np.asarray(cache.get(name), dtype=float)
            sel = np.asarray(cache[name], dtype=float)
            again = np.asarray(cache.get(name), dtype=float)
        except Exception as e:   # noqa: BLE001
            return f'virtual sensor {name} raised {type(e).__name__}: {str(e)[:120]} where katpoint evaluates the ' \
                   f'documented function of its source sensors', tags
        if full.shape != want.shape or not np.allclose(full, want, rtol=0, atol=1e-6, equal_nan=True):
            i = int(np.argmax(np.abs(full - want).reshape(T, -1).max(axis=1))) if full.shape == want.shape else 0
            return (f'virtual sensor {name} differs from the documented function of its source sensors at dump {i}: '
                    f'{full[i] if full.shape[0] > i else full} instead of {want[i]}'), tags
        if not np.array_equal(sel, full[keep]):
            return f'cache[{name!r}] is not the full-length result restricted to the time selection', tags
        if not np.array_equal(again, full):
            return f'repeated access to {name} returns different values', tags
        for a, (az, el) in src.items():
            for nm, orig in ((f'Antennas/{a}/az', az), (f'Antennas/{a}/el', el)):
                if not np.array_equal(np.asarray(cache.get(nm)), orig):
                    i = int(np.flatnonzero(np.asarray(cache.get(nm)) != orig)[0])
                    return (f'reading {name} changed the cached sensor {nm} at dump {i}: {orig[i]} became '
                            f'{np.asarray(cache.get(nm))[i]} (repeated access no longer returns the same values)'), tags
    if case['over']:
        tags.add('dv-over-the-top')
    return None, tags


# ------------------------------------------------------------------------------------------------
# sensors fetched on demand from the sensor store (katstore64 web API): the glue in front of the modelled core.
# The reply of the store's pattern search may carry records of other sensors whose names contain the requested
# one; the value read must be that of a cache holding the requested sensor's own records directly (which the
# cases above tie to the model).

_KS = {}


def _ks_server():
    if 'port' in _KS:
        return _KS
    import threading
    from http.server import BaseHTTPRequestHandler, HTTPServer
    from urllib.parse import parse_qs, urlparse

    class H(BaseHTTPRequestHandler):
        def do_GET(self):
            q = parse_qs(urlparse(self.path).query)
            pattern = q['sensor'][0]
            lo, hi = float(q['start_time'][0]), float(q['end_time'][0])
            _KS['queries'].append((pattern, lo, hi))
            recs = []
            for name, samples in _KS['store']:
                if pattern in name:
                    recs += [dict(sensor=name, sample_time=t + 0.125, value_time=t, value=v, status=st)
                             for (t, v, st) in samples if lo <= t <= hi]
            body = json.dumps(dict(data=recs)).encode()
            self.send_response(200)
            self.send_header('Content-Type', 'application/json')
            self.send_header('Content-Length', str(len(body)))
            self.end_headers()
            self.wfile.write(body)

        def log_message(self, *a):
            pass
    srv = HTTPServer(('127.0.0.1', 0), H)
    threading.Thread(target=srv.serve_forever, daemon=True).start()
    _KS.update(port=srv.server_address[1], store=[], queries=[])
    os.environ['NO_PROXY'] = os.environ['no_proxy'] = '127.0.0.1,localhost'
    return _KS


KS_STATUS = ['nominal', 'warn', 'error', 'failure', 'unknown', 'unreachable', 'inactive']


def gen_ks(rng):
    return dict(kind='ks', seed=rng.randrange(2 ** 31), T=rng.randint(3, 10), others=rng.randint(0, 3),
                order=rng.random() < 0.5, select=rng.random() < 0.6)


def run_ks(case):
    """-> (violation text or None, tags)"""
    from katdal.sensordata import RecordSensorGetter, SensorCache
    rng = random.Random(case['seed'])
    tags = {'ks'}
    ks = _ks_server()
    T = case['T']
    t0 = 1600000000.0
    period = 8.0
    dumps = t0 + period * np.arange(T)
    name = 'anc_air_temperature'
    other_names = rng.sample([name + '_limit', 'x_' + name, name + '2', 'site_' + name + '_max'], case['others'])

    def samples():
        n = rng.randint(1, 7)
        ts = sorted(rng.sample([t0 - 40.0 + 4.0 * i for i in range(int((T * period + 80) / 4))], n))
        return [(t, float(rng.randint(-40, 160)) / 4, rng.choice(KS_STATUS[:2] * 3 + KS_STATUS)) for t in ts]
    own = samples()
    store = [(name, own)] + [(o, samples()) for o in other_names]
    if case['order']:
        store.sort()
    else:
        store.sort(reverse=True)
    ks['store'], ks['queries'] = store, []
    keep = np.array([rng.random() < 0.7 for _ in range(T)]) if case['select'] else np.ones(T, dtype=bool)

    def read(cache):
        try:
            return np.asarray(cache[name]), None
        except Exception as e:   # noqa: BLE001
            return None, type(e).__name__
    got, gerr = read(SensorCache({}, dumps, period, keep=keep, store=f"127.0.0.1:{ks['port']}"))
    lo, hi = dumps[0] - period - 600, dumps[-1] + period + 60
    mine = [r for r in own if lo <= r[0] <= hi]
    if other_names:
        tags.add('ks-foreign-records')
    if mine:
        ref_getter = RecordSensorGetter(np.rec.fromrecords(mine, names='timestamp,value,status'), name)
        exp, eerr = read(SensorCache({name: ref_getter}, dumps, period, keep=keep))
    else:
        exp, eerr = None, 'KeyError'
        tags.add('ks-no-records')
    if not any(st in ('nominal', 'warn', 'error') for _, _, st in mine):
        tags.add('ks-all-unreadable')
    if (gerr or eerr) and gerr != eerr:
        return (f"sensor {name} fetched from the sensor store ({len(other_names)} other sensor(s) matching the pattern): "
                f"{'raised ' + gerr if gerr else 'returned ' + str(got[:6].tolist())}; a cache holding the sensor's own "
                f"{len(mine)} record(s) {'raises ' + eerr if eerr else 'gives ' + str(exp[:6].tolist())}"), tags
    if gerr is None and (got.shape != exp.shape or not np.array_equal(got, exp, equal_nan=True)):
        return (f"sensor {name} fetched from the sensor store ({len(other_names)} other sensor(s) matching the pattern, "
                f"{other_names}) reads {got[:8].tolist()}; a cache holding the sensor's own {len(mine)} record(s) reads "
                f"{exp[:8].tolist()}"), tags
    return None, tags


def eval_dv(ctx, cases):
    bad = []
    for c in cases:
        if c['kind'] == 'ks':
            logging.disable(logging.CRITICAL)
            try:
                v, tags = run_ks(c)
            finally:
                logging.disable(logging.NOTSET)
            if ctx is not None:
                ctx.tag(*sorted(tags))
                ctx.count(('ks', c['seed']), True, sample={'ks': c['seed'], 'T': c['T'], 'others': c['others']})
            if v:
                bad.append((c, v))
            continue
        v, tags = run_dv(c)
        if ctx is not None:
            ctx.tag(*sorted(tags))
            ctx.count(('dv', c['seed'], tuple(c['order'])), True, sample={'dv': c['order'][:3], 'T': c['T']})
        if v:
            bad.append((c, v))
    return bad


# ------------------------------------------------------------------------------------------------
# shrinking

def fails_like(case, what):
    key = what.split(':')[0] if what.startswith(('inplace-offset', 'dummy-nonnumeric')) else None
    try:
        bad = evaluate(None, [case], count=False)
    except Exception:   # noqa: BLE001
        return None
    if not bad:
        return None
    w = bad[0][1]
    if key is not None and not w.startswith(key):
        return None
    if key is None and w.startswith(('inplace-offset', 'dummy-nonnumeric')):
        return None
    return w


def shrink(case, what):
    if case['kind'] == 'ks':
        for others in range(0, case['others']):
            cand = dict(case, others=others)
            v, _ = run_ks(cand)
            if v:
                return cand, v
        return case, what
    if case['kind'] == 'dv':
        cur = copy.deepcopy(case)
        for n in range(1, len(cur['order']) + 1):
            cand = dict(cur, order=cur['order'][:n])
            v, _ = run_dv(cand)
            if v:
                return cand, v
        return case, what
    if case['kind'] == 'clean':
        cur = copy.deepcopy(case)
        samples = common.ddmin(cur['getter']['samples'],
                               lambda ss: fails_like(dict(cur, getter=dict(cur['getter'], samples=ss)), what) is not None)
        cur['getter']['samples'] = samples
        return cur, fails_like(cur, what) or what
    cur = copy.deepcopy(case)
    cur['restore'] = False     # make the in-place symptom a verdict of the case, not a side note

    def ok(c):
        return fails_like(c, what) is not None
    if not ok(cur):
        return case, what
    # ops: cut after the failing one, then delta-debug
    for n in range(1, len(cur['ops']) + 1):
        cand = dict(cur, ops=cur['ops'][:n])
        if ok(cand):
            cur = cand
            break
    if len(cur['ops']) > 1:
        ops = common.ddmin(cur['ops'], lambda o: ok(dict(cur, ops=o)))
        cur = dict(cur, ops=ops)
    # constructor aliases, default properties, samples
    for a in list(cur.get('aliases', [])):
        cand = dict(cur, aliases=[x for x in cur['aliases'] if x != a])
        if ok(cand):
            cur = cand
    for pi in range(len(cur['parts'])):
        for field in ('props',):
            for item in list(cur['parts'][pi][field]):
                cand = copy.deepcopy(cur)
                cand['parts'][pi][field] = [x for x in cand['parts'][pi][field] if x != item]
                if cur['kind'] == 'c':
                    cand['cprops'] = [x for x in cand['cprops'] if x != item]
                if ok(cand):
                    cur = cand
        for gi in range(len(cur['parts'][pi]['getters'])):
            samples = cur['parts'][pi]['getters'][gi]['samples']
            if len(samples) > 1:
                def with_samples(ss, pi=pi, gi=gi):
                    cand = copy.deepcopy(cur)
                    cand['parts'][pi]['getters'][gi]['samples'] = ss
                    return cand
                best = common.ddmin(samples, lambda ss: ok(with_samples(ss)))
                if len(best) < len(samples):
                    cur = with_samples(best)
    # names, virtual templates and getters nothing refers to any more
    for pi in range(len(cur['parts'])):
        for entry in list(cur['parts'][pi]['raw']):
            cand = copy.deepcopy(cur)
            cand['parts'][pi]['raw'] = [x for x in cand['parts'][pi]['raw'] if x != entry]
            if ok(cand):
                cur = cand
        for v in list(cur['parts'][pi]['virt']):
            cand = copy.deepcopy(cur)
            cand['parts'][pi]['virt'] = [x for x in cand['parts'][pi]['virt'] if x != v]
            if ok(cand):
                cur = cand
        used = set(i for _, i in cur['parts'][pi]['raw']) | set(op[2] for op in cur['ops'] if op[0] == 'setg')
        for gi, g in enumerate(cur['parts'][pi]['getters']):
            if gi not in used and g['samples']:
                cand = copy.deepcopy(cur)
                cand['parts'][pi]['getters'][gi]['samples'] = []
                if ok(cand):
                    cur = cand
    # keyword properties of the remaining ops
    for oi, op in enumerate(cur['ops']):
        if op[0] == 'get' and op[4]:
            for key in list(op[4]):
                cand = copy.deepcopy(cur)
                del cand['ops'][oi][4][key]
                if ok(cand):
                    cur = cand
    return cur, fails_like(cur, what) or what


# ------------------------------------------------------------------------------------------------
# known findings

def m_inplace_offset(case, what):
    """time_offset is added to the getter's own timestamp array (`sensor_data.timestamp += time_offset`):
    recognised only when the harness has identified the symptom as exactly that (raw arrays shifted uniformly by
    the offset, or the values the in-place model predicts) in a case that does use a non-zero time_offset"""
    return what.startswith('inplace-offset:') and case.get('kind') in ('s', 'c') and has_offset(case)


def m_dummy_string(case, what):
    """dummy_sensor_getter uses np.string_ (removed in numpy 2): AttributeError instead of the documented dummy value
    of a str / bool / object sensor without usable samples"""
    return what.startswith('dummy-nonnumeric:') and 'AttributeError' in what and 'string_' in what


def m_target_coords(case, what):
    """_calc_target_coords flipped over-the-top pointings in place on the cached az / el (ra / dec) arrays"""
    return (case.get('kind') == 'dv' and case.get('over') and 'changed the cached sensor' in what
            and 'target_' in what.split(' changed')[0])


def register(ctx):
    ctx.matchers['c12_target_coords_alter_pointing_sensors'] = m_target_coords
    ctx.matchers['c12_time_offset_applied_in_place'] = m_inplace_offset
    ctx.matchers['c12_dummy_np_string_removed'] = m_dummy_string


def corpus_cases():
    d = os.path.join(common.VERIF, 'corpus', 'C12')
    out = []
    if os.path.isdir(d):
        for nm in sorted(os.listdir(d)):
            out.append(json.load(open(os.path.join(d, nm)))['case'])
    return out


def run(ctx):
    register(ctx)
    build = common.build_and_audit('C12', ctx.tier)
    n_single = ctx.q(2400, 60000)
    n_concat = ctx.q(900, 20000)
    n_clean = ctx.q(700, 20000)
    glue_interp(ctx, ctx.q(100, 2000))
    corpus = corpus_cases()
    cases = [c for c in corpus if c.get('kind') not in ('dv', 'ks')]
    cases += [gen_single(ctx.rng) for _ in range(n_single)]
    cases += [gen_concat(ctx.rng) for _ in range(n_concat)]
    cases += [gen_clean_case(ctx.rng) for _ in range(n_clean)]
    bad = evaluate(ctx, cases)
    bad += eval_dv(ctx, [c for c in corpus if c.get('kind') in ('dv', 'ks')] +
                   [gen_dv(ctx.rng) for _ in range(ctx.q(60, 1500))] +
                   [gen_ks(ctx.rng) for _ in range(ctx.q(60, 1500))])
    if not build['build_ok'] and not any(True for c, w in bad):
        more = [gen_single(ctx.rng) for _ in range(5 * n_single)] + [gen_concat(ctx.rng) for _ in range(3 * n_concat)]
        bad += evaluate(ctx, more)
    for c, w in bad:
        ctx.violation(c, w)
    ctx.assumptions = ['np.interp on strictly increasing knots has the meaning of Sensor.interp (glue cases)',
                       'dump timestamps are positive and increasing (UTC seconds), all numbers dyadic',
                       'katpoint.deg2rad / Timestamp.to_mjd are evaluated by katpoint (opaque)',
                       'categorical sensors: plain rule only; requests the model rejects (no sample before the end of '
                       'the last dump, non-numeric np.interp) are outside this property']
    return common.finish(ctx, build, RULE, CHECKER, TRUSTED, shrink=shrink)


def replay(ctx, rep):
    register(ctx)
    build = common.build_and_audit('C12', 'quick')
    if rep['case'].get('kind') in ('dv', 'ks'):
        for c, w in eval_dv(ctx, [rep['case']]):
            ctx.violation(c, w)
        return common.finish(ctx, build, RULE, CHECKER, TRUSTED)
    for c, w in evaluate(ctx, [rep['case']]):
        ctx.violation(c, w)
    return common.finish(ctx, build, RULE, CHECKER, TRUSTED)
