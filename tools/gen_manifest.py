#!/venv/bin/python
"""Write MANIFEST.json from the table below (kept in one place so the file is always valid)."""
import json
import os

HERE = os.path.dirname(os.path.dirname(os.path.abspath(__file__)))



def load():
    claimed = {}
    d = os.path.join(HERE, 'claims')
    for nm in sorted(os.listdir(d)):
        if nm.endswith('.json'):
            claimed[nm[:-5]] = json.load(open(os.path.join(d, nm)))
    na_path = os.path.join(HERE, 'claims', 'not_applicable.txt')
    reasons = {}
    if os.path.exists(na_path):
        for line in open(na_path):
            if line.strip() and not line.startswith('#'):
                pid, reason = line.strip().split(' ', 1)
                reasons[pid] = reason
    pending = ('check not built yet (the property is within reach of the technique; see DESIGN.md section 4)')
    not_claimed = {f'C{n:02d}': reasons.get(f'C{n:02d}', pending) for n in range(1, 21) if f'C{n:02d}' not in claimed}
    return claimed, not_claimed


def main():
    claimed, not_claimed = load()
    checks = []
    for pid in sorted(claimed):
        c = claimed[pid]
        checks.append({
            'property_id': pid,
            'quick_cmd': f'./check {pid} quick',
            'thorough_cmd': f'./check {pid} thorough',
            'evidence_file': f'evidence/{pid}.json',
            'replay_cmd_template': f'./check {pid} --replay {{path}}',
            'engine': 'lean-proof+correspondence',
            'level_claimed': {'category': 'proof', 'text': c['text'], 'design_ref': c['design_ref']},
            'level_note': c['note'],
            'technique': c['technique'],
        })
    manifest = {
        'version': 1,
        'setup_cmd': 'bash tools/setup.sh',
        'hooks': {
            'guard': 'KATDAL_VERIF',
            'enable': 'no source hooks are needed: checks import /repo (editable install) in-process; KATDAL_VERIF=1 is '
                      'exported by ./check but nothing in /repo reads it',
            'baseline_off_cmd': 'cd /repo && /venv/bin/python -m pytest -ra -q -p no:cacheprovider --timeout=900 '
                                '--continue-on-collection-errors',
            'source_commits': [],
            'add_only': True,
        },
        'engines': [{
            'name': 'lean-proof+correspondence',
            'path': 'check',
            'serves_properties': sorted(claimed),
            'kind_free_text': 'Lean 4 theorems about hand-written executable models (lean/KatdalModel), tied to /repo on '
                              'every run by a differential correspondence harness (harness/) driving the real code and '
                              'the compiled model drivers (lean/Driver) with the same seeded cases',
        }],
        'checks': checks,
        'notes': 'See DESIGN.md. known_findings.json lists genuine defects (fixed ones with their fix: commit).',
        'not_applicable': [{'property_id': k, 'reason': v} for k, v in sorted(not_claimed.items())],
    }
    with open(os.path.join(HERE, 'MANIFEST.json'), 'w') as fh:
        json.dump(manifest, fh, indent=1)
    print(f'MANIFEST.json: {len(checks)} checks, {len(not_claimed)} not claimed')


if __name__ == '__main__':
    main()
