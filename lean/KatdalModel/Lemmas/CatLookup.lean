/-
  C11 lemmas, part 1: indexing and comparison of a `Cat` against its explicit per-dump list.
-/
import KatdalModel.Lemmas.CatBasic
open Np

namespace Categorical

set_option linter.unusedSimpArgs false
set_option linter.unusedSectionVars false

variable {V : Type} [DecidableEq V]

theorem expand_map {α β : Type} (f : α → β) : ∀ (ev : List Nat) (vals : List α),
    (expand ev vals).map f = expand ev (vals.map f) := by
  intro ev
  induction ev with
  | nil => intro vals; simp [expand]
  | cons a t ih =>
    intro vals
    cases t with
    | nil => simp [expand]
    | cons b u =>
      cases vals with
      | nil => simp [expand]
      | cons v vs =>
        simp only [expand, List.map_append, List.map_replicate, List.map_cons]
        rw [ih]

theorem getLastD_cons_cons {α : Type} (a b d : α) (t : List α) : (a :: b :: t).getLastD d = (b :: t).getLastD d := by
  simp [List.getLastD]

theorem sorted_head_le_last : ∀ (u : List Nat) (b : Nat), (b :: u).Pairwise (· ≤ ·) → b ≤ (b :: u).getLastD 0 := by
  intro u
  induction u with
  | nil => intro b _; simp [List.getLastD]
  | cons c w ih =>
    intro b hs
    have hs' := List.pairwise_cons.mp hs
    rw [getLastD_cons_cons]
    have := ih c hs'.2
    have := hs'.1 c (List.mem_cons_self ..)
    omega

theorem expand_length {α : Type} : ∀ (ev : List Nat) (vals : List α), ev.length = vals.length + 1 →
    ev.Pairwise (· ≤ ·) → (expand ev vals).length = ev.getLastD 0 - ev.headD 0 := by
  intro ev
  induction ev with
  | nil => intro vals h; simp at h
  | cons a t ih =>
    intro vals h hs
    cases t with
    | nil => simp [expand]
    | cons b u =>
      cases vals with
      | nil => simp at h
      | cons v vs =>
        have hs' := List.pairwise_cons.mp hs
        have hab : a ≤ b := hs'.1 b (List.mem_cons_self ..)
        have hlast : b ≤ (b :: u).getLastD 0 := sorted_head_le_last u b hs'.2
        simp only [expand, List.length_append, List.length_replicate]
        rw [ih vs (by simpa using h) hs'.2]
        have e1 : (a :: b :: u).getLastD 0 = (b :: u).getLastD 0 := getLastD_cons_cons ..
        simp only [e1, List.headD_cons]
        omega

/-- the per-dump list of indices into `uniq` -/
def Cat.perDumpIdx (c : Cat V) : List (Option Nat) :=
  List.replicate (c.ev.headD 0) none ++ expand c.ev (c.idx.map some)

theorem perDump_eq_idx (c : Cat V) :
    c.perDump = c.perDumpIdx.map (fun o => o.bind (fun i => c.uniq[i]?)) := by
  simp only [Cat.perDump, Cat.perDumpIdx, Cat.values, List.map_append, List.map_replicate, expand_map,
    List.map_map, Option.bind]
  rfl

/-- pointwise content of the written-out segments: dump `d ≥ a` carries the value of the last
    boundary at or before `d` -/
theorem expand_getElem? {α : Type} : ∀ (rest : List Nat) (a : Nat) (vals : List α) (d : Nat),
    rest.length = vals.length → (a :: rest).Pairwise (· ≤ ·) → a ≤ d →
    (expand (a :: rest) vals)[d - a]? = vals[(rest.takeWhile (fun e => decide (e ≤ d))).length]? := by
  intro rest
  induction rest with
  | nil =>
    intro a vals d h _ _
    cases vals with
    | nil => simp [expand]
    | cons v vs => simp at h
  | cons b t ih =>
    intro a vals d h hs had
    cases vals with
    | nil => simp at h
    | cons v vs =>
      have hs' := List.pairwise_cons.mp hs
      have hab : a ≤ b := hs'.1 b (List.mem_cons_self ..)
      simp only [expand]
      by_cases hdb : d < b
      · have hnb : ¬ b ≤ d := by omega
        simp only [List.takeWhile_cons, hnb, decide_false, Bool.false_eq_true, if_false, List.length_nil,
          List.getElem?_cons_zero]
        rw [List.getElem?_append_left (by simp; omega)]
        rw [List.getElem?_replicate]
        have : d - a < b - a := by omega
        simp [this]
      · have hbd : b ≤ d := by omega
        simp only [List.takeWhile_cons, hbd, decide_true, if_true, List.length_cons, List.getElem?_cons_succ]
        rw [List.getElem?_append_right (by simp; omega)]
        simp only [List.length_replicate]
        have : d - a - (b - a) = d - b := by omega
        rw [this]
        exact ih b vs d (by simpa using h) hs'.2 hbd

theorem strictInc_pairwise : ∀ (l : List Nat), strictIncNat l = true → l.Pairwise (· < ·) := by
  intro l
  induction l with
  | nil => intro _; simp
  | cons a t ih =>
    intro h
    cases t with
    | nil => simp
    | cons b u =>
      simp only [strictIncNat, Bool.and_eq_true, decide_eq_true_eq] at h
      have iht := ih h.2
      refine List.pairwise_cons.mpr ⟨?_, iht⟩
      intro x hx
      rcases List.mem_cons.mp hx with rfl | hx
      · exact h.1
      · have := (List.pairwise_cons.mp iht).1 x hx; omega

theorem WF.sorted {c : Cat V} (h : c.WF) : c.ev.Pairwise (· ≤ ·) :=
  (strictInc_pairwise _ h.1).imp (fun h => Nat.le_of_lt h)

/-- **`_lookup` reads the per-dump list**: for a well-formed series, looking up dump `d` gives the
    index stored for `d` in the per-dump list and raises IndexError exactly where the list has no
    entry (before the first event, at or after the number of dumps). -/
theorem lookup1_perDumpIdx (c : Cat V) (h : c.WF) (d : Nat) :
    c.lookup1 (d : Int) = match c.perDumpIdx[d]? with
      | some (some i) => .ok i
      | _ => .error .index := by
  obtain ⟨hs, hlen, _, _⟩ := h
  have hsorted : c.ev.Pairwise (· ≤ ·) := (strictInc_pairwise _ hs).imp (fun h => Nat.le_of_lt h)
  cases hev : c.ev with
  | nil => rw [hev] at hlen; simp at hlen
  | cons a rest =>
    have hrl : rest.length = c.idx.length := by rw [hev] at hlen; simpa using hlen
    have hcast : ∀ (l : List Nat), l.takeWhile (fun (e : Nat) => decide ((e : Int) ≤ (d : Int))) =
        l.takeWhile (fun e => decide (e ≤ d)) := by
      intro l; congr 1; funext e; simp
    simp only [Cat.lookup1, Cat.perDumpIdx, hev, hcast, List.headD_cons]
    by_cases had : a ≤ d
    · simp only [List.takeWhile_cons, had, decide_true, if_true, List.length_cons]
      rw [List.getElem?_append_right (by simp; exact had)]
      simp only [List.length_replicate]
      rw [hev] at hsorted
      rw [expand_getElem? rest a (c.idx.map some) d (by simpa using hrl) hsorted had]
      simp only [Nat.add_sub_cancel, Nat.succ_ne_zero, false_or, List.getElem?_map]
      by_cases hk : c.idx.length ≤ (rest.takeWhile (fun e => decide (e ≤ d))).length
      · simp [hk, List.getElem?_eq_none hk]
      · have hk' : (rest.takeWhile (fun e => decide (e ≤ d))).length < c.idx.length := by omega
        simp [hk, getNat, List.getElem?_eq_getElem hk']
    · have : ¬ a ≤ d := had
      simp only [List.takeWhile_cons, this, decide_false, Bool.false_eq_true, if_false, List.length_nil, true_or,
        if_true]
      rw [List.getElem?_append_left (by simp; omega)]
      rw [List.getElem?_replicate]
      have : d < a := by omega
      simp [this]

/-! ### indexing against the explicit per-dump list -/

/-- entry `d` of an explicit per-dump list (IndexError where the list has no value) -/
def pickDump (pd : List (Option V)) (d : Int) : Except Err V :=
  if d < 0 then .error .index else
  match pd[d.toNat]? with
  | some (some v) => .ok v
  | _ => .error .index

def pickMany (pd : List (Option V)) : List Int → Except Err (List V)
  | [] => pure []
  | d :: t => do
    let v ← pickDump pd d
    let r ← pickMany pd t
    pure (v :: r)

/-- **Spec of `__getitem__`**: the answer read off the explicit per-dump list `pd` -/
def specGetitem (pd : List (Option V)) : Key → Except Err (Got V)
  | .int i => do let v ← pickDump pd i; pure (.one v)
  | .slice a b st =>
    match sliceList pd.length a b st with
    | none => .error .value
    | some l => do let vs ← pickMany pd l; pure (.many vs)
  | .mask m =>
    let dumps : List Int := if m.length = pd.length then (nonzero m).map Int.ofNat
      else m.map (fun b => if b then 1 else 0)
    do let vs ← pickMany pd dumps; pure (.many vs)
  | .list l => do let vs ← pickMany pd l; pure (.many vs)

theorem perDump_length (c : Cat V) (h : c.WF) : c.perDump.length = c.numDumps := by
  obtain ⟨hs, hlen, _, _⟩ := h
  have hsorted : c.ev.Pairwise (· ≤ ·) := (strictInc_pairwise _ hs).imp (fun h => Nat.le_of_lt h)
  simp only [Cat.perDump, List.length_append, List.length_replicate, Cat.numDumps]
  rw [expand_length c.ev c.values (by simp [Cat.values, hlen]) hsorted]
  cases hev : c.ev with
  | nil => rw [hev] at hlen; simp at hlen
  | cons a rest =>
    have := sorted_head_le_last rest a (by rw [hev] at hsorted; exact hsorted)
    simp only [List.headD_cons]
    omega

theorem lookup1_mem (c : Cat V) (d : Int) (i : Nat) (h : c.lookup1 d = .ok i) : i ∈ c.idx := by
  simp only [Cat.lookup1] at h
  split at h
  · simp at h
  · simp only [getNat] at h
    split at h
    · rename_i v hv
      simp only [Except.ok.injEq] at h
      subst h
      exact List.mem_of_getElem? hv
    · simp at h

theorem lookup1_neg (c : Cat V) (d : Int) (hd : d < 0) : c.lookup1 d = .error .index := by
  have : c.ev.takeWhile (fun (e : Nat) => decide ((e : Int) ≤ d)) = [] := by
    cases hev : c.ev with
    | nil => rfl
    | cons a t =>
      have : ¬ ((a : Int) ≤ d) := by omega
      simp [List.takeWhile_cons, this]
  simp [Cat.lookup1, this]

/-- one dump: `unique_values[_lookup(d)]` is entry `d` of the per-dump list -/
theorem lookup_value (c : Cat V) (h : c.WF) (d : Int) :
    (do let k ← c.lookup1 d; getNat c.uniq k) = pickDump c.perDump d := by
  by_cases hd : d < 0
  · simp [lookup1_neg c d hd, pickDump, hd, bind, Except.bind]
  · obtain ⟨n, rfl⟩ : ∃ n : Nat, d = (n : Int) := ⟨d.toNat, by omega⟩
    have hl := lookup1_perDumpIdx c h n
    simp only [pickDump, hd, if_false, Int.toNat_natCast]
    rw [perDump_eq_idx, List.getElem?_map]
    cases hpi : c.perDumpIdx[n]? with
    | none => simp [hpi] at hl ⊢; simp [hl, bind, Except.bind]
    | some o =>
      cases o with
      | none => simp [hpi] at hl ⊢; simp [hl, bind, Except.bind]
      | some i =>
        simp only [hpi] at hl
        have hmem := lookup1_mem c _ i hl
        have hlt : i < c.uniq.length := h.2.2.1 i hmem
        simp [hl, bind, Except.bind, getNat, List.getElem?_eq_getElem hlt]

theorem lookupMany_values (c : Cat V) (h : c.WF) : ∀ (l : List Int),
    (do let ks ← c.lookupMany l; valuesAt c ks) = pickMany c.perDump l := by
  intro l
  induction l with
  | nil => rfl
  | cons d t ih =>
    have h1 := lookup_value c h d
    simp only [Cat.lookupMany, pickMany]
    cases hk : c.lookup1 d with
    | error e =>
      rw [hk] at h1
      simp only [bind, Except.bind] at h1 ⊢
      rw [← h1]
    | ok k =>
      rw [hk] at h1
      simp only [bind, Except.bind] at h1 ih ⊢
      have hlt : k < c.uniq.length := h.2.2.1 k (lookup1_mem c d k hk)
      have hg : getNat c.uniq k = .ok (c.uniq[k]'hlt) := by simp [getNat, List.getElem?_eq_getElem hlt]
      rw [hg] at h1
      rw [← h1]
      simp only
      rw [← ih]
      cases hr : c.lookupMany t with
      | error e => rfl
      | ok r =>
        simp only [pure, Except.pure, valuesAt, hg, bind, Except.bind]

theorem numDumps_getLast? (c : Cat V) (h : c.WF) : c.ev.getLast? = some c.numDumps := by
  cases hev : c.ev with
  | nil => have := h.2.1; rw [hev] at this; simp at this
  | cons a t =>
    simp only [Cat.numDumps, hev, List.getLastD_eq_getLast?]
    rw [List.getLast?_eq_getLast (l := a :: t) (by simp)]
    rfl

/-- **Indexing by integer, slice, mask or list gives the same answers as the explicit per-dump
    list**, for every well-formed series and every key (IndexError exactly where the per-dump
    list has no value: before the first event, past the end, negative dump numbers). -/
theorem getitem_perDump (c : Cat V) (h : c.WF) (key : Key) :
    c.getitem key = specGetitem c.perDump key := by
  have hN := numDumps_getLast? c h
  have hlen := perDump_length c h
  cases key with
  | int i =>
    have := lookup_value c h i
    simp only [Cat.getitem, specGetitem]
    simp only [bind, Except.bind] at this ⊢
    rw [← this]
    cases c.lookup1 i with
    | error e => rfl
    | ok k => rfl
  | slice a b st =>
    simp only [Cat.getitem, specGetitem, hN, hlen]
    cases sliceList c.numDumps a b st with
    | none => rfl
    | some l =>
      have := lookupMany_values c h l
      simp only [bind, Except.bind] at this ⊢
      rw [← this]
      cases c.lookupMany l with
      | error e => rfl
      | ok ks => rfl
  | mask m =>
    simp only [Cat.getitem, specGetitem, hN, hlen]
    have := lookupMany_values c h (if m.length = c.numDumps then (nonzero m).map Int.ofNat
      else m.map (fun b => if b then 1 else 0))
    simp only [bind, Except.bind] at this ⊢
    rw [← this]
    cases c.lookupMany _ with
    | error e => rfl
    | ok ks => rfl
  | list l =>
    simp only [Cat.getitem, specGetitem]
    have := lookupMany_values c h l
    simp only [bind, Except.bind] at this ⊢
    rw [← this]
    cases c.lookupMany l with
    | error e => rfl
    | ok ks => rfl

/-- **Comparison operators answer dump by dump on the explicit per-dump list** (every series) -/
theorem cmp_perDump (c : Cat V) (p : V → Bool) :
    c.cmpPerDump p = c.perDump.map (fun o => o.map p) := by
  simp only [Cat.cmpPerDump, Cat.perDump, Cat.values, List.map_append, List.map_replicate, expand_map,
    List.map_map, Option.map_none]
  congr 2
  apply List.map_congr_left
  intro i _
  simp [List.getElem?_map]

end Categorical
