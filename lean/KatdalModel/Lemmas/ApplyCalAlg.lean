/-
  Algebraic half of C13: in a commutative scalar algebra with a multiplicative conjugation
  `(∏ a_p) · conj (∏ b_p) = ∏ (a_p · conj b_p)`, products do not depend on the order of the
  cal products, and `Scalar K` (K a field with an involutive ring conjugation) is such an algebra
  in which correcting with the reciprocal gains undoes the corruption exactly.
-/
import Mathlib.Algebra.Star.Basic
import Mathlib.Tactic.Ring
import Mathlib.Tactic.FieldSimp
import KatdalModel.Lemmas.ApplyCalCompose
open Np

namespace ApplyCal

variable {S F : Type}

/-- The laws the composition theorem needs. -/
structure CAlg.Lawful (A : CAlg S F) : Prop where
  mul_comm : ∀ a b, A.mul a b = A.mul b a
  mul_assoc : ∀ a b c, A.mul (A.mul a b) c = A.mul a (A.mul b c)
  one_mul : ∀ a, A.mul A.one a = a
  conj_mul : ∀ a b, A.conj (A.mul a b) = A.mul (A.conj a) (A.conj b)
  conj_one : A.conj A.one = A.one

namespace CAlg.Lawful
variable {A : CAlg S F} (L : A.Lawful)
include L

theorem mul_one (a : S) : A.mul a A.one = a := by rw [L.mul_comm, L.one_mul]

/-- `(a·x)·conj(b·y) = (a·conj b)·(x·conj y)` -/
theorem interchange (a x b y : S) :
    A.mul (A.mul a x) (A.conj (A.mul b y)) = A.mul (A.mul a (A.conj b)) (A.mul x (A.conj y)) := by
  rw [L.conj_mul, L.mul_assoc, L.mul_assoc]
  congr 1
  rw [← L.mul_assoc, ← L.mul_assoc, L.mul_comm x]

theorem right_comm (b x y : S) : A.mul (A.mul b x) y = A.mul (A.mul b y) x := by
  rw [L.mul_assoc, L.mul_assoc, L.mul_comm x]

end CAlg.Lawful

/-- fold of the split form equals fold of the paired form -/
theorem fold_split (A : CAlg S F) (L : A.Lawful) {P : Type} (x y : P → S) :
    ∀ (ps : List P) (a b : S),
      A.mul (ps.foldl (fun acc p => A.mul acc (x p)) a) (A.conj (ps.foldl (fun acc p => A.mul acc (y p)) b))
        = ps.foldl (fun acc p => A.mul acc (A.mul (x p) (A.conj (y p)))) (A.mul a (A.conj b))
  | [], _, _ => rfl
  | p :: ps, a, b => by
    simp only [List.foldl_cons]
    rw [fold_split A L x y ps, L.interchange]

/-- **the code's `g₁ · conj g₂` is the product over the cal products of `c(in₁) · conj c(in₂)`** -/
theorem gIn_mul_conj (A : CAlg S F) (L : A.Lawful) (prods : List (Product S)) (i1 i2 t f : Nat) :
    A.mul (gIn A prods i1 t f) (A.conj (gIn A prods i2 t f)) = specFactor A prods i1 i2 t f := by
  unfold gIn specFactor
  rw [fold_split A L (fun p => corrAt A p i1 t f) (fun p => corrAt A p i2 t f), L.conj_one, L.mul_one]

theorem mirrorRow_eq_specRow (A : CAlg S F) (L : A.Lawful) (P : Params S) (t f : Nat) :
    mirrorRow A P t f = specRow A P t f := by
  unfold mirrorRow specRow
  apply List.map_congr_left
  intro ab _
  exact gIn_mul_conj A L P.prods ab.1 ab.2 t f

theorem mirrorArray_eq_specArray (A : CAlg S F) (L : A.Lawful) (P : Params S) (t0 t1 f0 f1 : Nat) :
    mirrorArray A P t0 t1 f0 f1 = specArray A P t0 t1 f0 f1 := by
  unfold mirrorArray specArray
  simp only [mirrorRow_eq_specRow A L]

/-- a product over a list does not depend on the order of the list -/
theorem foldl_perm (A : CAlg S F) (L : A.Lawful) {P : Type} (z : P → S) {l₁ l₂ : List P}
    (h : l₁.Perm l₂) : ∀ b, l₁.foldl (fun acc p => A.mul acc (z p)) b = l₂.foldl (fun acc p => A.mul acc (z p)) b := by
  induction h with
  | nil => intro b; rfl
  | cons x _ ih => intro b; simp only [List.foldl_cons]; exact ih _
  | swap x y l => intro b; simp only [List.foldl_cons]; rw [L.right_comm]
  | trans _ _ ih1 ih2 => intro b; rw [ih1, ih2]

theorem specFactor_perm (A : CAlg S F) (L : A.Lawful) {ps qs : List (Product S)} (h : ps.Perm qs)
    (i1 i2 t f : Nat) : specFactor A ps i1 i2 t f = specFactor A qs i1 i2 t f :=
  foldl_perm A L (fun p => A.mul (corrAt A p i1 t f) (A.conj (corrAt A p i2 t f))) h A.one

/-! ### `Scalar K` -/

section field
variable {K : Type} [Field K] [StarRing K] [DecidableEq K] [Zero F]

/-- the exact algebra over a field with conjugation `star` -/
def fieldOps (o : KOps K F) : KOps K F := { o with star := star }

theorem scalar_lawful (o : KOps K F) : (Scalar.alg (fieldOps o)).Lawful where
  mul_comm := by
    intro a b
    cases a <;> cases b <;> simp [Scalar.alg, Scalar.mul, mul_comm]
  mul_assoc := by
    intro a b c
    cases a <;> cases b <;> cases c <;> simp [Scalar.alg, Scalar.mul, mul_assoc]
  one_mul := by
    intro a
    cases a <;> simp [Scalar.alg, Scalar.mul]
  conj_mul := by
    intro a b
    cases a <;> cases b <;> simp [Scalar.alg, Scalar.mul, Scalar.map, fieldOps, star_mul']
  conj_one := by
    simp [Scalar.alg, Scalar.map, fieldOps]

/-- corruption of a visibility by per-input gains `(g₁, g₂)` of several effects -/
def corruptBy (v : K) (gs : List (K × K)) : K := gs.foldl (fun acc g => acc * (g.1 * star g.2)) v

/-- the factor built from the reciprocal gains, in the same order -/
def inverseFactor (gs : List (K × K)) : K := gs.foldl (fun acc g => acc * (g.1⁻¹ * star g.2⁻¹)) 1

omit [DecidableEq K] in
theorem corrupt_inverse (gs : List (K × K)) (h : ∀ g ∈ gs, g.1 ≠ 0 ∧ g.2 ≠ 0) :
    ∀ v c : K, gs.foldl (fun acc g => acc * (g.1 * star g.2)) v
        * gs.foldl (fun acc g => acc * (g.1⁻¹ * star g.2⁻¹)) c = v * c := by
  induction gs with
  | nil => intro v c; rfl
  | cons g gs ih =>
    intro v c
    simp only [List.foldl_cons]
    rw [ih (fun g' hg' => h g' (List.mem_cons_of_mem _ hg'))]
    obtain ⟨h1, h2⟩ := h g (List.mem_cons_self ..)
    have h2' : star g.2 ≠ 0 := by simpa using h2
    rw [star_inv₀]
    field_simp

end field

end ApplyCal
