/-
  C15 helper lemmas that need only core Lean: `mapME`/`zipME` pointwise, the autocorrelation
  lookup, `weight_power_scale` structure, chunk splitting.
-/
import KatdalModel.Model.Weights
open Np

namespace Weights

/-! ### mapME / zipME -/

theorem mapME_ok {α β} {f : α → Except Err β} : ∀ {l : List α} {r : List β}, mapME f l = .ok r →
    r.length = l.length ∧ ∀ (i : Nat) x, l[i]? = some x → ∃ y, r[i]? = some y ∧ f x = .ok y := by
  intro l
  induction l with
  | nil =>
    intro r h
    simp [mapME] at h
    subst h
    simp
  | cons a t ih =>
    intro r h
    unfold mapME at h
    cases hfa : f a with
    | error e => simp [hfa] at h
    | ok b =>
      cases ht : mapME f t with
      | error e => simp [hfa, ht] at h
      | ok rt =>
        simp [hfa, ht] at h
        subst h
        obtain ⟨hl, hp⟩ := ih ht
        refine ⟨by simp [hl], ?_⟩
        intro i x hx
        cases i with
        | zero =>
          simp at hx
          subst hx
          exact ⟨b, by simp, hfa⟩
        | succ j =>
          simp at hx
          obtain ⟨y, hy, hf⟩ := hp j x hx
          exact ⟨y, by simpa using hy, hf⟩

theorem mapME_total {α β} {f : α → Except Err β} : ∀ {l : List α}, (∀ x ∈ l, ∃ y, f x = .ok y) →
    ∃ r, mapME f l = .ok r := by
  intro l
  induction l with
  | nil => intro _; exact ⟨[], rfl⟩
  | cons a t ih =>
    intro h
    obtain ⟨b, hb⟩ := h a (List.mem_cons_self ..)
    obtain ⟨r, hr⟩ := ih (fun x hx => h x (List.mem_cons_of_mem _ hx))
    exact ⟨b :: r, by simp [mapME, hb, hr]⟩

theorem mapME_error {α β} {f : α → Except Err β} {e : Err} : ∀ {l : List α}, mapME f l = .error e →
    ∃ x ∈ l, f x = .error e := by
  intro l
  induction l with
  | nil => intro h; simp [mapME] at h
  | cons a t ih =>
    intro h
    unfold mapME at h
    cases hfa : f a with
    | error e' =>
      simp [hfa] at h
      subst h
      exact ⟨a, List.mem_cons_self .., hfa⟩
    | ok b =>
      cases ht : mapME f t with
      | error e' =>
        simp [hfa, ht] at h
        subst h
        obtain ⟨x, hx, hf⟩ := ih ht
        exact ⟨x, List.mem_cons_of_mem _ hx, hf⟩
      | ok rt => simp [hfa, ht] at h

theorem zipME_ok {α β γ} {f : α → β → Except Err γ} : ∀ {l : List α} {m : List β} {r : List γ},
    zipME f l m = .ok r →
    r.length = l.length ∧ m.length = l.length ∧
      ∀ (i : Nat) x y, l[i]? = some x → m[i]? = some y → ∃ z, r[i]? = some z ∧ f x y = .ok z := by
  intro l
  induction l with
  | nil =>
    intro m r h
    cases m with
    | nil => simp [zipME] at h; subst h; simp
    | cons b u => simp [zipME] at h
  | cons a t ih =>
    intro m r h
    cases m with
    | nil => simp [zipME] at h
    | cons b u =>
      unfold zipME at h
      cases hfa : f a b with
      | error e => simp [hfa] at h
      | ok c =>
        cases ht : zipME f t u with
        | error e => simp [hfa, ht] at h
        | ok rt =>
          simp [hfa, ht] at h
          subst h
          obtain ⟨h1, h2, hp⟩ := ih ht
          refine ⟨by simp [h1], by simp [h2], ?_⟩
          intro i x y hx hy
          cases i with
          | zero =>
            simp at hx hy
            subst hx; subst hy
            exact ⟨c, by simp, hfa⟩
          | succ j =>
            simp at hx hy
            obtain ⟨z, hz, hf⟩ := hp j x y hx hy
            exact ⟨z, by simpa using hz, hf⟩

theorem zipME_total {α β γ} {f : α → β → Except Err γ} : ∀ {l : List α} {m : List β},
    l.length = m.length → (∀ (i : Nat) x y, l[i]? = some x → m[i]? = some y → ∃ z, f x y = .ok z) →
    ∃ r, zipME f l m = .ok r := by
  intro l
  induction l with
  | nil =>
    intro m hl _
    cases m with
    | nil => exact ⟨[], rfl⟩
    | cons b u => simp at hl
  | cons a t ih =>
    intro m hl h
    cases m with
    | nil => simp at hl
    | cons b u =>
      obtain ⟨c, hc⟩ := h 0 a b (by simp) (by simp)
      obtain ⟨r, hr⟩ := ih (m := u) (by simpa using hl)
        (fun i x y hx hy => h (i + 1) x y (by simpa using hx) (by simpa using hy))
      exact ⟨c :: r, by simp [zipME, hc, hr]⟩

theorem getNat_ok {α} {l : List α} {i : Nat} {v : α} : getNat l i = .ok v ↔ l[i]? = some v := by
  unfold getNat
  cases h : l[i]? <;> simp

theorem getNat_of_lt {α} {l : List α} {i : Nat} (h : i < l.length) : getNat l i = .ok l[i] := by
  rw [getNat_ok]; simp [h]

/-! ### corrprod_to_autocorr -/

section lookup
variable {α : Type} [DecidableEq α]

theorem autosFrom_mem : ∀ (cps : List (α × α)) (i : Nat) (l : α) (p : Nat),
    (l, p) ∈ autosFrom i cps → i ≤ p ∧ cps[p - i]? = some (l, l) := by
  intro cps
  induction cps with
  | nil => intro i l p h; simp [autosFrom] at h
  | cons hd t ih =>
    intro i l p h
    obtain ⟨a, b⟩ := hd
    unfold autosFrom at h
    split at h
    · rename_i hab
      simp at h
      rcases h with ⟨rfl, rfl⟩ | h
      · subst hab; simp
      · obtain ⟨h1, h2⟩ := ih (i + 1) l p h
        refine ⟨by omega, ?_⟩
        have : p - i = (p - (i + 1)) + 1 := by omega
        rw [this]; simpa using h2
    · obtain ⟨h1, h2⟩ := ih (i + 1) l p h
      refine ⟨by omega, ?_⟩
      have : p - i = (p - (i + 1)) + 1 := by omega
      rw [this]; simpa using h2

theorem autosFrom_complete : ∀ (cps : List (α × α)) (i j : Nat) (a : α),
    cps[j]? = some (a, a) → (a, i + j) ∈ autosFrom i cps := by
  intro cps
  induction cps with
  | nil => intro i j a h; simp at h
  | cons hd t ih =>
    intro i j a h
    obtain ⟨x, y⟩ := hd
    cases j with
    | zero =>
      simp at h
      obtain ⟨rfl, rfl⟩ := h
      simp [autosFrom]
    | succ k =>
      simp at h
      have := ih (i + 1) k a h
      have e : i + (k + 1) = i + 1 + k := by omega
      unfold autosFrom
      split
      · rw [e]; exact List.mem_cons_of_mem _ this
      · rw [e]; exact this

/-- positions in `autosFrom` are strictly increasing -/
theorem autosFrom_sorted : ∀ (cps : List (α × α)) (i : Nat),
    List.Pairwise (· < ·) ((autosFrom i cps).map (·.2)) := by
  intro cps
  induction cps with
  | nil => intro i; simp [autosFrom]
  | cons hd t ih =>
    intro i
    obtain ⟨a, b⟩ := hd
    unfold autosFrom
    split
    · simp only [List.map_cons, List.pairwise_cons]
      refine ⟨?_, ih (i + 1)⟩
      intro p hp
      simp at hp
      obtain ⟨l, hl⟩ := hp
      have := (autosFrom_mem t (i + 1) l p hl).1
      omega
    · exact ih (i + 1)

theorem lookupFrom_some : ∀ (autos : List (α × Nat)) (a : α) (k r : Nat),
    lookupFrom a k autos = some r → k ≤ r ∧ ∃ p, autos[r - k]? = some (a, p) := by
  intro autos
  induction autos with
  | nil => intro a k r h; simp [lookupFrom] at h
  | cons hd t ih =>
    intro a k r h
    obtain ⟨l, p⟩ := hd
    unfold lookupFrom at h
    cases ht : lookupFrom a (k + 1) t with
    | some r' =>
      simp [ht] at h
      subst h
      obtain ⟨h1, q, h2⟩ := ih a (k + 1) r' ht
      refine ⟨by omega, q, ?_⟩
      have : r' - k = (r' - (k + 1)) + 1 := by omega
      rw [this]; simpa using h2
    | none =>
      simp [ht] at h
      obtain ⟨rfl, rfl⟩ := h
      exact ⟨Nat.le_refl _, p, by simp⟩

theorem lookupFrom_none : ∀ (autos : List (α × Nat)) (a : α) (k : Nat),
    lookupFrom a k autos = none ↔ ∀ q ∈ autos, q.1 ≠ a := by
  intro autos
  induction autos with
  | nil => intro a k; simp [lookupFrom]
  | cons hd t ih =>
    intro a k
    obtain ⟨l, p⟩ := hd
    unfold lookupFrom
    cases ht : lookupFrom a (k + 1) t with
    | some r' =>
      simp only [reduceCtorEq, false_iff]
      intro hall
      have : ∀ q ∈ t, q.1 ≠ a := fun q hq => hall q (List.mem_cons_of_mem _ hq)
      rw [← ih a (k + 1)] at this
      rw [this] at ht
      cases ht
    | none =>
      have ht' := (ih a (k + 1)).1 ht
      by_cases hl : l = a
      · simp [hl]
      · simp only [hl, if_false, true_iff]
        intro q hq
        simp at hq
        rcases hq with rfl | hq
        · exact hl
        · exact ht' q hq

theorem lookupKey_ok {autos : List (α × Nat)} {a : α} {k : Nat} (h : lookupKey autos a = .ok k) :
    ∃ p, autos[k]? = some (a, p) := by
  unfold lookupKey at h
  cases hl : lookupFrom a 0 autos with
  | none => simp [hl] at h
  | some r =>
    simp [hl] at h
    subst h
    obtain ⟨_, p, hp⟩ := lookupFrom_some autos a 0 r hl
    exact ⟨p, by simpa using hp⟩

theorem lookupKey_error {autos : List (α × Nat)} {a : α} {e : Err} (h : lookupKey autos a = .error e) :
    e = .key ∧ ∀ q ∈ autos, q.1 ≠ a := by
  unfold lookupKey at h
  cases hl : lookupFrom a 0 autos with
  | none =>
    simp [hl] at h
    exact ⟨h.symm, (lookupFrom_none autos a 0).1 hl⟩
  | some r => simp [hl] at h

theorem lookupKey_total {autos : List (α × Nat)} {a : α} (h : ∃ q ∈ autos, q.1 = a) :
    ∃ k, lookupKey autos a = .ok k := by
  unfold lookupKey
  cases hl : lookupFrom a 0 autos with
  | none =>
    obtain ⟨q, hq, hqa⟩ := h
    exact absurd hqa ((lookupFrom_none autos a 0).1 hl q hq)
  | some r => exact ⟨r, rfl⟩

theorem autoPos_ok {cps : List (α × α)} {a : α} {p : Nat} (h : autoPos cps a = .ok p) :
    cps[p]? = some (a, a) := by
  unfold autoPos at h
  cases hf : cps.findIdx? (fun p => p.1 = a ∧ p.2 = a) with
  | none => simp only [hf] at h; cases h
  | some q =>
    simp only [hf, Except.ok.injEq] at h
    subst h
    rw [List.findIdx?_eq_some_iff_getElem] at hf
    obtain ⟨hlt, hp, _⟩ := hf
    simp only [decide_eq_true_eq] at hp
    rw [List.getElem?_eq_getElem hlt]
    congr 1
    exact Prod.ext hp.1 hp.2

theorem autoPos_error {cps : List (α × α)} {a : α} {e : Err} (h : autoPos cps a = .error e) :
    e = .key ∧ ∀ p : Nat, cps[p]? ≠ some (a, a) := by
  unfold autoPos at h
  cases hf : cps.findIdx? (fun p => p.1 = a ∧ p.2 = a) with
  | some q => simp only [hf] at h; cases h
  | none =>
    simp only [hf, Except.error.injEq] at h
    refine ⟨h.symm, ?_⟩
    intro p hp
    rw [List.findIdx?_eq_none_iff] at hf
    have := hf (a, a) (List.mem_of_getElem? hp)
    simp at this

end lookup

/-! ### weight_power_scale -/

section wps
variable {K : Type} [Zero K] [One K] [Mul K] [Div K] [LT K] [DecidableEq K] [DecidableLT K]

/-- the per-element computation of `scaleRow` is the scalar kernel applied to the two
    autocorrelations found through `auto_indices[index1[k]]`, `auto_indices[index2[k]]` -/
theorem scaleRow_structure (bad : K) (divide : Bool) (ai i1 i2 : List Nat) (visRe wRow out : List (Scalar K))
    (h : scaleRow bad divide ai i1 i2 visRe wRow = .ok out) :
    out.length = visRe.length ∧
    ∀ (k j1 j2 p1 p2 : Nat) (a1 a2 w : Scalar K), k < visRe.length →
      i1[k]? = some j1 → i2[k]? = some j2 → ai[j1]? = some p1 → ai[j2]? = some p2 →
      visRe[p1]? = some a1 → visRe[p2]? = some a2 → wRow[k]? = some w →
      out[k]? = some (kernelImpl bad divide a1 a2 w) := by
  unfold scaleRow at h
  cases hs : mapME (autoScaleAt divide visRe) ai with
  | error e => simp [hs] at h
  | ok autoScale =>
    simp only [hs] at h
    obtain ⟨hl, hp⟩ := mapME_ok h
    obtain ⟨_, hsp⟩ := mapME_ok hs
    refine ⟨by simpa using hl, ?_⟩
    intro k j1 j2 p1 p2 a1 a2 w hk hi1 hi2 ha1 ha2 hv1 hv2 hw
    obtain ⟨y, hy, hf⟩ := hp k k (List.getElem?_range hk)
    obtain ⟨s1, hs1, hf1⟩ := hsp j1 p1 ha1
    obtain ⟨s2, hs2, hf2⟩ := hsp j2 p2 ha2
    unfold autoScaleAt at hf1 hf2
    rw [getNat_ok.2 hv1] at hf1
    rw [getNat_ok.2 hv2] at hf2
    simp only [Except.ok.injEq] at hf1 hf2
    unfold scaleElem at hf
    rw [getNat_ok.2 hi1, getNat_ok.2 hi2, getNat_ok.2 hw] at hf
    simp only [getNat_ok.2 hs1, getNat_ok.2 hs2, Except.ok.injEq] at hf
    rw [hy, ← hf, ← hf1, ← hf2]
    rfl

/-- `scaleRow` cannot fail when every index is in range -/
theorem scaleRow_total (bad : K) (divide : Bool) (ai i1 i2 : List Nat) (visRe wRow : List (Scalar K))
    (hai : ∀ p ∈ ai, p < visRe.length) (h1 : i1.length = visRe.length) (h2 : i2.length = visRe.length)
    (hw : wRow.length = visRe.length) (hj1 : ∀ j ∈ i1, j < ai.length) (hj2 : ∀ j ∈ i2, j < ai.length) :
    ∃ out, scaleRow bad divide ai i1 i2 visRe wRow = .ok out := by
  unfold scaleRow
  obtain ⟨autoScale, hs⟩ := mapME_total (f := autoScaleAt divide visRe) (l := ai) (by
    intro p hp
    unfold autoScaleAt
    rw [getNat_of_lt (hai p hp)]
    exact ⟨_, rfl⟩)
  rw [hs]
  have hlen : autoScale.length = ai.length := (mapME_ok hs).1
  apply mapME_total
  intro k hk
  have hk' : k < visRe.length := by simpa using hk
  have e1 := getNat_of_lt (l := i1) (i := k) (by omega)
  have e2 := getNat_of_lt (l := i2) (i := k) (by omega)
  have e3 := getNat_of_lt (l := wRow) (i := k) (by omega)
  have b1 : i1[k] < autoScale.length := by rw [hlen]; exact hj1 _ (List.getElem_mem _)
  have b2 : i2[k] < autoScale.length := by rw [hlen]; exact hj2 _ (List.getElem_mem _)
  unfold scaleElem
  rw [e1, e2, e3]
  simp only [getNat_of_lt b1, getNat_of_lt b2]
  exact ⟨_, rfl⟩

/-- the spec row, element by element: documented kernel on autocorrelations found by label -/
theorem weightsRowSpec_get {α} [DecidableEq α] (bad : K) (divide : Bool) (cps : List (α × α))
    (visRe wRow out : List (Scalar K)) (h : weightsRowSpec bad divide cps visRe wRow = .ok out) :
    out.length = cps.length ∧ wRow.length = cps.length ∧
    ∀ (b : Nat) (x y : α) (w : Scalar K), cps[b]? = some (x, y) → wRow[b]? = some w →
      ∃ (p1 p2 : Nat) (a1 a2 : Scalar K), cps[p1]? = some (x, x) ∧ cps[p2]? = some (y, y) ∧
        visRe[p1]? = some a1 ∧ visRe[p2]? = some a2 ∧ out[b]? = some (kernelSpec bad divide a1 a2 w) := by
  unfold weightsRowSpec at h
  obtain ⟨h1, h2, hp⟩ := zipME_ok h
  refine ⟨h1, h2, ?_⟩
  intro b x y w hb hw
  obtain ⟨z, hz, hf⟩ := hp b (x, y) w hb hw
  unfold weightsElemSpec at hf
  cases hp1 : autoPos cps x with
  | error e => simp [hp1] at hf
  | ok p1 =>
    cases hp2 : autoPos cps y with
    | error e => simp [hp1, hp2] at hf
    | ok p2 =>
      simp only [hp1, hp2] at hf
      cases hv1 : getNat visRe p1 with
      | error e => simp [hv1] at hf
      | ok a1 =>
        cases hv2 : getNat visRe p2 with
        | error e => simp [hv1, hv2] at hf
        | ok a2 =>
          simp only [hv1, hv2, Except.ok.injEq] at hf
          subst hf
          exact ⟨p1, p2, a1, a2, autoPos_ok hp1, autoPos_ok hp2, getNat_ok.1 hv1, getNat_ok.1 hv2, hz⟩

end wps

/-! ### Van Vleck application -/

section vv
variable {K : Type} [Zero K] [Add K] [Sub K] [Mul K] [Div K] [LT K] [LE K] [DecidableLT K] [DecidableLE K]

theorem vanVleckApply_spec (tbl : List (K × K)) (row : List (Cx (Scalar K))) :
    ∀ (ps : List Nat) (out0 out : List (Cx (Scalar K))), out0.length = row.length →
      vanVleckApply tbl row ps out0 = .ok out →
      out.length = row.length ∧
      ∀ b : Nat, (b ∉ ps → out[b]? = out0[b]?) ∧
        (b ∈ ps → ∃ v y, row[b]? = some v ∧ interpS tbl v.re = .ok y ∧ out[b]? = some ⟨y, .val 0⟩) := by
  intro ps
  induction ps with
  | nil =>
    intro out0 out hl h
    simp [vanVleckApply] at h
    subst h
    exact ⟨hl, fun b => ⟨fun _ => rfl, fun hb => by simp at hb⟩⟩
  | cons p ps ih =>
    intro out0 out hl h
    unfold vanVleckApply at h
    cases hr : row[p]? with
    | none => simp [hr] at h
    | some v =>
      cases hi : interpS tbl v.re with
      | error e => simp [hr, hi] at h
      | ok y =>
        simp only [hr, hi] at h
        have hl1 : (out0.set p ⟨y, .val 0⟩).length = row.length := by simp [hl]
        obtain ⟨hlen, hall⟩ := ih _ out hl1 h
        refine ⟨hlen, ?_⟩
        intro b
        have hp : p < row.length := by
          have := List.getElem?_eq_some_iff.1 hr
          exact this.1
        constructor
        · intro hb
          have hbp : b ≠ p := fun e => hb (by simp [e])
          have hbps : b ∉ ps := fun e => hb (List.mem_cons_of_mem _ e)
          rw [(hall b).1 hbps, List.getElem?_set]
          simp [Ne.symm hbp]
        · intro hb
          by_cases hbps : b ∈ ps
          · exact (hall b).2 hbps
          · have hbp : b = p := by
              simp at hb
              rcases hb with hb | hb
              · exact hb
              · exact absurd hb hbps
            subst hbp
            refine ⟨v, y, hr, hi, ?_⟩
            rw [(hall b).1 hbps, List.getElem?_set]
            simp [hl, hp]

end vv

/-! ### chunk splitting -/

theorem flatten_splitBy {α} : ∀ (sizes : List Nat) (l : List α), sizes.sum = l.length →
    (splitBy sizes l).flatten = l := by
  intro sizes
  induction sizes with
  | nil =>
    intro l h
    simp at h
    have : l = [] := List.length_eq_zero_iff.mp h.symm
    subst this
    simp [splitBy]
  | cons n ns ih =>
    intro l h
    simp only [splitBy, List.flatten_cons]
    rw [ih (l.drop n) (by simp at h ⊢; omega)]
    exact List.take_append_drop n l

end Weights
