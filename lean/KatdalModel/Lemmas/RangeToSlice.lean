/-
  `_range_to_slice` is sound: the slice it returns selects exactly the given list.
-/
import KatdalModel.Lemmas.Range
import KatdalModel.Model.DaskIndexer
open Np Index DaskIx

namespace DaskIx

/-- all consecutive differences of `x :: t` equal `d` -/
def evenly (d : Int) : Int → List Int → Prop
  | _, [] => True
  | x, y :: t => y - x = d ∧ evenly d y t

theorem evenly_of_diff (d : Int) : ∀ (x : Int) (t : List Int),
    (∀ v ∈ diff (x :: t), v = d) → evenly d x t := by
  intro x t
  induction t generalizing x with
  | nil => intro _; trivial
  | cons y t ih =>
    intro h
    simp only [diff, List.mem_cons] at h
    exact ⟨h _ (Or.inl rfl), ih y (fun v hv => h v (Or.inr hv))⟩

theorem getLastD_cons_cons (x y : Int) (t : List Int) :
    (x :: y :: t).getLastD x = (y :: t).getLastD y := by
  simp [List.getLastD]

theorem evenly_last_ge {d : Int} (hd : 0 < d) : ∀ (x : Int) (t : List Int),
    evenly d x t → x ≤ (x :: t).getLastD x := by
  intro x t
  induction t generalizing x with
  | nil => intro _; simp [List.getLastD]
  | cons y t ih =>
    intro h
    obtain ⟨h1, h2⟩ := h
    have := ih y h2
    rw [getLastD_cons_cons]
    omega

theorem evenly_last_le {d : Int} (hd : d < 0) : ∀ (x : Int) (t : List Int),
    evenly d x t → (x :: t).getLastD x ≤ x := by
  intro x t
  induction t generalizing x with
  | nil => intro _; simp [List.getLastD]
  | cons y t ih =>
    intro h
    obtain ⟨h1, h2⟩ := h
    have := ih y h2
    rw [getLastD_cons_cons]
    omega

/-- positive step: any stop in `(last, last + d]` reproduces the list -/
theorem rangeList_evenly_pos {d : Int} (hd : 0 < d) : ∀ (t : List Int) (x e : Int),
    evenly d x t → (x :: t).getLastD x < e → e ≤ (x :: t).getLastD x + d →
    rangeList x e d = x :: t := by
  intro t
  induction t with
  | nil =>
    intro x e _ h1 h2
    simp [List.getLastD] at h1 h2
    rw [rangeList_pos_cons hd h1, rangeList_pos_nil hd (by omega)]
  | cons y t ih =>
    intro x e h h1 h2
    obtain ⟨hxy, ht⟩ := h
    rw [getLastD_cons_cons] at h1 h2
    have hge := evenly_last_ge hd y t ht
    rw [rangeList_pos_cons hd (by omega)]
    have : x + d = y := by omega
    rw [this, ih y e ht h1 h2]

/-- negative step: any stop in `[last + d, last)` reproduces the list -/
theorem rangeList_evenly_neg {d : Int} (hd : d < 0) : ∀ (t : List Int) (x e : Int),
    evenly d x t → e < (x :: t).getLastD x → (x :: t).getLastD x + d ≤ e →
    rangeList x e d = x :: t := by
  intro t
  induction t with
  | nil =>
    intro x e _ h1 h2
    simp [List.getLastD] at h1 h2
    rw [rangeList_neg_cons hd h1, rangeList_neg_nil hd (by omega)]
  | cons y t ih =>
    intro x e h h1 h2
    obtain ⟨hxy, ht⟩ := h
    rw [getLastD_cons_cons] at h1 h2
    have hle := evenly_last_le hd y t ht
    rw [rangeList_neg_cons hd (by omega)]
    have : x + d = y := by omega
    rw [this, ih y e ht h1 h2]

theorem getLastD_mem (x : Int) (t : List Int) : (x :: t).getLastD x ∈ x :: t := by
  induction t generalizing x with
  | nil => simp [List.getLastD]
  | cons y t ih =>
    rw [getLastD_cons_cons]
    exact List.mem_cons_of_mem _ (ih y)

/-- **_range_to_slice is sound**: if it returns a slice, then on every axis long enough to
    contain the list that slice selects exactly the list. -/
theorem rangeToSlice_sound (n : Nat) (l : List Int) (a b c : Option Int)
    (h : rangeToSlice l = .ok (a, b, c)) (hn : ∀ x ∈ l, x < n) :
    sliceList n a b c = some l := by
  unfold rangeToSlice at h
  cases l with
  | nil =>
    simp at h
    obtain ⟨rfl, rfl, rfl⟩ := h
    simp [sliceList, sliceIndices]
    rw [rangeList_pos_nil] <;> omega
  | cons x t =>
    simp only at h
    split at h
    · simp at h
    · rename_i hneg
      have hnonneg : ∀ v ∈ x :: t, 0 ≤ v := by
        intro v hv
        have : ¬ (v < 0) := by
          intro hlt
          apply hneg
          simp only [List.any_eq_true, decide_eq_true_eq]
          exact ⟨v, hv, hlt⟩
        omega
      have hx0 : 0 ≤ x := hnonneg x (List.mem_cons_self ..)
      have hxn : x < n := hn x (List.mem_cons_self ..)
      split at h
      · -- single element
        rename_i hdiff
        have ht : t = [] := by
          cases t with
          | nil => rfl
          | cons y t => simp [diff] at hdiff
        subst ht
        simp at h
        obtain ⟨rfl, rfl, rfl⟩ := h
        simp only [sliceList, sliceIndices, Option.getD_some, Option.map]
        have h1 : ¬ ((1 : Int) = 0) := by omega
        have h2 : ¬ ((1 : Int) < 0) := by omega
        have h3 : ¬ (x < 0) := by omega
        have h4 : ¬ (x > (n : Int)) := by omega
        have h5 : ¬ (x + 1 < 0) := by omega
        have h6 : ¬ (x + 1 > (n : Int)) := by omega
        simp only [h1, h2, h3, h4, h5, h6, if_false]
        rw [rangeList_pos_cons (by omega) (by omega), rangeList_pos_nil (by omega) (by omega)]
      · rename_i d ds hdiff
        split at h
        · simp at h
        · rename_i hok
          have hd0 : d ≠ 0 := fun h0 => hok (Or.inl h0)
          have hds : ∀ v ∈ ds, v = d := by
            intro v hv
            apply Classical.byContradiction
            intro hne
            apply hok
            right
            simp only [List.any_eq_true, decide_eq_true_eq]
            exact ⟨v, hv, hne⟩
          have hall : ∀ v ∈ diff (x :: t), v = d := by
            intro v hv
            rw [hdiff] at hv
            simp at hv
            rcases hv with rfl | hv
            · rfl
            · exact hds v hv
          have hev := evenly_of_diff d x t hall
          have hlast_mem := getLastD_mem x t
          have hl0 := hnonneg _ hlast_mem
          have hln := hn _ hlast_mem
          simp only [Except.ok.injEq, Prod.mk.injEq] at h
          obtain ⟨rfl, hb, rfl⟩ := h
          by_cases hpos : 0 < d
          · -- ascending
            have hge := evenly_last_ge hpos x t hev
            have hstop : (x :: t).getLastD x + d ≥ 0 := by omega
            simp only [hstop, if_true] at hb
            subst hb
            simp only [sliceList, sliceIndices, Option.getD_some, Option.map]
            have h1 : ¬ (d = 0) := hd0
            have h2 : ¬ (d < 0) := by omega
            have h3 : ¬ (x < 0) := by omega
            have h4 : ¬ (x > (n : Int)) := by omega
            have h5 : ¬ ((x :: t).getLastD x + d < 0) := by omega
            simp only [h1, h2, h3, h4, h5, if_false]
            congr 1
            split
            · exact rangeList_evenly_pos hpos t x _ hev (by omega) (by omega)
            · exact rangeList_evenly_pos hpos t x _ hev (by omega) (by omega)
          · -- descending
            have hneg' : d < 0 := by omega
            have hle := evenly_last_le hneg' x t hev
            simp only [sliceList, sliceIndices, Option.getD_some, Option.map]
            have h1 : ¬ (d = 0) := hd0
            have h3 : ¬ (x < 0) := by omega
            have h4 : ¬ (x > (n : Int) - 1) := by omega
            simp only [h1, hneg', h3, h4, if_false, if_true]
            congr 1
            by_cases hstop : (x :: t).getLastD x + d ≥ 0
            · simp only [hstop, if_true] at hb
              subst hb
              have h5 : ¬ ((x :: t).getLastD x + d < 0) := by omega
              have h6 : ¬ ((x :: t).getLastD x + d > (n : Int) - 1) := by omega
              simp only [h5, h6, if_false]
              exact rangeList_evenly_neg hneg' t x _ hev (by omega) (by omega)
            · simp only [hstop, if_false] at hb
              subst hb
              simp only
              exact rangeList_evenly_neg hneg' t x _ hev (by omega) (by omega)

end DaskIx
