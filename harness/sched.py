"""Controlled scheduler for real Python threads (property C20).

Worker threads run the real katdal code, but only one of them runs at any time: every worker parks
at each *yield point* and waits for the scheduler (the main thread) to hand it the baton again.

Yield points
  * every `line` event in a traced code object (sys.monitoring LINE events enabled on exactly those
    code objects where available, i.e. CPython >= 3.12, otherwise sys.settrace): by default the
    methods of the anchored classes, in `fine` mode every function of the anchored files;
  * a failed `acquire` of an instrumented lock (the worker is then *blocked* and is not scheduled
    again before the lock is free).

Instrumented locks (`ILock`) replace the objects' `_lock` attributes, so the scheduler knows owner
and recursion depth, never schedules a blocked thread and recognises deadlock (unfinished threads,
none enabled).

A run is fully determined by the sequence of scheduling choices (`schedule` = list of worker
indices, one per step), hence replayable.  `explore` enumerates schedules depth-first with a
preemption bound (a preemption = switching away from a worker that could have continued).

Nothing here decides what a violation is; a hung worker raises `SchedBroken` (the check exits 2).
"""
import _thread
import sys
import threading


_MON = getattr(sys, 'monitoring', None)
_CURRENT = None          # the scheduler whose run is in progress (one at a time per process)
_TOOL = None
_INSTALLED = set()


def _line_event(code, line):
    s = _CURRENT
    if s is None:
        return None
    w = s.by_ident.get(threading.get_ident())
    if w is None or w.state != 'running' or s.abort:
        return None          # (while a run is being abandoned the workers unwind without parking)
    w.park(sys._getframe(1))
    return None


def _mon_install(codes):
    global _TOOL
    if _TOOL is None:
        for tid in (_MON.DEBUGGER_ID, _MON.PROFILER_ID, _MON.OPTIMIZER_ID, 3, 4):
            if _MON.get_tool(tid) is None:
                _MON.use_tool_id(tid, 'katdal-verif-c20')
                _TOOL = tid
                break
        else:
            raise SchedBroken('no free sys.monitoring tool id')
        _MON.register_callback(_TOOL, _MON.events.LINE, _line_event)
    for c in codes:
        if c not in _INSTALLED:
            _MON.set_local_events(_TOOL, c, _MON.events.LINE)
            _INSTALLED.add(c)


def mon_remove():
    """switch the line events off again (they are left on between runs: re-instrumenting is slow)"""
    if _TOOL is not None:
        for c in list(_INSTALLED):
            _MON.set_local_events(_TOOL, c, 0)
        _INSTALLED.clear()


def codes_in_files(files):
    """all code objects (functions, methods, nested functions) defined in the given source files"""
    out, seen = [], set()

    def add(code):
        if code in seen:
            return
        seen.add(code)
        out.append(code)
        for k in code.co_consts:
            if hasattr(k, 'co_code'):
                add(k)
    files = set(files)
    for mod in list(sys.modules.values()):
        if getattr(mod, '__file__', None) not in files:
            continue
        for v in list(vars(mod).values()):
            objs = [v]
            if isinstance(v, type) and getattr(v, '__module__', None) == mod.__name__:
                objs = list(vars(v).values())
            for o in objs:
                o = getattr(o, 'fget', o)
                o = getattr(o, '__func__', o)
                o = getattr(o, '__wrapped__', o)
                code = getattr(o, '__code__', None)
                if code is not None and code.co_filename in files:
                    add(code)
    return out


class SchedBroken(Exception):
    """The scheduler itself failed (time-out, nondeterministic replay, runaway run)."""


class _Abort(BaseException):
    """Raised inside parked workers to unwind them when a run is abandoned."""


class ILock:
    """Instrumented Lock / RLock; semantics of threading.Lock / threading.RLock for managed workers."""

    def __init__(self, sched, reentrant, name=''):
        self.sched = sched
        self.reentrant = reentrant
        self.name = name
        self.owner = None       # worker index
        self.count = 0
        self.acquisitions = 0

    def _me(self):
        w = self.sched.worker_of_current_thread()
        if w is None:
            raise SchedBroken(f'instrumented lock {self.name!r} used by an unmanaged thread')
        return w

    def available_to(self, idx):
        return self.owner is None or (self.reentrant and self.owner == idx)

    def acquire(self, blocking=True, timeout=-1):
        w = self._me()
        while True:
            if self.available_to(w.idx):
                self.owner = w.idx
                self.count += 1
                self.acquisitions += 1
                return True
            if not blocking:
                return False
            w.blocked_on = self
            try:
                f = sys._getframe(1)
                while f is not None and f.f_code.co_filename == __file__:
                    f = f.f_back
                w.park(f)
            finally:
                w.blocked_on = None

    def release(self):
        w = self._me()
        if self.owner != w.idx or self.count <= 0:
            raise RuntimeError('cannot release un-acquired lock')
        self.count -= 1
        if self.count == 0:
            self.owner = None

    def __enter__(self):
        self.acquire()
        return self

    def __exit__(self, *exc):
        self.release()
        return False

    def locked(self):
        return self.owner is not None


class Worker:
    def __init__(self, sched, idx, fn):
        self.sched, self.idx, self.fn = sched, idx, fn
        # binary batons (raw locks, initially held): `go` is released by the scheduler to let this worker
        # run up to its next yield point, `back` is released by the worker when it has got there
        self.go = _thread.allocate_lock()
        self.go.acquire()
        self.back = _thread.allocate_lock()
        self.back.acquire()
        self.state = 'new'        # new | running | parked | done
        self.frame = None         # innermost frame at the current yield point
        self.blocked_on = None
        self.result = None
        self.exc = None
        self.steps = 0
        self.aborted = False
        self.thread = threading.Thread(target=self._run, name=f'c20-worker-{idx}', daemon=True)

    def _run(self):
        sched = self.sched
        sched.by_ident[threading.get_ident()] = self
        self.go.acquire()
        try:
            if sched.abort:
                raise _Abort()
            self.state = 'running'
            if _MON is None:
                sys.settrace(self._trace)
            try:
                self.result = self.fn()
            finally:
                if _MON is None:
                    sys.settrace(None)
        except _Abort:
            self.exc = None
            self.aborted = True
        except BaseException as e:   # noqa: BLE001 - recording what the real code raised is the point
            self.exc = e
        finally:
            self.state = 'done'
            self.frame = None
            sched.by_ident.pop(threading.get_ident(), None)
            self.back.release()

    def park(self, frame):
        sched = self.sched
        if sched.abort:
            raise _Abort()
        self.frame = frame
        self.state = 'parked'
        self.back.release()
        self.go.acquire()
        self.state = 'running'
        if sched.abort:
            raise _Abort()

    def _trace(self, frame, event, arg):
        if event == 'call':
            return self._trace if self.sched.is_traced(frame.f_code) else None
        if event == 'line' and not self.sched.abort:
            self.park(frame)
        return self._trace

    def frames(self):
        """Frames of this (parked) worker, innermost first."""
        f = self.frame
        while f is not None:
            yield f
            f = f.f_back


class Scheduler:
    def __init__(self, files=(), codes=(), fine=False, timeout=30.0, max_steps=4000):
        self.files = set(files)
        self.codes = set(codes)
        self.fine = fine
        self.timeout = timeout
        self.max_steps = max_steps
        self.by_ident = {}
        self.workers = []
        self.abort = False
        self.locks = []

    # -- configuration ---------------------------------------------------------------------------
    def is_traced(self, code):
        if code in self.codes:
            return True
        return self.fine and code.co_filename in self.files

    def make_lock(self, reentrant=False, name=''):
        lk = ILock(self, reentrant, name)
        self.locks.append(lk)
        return lk

    def worker_of_current_thread(self):
        return self.by_ident.get(threading.get_ident())

    # -- one run ------------------------------------------------------------------------------------
    def blocked(self, w):
        lk = w.blocked_on
        return lk is not None and not lk.available_to(w.idx)

    def run(self, fns, chooser, observe=None):
        """Run `fns` (one callable per worker) under `chooser(step, current, enabled) -> idx`.

        Returns dict(schedule, trace, results, excs, deadlock).  `observe(sched, t)` is called in the
        scheduler thread after every step while all workers are parked."""
        global _CURRENT
        self.workers = [Worker(self, i, fn) for i, fn in enumerate(fns)]
        self.abort = False
        if _MON is not None:
            if _CURRENT is not None:
                raise SchedBroken('two controlled runs at the same time')
            codes = set(self.codes)
            if self.fine:
                codes |= set(codes_in_files(self.files))
            stale = _INSTALLED - codes
            if stale:
                mon_remove()
            _mon_install(codes)
            _CURRENT = self
        for w in self.workers:
            w.thread.start()
        schedule, trace = [], []
        deadlock = False
        blocked = []
        cur = None
        try:
            if observe is not None:
                trace.append((0, observe(self, None)))
            while True:
                unfinished = [w for w in self.workers if w.state != 'done']
                if not unfinished:
                    break
                enabled = [w.idx for w in unfinished if not self.blocked(w)]
                if not enabled:
                    deadlock = True
                    blocked = [(w.idx, w.blocked_on.name, f'held by {w.blocked_on.owner}') for w in unfinished]
                    break
                t = chooser(len(schedule), cur if cur in enabled else None, enabled)
                if t not in enabled:
                    raise SchedBroken(f'schedule names worker {t}, enabled are {enabled} (replay diverged)')
                schedule.append(t)
                w = self.workers[t]
                w.steps += 1
                w.go.release()
                if not w.back.acquire(timeout=self.timeout):
                    raise SchedBroken(f'worker {t} did not reach a yield point within {self.timeout}s')
                cur = t
                if observe is not None:
                    trace.append((t, observe(self, t)))
                if len(schedule) > self.max_steps:
                    raise SchedBroken(f'run exceeded {self.max_steps} steps')
        finally:
            self._cleanup()
        return dict(schedule=schedule, trace=trace, deadlock=deadlock,
                    results=[w.result for w in self.workers], excs=[w.exc for w in self.workers],
                    blocked=blocked)

    def _cleanup(self):
        global _CURRENT
        self.abort = True
        alive = [w for w in self.workers if w.state != 'done']
        for w in alive:
            w.go.release()
        for w in alive:
            w.thread.join(self.timeout)
            if w.thread.is_alive():
                raise SchedBroken(f'worker {w.idx} could not be unwound')
        for w in self.workers:
            w.frame = None
        if _MON is not None:
            _CURRENT = None


# ------------------------------------------------------------------------------------- exploration

def fixed_chooser(schedule, tail='continue'):
    """Follow `schedule`; afterwards keep the current worker if possible, else the lowest enabled."""
    def choose(step, cur, enabled):
        if step < len(schedule) and schedule[step] in enabled:
            return schedule[step]
        if step < len(schedule) and tail == 'strict':
            raise SchedBroken(f'replay diverged at step {step}: {schedule[step]} not in {enabled}')
        return cur if cur is not None else enabled[0]
    return choose


def explore(run_once, bound, max_runs, rotate=0):
    """Depth-first enumeration of all schedules with at most `bound` preemptions.

    `run_once(chooser)` performs one run and returns its result; results are yielded.  The
    generator's return value (StopIteration.value) is True when the tree was exhausted."""
    stack = []       # decision points: [options, index]
    runs = 0
    while runs < max_runs:
        pos = [0]
        pre = [0]

        def chooser(step, cur, enabled):
            i = pos[0]
            pos[0] += 1
            if i < len(stack):
                opts, k = stack[i]
                choice = opts[k]
            else:
                if cur is not None:
                    others = [o for o in enabled if o != cur]
                    if rotate and others:
                        r = rotate % len(others)
                        others = others[r:] + others[:r]
                    opts = [cur] + (others if pre[0] < bound else [])
                else:
                    opts = list(enabled)
                stack.append([opts, 0])
                choice = opts[0]
            if cur is not None and choice != cur:
                pre[0] += 1
            return choice

        res = run_once(chooser)
        runs += 1
        yield res
        del stack[pos[0]:]
        while stack and stack[-1][1] + 1 >= len(stack[-1][0]):
            stack.pop()
        if not stack:
            return True
        stack[-1][1] += 1
    return False


def plan_chooser(plan):
    """`plan` = {step index: worker to switch to}; otherwise continue / lowest enabled."""
    def choose(step, cur, enabled):
        want = plan.get(step)
        if want is not None and want in enabled:
            return want
        return cur if cur is not None else enabled[0]
    return choose
