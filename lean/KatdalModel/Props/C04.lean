/-
  C04 — Two-stage lazy indexing of dask arrays equals composed outer indexing, lazily.

  "For any dask-backed array, first-stage selection, chain of transforms and second-stage index
   made of integers, slices, boolean masks and integer sequences on any combination of axes,
   indexing the lazy indexer returns exactly transform(array[first stage])[second stage] under
   per-axis (outer) indexing, with the shape and dtype the indexer advertised beforehand ...
   a request made of contiguous ranges reads exactly the stored chunks that overlap the requested
   region, each once."

  Model: KatdalModel/Model/DaskIndexer.lean (mirror of lazy_indexer.py + dask's index
  normalisation).  Spec: Index.resolveAll / Index.composeAll / Index.oindexSel.
-/
import KatdalModel.Lemmas.Normalize
import KatdalModel.Lemmas.Compose
open Np Index DaskIx

namespace C04

/-! ### helper facts (kept here because they are specific to the statements below) -/

theorem normInt_lt {n : Nat} {i : Int} {k : Nat} (h : normInt n i = .ok k) : k < n := by
  unfold normInt at h
  split at h
  · simp only [Except.ok.injEq] at h; omega
  · split at h
    · simp only [Except.ok.injEq] at h; omega
    · simp at h

theorem normList_lt (n : Nat) : ∀ (l : List Int) (ks : List Nat), normList n l = .ok ks → ∀ k ∈ ks, k < n := by
  intro l
  induction l with
  | nil => intro ks h; simp [normList] at h; subst h; simp
  | cons i t ih =>
    intro ks h
    unfold normList at h
    cases hi : normInt n i with
    | error e => simp [hi, bind, Except.bind] at h
    | ok k =>
      cases hr : normList n t with
      | error e => simp [hi, hr, bind, Except.bind] at h
      | ok r =>
        simp [hi, hr, bind, Except.bind, pure, Except.pure] at h
        subst h
        intro x hx
        simp at hx
        rcases hx with rfl | hx
        · exact normInt_lt hi
        · exact ih r hr x hx

theorem nonzeroFrom_lt : ∀ (m : List Bool) (k : Nat), ∀ x ∈ nonzeroFrom k m, x < k + m.length := by
  intro m
  induction m with
  | nil => intro k x hx; simp [nonzeroFrom] at hx
  | cons b t ih =>
    intro k x hx
    cases b with
    | true =>
      simp [nonzeroFrom] at hx
      rcases hx with rfl | hx
      · simp only [List.length_cons]; omega
      · have := ih (k + 1) x hx; simp only [List.length_cons]; omega
    | false =>
      simp [nonzeroFrom] at hx
      have := ih (k + 1) x hx; simp only [List.length_cons]; omega

theorem nonzero_lt (m : List Bool) : ∀ x ∈ nonzero m, x < m.length := by
  intro x hx
  have := nonzeroFrom_lt m 0 x hx
  omega

theorem rangeToSlice_start_nonneg {l : List Int} {a b c : Option Int}
    (h : rangeToSlice l = .ok (a, b, c)) (hl : ∀ x ∈ l, 0 ≤ x) : ∀ v, a = some v → 0 ≤ v := by
  intro v hv
  unfold rangeToSlice at h
  cases l with
  | nil => simp at h; rw [← h.1] at hv; simp at hv
  | cons x t =>
    simp only at h
    split at h
    · simp at h
    · split at h
      · simp at h; rw [← h.1] at hv; simp at hv; subst hv; exact hl _ (List.mem_cons_self ..)
      · split at h
        · simp at h
        · simp at h; rw [← h.1] at hv; simp at hv; subst hv; exact hl _ (List.mem_cons_self ..)

theorem map_toNat_ofNat (l : List Nat) : (l.map Int.ofNat).map Int.toNat = l := by
  induction l with
  | nil => rfl
  | cons a t ih => simp [ih]

/-- simplification of a fancy index (`_simplify_index`) never changes what it selects -/
theorem simplify_arr_resolve (n : Nat) (l : List Nat) (hl : ∀ k ∈ l, k < n) :
    (simplify1 n (.arr l)).resolve n = .ok (.many l) := by
  have hall : l.all (· < n) = true := by
    simp only [List.all_eq_true, decide_eq_true_eq]; exact hl
  cases hr : rangeToSlice (l.map Int.ofNat) with
  | error e => simp only [simplify1, hr, DIx.resolve, hall, if_true]
  | ok t =>
    obtain ⟨a, b, c⟩ := t
    have hbound : ∀ x ∈ l.map Int.ofNat, x < (n : Int) := by
      intro x hx
      simp at hx
      obtain ⟨k, hk, rfl⟩ := hx
      have := hl k hk
      omega
    have hsound := rangeToSlice_sound n _ a b c hr hbound
    have hnonneg : ∀ x ∈ l.map Int.ofNat, 0 ≤ x := by
      intro x hx; simp at hx; obtain ⟨k, _, rfl⟩ := hx; omega
    have hstart := rangeToSlice_start_nonneg hr hnonneg
    cases hn : normalizeSlice n a b c with
    | none => simp only [simplify1, hr, hn, DIx.resolve, hall, if_true]
    | some t' =>
      obtain ⟨a', b', c'⟩ := t'
      have hs := normalizeSlice_sound n a b c a' b' c' hn (by
        intro v hv _
        have := hstart v hv
        omega)
      simp only [simplify1, hr, hn, DIx.resolve, Ix.resolve, hs, hsound, map_toNat_ofNat]

/-! ### Property theorems -/

/-- `_range_to_slice` is sound (restated from the lemma file so that it is audited here). -/
theorem c04_range_to_slice_sound (n : Nat) (l : List Int) (a b c : Option Int)
    (h : rangeToSlice l = .ok (a, b, c)) (hn : ∀ x ∈ l, x < n) :
    sliceList n a b c = some l :=
  rangeToSlice_sound n l a b c h hn

/-- **dask_getitem on one axis has numpy's per-axis meaning**, for every int, slice, mask and
    integer list (sorted, unsorted, repeated, negative), outside the known-finding family
    `daskSliceBug` (negative step with explicit start below `-n`). -/
theorem c04_getitem_axis_partial (n : Nat) (ix : Ix) (hbug : daskSliceBug n ix = false) :
    getitem1 n ix = ix.resolve n := by
  unfold getitem1
  cases ix with
  | int i =>
    simp only [normalizeIndex1, Ix.resolve]
    cases hi : normInt n i with
    | error e => simp [bind, Except.bind]
    | ok k =>
      have := normInt_lt hi
      simp [bind, Except.bind, pure, Except.pure, simplify1, DIx.resolve, this]
  | slice a b c =>
    simp only [normalizeIndex1, Ix.resolve]
    cases hn : normalizeSlice n a b c with
    | none =>
      have : sliceList n a b c = none := by
        unfold normalizeSlice at hn
        unfold sliceList
        cases hi : sliceIndices n a b c with
        | none => rfl
        | some t =>
          obtain ⟨s, e, st⟩ := t
          simp only [hi] at hn
          split at hn <;> simp at hn
      simp [this, bind, Except.bind]
    | some t =>
      obtain ⟨a', b', c'⟩ := t
      have hs := normalizeSlice_sound n a b c a' b' c' hn (by
        intro v hv hc
        cases c with
        | none => simp at hc
        | some cv =>
          subst hv
          simp only [daskSliceBug, decide_eq_false_iff_not, not_and, Option.getD_some] at hbug hc
          have := hbug hc
          omega)
      simp only [bind, Except.bind, simplify1, DIx.resolve, Ix.resolve, hs]
  | mask m =>
    simp only [normalizeIndex1, Ix.resolve]
    split
    · rename_i hlen
      simp only [bind, Except.bind]
      exact simplify_arr_resolve n (nonzero m) (by intro k hk; have := nonzero_lt m k hk; omega)
    · simp [bind, Except.bind]
  | list l =>
    simp only [normalizeIndex1, Ix.resolve]
    cases hl : normList n l with
    | error e => simp [bind, Except.bind]
    | ok ks =>
      simp only [bind, Except.bind, pure, Except.pure]
      exact simplify_arr_resolve n ks (normList_lt n l ks hl)

/-- the unguarded statement is false on the current dask: witness `x[-7::-2]` on length 5 -/
theorem c04_getitem_axis_full_is_false :
    getitem1 5 (.slice (some (-7)) none (some (-2))) ≠ Ix.resolve 5 (.slice (some (-7)) none (some (-2))) := by
  decide

/-- no index in `ixs` on its axis is in the known-finding family -/
def noBug : List Nat → List Ix → Bool
  | n :: ns, i :: is => !daskSliceBug n i && noBug ns is
  | _, _ => true

theorem getitemAll_eq : ∀ (shape : List Nat) (ixs : List Ix), noBug shape ixs = true →
    getitemAll shape ixs = resolveAll shape ixs := by
  intro shape
  induction shape with
  | nil => intro ixs _; cases ixs <;> rfl
  | cons n ns ih =>
    intro ixs h
    cases ixs with
    | nil => rfl
    | cons i is =>
      simp only [noBug, Bool.and_eq_true, Bool.not_eq_true'] at h
      simp only [getitemAll, resolveAll, c04_getitem_axis_partial n i h.1, ih is h.2]

/-- **dask_getitem(x, index) = x[index] under outer indexing**, all axes. -/
theorem c04_getitem_partial (shape : List Nat) (ix : List Ix)
    (h : ∀ p, padIx shape.length ix = .ok p → noBug shape p = true) :
    daskGetitem shape ix = (do let p ← padIx shape.length ix; resolveAll shape p) := by
  unfold daskGetitem
  cases hp : padIx shape.length ix with
  | error e => rfl
  | ok p => simp only [bind, Except.bind, getitemAll_eq shape p (h p hp)]

/-- **Two-stage indexing**: whenever the indexer answers, (1) the shape it advertised is the
    shape of `array[first stage]`, (2) the result shape is the shape of the second stage applied
    to that, and (3) every element `js` of the result is the source element that indexing twice
    with numpy's outer semantics reads — i.e. `indexer[k2] = T(x[k1])[k2]` for any elementwise `T`
    (transforms commute with outer indexing: `Index.oindexSel_map`). -/
theorem c04_two_stage {α} (a : NDArr α) (k1 k2 : List Ix) (s1 s2 : List Sel) (shape1 : List Nat) (c : List Sel)
    (h1 : daskGetitem a.shape k1 = .ok s1)
    (h2 : daskGetitem (selShape s1) k2 = .ok s2)
    (h : twoStage a.shape k1 k2 = .ok (shape1, c)) :
    shape1 = (oindexSel a s1).shape ∧
    (oindexSel a c).shape = (oindexSel (oindexSel a s1) s2).shape ∧
    ∀ js, inBounds (oindexSel a c).shape js →
      (oindexSel a c).get js = (oindexSel (oindexSel a s1) s2).get js := by
  unfold twoStage at h
  simp only [h1, h2, bind, Except.bind] at h
  cases hc : composeAll s1 s2 with
  | error e => simp [hc] at h
  | ok c' =>
    simp [hc, pure, Except.pure] at h
    obtain ⟨rfl, rfl⟩ := h
    obtain ⟨hs, hg⟩ := oindexSel_comp a s1 s2 c' hc
    exact ⟨rfl, hs.symm, fun js hjs => (hg js hjs).symm⟩

/-- nesting: an indexer over an indexer is again outer indexing by the composition (the
    composition lemma applied at each level; three levels as used by katdal's flags indexer on top
    of the raw-flags indexer).  Joint retrieval `get([a, b], k)` has no separate path in the model
    (each array is computed by the same function); it is covered by the correspondence run only. -/
theorem c04_nest {α} (a : NDArr α) (s1 s2 s3 c23 c : List Sel)
    (h23 : composeAll s2 s3 = .ok c23) (h : composeAll s1 c23 = .ok c) :
    ∀ js, inBounds (oindexSel a c).shape js →
      (oindexSel a c).get js = (oindexSel (oindexSel (oindexSel a s1) s2) s3).get js := by
  intro js hjs
  obtain ⟨hsA, hgA⟩ := oindexSel_comp a s1 c23 c h
  obtain ⟨hsB, hgB⟩ := oindexSel_comp (oindexSel a s1) s2 s3 c23 h23
  rw [← hgA js hjs]
  have hjs' : inBounds (oindexSel (oindexSel a s1) c23).shape js := by rw [hsA]; exact hjs
  exact (hgB js hjs').symm

/-! ### Read set -/

theorem chunksOverlapping_go_mem (lo hi : Nat) : ∀ (sizes : List Nat) (i off c : Nat),
    c ∈ chunksOverlapping.go lo hi sizes i off ↔
      ∃ k, k < sizes.length ∧ c = i + k ∧
        off + (sizes.take k).sum < hi ∧ lo < off + (sizes.take (k + 1)).sum ∧ lo < hi := by
  intro sizes
  induction sizes with
  | nil => intro i off c; simp [chunksOverlapping.go]
  | cons s t ih =>
    intro i off c
    unfold chunksOverlapping.go
    constructor
    · intro h
      split at h
      · rename_i hcond
        simp at h
        rcases h with rfl | h
        · exact ⟨0, by simp, by simp, by simpa using hcond.1, by simpa using hcond.2.1, hcond.2.2⟩
        · obtain ⟨k, hk, hc, h1, h2, h3⟩ := (ih (i + 1) (off + s) c).mp h
          exact ⟨k + 1, by simpa using hk, by omega, by simp; omega, by simp; omega, h3⟩
      · obtain ⟨k, hk, hc, h1, h2, h3⟩ := (ih (i + 1) (off + s) c).mp h
        exact ⟨k + 1, by simpa using hk, by omega, by simp; omega, by simp; omega, h3⟩
    · rintro ⟨k, hk, hc, h1, h2, h3⟩
      cases k with
      | zero =>
        have hcond : off < hi ∧ lo < off + s ∧ lo < hi := ⟨by simpa using h1, by simpa using h2, h3⟩
        simp [hcond, hc]
      | succ k =>
        have hin : c ∈ chunksOverlapping.go lo hi t (i + 1) (off + s) :=
          (ih (i + 1) (off + s) c).mpr ⟨k, by simpa using hk, by omega, by simp at h1; omega, by simp at h2; omega, h3⟩
        split
        · exact List.mem_cons_of_mem _ hin
        · exact hin

/-- **Read set of a contiguous request**: chunk `c` of an axis chunked into `sizes` is in the
    model's read set for the region `[lo, hi)` iff the chunk's extent `[start_c, start_c + size_c)`
    intersects the region — exactly the overlapping chunks, each listed once (the list is
    produced by a single left-to-right pass, see `chunksOverlapping_nodup`). -/
theorem c04_readset (sizes : List Nat) (lo hi c : Nat) :
    c ∈ chunksOverlapping sizes lo hi ↔
      c < sizes.length ∧ (sizes.take c).sum < hi ∧ lo < (sizes.take (c + 1)).sum ∧ lo < hi := by
  unfold chunksOverlapping
  rw [chunksOverlapping_go_mem]
  constructor
  · rintro ⟨k, hk, rfl, h1, h2, h3⟩
    simp at h1 h2 ⊢
    exact ⟨hk, h1, h2, h3⟩
  · rintro ⟨h0, h1, h2, h3⟩
    exact ⟨c, h0, by simp, by simpa using h1, by simpa using h2, h3⟩

theorem chunksOverlapping_go_sorted (lo hi : Nat) : ∀ (sizes : List Nat) (i off : Nat),
    (chunksOverlapping.go lo hi sizes i off).Pairwise (· < ·) ∧
    ∀ c ∈ chunksOverlapping.go lo hi sizes i off, i ≤ c := by
  intro sizes
  induction sizes with
  | nil => intro i off; simp [chunksOverlapping.go]
  | cons s t ih =>
    intro i off
    unfold chunksOverlapping.go
    obtain ⟨hp, hge⟩ := ih (i + 1) (off + s)
    split
    · refine ⟨List.pairwise_cons.mpr ⟨fun c hc => by have := hge c hc; omega, hp⟩, ?_⟩
      intro c hc
      simp at hc
      rcases hc with rfl | hc
      · omega
      · have := hge c hc; omega
    · exact ⟨hp, fun c hc => by have := hge c hc; omega⟩

/-- each overlapping chunk is listed once, in increasing order -/
theorem c04_readset_each_once (sizes : List Nat) (lo hi : Nat) :
    (chunksOverlapping sizes lo hi).Pairwise (· < ·) :=
  (chunksOverlapping_go_sorted lo hi sizes 0 0).1

/-! ### Non-vacuity -/

example : noBug [5, 4] [.slice (some (-3)) none (some (-2)), .list [0, 2]] = true := by decide
example : daskGetitem [5, 4] [.mask [true, false, true, false, true], .list [3, 1]]
    = .ok [.many [0, 2, 4], .many [3, 1]] := by decide
example : twoStage [6, 4] [.mask [true, false, true, true, false, true]] [.list [3, 1], .int (-1)]
    = .ok ([4, 4], [.many [5, 2], .one 3]) := by decide
example : chunksOverlapping [2, 3, 1] 1 5 = [0, 1] := by decide

end C04
