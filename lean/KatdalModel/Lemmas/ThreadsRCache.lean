/-
  Invariant of the sensor cache under a re-entrant lock (Threads.RCache) and its preservation.
-/
import KatdalModel.Lemmas.ThreadsLazy
open Threads Threads.RCache
set_option linter.unusedVariables false

namespace Threads.RCache

/-- `sv`, `bad` are a sequential meaning of the keys: raw keys extract, virtual keys apply their function to
    the meanings of their dependencies and raise when a dependency raises, missing keys raise (`bad`) -/
def Sound (c : Cfg) (sv : Nat → Nat) (bad : Nat → Bool) : Prop :=
  ∀ k, match c.kind k with
    | .raw => sv k = c.ext k ∧ bad k = false
    | .virt ds => bad k = ds.any bad ∧ (bad k = false → sv k = c.vf k (ds.map sv))
    | .missing => bad k = true

def FrameOK (c : Cfg) (sv : Nat → Nat) (bad : Nat → Bool) (f : Frame) : Prop :=
  match f.pc with
  | .deps rem acc => ∃ done, c.kind f.key = .virt (done ++ rem) ∧ acc = done.map sv ∧ ∀ d ∈ done, bad d = false
  | .setAcq v => v = sv f.key ∧ bad f.key = false
  | .setStore v => v = sv f.key ∧ bad f.key = false
  | .setRel v => v = sv f.key ∧ bad f.key = false
  | .store v => v = sv f.key ∧ bad f.key = false
  | .rel v => v = sv f.key ∧ bad f.key = false
  | .ret v => v = sv f.key ∧ bad f.key = false
  | .extract => c.kind f.key = .raw
  | .acq => True
  | .lookup => True
  | .relErr => bad f.key = true
  | .retErr => bad f.key = true

/-- the activation below is waiting for exactly this key -/
def Link (key : Nat) : List Frame → Prop
  | [] => True
  | g :: _ => ∃ rem acc, g.pc = .deps (key :: rem) acc

def StackOK (c : Cfg) (sv : Nat → Nat) (bad : Nat → Bool) : List Frame → Prop
  | [] => True
  | f :: r => FrameOK c sv bad f ∧ Link f.key r ∧ StackOK c sv bad r

structure Inv (c : Cfg) (sv : Nat → Nat) (bad : Nat → Bool) (n : Nat) (s : State) : Prop where
  notOwner : ∀ t, s.owner ≠ some t → held (s.th t).stack = 0
  isOwner : ∀ t, s.owner = some t → held (s.th t).stack = s.depth ∧ 0 < s.depth ∧ t < n
  noOwner : s.owner = none → s.depth = 0
  cacheVal : ∀ k v, s.cache k = some (.val v) → v = sv k ∧ bad k = false
  cacheRaw : ∀ k, c.kind k = .raw → s.cache k ≠ none
  cacheGetter : ∀ k, s.cache k = some .getter → c.kind k = .raw
  stacks : ∀ t, StackOK c sv bad (s.th t).stack
  results : ∀ t k v, (k, v) ∈ (s.th t).results → v = sv k ∧ bad k = false
  errs : ∀ t k, k ∈ (s.th t).errs → bad k = true

theorem inv_init (c : Cfg) (sv : Nat → Nat) (bad : Nat → Bool) (n : Nat) (prog : Tid → List Nat) : Inv c sv bad n (init c prog) := by
  refine ⟨?_, ?_, ?_, ?_, ?_, ?_, ?_, ?_, ?_⟩
  · intro t _; simp [init, held]
  · intro t h; simp [init] at h
  · intro _; simp [init]
  · intro k v h; simp only [init] at h; split at h <;> simp at h
  · intro k hk; simp [init, hk]
  · intro k h; simp only [init] at h; split at h <;> simp_all
  · intro t; simp [init, StackOK]
  · intro t k v h; simp [init] at h
  · intro t k h; simp [init] at h

theorem step_owner {c : Cfg} {sv : Nat → Nat} {bad : Nat → Bool} {n : Nat} {s s' : State} {t : Tid} (hre : c.reentrant = true)
    (h : Inv c sv bad n s) (ht : t < n) (hs : step c s t = some s') :
    (∀ u, s'.owner ≠ some u → held (s'.th u).stack = 0) ∧
    (∀ u, s'.owner = some u → held (s'.th u).stack = s'.depth ∧ 0 < s'.depth ∧ u < n) ∧
    (s'.owner = none → s'.depth = 0) := by
  obtain ⟨h1, h2, h3, h4, h5, h6, h7, h8, h9⟩ := h
  unfold step at hs
  cases hst : (s.th t).stack with
  | nil =>
    simp only [hst] at hs
    split at hs
    · simp at hs
    · injection hs with hs; subst hs
      have h1t := h1 t; have h2t := h2 t
      rw [hst] at h1t h2t
      refine ⟨?_, ?_, ?_⟩
      · intro u; have := h1 u; have := h2 u; grind [upd, held, holds]
      · intro u; have := h1 u; have := h2 u; grind [upd, held, holds]
      · grind
  | cons f below =>
    obtain ⟨k, pc⟩ := f
    simp only [hst] at hs
    cases pc <;> simp only [canAcquire, hre, setTop, releaseOwner] at hs
    all_goals (try (split at hs))
    all_goals (try (split at hs))
    all_goals (try (injection hs with hs; subst hs))
    all_goals (try (simp at hs; done))
    all_goals
      have h1t := h1 t; have h2t := h2 t
      rw [hst] at h1t h2t
      simp only [held, holds] at h1t h2t
      refine ⟨?_, ?_, ?_⟩
      · intro u; have := h1 u; have := h2 u; grind [upd, held, holds]
      · intro u; have := h1 u; have := h2 u; grind [upd, held, holds]
      · grind

theorem step_cache {c : Cfg} {sv : Nat → Nat} {bad : Nat → Bool} {n : Nat} {s s' : State} {t : Tid}
    (hsv : Sound c sv bad) (h : Inv c sv bad n s) (hs : step c s t = some s') :
    (∀ k v, s'.cache k = some (.val v) → v = sv k ∧ bad k = false) ∧ (∀ k, c.kind k = .raw → s'.cache k ≠ none) ∧
    (∀ k, s'.cache k = some .getter → c.kind k = .raw) := by
  obtain ⟨h1, h2, h3, h4, h5, h6, h7, h8, h9⟩ := h
  have h7t := h7 t
  unfold step at hs
  cases hst : (s.th t).stack with
  | nil =>
    simp only [hst] at hs
    split at hs
    · simp at hs
    · injection hs with hs; subst hs
      exact ⟨h4, h5, h6⟩
  | cons f below =>
    obtain ⟨k, pc⟩ := f
    simp only [hst] at hs
    rw [hst] at h7t
    cases pc <;> simp only [setTop, releaseOwner] at hs
    all_goals (try (split at hs))
    all_goals (try (split at hs))
    all_goals (try (injection hs with hs; subst hs))
    all_goals (try (simp at hs; done))
    all_goals
      simp only [StackOK, FrameOK] at h7t
      refine ⟨?_, ?_, ?_⟩ <;> intro k' <;> have := h4 k' <;> have := h5 k' <;> have := h6 k' <;> grind [upd]

theorem step_results {c : Cfg} {sv : Nat → Nat} {bad : Nat → Bool} {n : Nat} {s s' : State} {t : Tid}
    (hsv : Sound c sv bad) (h : Inv c sv bad n s) (hs : step c s t = some s') :
    ∀ u k v, (k, v) ∈ (s'.th u).results → v = sv k ∧ bad k = false := by
  obtain ⟨h1, h2, h3, h4, h5, h6, h7, h8, h9⟩ := h
  have h7t := h7 t
  unfold step at hs
  cases hst : (s.th t).stack with
  | nil =>
    simp only [hst] at hs
    split at hs
    · simp at hs
    · injection hs with hs; subst hs
      intro u; have := h8 u; grind [upd]
  | cons f below =>
    obtain ⟨k, pc⟩ := f
    simp only [hst] at hs
    rw [hst] at h7t
    cases pc <;> simp only [setTop, releaseOwner] at hs
    all_goals (try (split at hs))
    all_goals (try (split at hs))
    all_goals (try (injection hs with hs; subst hs))
    all_goals (try (simp at hs; done))
    all_goals
      simp only [StackOK, FrameOK] at h7t
      intro u; have := h8 u; grind [upd]

theorem step_errs {c : Cfg} {sv : Nat → Nat} {bad : Nat → Bool} {n : Nat} {s s' : State} {t : Tid}
    (hsv : Sound c sv bad) (h : Inv c sv bad n s) (hs : step c s t = some s') :
    ∀ u k, k ∈ (s'.th u).errs → bad k = true := by
  obtain ⟨h1, h2, h3, h4, h5, h6, h7, h8, h9⟩ := h
  have h7t := h7 t
  unfold step at hs
  cases hst : (s.th t).stack with
  | nil =>
    simp only [hst] at hs
    split at hs
    · simp at hs
    · injection hs with hs; subst hs
      intro u; have := h9 u; grind [upd]
  | cons f below =>
    obtain ⟨k, pc⟩ := f
    simp only [hst] at hs
    rw [hst] at h7t
    cases pc <;> simp only [setTop, releaseOwner] at hs
    all_goals (try (split at hs))
    all_goals (try (split at hs))
    all_goals (try (injection hs with hs; subst hs))
    all_goals (try (simp at hs; done))
    all_goals
      simp only [StackOK, FrameOK] at h7t
      intro u; have := h9 u; grind [upd]

theorem step_th_other {c : Cfg} {s s' : State} {t u : Tid} (hs : step c s t = some s') (hu : u ≠ t) :
    s'.th u = s.th u := by
  unfold step at hs
  cases hst : (s.th t).stack with
  | nil =>
    simp only [hst] at hs
    split at hs
    · simp at hs
    · injection hs with hs; subst hs; simp [upd, hu]
  | cons f below =>
    obtain ⟨k, pc⟩ := f
    simp only [hst] at hs
    cases pc <;> simp only [setTop, releaseOwner] at hs
    all_goals (try (split at hs))
    all_goals (try (split at hs))
    all_goals (try (injection hs with hs; subst hs))
    all_goals (try (simp at hs; done))
    all_goals simp [upd, hu]

theorem val_of_virt {c : Cfg} {sv : Nat → Nat} {bad : Nat → Bool} (hsv : Sound c sv bad) {k : Nat} {done : List Nat}
    (hkd : c.kind k = .virt (done ++ [])) (hnb : ∀ d ∈ done, bad d = false) :
    c.vf k (done.map sv) = sv k ∧ bad k = false := by
  have hk := hsv k
  rw [hkd] at hk
  simp only [List.append_nil] at hk
  have hb : bad k = false := by
    rw [hk.1]; simpa using hnb
  exact ⟨(hk.2 hb).symm, hb⟩

theorem bad_of_virt {c : Cfg} {sv : Nat → Nat} {bad : Nat → Bool} (hsv : Sound c sv bad) {k d : Nat} {done r : List Nat}
    (hkd : c.kind k = .virt (done ++ d :: r)) (hd : bad d = true) : bad k = true := by
  have hk := hsv k
  rw [hkd] at hk
  rw [hk.1]; simp [hd]

theorem step_stacks {c : Cfg} {sv : Nat → Nat} {bad : Nat → Bool} {n : Nat} {s s' : State} {t : Tid}
    (hsv : Sound c sv bad) (h : Inv c sv bad n s) (hs : step c s t = some s') :
    ∀ u, StackOK c sv bad (s'.th u).stack := by
  obtain ⟨h1, h2, h3, h4, h5, h6, h7, h8, h9⟩ := h
  have h7t := h7 t
  intro u
  have h7u := h7 u
  by_cases hu : u = t
  · subst hu
    unfold step at hs
    cases hst : (s.th u).stack with
    | nil =>
      simp only [hst] at hs
      split at hs
      · simp at hs
      · injection hs with hs; subst hs
        simp [StackOK, FrameOK, Link]
    | cons f below =>
      obtain ⟨k, pc⟩ := f
      simp only [hst] at hs
      rw [hst] at h7t
      have hk := hsv k
      cases pc <;> simp only [setTop, releaseOwner] at hs
      all_goals (try (split at hs))
      all_goals (try (split at hs))
      all_goals (try (injection hs with hs; subst hs))
      all_goals (try (simp at hs; done))
      all_goals
        simp only [StackOK, FrameOK, upd_same] at h7t ⊢
      all_goals (first | (grind [Link]) | skip)
      all_goals first
        | exact ⟨⟨[], by simpa using ‹c.kind k = _›, rfl, by simp⟩, h7t.2.1, h7t.2.2⟩
        | (obtain ⟨⟨done, hkd, hacc, hnb⟩, hl, hso⟩ := h7t
           exact ⟨hacc ▸ val_of_virt hsv hkd hnb, hl, hso⟩)
        | (obtain ⟨hv, hl, ⟨done, hkd, hacc, hnb⟩, hl2, hso⟩ := h7t
           simp only [Link] at hl
           obtain ⟨rem', acc', he⟩ := hl
           injection he with he1 he2
           injection he1 with he1 he3
           refine ⟨⟨done ++ [k], ?_, ?_, ?_⟩, hl2, hso⟩
           · rw [hkd, he1]; simp
           · simp [hacc, hv.1]
           · intro d hd
             simp only [List.mem_append, List.mem_singleton] at hd
             rcases hd with hd | hd
             · exact hnb d hd
             · rw [hd]; exact hv.2)
        | (obtain ⟨hv, hl, ⟨done, hkd, hacc, hnb⟩, hl2, hso⟩ := h7t
           simp only [Link] at hl
           obtain ⟨rem', acc', he⟩ := hl
           injection he with he1 he2
           injection he1 with he1 he3
           exact ⟨bad_of_virt hsv hkd (he1 ▸ hv), hl2, hso⟩)
  · rw [step_th_other hs hu]; exact h7u

/-- the holder of the re-entrant lock is never blocked (in particular not by itself) -/
theorem owner_can_step {c : Cfg} {sv : Nat → Nat} {bad : Nat → Bool} {n : Nat} {s : State} {t : Tid} (hre : c.reentrant = true)
    (h : Inv c sv bad n s) (ho : s.owner = some t) : (step c s t).isSome = true := by
  obtain ⟨h1, h2, h3, h4, h5, h6, h7, h8, h9⟩ := h
  have h7t := h7 t
  have h2t := h2 t ho
  unfold step
  cases hst : (s.th t).stack with
  | nil => rw [hst] at h2t; simp [held] at h2t; omega
  | cons f below =>
    obtain ⟨k, pc⟩ := f
    rw [hst] at h7t
    simp only [StackOK, FrameOK] at h7t
    cases pc <;> simp only [hst, canAcquire, hre, ho, setTop]
    case ret v =>
      cases below with
      | nil => simp
      | cons g more =>
        obtain ⟨_, hl, _⟩ := h7t
        simp only [Link] at hl
        obtain ⟨rem', acc', he⟩ := hl
        obtain ⟨k', pc'⟩ := g
        simp only at he
        subst he
        simp
    case retErr =>
      cases below with
      | nil => simp
      | cons g more =>
        obtain ⟨_, hl, _⟩ := h7t
        simp only [Link] at hl
        obtain ⟨rem', acc', he⟩ := hl
        obtain ⟨k', pc'⟩ := g
        simp only at he
        subst he
        simp
    all_goals (try (split))
    all_goals (try (split))
    all_goals (try (simp; done))
    all_goals (grind [Link])

/-- with the lock free every thread that has work left can move -/
theorem free_can_step {c : Cfg} {sv : Nat → Nat} {bad : Nat → Bool} {n : Nat} {s : State} {t : Tid}
    (h : Inv c sv bad n s) (ho : s.owner = none) (ha : active s t = true) : (step c s t).isSome = true := by
  have h1t := h.notOwner t (by simp [ho])
  unfold step
  cases hst : (s.th t).stack with
  | nil =>
    simp only [active, hst] at ha
    cases htd : (s.th t).todo with
    | nil => simp [htd] at ha
    | cons k ks => simp [hst, htd]
  | cons f below =>
    obtain ⟨k, pc⟩ := f
    rw [hst] at h1t
    have h7t := h.stacks t
    rw [hst] at h7t
    cases pc <;> simp [held, holds] at h1t
    case acq => simp [hst, canAcquire, ho]
    case ret v =>
      cases below with
      | nil => simp [hst]
      | cons g more =>
        obtain ⟨_, hl, _⟩ := h7t
        simp only [Link] at hl
        obtain ⟨rem', acc', he⟩ := hl
        obtain ⟨k', pc'⟩ := g
        simp only at he
        subst he
        simp [hst]
    case retErr =>
      cases below with
      | nil => simp [hst]
      | cons g more =>
        obtain ⟨_, hl, _⟩ := h7t
        simp only [Link] at hl
        obtain ⟨rem', acc', he⟩ := hl
        obtain ⟨k', pc'⟩ := g
        simp only at he
        subst he
        simp [hst]

/-- the cache dict is only ever changed by a thread that holds the lock while doing so: if a step of `t` changes
    the cache, `t` owned the lock before that step and still owns it afterwards -/
theorem step_cache_changes_only_by_owner {c : Cfg} {sv : Nat → Nat} {bad : Nat → Bool} {n : Nat} {s s' : State} {t : Tid}
    (h : Inv c sv bad n s) (hs : step c s t = some s') (hne : s'.cache ≠ s.cache) :
    s.owner = some t ∧ s'.owner = some t := by
  obtain ⟨h1, h2, h3, h4, h5, h6, h7, h8, h9⟩ := h
  have h1t := h1 t
  unfold step at hs
  cases hst : (s.th t).stack with
  | nil =>
    simp only [hst] at hs
    split at hs
    · simp at hs
    · injection hs with hs; subst hs; exact absurd rfl hne
  | cons f below =>
    obtain ⟨k, pc⟩ := f
    simp only [hst] at hs
    rw [hst] at h1t
    cases pc <;> simp only [setTop, releaseOwner] at hs
    all_goals (try (split at hs))
    all_goals (try (split at hs))
    all_goals (try (injection hs with hs; subst hs))
    all_goals (try (simp at hs; done))
    all_goals (try (exact absurd rfl hne))
    all_goals
      simp only [held, holds] at h1t
      have ho : s.owner = some t := Classical.byContradiction fun hno => by
        have := h1t hno; omega
      exact ⟨ho, ho⟩

theorem inv_step {c : Cfg} {sv : Nat → Nat} {bad : Nat → Bool} {n : Nat} {s s' : State} {t : Tid} (hre : c.reentrant = true)
    (hsv : Sound c sv bad) (h : Inv c sv bad n s) (ht : t < n) (hs : step c s t = some s') : Inv c sv bad n s' := by
  obtain ⟨a1, a2, a3⟩ := step_owner hre h ht hs
  obtain ⟨b1, b2, b3⟩ := step_cache hsv h hs
  exact ⟨a1, a2, a3, b1, b2, b3, step_stacks hsv h hs, step_results hsv h hs, step_errs hsv h hs⟩

theorem reach_inv {c : Cfg} {sv : Nat → Nat} {bad : Nat → Bool} {n : Nat} {prog : Tid → List Nat} (hre : c.reentrant = true)
    (hsv : Sound c sv bad) {s : State} (h : Reach c n prog s) : Inv c sv bad n s := by
  induction h with
  | init => exact inv_init c sv bad n prog
  | step _ ht hs ih => exact inv_step hre hsv ih ht hs

theorem reach_of_run {c : Cfg} {n : Nat} {prog : Tid → List Nat} : ∀ (sched : List Tid) (s s' : State),
    Reach c n prog s → (∀ t ∈ sched, t < n) → run c s sched = some s' → Reach c n prog s' := by
  intro sched
  induction sched with
  | nil => intro s s' hr _ h; simp [run] at h; subst h; exact hr
  | cons t ts ih =>
    intro s s' hr hn h
    unfold run at h
    cases hs : step c s t with
    | none => simp [hs] at h
    | some s1 =>
      simp only [hs] at h
      exact ih s1 s' (Reach.step hr (hn t (by simp)) hs) (fun u hu => hn u (by simp [hu])) h

end Threads.RCache
