/-
  C12 — Numeric sensors are cleaned, interpolated, cached and selected consistently.

  "A numeric sensor read through the sensor cache equals piecewise-linear interpolation, held
   constant outside the sample range, of its samples onto the dump timestamps after samples with an
   unreadable status are dropped and, among samples with identical timestamps, only the last is
   kept; extraction never alters the raw samples, so a sensor and its aliases read with the same
   properties give the same values. Indexing the cache by name gives the cached full-length result
   restricted to the current time selection, repeated access returns the same values, virtual
   sensors (az, el, mjd, ...) equal the documented function of their source sensors, and a sensor
   with no usable samples or absent from one part of a concatenated data set is replaced by the
   documented dummy value for its type."

  Model: KatdalModel/Model/Sensor.lean (mirror of sensordata.py / concatdata.py sensor classes,
  exact rational arithmetic).  The theorems below are about the property-conformant machine
  (`inplace = false`); the `…inplace…` statements describe the code as found
  (`sensor_data.timestamp += time_offset` on the getter's own array) and show where it departs.
-/
import KatdalModel.Lemmas.SensorClean
import KatdalModel.Lemmas.SensorInterp
import KatdalModel.Lemmas.SensorCache
open Np Index Sensor

namespace C12

/-! ## 1. clean-up: `remove_duplicates_and_invalid_values` -/

/-- exactly `nominal`, `warn` and `error` are readable statuses -/
theorem c12_status_accepts_exactly (s : String) :
    statusOk s = true ↔ s = "nominal" ∨ s = "warn" ∨ s = "error" := by
  simp [statusOk, Bool.or_eq_true, beq_iff_eq, or_assoc]

example : statusOk "warn" = true ∧ statusOk "unknown" = false ∧ statusOk "1" = false := by decide

/-- after sorting and de-duplication the time stamps are strictly increasing, whatever the order
    and multiplicity of the raw samples -/
theorem c12_dedup_sorted_strict (l : List Sample) : StrictT (dedup l) :=
  keepLast_strict _ (sortByTime_sorted l)

/-- a sample survives de-duplication iff it is the *last* raw sample (in the original order)
    carrying its time stamp -/
theorem c12_dedup_keeps_last (l : List Sample) (x : Sample) :
    x ∈ dedup l ↔ (atTime x.t l).getLast? = some x := by
  unfold dedup
  have h := keepLast_atTime x.t (sortByTime l) (sortByTime_sorted l)
  rw [sortByTime_atTime] at h
  constructor
  · intro hx
    have : x ∈ atTime x.t (keepLast (sortByTime l)) := by
      simp [atTime, List.mem_filter, hx]
    rw [h] at this
    simpa using this
  · intro hx
    have : x ∈ atTime x.t (keepLast (sortByTime l)) := by
      rw [h, hx]; simp
    exact (List.mem_filter.1 this).1

/-- the status filter acts on the survivors of de-duplication (the code's order: a run of equal
    time stamps whose last sample is unreadable disappears completely) -/
theorem c12_clean_status (g : Getter) (x : Sample) :
    x ∈ clean g ↔ x ∈ dedup g.samples ∧ (g.hasStatus = true → statusOk x.st = true) := by
  unfold clean
  split
  · rename_i h; simp [List.mem_filter, h]
  · rename_i h; simp [h]

theorem c12_clean_sorted_strict (g : Getter) : StrictT (clean g) := by
  unfold clean
  split
  · exact List.Pairwise.filter _ (c12_dedup_sorted_strict _)
  · exact c12_dedup_sorted_strict _

/-- …and these two facts pin the result down: any strictly increasing list with the documented
    members *is* the cleaned sample list -/
theorem c12_clean_unique (g : Getter) (r : List Sample) (hr : StrictT r)
    (hmem : ∀ x, x ∈ r ↔ ((atTime x.t g.samples).getLast? = some x ∧
      (g.hasStatus = true → statusOk x.st = true))) : r = clean g := by
  apply strict_ext r (clean g) hr (c12_clean_sorted_strict g)
  intro z
  rw [hmem z, c12_clean_status, c12_dedup_keeps_last]

-- non-vacuity: of three samples at time 3 exactly the last one is a member
example : (⟨3, .num 9, "warn"⟩ : Sample) ∈ dedup [⟨3, .num 7, "nominal"⟩, ⟨1, .num 0, "nominal"⟩, ⟨3, .num 8, "error"⟩,
      ⟨3, .num 9, "warn"⟩] ∧
    (⟨3, .num 8, "error"⟩ : Sample) ∉ dedup [⟨3, .num 7, "nominal"⟩, ⟨1, .num 0, "nominal"⟩, ⟨3, .num 8, "error"⟩,
      ⟨3, .num 9, "warn"⟩] := by
  constructor
  · rw [c12_dedup_keeps_last]; decide +kernel
  · rw [c12_dedup_keeps_last]; decide +kernel

-- the repository's own clean-up example (test_sensor_cleanup), unsorted with a run of four
example :
    clean { dtype := .str, hasStatus := true, samples :=
      [⟨1, .str "broke", "unknown"⟩, ⟨0, .str "a", "nominal"⟩, ⟨3, .str "c", "nominal"⟩,
       ⟨3, .str "c", "nominal"⟩, ⟨3, .str "c", "warn"⟩, ⟨3, .str "d", "error"⟩,
       ⟨2, .str "b", "nominal"⟩] } =
      [⟨0, .str "a", "nominal"⟩, ⟨2, .str "b", "nominal"⟩, ⟨3, .str "d", "error"⟩] := by
  decide +kernel

-- a run whose last sample is unreadable vanishes although an earlier one was readable
example : clean { dtype := .float, hasStatus := true, samples :=
    [⟨5, .num 1, "nominal"⟩, ⟨5, .num 2, "failure"⟩] } = [] := by decide +kernel

/-! ## 2. interpolation: `np.interp` -/

theorem c12_interp_at_knot (ks : List (Rat × Rat)) (hs : StrictX ks) (xk yk : Rat)
    (h : (xk, yk) ∈ ks) : interp ks xk = yk := interp_at_knot ks hs xk yk h

/-- between neighbouring knots: the straight line through them … -/
theorem c12_interp_between (pre : List (Rat × Rat)) (x0 y0 x1 y1 : Rat) (post : List (Rat × Rat))
    (hs : StrictX (pre ++ (x0, y0) :: (x1, y1) :: post)) (x : Rat) (h0 : x0 ≤ x) (h1 : x ≤ x1) :
    interp (pre ++ (x0, y0) :: (x1, y1) :: post) x = y0 + (y1 - y0) * (x - x0) / (x1 - x0) :=
  interp_between pre x0 y0 x1 y1 post hs x h0 h1

/-- … i.e. a convex combination of the two neighbouring values -/
theorem c12_interp_convex (pre : List (Rat × Rat)) (x0 y0 x1 y1 : Rat) (post : List (Rat × Rat))
    (hs : StrictX (pre ++ (x0, y0) :: (x1, y1) :: post)) (x : Rat) (h0 : x0 ≤ x) (h1 : x ≤ x1) :
    ∃ w : Rat, 0 ≤ w ∧ w ≤ 1 ∧
      interp (pre ++ (x0, y0) :: (x1, y1) :: post) x = (1 - w) * y0 + w * y1 := by
  have hx : x0 < x1 := by
    have := (List.pairwise_append.1 hs).2.1
    exact (List.pairwise_cons.1 this).1 (x1, y1) (by simp)
  refine ⟨(x - x0) / (x1 - x0), (weight_bounds h0 h1 hx).1, (weight_bounds h0 h1 hx).2, ?_⟩
  rw [interp_between pre x0 y0 x1 y1 post hs x h0 h1, seg_eq]
  grind

theorem c12_interp_hold_left (x0 y0 : Rat) (r : List (Rat × Rat)) (x : Rat) (h : x ≤ x0) :
    interp ((x0, y0) :: r) x = y0 := interp_hold_left x0 y0 r x h

theorem c12_interp_hold_right (ks : List (Rat × Rat)) (hs : StrictX ks) (xl yl : Rat)
    (hl : ks.getLast? = some (xl, yl)) (x : Rat) (h : xl ≤ x) : interp ks x = yl :=
  interp_hold_right ks hs xl yl hl x h

theorem c12_interp_monotone (ks : List (Rat × Rat)) (hs : StrictX ks) (hm : MonoY ks)
    (x x' : Rat) (h : x ≤ x') : interp ks x ≤ interp ks x' := interp_mono ks hs hm x x' h

example : interp [(0, 0), (2, 4), (3, 10)] (5 / 2) = 7 ∧ interp [(0, 0), (2, 4), (3, 10)] 2 = 4 ∧
    interp [(0, 0), (2, 4), (3, 10)] (-1) = 0 ∧ interp [(0, 0), (2, 4), (3, 10)] 9 = 10 := by
  decide +kernel

-- non-vacuity of `c12_interp_between` / `c12_interp_convex`: a point inside the second segment
example : interp ([(0, 0)] ++ (2, 4) :: (3, 10) :: [(5, 1)]) (5 / 2) = 4 + (10 - 4) * (5 / 2 - 2) / (3 - 2) :=
  c12_interp_between [(0, 0)] 2 4 3 10 [(5, 1)] (by simp [StrictX]; decide +kernel) (5 / 2)
    (by decide +kernel) (by decide +kernel)

example : StrictX [(0, 0), (2, 4), (3, 10)] ∧ MonoY [(0, 0), (2, 4), (3, 10)] := by
  constructor <;> simp [StrictX, MonoY] <;> decide +kernel

/-! ## 3. extraction: clean-up, then interpolation onto the dumps -/

/-- **a numeric sensor read is `np.interp` of the cleaned, offset samples on the dump grid** -/
theorem c12_extract_numeric (g : Getter) (p : Props) (dumps : List Rat) (period : Rat)
    (ks : List (Rat × Rat))
    (hne : clean (shiftedGetter g p) ≠ [])
    (hcat : p.categorical.getD (g.dtype != .float) = false)
    (hks : knotsNum ((clean (shiftedGetter g p)).map fun s => (s.t, s.v)) = some ks) :
    extract g dumps period p = .ok (.arr (dumps.map fun x => Val.num (interp ks x))) := by
  unfold extract knotsOf
  have hne' : (clean { g with samples := shiftSamples (p.timeOffset.getD 0) g.samples }).isEmpty = false := by
    simpa [shiftedGetter, List.isEmpty_iff] using hne
  simp only [hne', Bool.false_eq_true, if_false, hcat]
  unfold numericPath
  split
  · rename_i heq
    have hk := hks
    simp only [shiftedGetter] at hk
    rw [heq] at hk
    simp [knotsNum, asNum] at hk
  · simp only [shiftedGetter] at hks
    rw [hks]
    rfl

example : extract { dtype := .float, hasStatus := false, samples := [⟨4, .num 3, ""⟩, ⟨7, .num 6, ""⟩] }
    [0, 1, 2, 3, 4, 5, 6, 7, 8, 9] 1 { timeOffset := some (-1) } =
    .ok (.arr [.num 3, .num 3, .num 3, .num 3, .num 4, .num 5, .num 6, .num 6, .num 6, .num 6]) := by
  decide +kernel   -- katdal's own test_sensor_time_offset

-- non-vacuity of `c12_extract_numeric`: unsorted samples, a duplicate, an unreadable status
example : extract { dtype := .float, hasStatus := true, samples :=
      [⟨6, .num 8, "nominal"⟩, ⟨2, .num 0, "nominal"⟩, ⟨2, .num 4, "warn"⟩, ⟨4, .num 100, "failure"⟩] }
    [1, 2, 3, 5, 7] 1 {} =
    .ok (.arr ([1, 2, 3, 5, 7].map fun x => Val.num (interp [(2, 4), (6, 8)] x))) :=
  c12_extract_numeric _ _ _ _ [(2, 4), (6, 8)] (by decide +kernel) (by decide +kernel) (by decide +kernel)

/-! ## 4. extraction never alters the raw samples; aliases -/

/-- operations that leave the entry `name` alone -/
def safeFor (name : String) : Op → Bool
  | .get .. => true
  | .setKeep _ => true
  | .keys => true
  | .setData n _ => n != name
  | .setGetter n _ => n != name
  | .del n => n != name
  | .alias .. => false

theorem step_frame (s : Cache) (op : Op) (hin : s.inplace = false) :
    (step s op).2.getters = s.getters ∧ (step s op).2.inplace = false := by
  cases op with
  | get n sel ext kw =>
    have h := (get_spec s n sel ext kw hin).1
    exact ⟨h.1, h.2.2.2.2.2.trans hin⟩
  | setData n c => exact ⟨rfl, hin⟩
  | setGetter n id => exact ⟨rfl, hin⟩
  | del n => simp only [step]; split <;> exact ⟨rfl, hin⟩
  | setKeep k => cases k <;> exact ⟨rfl, hin⟩
  | alias a o => exact ⟨rfl, hin⟩
  | keys => exact ⟨rfl, hin⟩

/-- **no sequence of cache operations — reads with any properties, selections, assignments,
    deletions, aliases, virtual sensors — changes the raw samples behind any getter** -/
theorem c12_extract_pure (ops : List Op) : ∀ (s : Cache), s.inplace = false →
    (run s ops).getters = s.getters := by
  induction ops with
  | nil => intro s _; rfl
  | cons op ops ih =>
    intro s hin
    have h := step_frame s op hin
    simp only [run]
    rw [ih _ h.2, h.1]

/-- the code as found keeps the raw samples only when the effective time offset is zero -/
theorem c12_extract_pure_inplace_partial (s : Cache) (n : String) (id : Nat) (g : Getter)
    (sel : Bool) (kw : Props) (h : s.raw.lookup n = some (.getter id))
    (hg : s.getters[id]? = some g) (hoff : (effProps n s.props kw).timeOffset.getD 0 = 0) :
    (get s n sel true kw).2.getters = s.getters := by
  have hshift : shiftedGetter g (effProps n s.props kw) = g := by
    unfold shiftedGetter shiftSamples
    rw [hoff]
    have : (g.samples.map fun s => { s with t := s.t + 0 }) = g.samples := by
      conv => rhs; rw [← List.map_id g.samples]
      apply List.map_congr_left
      intro a _
      simp [Rat.add_zero]
    rw [this]
  have hset : s.getters.set id g = s.getters := by
    apply List.ext_getElem?
    intro i
    by_cases hi : i = id
    · subst hi
      rw [List.getElem?_set]
      simp only [if_true]
      have hlt : i < s.getters.length := by
        rcases List.getElem?_eq_some_iff.1 hg with ⟨hlt, _⟩; exact hlt
      rcases List.getElem?_eq_some_iff.1 hg with ⟨_, hget⟩
      simp [hlt, hget]
    · rw [List.getElem?_set]
      simp [Ne.symm hi]
  unfold Sensor.get
  simp only [Bool.not_true, Bool.and_false, Bool.false_eq_true, if_false, h]
  unfold getPlain
  simp only [Bool.not_true, Bool.and_false, Bool.false_eq_true, if_false, h, hg, hshift]
  cases s.inplace <;> simp only [Bool.false_eq_true, if_false, if_true] <;> split <;> simp [hset]

def demo (inplace : Bool) : Cache :=
  { raw := [("foo", .getter 0), ("bar", .getter 0)],
    getters := [{ dtype := .float, hasStatus := false, samples := [⟨4, .num 3, ""⟩, ⟨7, .num 6, ""⟩] }],
    dumps := [0, 1, 2, 3, 4, 5, 6, 7, 8, 9], period := 1, keep := .slice none none none,
    props := [], virt := [.mjd, .azel], inplace := inplace }

/-- … and alters them otherwise: the unrestricted statement is false for the code as found
    (`foo` read with `time_offset = 1` moves the samples from 4, 7 to 5, 8) -/
theorem c12_extract_pure_inplace_full_is_false :
    ¬ ∀ (s : Cache) (n : String) (kw : Props), (get s n false true kw).2.getters = s.getters := by
  intro h
  have := h (demo true) "foo" { timeOffset := some 1 }
  revert this
  decide +kernel

example : (run (demo false) [.get "foo" false true { timeOffset := some 1 }]).getters = (demo false).getters :=
  c12_extract_pure _ _ rfl

/-- **a sensor and its alias (two names for one getter) read with the same properties give the
    same values, whichever is read first** -/
theorem c12_alias_same_values (s : Cache) (a b : String) (id : Nat) (g : Getter) (c : Cached)
    (kw : Props) (hin : s.inplace = false) (hab : b ≠ a) (hstar : a.toList.contains '*' = false)
    (ha : s.raw.lookup a = some (.getter id)) (hb : s.raw.lookup b = some (.getter id))
    (hg : s.getters[id]? = some g)
    (hprops : effProps b s.props kw = effProps a s.props kw)
    (hc : extract g s.dumps s.period (effProps a s.props kw) = .ok c) :
    (get (get s a false true kw).2 b false true kw).1 = (get s a false true kw).1 ∧
    (get (get s a false true kw).2 b false true kw).1 = .ok (.full c) := by
  rw [get_of_getter s a id g c false kw ha hg hin hc]
  simp only [Bool.false_eq_true, if_false]
  have hb' : (dictSet a (Entry.data c) s.raw).lookup b = some (.getter id) := by
    rw [lookup_dictSet_ne a b _ hab]; exact hb
  have hc' : extract g s.dumps s.period (effProps b (stickProps a s.props kw) kw) = .ok c := by
    unfold stickProps
    rw [effProps_stick_other a b _ s.props kw hab hstar, hprops]
    exact hc
  have := get_of_getter
    { s with props := stickProps a s.props kw, raw := dictSet a (.data c) s.raw } b id g c false kw
    hb' hg hin hc'
  rw [this]
  simp

-- non-vacuity: `foo` and `bar` of `demo` share getter 0
example : (get (get (demo false) "foo" false true { timeOffset := some 1 }).2 "bar" false true
      { timeOffset := some 1 }).1 = .ok (.full (.arr
        [.num 3, .num 3, .num 3, .num 3, .num 3, .num 3, .num 4, .num 5, .num 6, .num 6])) :=
  (c12_alias_same_values (demo false) "foo" "bar" 0
    { dtype := .float, hasStatus := false, samples := [⟨4, .num 3, ""⟩, ⟨7, .num 6, ""⟩] }
    (.arr [.num 3, .num 3, .num 3, .num 3, .num 3, .num 3, .num 4, .num 5, .num 6, .num 6])
    { timeOffset := some 1 } rfl (by decide) (by decide) (by decide +kernel) (by decide +kernel)
    (by decide +kernel) (by decide +kernel) (by decide +kernel)).2

/-- the code as found breaks it: the alias read second is shifted twice -/
theorem c12_alias_inplace_is_false :
    (get (get (demo true) "foo" false true { timeOffset := some 1 }).2 "bar" false true
      { timeOffset := some 1 }).1 ≠ (get (demo true) "foo" false true { timeOffset := some 1 }).1 := by
  decide +kernel

example : (get (get (demo false) "foo" false true { timeOffset := some 1 }).2 "bar" false true
      { timeOffset := some 1 }).1 = (get (demo false) "foo" false true { timeOffset := some 1 }).1 := by
  decide +kernel

/-! ## 5. the cache: first extraction fixes the value, later reads are that value restricted to
       the current selection -/

/-- first read of a raw sensor extracts it with the merged properties and caches the result -/
theorem c12_first_read_extracts (s : Cache) (n : String) (id : Nat) (g : Getter) (c : Cached)
    (sel : Bool) (kw : Props) (h : s.raw.lookup n = some (.getter id))
    (hg : s.getters[id]? = some g) (hin : s.inplace = false)
    (hc : extract g s.dumps s.period (effProps n s.props kw) = .ok c) :
    (get s n sel true kw).1 = (if sel then select c s.keep else .ok (.full c)) ∧
    (get s n sel true kw).2.raw.lookup n = some (.data c) := by
  rw [get_of_getter s n id g c sel kw h hg hin hc]
  exact ⟨rfl, lookup_dictSet_self n _ _⟩

/-- `cache[name]` / `get(name, select=True)` on a cached sensor = the cached full-length value
    restricted to the *current* selection; whatever properties are passed now are ignored -/
theorem c12_cached_read (s : Cache) (n : String) (c : Cached) (kw : Props)
    (h : s.raw.lookup n = some (.data c)) :
    get s n true true kw = (select c s.keep, s) ∧ get s n false true kw = (.ok (.full c), s) := by
  constructor
  · rw [get_of_data s n c true true kw h rfl]; rfl
  · rw [get_of_data s n c false true kw h rfl]; rfl

theorem step_keeps (s : Cache) (op : Op) (name : String) (c : Cached) (hin : s.inplace = false)
    (hs : safeFor name op = true) (h : s.raw.lookup name = some (.data c)) :
    (step s op).2.raw.lookup name = some (.data c) := by
  cases op with
  | get n sel ext kw => exact (get_spec s n sel ext kw hin).2 name c h
  | setData n c' =>
    have hne : name ≠ n := by intro e; subst e; simp [safeFor] at hs
    simp only [step]; rw [lookup_dictSet_ne n name _ hne]; exact h
  | setGetter n id =>
    have hne : name ≠ n := by intro e; subst e; simp [safeFor] at hs
    simp only [step]; rw [lookup_dictSet_ne n name _ hne]; exact h
  | del n =>
    have hne : name ≠ n := by intro e; subst e; simp [safeFor] at hs
    simp only [step]
    split
    · exact h
    · simp only []; rw [lookup_dictDel_ne n name hne]; exact h
  | setKeep k => cases k <;> exact h
  | alias a o => simp [safeFor] at hs
  | keys => exact h

/-- **cache stability**: once `name` is cached with value `c`, then after *any* sequence of
    operations that does not assign to or delete `name` itself — reads of any sensor (its aliases
    included) in any order with any properties, virtual sensor creation, selections before or
    after, assignments to other names — the entry is still `c`, and `cache[name]` is `c`
    restricted to the selection in force at that moment. -/
theorem c12_cache_stable (ops : List Op) : ∀ (s : Cache) (name : String) (c : Cached) (kw : Props),
    s.inplace = false → (∀ op ∈ ops, safeFor name op = true) →
    s.raw.lookup name = some (.data c) →
    (run s ops).raw.lookup name = some (.data c) ∧
    (get (run s ops) name true true kw).1 = select c (run s ops).keep := by
  induction ops with
  | nil =>
    intro s name c kw _ _ h
    exact ⟨h, by simp only [run]; rw [(c12_cached_read s name c kw h).1]⟩
  | cons op ops ih =>
    intro s name c kw hin hs h
    simp only [run]
    exact ih _ name c kw (step_frame s op hin).2 (fun o ho => hs o (List.mem_cons_of_mem _ ho))
      (step_keeps s op name c hin (hs op (by simp)) h)

-- non-vacuity of `c12_cache_stable`: alias read, new selection, virtual sensor, foreign assignment
example :
    let s0 := (get (demo false) "foo" false true {}).2
    let ops := [Op.get "bar" true true { timeOffset := some 1 }, .setKeep (some (.list [9, 0])),
                .get "Timestamps/mjd" false true {}, .setData "bar" (.arr []), .del "bar"]
    (get (run s0 ops) "foo" true true { timeOffset := some 7 }).1 =
      select (.arr [.num 3, .num 3, .num 3, .num 3, .num 3, .num 4, .num 5, .num 6, .num 6, .num 6])
        (run s0 ops).keep :=
  (c12_cache_stable _ _ "foo" _ _ (by decide +kernel) (by decide) (by decide +kernel)).2

/-- in particular a second read, with whatever properties, returns what the first one returned -/
theorem c12_repeated_access_same (s : Cache) (n : String) (id : Nat) (g : Getter) (c : Cached)
    (sel : Bool) (kw kw' : Props) (h : s.raw.lookup n = some (.getter id))
    (hg : s.getters[id]? = some g) (hin : s.inplace = false)
    (hc : extract g s.dumps s.period (effProps n s.props kw) = .ok c) :
    (get (get s n sel true kw).2 n sel true kw').1 = (get s n sel true kw).1 := by
  rw [get_of_getter s n id g c sel kw h hg hin hc]
  simp only []
  rw [get_of_data _ n c sel true kw' (lookup_dictSet_self n _ _) (by simp)]

example : (get (run (demo false) [.get "foo" false true { timeOffset := some 1 }, .setKeep (some (.mask
      [true, false, false, false, false, false, true, false, false, true])), .get "bar" true true {},
      .get "Timestamps/mjd" true true {}]) "foo" true true { timeOffset := some 5 }).1 =
    .ok (.sel [.num 3, .num 4, .num 6]) := by decide +kernel

/-! ## 6. dummy values -/

/-- with no usable samples and no `initial_value` the knot list is the single documented dummy
    sample of the sensor's dtype … -/
theorem c12_dummy_knots (g : Getter) (p : Props) (h : clean (shiftedGetter g p) = [])
    (hi : p.initialValue = none) : knotsOf g p = ([(0, dummyVal g.dtype)], g.dtype) := by
  unfold knotsOf
  have : (clean { g with samples := shiftSamples (p.timeOffset.getD 0) g.samples }).isEmpty = true := by
    simpa [shiftedGetter, List.isEmpty_iff] using h
  simp [this, hi]

/-- … so a float sensor reads NaN at every dump … -/
theorem c12_dummy_float (g : Getter) (p : Props) (dumps : List Rat) (period : Rat)
    (h : clean (shiftedGetter g p) = []) (hi : p.initialValue = none) (hd : g.dtype = .float)
    (hc : p.categorical = none) :
    extract g dumps period p = .ok (.arr (dumps.map fun _ => Val.nan)) := by
  unfold extract
  rw [c12_dummy_knots g p h hi]
  simp [hc, hd, dummyVal, numericPath, Except.map]

/-- … and an int / str / bool / object sensor reads -1 / '' / False / None at every dump (as
    categorical data), provided time 0 is not after the end of the last dump -/
theorem c12_dummy_per_dtype (g : Getter) (p : Props) (dumps : List Rat) (period : Rat) (dl : Rat)
    (h : clean (shiftedGetter g p) = []) (hi : p.initialValue = none) (hd : g.dtype ≠ .float)
    (hc : p.categorical = none) (ht : p.transform = none)
    (hl : dumps.getLast? = some dl) (h0 : 0 ≤ dl + period / 2) :
    extract g dumps period p = .ok (.cat (dumps.map fun _ => dummyVal g.dtype)) := by
  unfold extract
  rw [c12_dummy_knots g p h hi]
  have hne : (g.dtype != DType.float) = true := by simp [bne_iff_ne, hd]
  have hf : (List.filter (fun k : Rat × Val => decide (k.1 ≤ dl + period / 2))
      [((0 : Rat), dummyVal g.dtype)]) = [((0 : Rat), dummyVal g.dtype)] := by
    simp [h0]
  simp only [hc, Option.getD_none, hne, if_true, catPath, ht, hi, hl, hf, List.isEmpty_cons,
    Bool.false_eq_true, if_false, transformKnots, applyTransform, Except.map]
  congr 2
  apply List.map_congr_left
  intro d _
  simp only [catAt]
  by_cases hle : (0 : Rat) ≤ d + period / 2 <;> simp [hle]

-- non-vacuity of `c12_dummy_per_dtype`: a bool sensor whose only sample is unreadable
example : extract { dtype := .bool, hasStatus := true, samples := [⟨101, .bool true, "failure"⟩] }
    [100, 101] 1 {} = .ok (.cat ([100, 101].map fun _ => dummyVal .bool)) :=
  c12_dummy_per_dtype _ _ _ _ 101 (by decide +kernel) rfl (by decide) rfl rfl (by decide +kernel)
    (by decide +kernel)

theorem c12_dummy_values : dummyVal .float = .nan ∧ dummyVal .int = .int (-1) ∧
    dummyVal .str = .str "" ∧ dummyVal .bool = .bool false ∧ dummyVal .obj = .none :=
  ⟨rfl, rfl, rfl, rfl, rfl⟩

example : extract { dtype := .str, hasStatus := true, samples := [⟨101, .str "a", "unknown"⟩] }
    [100, 101] 1 {} = .ok (.cat [.str "", .str ""]) := by decide +kernel

/-- what `fillMissing` must deliver for an unselected read: present parts unchanged, missing parts
    the dummy extracted on *that part's* dump grid -/
def fillSpec (dummy : Getter) (p : Props) : List (Option Out) → List Cache → Except Err (List Out)
  | some o :: r, _ :: cs =>
    match fillSpec dummy p r cs with
    | .ok os => .ok (o :: os)
    | .error e => .error e
  | none :: r, c :: cs =>
    match extract dummy c.dumps c.period p with
    | .error e => .error e
    | .ok d =>
      match fillSpec dummy p r cs with
      | .ok os => .ok (.full d :: os)
      | .error e => .error e
  | _, _ => .ok []

/-- **a sensor absent from arbitrary parts of a concatenated data set**: every missing part
    contributes the dummy extracted on its own dumps, every present part its own value -/
theorem c12_concat_missing_part_dummy (name : String) (kw : Props) (dummy : Getter) (p : Props) :
    ∀ (split : List (Option Out)) (parts : List Cache),
      (fillMissing name false kw dummy p split parts).1 = fillSpec dummy p split parts := by
  intro split
  induction split with
  | nil => intro parts; cases parts <;> simp [fillMissing, fillSpec]
  | cons o r ih =>
    intro parts
    cases parts with
    | nil => cases o <;> simp [fillMissing, fillSpec]
    | cons c cs =>
      cases o with
      | some o =>
        simp only [fillMissing, fillSpec]
        rw [← ih cs]
        split <;> simp_all
      | none =>
        simp only [fillMissing, fillSpec]
        cases hd : extract dummy c.dumps c.period p with
        | error e => simp
        | ok d =>
          simp only []
          have hlook : ({ c with raw := dictSet name (Entry.data d) c.raw } : Cache).raw.lookup name
              = some (.data d) := lookup_dictSet_self name _ _
          rw [get_of_data _ name d false true kw hlook (by simp)]
          simp only [Bool.false_eq_true, if_false]
          rw [← ih cs]
          split <;> simp_all

/-- the float dummy of a missing part is NaN on every dump of that part, whatever time offset and
    other (non-categorical) properties are in force -/
theorem c12_concat_dummy_float (p : Props) (dumps : List Rat) (period : Rat)
    (hc : p.categorical = none) :
    extract { dtype := .float, hasStatus := false, samples := [⟨0, dummyVal .float, ""⟩] } dumps period p =
      .ok (.arr (dumps.map fun _ => Val.nan)) := by
  unfold extract knotsOf clean dedup
  simp [shiftSamples, sortByTime, ins, keepLast, hc, dummyVal, numericPath, Except.map]

def demoConcat : Concat :=
  { parts := [{ demo false with dumps := [0, 1, 2, 3], keep := .mask [true, false, true, true] },
              { demo false with raw := [], dumps := [4, 5], keep := .mask [false, true] },
              { demo false with dumps := [6, 7, 8], keep := .mask [true, true, false] }],
    props := [] }

example : (demoConcat.get "foo" false true {}).1 =
    .ok (.full (.arr [.num 3, .num 3, .num 3, .num 3, .nan, .nan, .num 5, .num 6, .num 6])) ∧
    (demoConcat.get "foo" true true {}).1 = .ok (.sel [.num 3, .num 3, .num 3, .nan, .num 5, .num 6]) := by
  decide +kernel

/-! ## 7. virtual sensors (astronomy opaque: `deg2rad`, `mjd` are uninterpreted symbols) -/

/-- `Timestamps/mjd` = `mjd` of every dump timestamp -/
theorem c12_virtual_mjd (s : Cache) :
    runVirt s "Timestamps/mjd" .mjd = some (.ok (s.dumps.map fun t => Val.app "mjd" (.num t)), s) := by
  simp [runVirt]

/-- `Antennas/<ant>/az` (`el`) = `deg2rad` of the full-length `<ant>_pos_actual_scan_azim`
    (`_elev`) sensor -/
theorem c12_virtual_azel (s : Cache) (name ant which : String) (vs : List Val)
    (hname : splitOnChar name '/' = ["Antennas", ant, which]) (hant : ant ≠ "")
    (hw : which = "az" ∨ which = "el")
    (hsrc : s.raw.lookup (ant ++ "_pos_actual_scan_" ++ (if which = "az" then "azim" else "elev"))
      = some (.data (.arr vs))) :
    runVirt s name .azel = some (.ok (vs.map (Val.app "deg2rad")), s) := by
  simp only [runVirt, hname]
  simp only [hant, hw, ne_eq, not_false_eq_true, and_self, if_true]
  simp only [fullArr, getPlain, Bool.not_true, Bool.and_false, Bool.false_eq_true, if_false, hsrc]

-- non-vacuity of `c12_virtual_azel`
example : runVirt { demo false with raw := [("m000_pos_actual_scan_elev", .data (.arr [.num 90, .nan]))] }
    "Antennas/m000/el" .azel =
    some (.ok [.app "deg2rad" (.num 90), .app "deg2rad" .nan],
      { demo false with raw := [("m000_pos_actual_scan_elev", .data (.arr [.num 90, .nan]))] }) :=
  c12_virtual_azel _ "Antennas/m000/el" "m000" "el" [.num 90, .nan] (by decide +kernel) (by decide)
    (by decide) (by decide +kernel)

/-- a virtual sensor is computed once, stored under its name and from then on behaves like any
    cached sensor (so `c12_cache_stable` applies to it) -/
theorem c12_virtual_cached (s s' : Cache) (name : String) (vs : List Val) (sel ext : Bool) (kw : Props)
    (hnone : s.raw.lookup name = none) (hse : (sel && !ext) = false)
    (hv : firstVirt s name s.virt = some (.ok vs, s')) :
    (get s name sel ext kw).1 = (if sel then select (.arr vs) s'.keep else .ok (.full (.arr vs))) ∧
    (get s name sel ext kw).2.raw.lookup name = some (.data (.arr vs)) := by
  unfold Sensor.get
  simp only [hse, Bool.false_eq_true, if_false, hnone, hv]
  refine ⟨?_, lookup_dictSet_self name _ _⟩
  first | trivial | rfl

def demoAz : Cache :=
  { demo false with
    raw := [("m000_pos_actual_scan_azim", .getter 0)],
    keep := .mask [true, false, false, false, false, true, false, false, false, false] }

example : (get demoAz "Antennas/m000/az" true true {}).1 =
    .ok (.sel [.app "deg2rad" (.num 3), .app "deg2rad" (.num 4)]) ∧
    (get demoAz "Timestamps/mjd" true true {}).1 = .ok (.sel [.app "mjd" (.num 0), .app "mjd" (.num 5)]) := by
  decide +kernel

end C12
