/-
  C07 — Chunk store round trip and chunk addressing.

  "Any array written to a chunk store back-end (in-memory dict, NPY files, S3) as chunks, for any
   object-free dtype, shape, chunking and offset, reads back element-for-element identical, either
   chunk by chunk or as a lazy array optionally restricted by unit-step slices, in which case only
   stored chunks overlapping the slices are requested and no chunk boundary is altered. Chunk
   names are a deterministic, injective function of array name and chunk start indices in the
   documented zero-padded form, completion markers are idempotent, and chunking schemes produced
   by the chunk generator tile the array exactly within the requested size, power-of-two and
   per-dimension limits."

  Model: KatdalModel/Model/ChunkStore.lean (mirror of katdal/chunkstore.py and of the
  name -> location maps of chunkstore_dict / chunkstore_npy / chunkstore_s3).
  numpy's NPY encoder/decoder is an opaque bijection here (a stored chunk *is* its dtype
  descriptor, shape and bytes); the byte level is C08's subject.
-/
import KatdalModel.Lemmas.ChunkNames
import KatdalModel.Lemmas.ChunkPrune
import KatdalModel.Lemmas.ChunkGen
open Np ChunkStore

namespace C07

/-! ### 1. Chunk names -/

/-- the index field is the zero-padded decimal of the start index: reading the digits back
    gives the index, for every width and every index -/
theorem c07_index_field_value (w n : Nat) : Nat.ofDigitChars 10 (padDec w n) 0 = n :=
  ofDigitChars_padDec w n

example : padDec 5 12 = "00012".toList := by decide
example : padDec 5 123456 = "123456".toList := by decide

/-- only digits, at least `w` of them, exactly `w` iff the index fits ("width 5 minimum") -/
theorem c07_index_field_width (w n : Nat) :
    (∀ c ∈ padDec w n, c.isDigit = true) ∧ w ≤ (padDec w n).length ∧
      (0 < w → ((padDec w n).length = w ↔ n < 10 ^ w)) := by
  refine ⟨fun c hc => padDec_isDigit hc, ?_, fun hw => padDec_length_eq_iff hw⟩
  rw [padDec_length]; omega

example : (padDec 5 99999).length = 5 ∧ (padDec 5 100000).length = 6 := by decide

/-- the documented form: width 5 -/
theorem c07_documented_width : Tables.nameIndexWidth = 5 ∧ Tables.nameSep = "/" := by decide

/-- **chunk_id_str is injective** in the start indices, for any width (so also for the current
    `NAME_INDEX_WIDTH`), any number of dimensions -/
theorem c07_chunk_id_injective (w : Nat) (s s' : List Nat)
    (h : chunkIdStrW w s = chunkIdStrW w s') : s = s' :=
  chunkIdStrW_inj h

example : chunkIdStr [12, 1024, 0] = "00012_01024_00000".toList := by decide
example : chunkIdStr [] = [] ∧ chunkIdStr [0] ≠ chunkIdStr [0, 0] := by decide
-- without padding and separator the claim would fail: "1"+"23" = "12"+"3"
example : Nat.toDigits 10 1 ++ Nat.toDigits 10 23 = Nat.toDigits 10 12 ++ Nat.toDigits 10 3 := by decide

/-- **the chunk name is injective in (array name, start indices)**, for every array name
    (also names that contain or end with the separator) -/
theorem c07_chunk_name_injective (a a' : Name) (s s' : List Nat)
    (h : chunkName a s = chunkName a' s') : a = a' ∧ s = s' :=
  chunkName_inj h

example : chunkName "cb/x".toList [3, 40] = "cb/x/00003_00040".toList := by decide

/-- the executable formatter over Python ints agrees with the padded decimal on non-negative
    starts (negative starts are outside the property: katdal never builds them) -/
theorem c07_chunk_id_int_agrees (s : List Nat) : chunkIdStrInt (s.map Int.ofNat) = chunkIdStr s :=
  chunkIdStrInt_ofNat s

example : chunkIdStrInt [-1, 7] = "-0001_00007".toList := by decide

/-! ### 2. chunk_metadata builds exactly that name -/

/-- for the slices katdal builds (unit step, non-negative starts) `chunk_metadata` accepts an
    object-free chunk of the implied shape and returns `chunkName array starts` -/
theorem c07_metadata_name (array : Name) (starts shape : List Nat) (h : starts.length = shape.length) :
    chunkMetadata array (natSlices starts shape) (some shape) false false
      = .ok (chunkName array starts, shape.map Int.ofNat) ∧
    chunkMetadata array (natSlices starts shape) none false false
      = .ok (chunkName array starts, shape.map Int.ofNat) :=
  chunkMetadata_natSlices array starts shape h

/-- a chunk whose shape differs from the slices, or that holds objects, is refused (BadChunk);
    non-unit steps and open-ended slices are a TypeError -/
theorem c07_metadata_rejects (array : Name) (starts shape cs : List Nat)
    (h : starts.length = shape.length) :
    (cs ≠ shape → chunkMetadata array (natSlices starts shape) (some cs) false false = .error .badChunk) ∧
    chunkMetadata array (natSlices starts shape) (some shape) true false = .error .badChunk ∧
    chunkMetadata array (natSlices starts shape) none false true = .error .badChunk ∧
    (∀ a b, chunkMetadata array [⟨a, b, some 2⟩] none false false = .error .typeError) ∧
    chunkMetadata array [⟨none, some 3, none⟩] none false false = .error .typeError := by
  have hsteps := steps_natSlices starts shape
  refine ⟨?_, ?_, ?_, ?_, ?_⟩
  · intro hne
    have : cs.map Int.ofNat ≠ shape.map Int.ofNat := by
      intro heq
      apply hne
      have hinj : ∀ (l l' : List Nat), l.map Int.ofNat = l'.map Int.ofNat → l = l' := by
        intro l
        induction l with
        | nil => intro l' h; cases l' <;> simp at h ⊢
        | cons x xs ih =>
          intro l' h
          cases l' with
          | nil => simp at h
          | cons y ys =>
            simp only [List.map_cons, List.cons.injEq] at h
            rw [ih ys h.2, Int.ofNat.inj h.1]
      exact hinj _ _ heq
    simp only [chunkMetadata, sliceShape_natSlices starts shape h, hsteps]
    simp [this]
  · simp only [chunkMetadata, sliceShape_natSlices starts shape h, hsteps]
    simp
  · simp only [chunkMetadata, sliceShape_natSlices starts shape h, hsteps]
    simp
  · intro a b
    cases a <;> cases b <;> simp [chunkMetadata, sliceShape]
  · simp [chunkMetadata, sliceShape]

/-! ### 3. Keyed stores (NPY files, S3 objects): put/get round trip, other chunks untouched -/

/-- **round trip**: what `put_chunk` stored under (array, starts) is what `get_chunk` returns,
    for any location map -/
theorem c07_store_roundtrip {L} [DecidableEq L] (loc : Name → L) (σ σ' : KV L) (array : Name)
    (starts : List Nat) (c : Chunk) (h : starts.length = c.shape.length)
    (hput : kvPut loc σ array (natSlices starts c.shape) c false = .ok σ') :
    kvGet loc σ' array (natSlices starts c.shape) c.dtype false = .ok c := by
  have hm := c07_metadata_name array starts c.shape h
  unfold kvPut at hput
  rw [hm.1] at hput
  simp only [Except.ok.injEq] at hput
  subst hput
  unfold kvGet
  rw [hm.2]
  simp [KV.set]

-- put one chunk into an empty NPY store and read it back; a neighbouring chunk stays absent
example : (match kvPut (npyLoc "/d".toList) (fun _ => none) "x".toList (natSlices [0] [2])
      ⟨"<f4".toList, [2], [1, 2, 3, 4, 5, 6, 7, 8]⟩ false with
    | .ok σ => (kvGet (npyLoc "/d".toList) σ "x".toList (natSlices [0] [2]) "<f4".toList false,
                kvGet (npyLoc "/d".toList) σ "x".toList (natSlices [2] [2]) "<f4".toList false)
    | .error e => (.error e, .error e))
    = (.ok ⟨"<f4".toList, [2], [1, 2, 3, 4, 5, 6, 7, 8]⟩, .error .chunkNotFound) := by decide

/-- **other chunks are untouched**: with an injective location map, a put under (array, starts)
    does not change what any other (array', starts') reads -/
theorem c07_store_put_other {L} [DecidableEq L] (loc : Name → L)
    (hloc : ∀ n n', loc n = loc n' → n = n') (σ σ' : KV L) (array array' : Name)
    (starts starts' shape' : List Nat) (c : Chunk) (dt : List Char)
    (h : starts.length = c.shape.length) (h' : starts'.length = shape'.length)
    (hne : ¬ (array = array' ∧ starts = starts'))
    (hput : kvPut loc σ array (natSlices starts c.shape) c false = .ok σ') :
    kvGet loc σ' array' (natSlices starts' shape') dt false
      = kvGet loc σ array' (natSlices starts' shape') dt false := by
  have hm := c07_metadata_name array starts c.shape h
  have hm' := c07_metadata_name array' starts' shape' h'
  unfold kvPut at hput
  rw [hm.1] at hput
  simp only [Except.ok.injEq] at hput
  subst hput
  unfold kvGet
  rw [hm'.2]
  have : loc (chunkName array' starts') ≠ loc (chunkName array starts) := by
    intro heq
    have := chunkName_inj (hloc _ _ heq)
    exact hne ⟨this.1.symm, this.2.symm⟩
  simp [KV.set, this]

/-- the NPY store's file names are an injective function of the chunk name -/
theorem c07_npy_location_injective (root n n' : Name) (h : npyLoc root n = npyLoc root n') :
    n = n' := npyLoc_inj h

example : npyLoc "/data".toList (chunkName "x".toList [0, 16]) = "/data/x/00000_00016.npy".toList := by
  decide

/-- wrong dtype or shape in the store is a BadChunk, an absent chunk a ChunkNotFound -/
theorem c07_store_get_checks {L} (loc : Name → L) (σ : KV L) (array : Name)
    (starts shape : List Nat) (dt : List Char) (h : starts.length = shape.length) :
    (σ (loc (chunkName array starts)) = none →
      kvGet loc σ array (natSlices starts shape) dt false = .error .chunkNotFound) ∧
    (∀ c, σ (loc (chunkName array starts)) = some (.chunk c) → (c.shape ≠ shape ∨ c.dtype ≠ dt) →
      kvGet loc σ array (natSlices starts shape) dt false = .error .badChunk) := by
  have hm := c07_metadata_name array starts shape h
  constructor
  · intro hn
    unfold kvGet; rw [hm.2]; simp [hn]
  · intro c hc hbad
    unfold kvGet; rw [hm.2]
    simp only [hc]
    rcases hbad with hs | hd
    · have : c.shape.map Int.ofNat ≠ shape.map Int.ofNat := by
        intro heq
        apply hs
        have hinj : ∀ (l l' : List Nat), l.map Int.ofNat = l'.map Int.ofNat → l = l' := by
          intro l
          induction l with
          | nil => intro l' h; cases l' <;> simp at h ⊢
          | cons x xs ih =>
            intro l' h
            cases l' with
            | nil => simp at h
            | cons y ys =>
              simp only [List.map_cons, List.cons.injEq] at h
              rw [ih ys h.2, Int.ofNat.inj h.1]
        exact hinj _ _ heq
      simp [this]
    · simp [hd]

/-! ### 4. Completion markers -/

/-- **mark_complete is idempotent**, makes `is_complete` true, and (NPY layout) never touches a
    chunk: the marker's file name is no chunk's file name -/
theorem c07_mark_complete_idempotent {L} [DecidableEq L] (mloc : Name → L) (σ : KV L) (a : Name) :
    kvMarkComplete mloc (kvMarkComplete mloc σ a) a = kvMarkComplete mloc σ a ∧
    kvIsComplete mloc (kvMarkComplete mloc σ a) a = true := by
  constructor
  · funext x
    simp only [kvMarkComplete, KV.set]
    split <;> rfl
  · simp [kvIsComplete, kvMarkComplete, KV.set]

theorem c07_mark_complete_keeps_chunks (root : Name) (σ : KV Name) (a a' : Name)
    (starts shape : List Nat) (dt : List Char) (h : starts.length = shape.length) :
    kvGet (npyLoc root) (kvMarkComplete (npyMarkerLoc root) σ a) a' (natSlices starts shape) dt false
      = kvGet (npyLoc root) σ a' (natSlices starts shape) dt false := by
  have hm := c07_metadata_name a' starts shape h
  unfold kvGet
  rw [hm.2]
  have : npyLoc root (chunkName a' starts) ≠ npyMarkerLoc root a :=
    fun heq => npyMarker_ne_final root a a' starts heq.symm
  simp [kvMarkComplete, KV.set, this]

example : kvIsComplete (npyMarkerLoc []) (fun _ => none) "x".toList = false := by decide

/-! ### 5. DictChunkStore: chunks are views of whole arrays -/

/-- coordinates inside a box of the given shape -/
def inBox : List Nat → List Nat → Bool
  | n :: ns, j :: js => decide (j < n) && inBox ns js
  | [], [] => true
  | _, _ => false

theorem region_add : ∀ (starts shape j : List Nat), starts.length = shape.length →
    inBox shape j = true →
    inRegion starts shape (addCoords starts j) = true ∧ subCoords starts (addCoords starts j) = j := by
  intro starts
  induction starts with
  | nil =>
    intro shape j h hb
    cases shape with
    | nil => cases j with
      | nil => exact ⟨rfl, rfl⟩
      | cons _ _ => simp [inBox] at hb
    | cons _ _ => simp at h
  | cons a t ih =>
    intro shape j h hb
    cases shape with
    | nil => simp at h
    | cons n ns =>
      cases j with
      | nil => simp [inBox] at hb
      | cons x xs =>
        simp only [List.length_cons] at h
        simp only [inBox, Bool.and_eq_true, decide_eq_true_eq] at hb
        have := ih ns xs (by omega) hb.2
        simp only [addCoords, inRegion, subCoords, Bool.and_eq_true, decide_eq_true_eq, this.1,
          this.2, and_true, List.cons.injEq]
        omega

/-- **dict store round trip**: after `array[slices] = chunk`, the view `array[slices]` holds the
    chunk's elements at every coordinate of the chunk, and every coordinate outside the region
    keeps its old element -/
theorem c07_dict_roundtrip {α} (a c : DArr α) (starts : List Nat)
    (h : starts.length = c.shape.length) :
    (∀ j, inBox c.shape j = true → ((a.assign starts c).view starts c.shape).get j = c.get j) ∧
    (∀ j, inRegion starts c.shape j = false → (a.assign starts c).get j = a.get j) := by
  constructor
  · intro j hj
    have := region_add starts c.shape j h hj
    simp [DArr.view, DArr.assign, this.1, this.2]
  · intro j hj
    simp [DArr.assign, hj]

example : inBox [2, 3] [1, 2] = true ∧ inBox [2, 3] [2, 0] = false := by decide

/-! ### 6. `_prune_chunks`: only overlapping chunks, boundaries unchanged -/

/-- **the kept chunks are a contiguous sub-list of the stored chunking**, the offset is the
    total size of the dropped leading chunks, and the adjusted index selects the same elements:
    `offset + start' = start`, `offset + stop' = stop`, and `stop'` lies inside the kept chunks -/
theorem c07_prune_sound (chunks : List Nat) (start stop : Nat) (h1 : start ≤ stop)
    (h2 : stop ≤ chunks.sum) :
    let r := pruneAxisRaw chunks start stop
    let a := (pruneCounts chunks start stop).1
    let e := (pruneCounts chunks start stop).2
    r.chunks = (chunks.take e).drop a ∧ a ≤ e ∧ e ≤ chunks.length ∧
    r.offset = (chunks.take a).sum ∧
    r.offset + r.start = start ∧ r.offset + r.stop = stop ∧ r.stop ≤ r.chunks.sum := by
  have hle := pruneCounts_le chunks start stop
  have hoff := pruneAxisRaw_offset chunks start stop
  have hol := pruneAxisRaw_offset_le chunks start stop
  have hcov := pruneAxisRaw_covers chunks start stop h1 h2
  refine ⟨rfl, hle.1, hle.2, hoff, ?_, ?_, hcov⟩
  · show (pruneAxisRaw chunks start stop).offset + (start - (pruneAxisRaw chunks start stop).offset) = start
    omega
  · show (pruneAxisRaw chunks start stop).offset + (stop - (pruneAxisRaw chunks start stop).offset) = stop
    omega

/-- whatever unit-step slice the caller writes (negative, open-ended, out of range, reversed),
    `_prune_chunks` works on `0 ≤ start ≤ stop ≤ n`: the hypotheses of the theorems of this
    section hold for every index `get_dask_array` accepts -/
theorem c07_index_normalised_in_range (n : Nat) (a b c : Option Int) (s e : Nat)
    (h : normPIx n a b c = .ok (.range s e)) : s ≤ e ∧ e ≤ n :=
  normPIx_range n a b c s e h

example : normPIx 6 (some (-4)) (some 100) none = .ok (.range 2 6) ∧
    normPIx 6 (some 5) (some 2) (some 1) = .ok (.range 5 5) ∧
    normPIx 6 none (some 6) none = .ok .full ∧
    normPIx 6 none none (some 2) = .error .indexError := by decide

/-- **a stored chunk is kept iff it overlaps the requested range** `[start, stop)`:
    `start < hi_i ∧ lo_i < stop` (for an empty range this is the chunk strictly containing the
    point, if any) -/
theorem c07_prune_kept_iff_overlap (chunks : List Nat) (start stop : Nat) (hs : stop ≤ chunks.sum)
    (i : Nat) (hi : i < chunks.length) :
    ((pruneCounts chunks start stop).1 ≤ i ∧ i < (pruneCounts chunks start stop).2) ↔
      (start < chunkHi chunks i ∧ chunkLo chunks i < stop) :=
  pruneCounts_iff chunks start stop hs i hi

example : pruneCounts [2, 2, 2] 3 5 = (1, 3) ∧ chunkLo [2, 2, 2] 1 = 2 ∧ chunkHi [2, 2, 2] 1 = 4 := by decide

/-- **no chunk boundary is altered**: the kept chunks, placed at the returned offset, have the
    store coordinates they had in the full array -/
theorem c07_prune_boundaries_unchanged (chunks : List Nat) (start stop : Nat) :
    chunkBounds (pruneAxisRaw chunks start stop).offset (pruneAxisRaw chunks start stop).chunks
      = ((chunkBounds 0 chunks).take (pruneCounts chunks start stop).2).drop
          (pruneCounts chunks start stop).1 :=
  pruneAxisRaw_bounds chunks start stop

example : chunkBounds (pruneAxisRaw [2, 2, 2] 3 5).offset (pruneAxisRaw [2, 2, 2] 3 5).chunks = [(2, 4), (4, 6)] := by
  decide

/-- a non-empty range always keeps at least one stored chunk; the zero-size placeholder chunk
    `(0,)` ("dask doesn't allow empty chunk lists") can only arise from an empty range -/
theorem c07_prune_nonempty (chunks : List Nat) (start stop : Nat) (h1 : start < stop)
    (h2 : stop ≤ chunks.sum) :
    (pruneAxisRaw chunks start stop).chunks ≠ [] ∧
      pruneAxis chunks start stop = pruneAxisRaw chunks start stop := by
  have hle := pruneCounts_le chunks start stop
  have hoff := pruneAxisRaw_offset chunks start stop
  have hol := pruneAxisRaw_offset_le chunks start stop
  -- the first chunk not dropped by the leading loop overlaps
  have ha : (pruneCounts chunks start stop).1 < chunks.length := by
    rcases Nat.lt_or_ge (pruneCounts chunks start stop).1 chunks.length with h | h
    · exact h
    · exfalso
      rw [List.take_of_length_le h] at hoff
      omega
  have hiff := pruneCounts_iff chunks start stop h2 _ ha
  have hlo : chunkLo chunks (pruneCounts chunks start stop).1 < stop := by
    unfold chunkLo; omega
  have hhi : start < chunkHi chunks (pruneCounts chunks start stop).1 := by
    have hl := leadLoop_iff chunks start _ ha
    have : (leadLoop chunks start).1 = (pruneCounts chunks start stop).1 := rfl
    rw [this] at hl
    unfold chunkHi
    have := mt hl.mpr (Nat.lt_irrefl _)
    omega
  have hkept := hiff.mpr ⟨hhi, hlo⟩
  have hne : (pruneAxisRaw chunks start stop).chunks ≠ [] := by
    intro hnil
    have hlen := congrArg List.length hnil
    simp only [pruneAxisRaw, List.length_drop, List.length_take, List.length_nil] at hlen
    omega
  refine ⟨hne, ?_⟩
  unfold pruneAxis
  have hemp : (pruneAxisRaw chunks start stop).chunks.isEmpty = false := by
    cases hc : (pruneAxisRaw chunks start stop).chunks with
    | nil => exact absurd hc hne
    | cons _ _ => rfl
  simp only [hemp, Bool.false_eq_true, if_false]

example : pruneAxis [2, 2, 2] 1 5 = ⟨[2, 2, 2], 1, 5, 0⟩ := by decide
example : pruneAxis [2, 2, 2] 2 3 = ⟨[2], 0, 1, 2⟩ := by decide
example : pruneAxis [2, 2, 2] 3 3 = ⟨[2], 1, 1, 2⟩ := by decide
-- an empty range on a chunk boundary keeps nothing and gets the zero-size placeholder chunk
example : pruneAxis [3, 3] 3 3 = ⟨[0], 0, 0, 3⟩ := by decide

/-! ### 7. generate_chunks tiles the array within the limits -/

/-- per axis: the chunk sizes sum to the axis length, all but the last equal the block size,
    none exceeds it, and none is empty unless the axis is -/
theorem c07_blockdims_tiles (d bd : Nat) (h : 0 < bd) :
    (blockdims d bd).sum = d ∧ (∀ x ∈ (blockdims d bd).dropLast, x = bd) ∧
    (∀ x ∈ blockdims d bd, x ≤ bd) ∧ (0 < d → ∀ x ∈ blockdims d bd, 0 < x) :=
  ⟨blockdims_sum d bd, blockdims_dropLast d bd, blockdims_le d bd h, fun hd => blockdims_pos d bd hd h⟩

example : blockdims 10 4 = [4, 4, 2] ∧ blockdims 8 4 = [4, 4] ∧ blockdims 0 4 = [0] := by decide

/-- **generate_chunks tiles exactly** (`itemsize ≥ 1`, limits `≥ 1`): on every axis `i` the chunk
    sizes are `blockdims shape[i] bs[i]` for a block size `1 ≤ bs[i] ≤ shape[i]` (when the axis
    is non-empty), hence sum to `shape[i]` with all but the last equal; an axis outside
    `dims_to_split` is one whole chunk; a limited axis respects its `max_dim_elements`; with
    `power_of_two` every block size is a power of two or the whole axis -/
theorem c07_generate_chunks_tiles (shape : List Nat) (itemsize maxBytes : Nat) (dims : List Nat)
    (pow2 : Bool) (maxDim : List (Nat × Nat))
    (hpos : ∀ i m, lookupDim maxDim i = some m → 1 ≤ m) (i : Nat) (hi : i < shape.length) :
    let bs := dimElements shape itemsize maxBytes dims pow2 maxDim
    let ch := (generateChunks shape itemsize maxBytes dims pow2 maxDim).getD i []
    ch = blockdims (shape.getD i 0) (bs.getD i 0) ∧
    ch.sum = shape.getD i 0 ∧
    (∀ x ∈ ch.dropLast, x = bs.getD i 0) ∧
    bs.getD i 0 ≤ shape.getD i 0 ∧
    (1 ≤ shape.getD i 0 → 1 ≤ bs.getD i 0 ∧ ∀ x ∈ ch, 0 < x ∧ x ≤ bs.getD i 0) ∧
    (i ∉ dims → ch = [shape.getD i 0]) ∧
    (∀ m, i ∈ dims → lookupDim maxDim i = some m → ∀ x ∈ ch, 1 ≤ shape.getD i 0 → x ≤ m) ∧
    (pow2 = true → bs.getD i 0 = shape.getD i 0 ∨ IsPow2 (bs.getD i 0)) := by
  intro bs ch
  have g := dimElements_good shape itemsize maxBytes dims pow2 maxDim hpos
  have hch : ch = blockdims (shape.getD i 0) (bs.getD i 0) :=
    zipBlockdims_getD shape bs i g.len hi
  refine ⟨hch, ?_, ?_, g.le_shape i, ?_, ?_, ?_, ?_⟩
  · rw [hch]; exact blockdims_sum _ _
  · rw [hch]; exact blockdims_dropLast _ _
  · intro hs
    have hb := g.pos i hs
    refine ⟨hb, ?_⟩
    intro x hx
    rw [hch] at hx
    exact ⟨blockdims_pos _ _ hs hb x hx, blockdims_le _ _ hb x hx⟩
  · intro hnot
    have hfr : bs.getD i 0 = shape.getD i 0 := by
      show (dimElements shape itemsize maxBytes dims pow2 maxDim).getD i 0 = _
      unfold dimElements
      rw [splitLoop_frame _ _ _ _ _ _ _ _ hnot, limitDims_frame _ _ _ _ _ _ _ hnot]
    rw [hch, hfr]; exact blockdims_whole _
  · intro m hmem hl x hx hs
    rw [hch] at hx
    have := blockdims_le _ _ (g.pos i hs) x hx
    exact Nat.le_trans this (g.limit i m hmem hl)
  · intro hp; exact g.pow hp i

/-- **the size budget, stated exactly**: when `generate_chunks` returns, either a full block fits
    in `max_chunk_size` bytes, or every dimension in `dims_to_split` is already down to one
    element per chunk.  (`np.ceil` in the non-power-of-two branch never breaches the budget: it
    yields a block of at most `trg_elements_real` elements, at the price of blocks smaller than
    necessary.) -/
theorem c07_generate_chunks_budget (shape : List Nat) (itemsize maxBytes : Nat) (dims : List Nat)
    (pow2 : Bool) (maxDim : List (Nat × Nat))
    (hpos : ∀ i m, lookupDim maxDim i = some m → 1 ≤ m) (hnd : dims.Nodup) :
    let bs := dimElements shape itemsize maxBytes dims pow2 maxDim
    bs.prod * itemsize ≤ maxBytes ∨ ∀ dim ∈ dims, bs.getD dim 1 = 1 := by
  intro bs
  have g0 := limitDims_good shape pow2 maxDim hpos dims [] shape (good_shape shape maxDim pow2)
  simp only [List.nil_append] at g0
  exact splitLoop_budget itemsize maxBytes dims _ g0 hnd

example : generateChunks [10, 8] 1 16 [0, 1] false [] = [[2, 2, 2, 2, 2], [8]] := by decide
example : generateChunks [10, 8] 4 64 [1] true [] = [[10], [1, 1, 1, 1, 1, 1, 1, 1]] := by decide
example : generateChunks [10, 100] 1 90 [0, 1] true [(1, 20)] = [[4, 4, 2], [16, 16, 16, 16, 16, 16, 4]] := by
  decide
-- the ceil rule: 10 elements, budget 3 -> 4 pieces of 2 (not 3, 3, 3, 1)
example : generateChunks [10] 1 3 [0] false [] = [[2, 2, 2, 2, 2]] := by decide

/-! ### 8. S3 bucket-name normalisation -/

theorem mem_takeWhile_true {α} (p : α → Bool) :
    ∀ (l : List α) (c : α), c ∈ l.takeWhile p → p c = true := by
  intro l
  induction l with
  | nil => intro c h; simp at h
  | cons x t ih =>
    intro c h
    rw [List.takeWhile_cons] at h
    split at h
    · rw [List.mem_cons] at h
      rcases h with h | h
      · rw [h]; assumption
      · exact ih c h
    · simp at h

theorem dropWhile_head_false {α} (p : α → Bool) :
    ∀ (l : List α) (x : α) (xs : List α), l.dropWhile p = x :: xs → p x = false := by
  intro l
  induction l with
  | nil => intro x xs h; simp at h
  | cons y t ih =>
    intro x xs h
    rw [List.dropWhile_cons] at h
    by_cases hp : p y = true
    · rw [if_pos hp] at h; exact ih x xs h
    · rw [if_neg hp] at h
      injection h with h1 _
      rw [← h1]
      simpa using hp

/-- **only the first path component changes** (`_` -> `-`), everything from the next `/` on is
    kept verbatim -/
theorem c07_bucket_normalise (path : List Char) :
    ∃ bucket rest, path.dropWhile (· = '/') = bucket ++ rest ∧ (∀ c ∈ bucket, c ≠ '/') ∧
      (rest = [] ∨ rest.head? = some '/') ∧
      normaliseBucketPath path = '/' :: bucket.map (fun c => if c = '_' then '-' else c) ++ rest := by
  refine ⟨(path.dropWhile (· = '/')).takeWhile (· ≠ '/'), (path.dropWhile (· = '/')).dropWhile (· ≠ '/'),
    (List.takeWhile_append_dropWhile).symm, ?_, ?_, rfl⟩
  · intro c hc
    have := mem_takeWhile_true _ _ c hc
    simpa using this
  · cases h : (path.dropWhile (· = '/')).dropWhile (· ≠ '/') with
    | nil => left; rfl
    | cons x xs =>
      right
      have := dropWhile_head_false _ _ x xs h
      simp only [ne_eq, decide_not, Bool.not_eq_eq_eq_not, Bool.not_false, decide_eq_true_eq] at this
      simp [this]

example : s3Loc (chunkName "my_bucket/x_y".toList [0]) = "/my-bucket/x_y/00000.npy".toList := by decide

end C07
