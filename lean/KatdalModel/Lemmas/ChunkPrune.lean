/-
  Lemmas about `_prune_chunks` on one axis.
-/
import KatdalModel.Model.ChunkStore
import KatdalModel.Lemmas.Normalize
open Np

namespace ChunkStore

/-- store coordinate where chunk `i` starts -/
def chunkLo (chunks : List Nat) (i : Nat) : Nat := (chunks.take i).sum
/-- store coordinate where chunk `i` stops -/
def chunkHi (chunks : List Nat) (i : Nat) : Nat := (chunks.take (i + 1)).sum

theorem sum_take_le (l : List Nat) (k : Nat) : (l.take k).sum ≤ l.sum := by
  have h := List.take_append_drop k l
  have : (l.take k ++ l.drop k).sum = l.sum := by rw [h]
  rw [List.sum_append] at this
  omega

theorem sum_drop_eq (l : List Nat) (k : Nat) : (l.drop k).sum = l.sum - (l.take k).sum := by
  have h := List.take_append_drop k l
  have : (l.take k ++ l.drop k).sum = l.sum := by rw [h]
  rw [List.sum_append] at this
  omega

theorem sum_take_mono (l : List Nat) {i j : Nat} (h : i ≤ j) : (l.take i).sum ≤ (l.take j).sum := by
  obtain ⟨d, rfl⟩ := Nat.exists_eq_add_of_le h
  rw [List.take_add, List.sum_append]
  omega

/-! ### the leading loop -/

theorem leadLoop_count_le (ch : List Nat) : ∀ st, (leadLoop ch st).1 ≤ ch.length := by
  induction ch with
  | nil => intro st; simp [leadLoop]
  | cons c t ih =>
    intro st
    unfold leadLoop
    split
    · have := ih (st - c); simp only [List.length_cons]; omega
    · simp

/-- the offset is the total size of the dropped leading chunks -/
theorem leadLoop_offset (ch : List Nat) :
    ∀ st, (leadLoop ch st).2 = (ch.take (leadLoop ch st).1).sum := by
  induction ch with
  | nil => intro st; simp [leadLoop]
  | cons c t ih =>
    intro st
    unfold leadLoop
    split
    · have := ih (st - c)
      simp only [List.take_succ_cons, List.sum_cons]
      omega
    · simp

theorem leadLoop_offset_le (ch : List Nat) : ∀ st, (leadLoop ch st).2 ≤ st := by
  induction ch with
  | nil => intro st; simp [leadLoop]
  | cons c t ih =>
    intro st
    unfold leadLoop
    split
    · have := ih (st - c); simp only; omega
    · simp

/-- chunk `i` is dropped by the leading loop iff it ends at or before `st` -/
theorem leadLoop_iff (ch : List Nat) :
    ∀ st i, i < ch.length → (i < (leadLoop ch st).1 ↔ (ch.take (i + 1)).sum ≤ st) := by
  induction ch with
  | nil => intro st i hi; simp at hi
  | cons c t ih =>
    intro st i hi
    unfold leadLoop
    split
    · rename_i hc
      cases i with
      | zero => simp; exact hc
      | succ j =>
        simp only [List.length_cons] at hi
        have := ih (st - c) j (by omega)
        simp only [List.take_succ_cons, List.sum_cons]
        constructor
        · intro h; have := this.mp (by omega); omega
        · intro h; have := this.mpr (by omega); omega
    · rename_i hc
      simp only [List.take_succ_cons, List.sum_cons]
      constructor
      · intro h; omega
      · intro h; omega

/-! ### both loops -/

theorem pruneCounts_le (chunks : List Nat) (start stop : Nat) :
    (pruneCounts chunks start stop).1 ≤ (pruneCounts chunks start stop).2 ∧
    (pruneCounts chunks start stop).2 ≤ chunks.length := by
  unfold pruneCounts
  simp only
  have ha := leadLoop_count_le chunks start
  have hb := leadLoop_count_le (chunks.drop (leadLoop chunks start).1).reverse (chunks.sum - stop)
  simp only [List.length_reverse, List.length_drop] at hb
  omega

/-- sum of the last `j+1` elements -/
theorem sum_take_reverse (l : List Nat) (j : Nat) :
    (l.reverse.take (j + 1)).sum = l.sum - (l.take (l.length - (j + 1))).sum := by
  rw [List.take_reverse, List.sum_reverse, sum_drop_eq]

/-- **a chunk is kept iff it overlaps the requested range**: `start < hi_i ∧ lo_i < stop` -/
theorem pruneCounts_iff (chunks : List Nat) (start stop : Nat) (hs : stop ≤ chunks.sum)
    (i : Nat) (hi : i < chunks.length) :
    ((pruneCounts chunks start stop).1 ≤ i ∧ i < (pruneCounts chunks start stop).2) ↔
      (start < chunkHi chunks i ∧ chunkLo chunks i < stop) := by
  unfold pruneCounts chunkHi chunkLo
  simp only
  have hlead := leadLoop_iff chunks start i hi
  generalize ha : (leadLoop chunks start).1 = a at *
  have hale := leadLoop_count_le chunks start
  rw [ha] at hale
  have hble := leadLoop_count_le (chunks.drop a).reverse (chunks.sum - stop)
  simp only [List.length_reverse, List.length_drop] at hble
  generalize hb : (leadLoop (chunks.drop a).reverse (chunks.sum - stop)).1 = b at *
  by_cases hia : a ≤ i
  · -- position of chunk i counted from the end of `rest`
    have hj : chunks.length - 1 - i < (chunks.drop a).reverse.length := by
      simp only [List.length_reverse, List.length_drop]; omega
    have htrail := leadLoop_iff (chunks.drop a).reverse (chunks.sum - stop) (chunks.length - 1 - i) hj
    rw [hb] at htrail
    rw [sum_take_reverse] at htrail
    have hlen : (chunks.drop a).length - (chunks.length - 1 - i + 1) = i - a := by
      simp only [List.length_drop]; omega
    rw [hlen, sum_drop_eq] at htrail
    have hsplit : (chunks.take i).sum = (chunks.take a).sum + ((chunks.drop a).take (i - a)).sum := by
      have : i = a + (i - a) := by omega
      conv => lhs; rw [this, List.take_add, List.sum_append]
    have h1 := sum_take_le chunks i
    have h2 := sum_take_le chunks a
    constructor
    · intro ⟨_, h⟩
      refine ⟨?_, ?_⟩
      · have : ¬ (i < a) := by omega
        have := mt hlead.mpr this
        omega
      · have : ¬ (chunks.length - 1 - i < b) := by omega
        have := mt htrail.mpr this
        omega
    · intro ⟨_, h⟩
      refine ⟨hia, ?_⟩
      have : ¬ ((chunks.sum - (chunks.take a).sum - ((chunks.drop a).take (i - a)).sum) ≤ chunks.sum - stop) := by
        omega
      have := mt htrail.mp this
      omega
  · constructor
    · intro ⟨h, _⟩; omega
    · intro ⟨h, _⟩
      have : i < a := by omega
      have := hlead.mp this
      omega

/-! ### facts about the result of `pruneAxisRaw` -/

theorem pruneAxisRaw_offset (chunks : List Nat) (start stop : Nat) :
    (pruneAxisRaw chunks start stop).offset
      = (chunks.take (pruneCounts chunks start stop).1).sum := by
  unfold pruneAxisRaw pruneCounts
  simp only
  exact leadLoop_offset chunks start

theorem pruneAxisRaw_offset_le (chunks : List Nat) (start stop : Nat) :
    (pruneAxisRaw chunks start stop).offset ≤ start := by
  unfold pruneAxisRaw
  simp only
  exact leadLoop_offset_le chunks start

theorem sum_take_drop (l : List Nat) (a e : Nat) (h : a ≤ e) :
    ((l.take e).drop a).sum = (l.take e).sum - (l.take a).sum := by
  rw [sum_drop_eq, List.take_take]
  have : min a e = a := by omega
  rw [this]

/-- the requested range lies inside the kept chunks -/
theorem pruneAxisRaw_covers (chunks : List Nat) (start stop : Nat) (h1 : start ≤ stop)
    (h2 : stop ≤ chunks.sum) :
    (pruneAxisRaw chunks start stop).stop ≤ (pruneAxisRaw chunks start stop).chunks.sum := by
  have hle := pruneCounts_le chunks start stop
  have hoff := pruneAxisRaw_offset chunks start stop
  have hoffle := pruneAxisRaw_offset_le chunks start stop
  unfold pruneAxisRaw at *
  simp only at *
  generalize hcnt : pruneCounts chunks start stop = cnt at *
  obtain ⟨a, e⟩ := cnt
  simp only at *
  rw [sum_take_drop _ _ _ hle.1, hoff]
  -- stop ≤ lo_e
  have hstop : stop ≤ (chunks.take e).sum := by
    by_cases he : e < chunks.length
    · have hiff := pruneCounts_iff chunks start stop h2 e he
      rw [hcnt] at hiff
      simp only at hiff
      have hnot : ¬ (a ≤ e ∧ e < e) := by omega
      have := mt hiff.mpr hnot
      -- start < hi_e because e ≥ a is not dropped by the leading loop
      have hlead := leadLoop_iff chunks start e he
      have ha : (leadLoop chunks start).1 = a := by
        have : (pruneCounts chunks start stop).1 = a := by rw [hcnt]
        simpa [pruneCounts] using this
      rw [ha] at hlead
      have hhi : start < chunkHi chunks e := by
        unfold chunkHi
        have := mt hlead.mpr (by omega : ¬ e < a)
        omega
      unfold chunkLo at this
      have : ¬ (chunks.take e).sum < stop := fun hc => this ⟨hhi, hc⟩
      omega
    · rw [List.take_of_length_le (by omega)]; exact h2
  omega

/-! ### chunk boundaries -/

theorem chunkBounds_take (l : List Nat) : ∀ off e,
    chunkBounds off (l.take e) = (chunkBounds off l).take e := by
  induction l with
  | nil => intro off e; simp [chunkBounds]
  | cons c t ih =>
    intro off e
    cases e with
    | zero => simp [chunkBounds]
    | succ k => simp [chunkBounds, ih]

theorem chunkBounds_drop (l : List Nat) : ∀ off a,
    chunkBounds (off + (l.take a).sum) (l.drop a) = (chunkBounds off l).drop a := by
  induction l with
  | nil => intro off a; simp [chunkBounds]
  | cons c t ih =>
    intro off a
    cases a with
    | zero => simp [chunkBounds]
    | succ k =>
      simp only [List.take_succ_cons, List.sum_cons, List.drop_succ_cons, chunkBounds]
      have := ih (off + c) k
      rw [← this]
      congr 1
      omega

/-- **no chunk boundary is altered**: with the returned offset, the kept chunks have exactly
    the store coordinates they had in the full array -/
theorem pruneAxisRaw_bounds (chunks : List Nat) (start stop : Nat) :
    chunkBounds (pruneAxisRaw chunks start stop).offset (pruneAxisRaw chunks start stop).chunks
      = ((chunkBounds 0 chunks).take (pruneCounts chunks start stop).2).drop
          (pruneCounts chunks start stop).1 := by
  have hle := pruneCounts_le chunks start stop
  have hoff := pruneAxisRaw_offset chunks start stop
  rw [hoff]
  unfold pruneAxisRaw
  simp only
  generalize pruneCounts chunks start stop = cnt at *
  obtain ⟨a, e⟩ := cnt
  simp only at *
  rw [← chunkBounds_take]
  have : (chunks.take a).sum = ((chunks.take e).take a).sum := by
    rw [List.take_take]
    have : min a e = a := by omega
    rw [this]
  rw [this]
  have := chunkBounds_drop (chunks.take e) 0 a
  simpa using this

/-! ### the index as `_prune_chunks` sees it -/

/-- every unit-step slice that `normalize_index` + `slice.indices` accept on an axis of length
    `n` comes out as `0 ≤ start ≤ stop ≤ n` -/
theorem normPIx_range (n : Nat) (a b c : Option Int) (s e : Nat)
    (h : normPIx n a b c = .ok (.range s e)) : s ≤ e ∧ e ≤ n := by
  unfold normPIx at h
  cases hn : DaskIx.normalizeSlice n a b c with
  | none => simp [hn] at h
  | some t =>
    obtain ⟨a', b', c'⟩ := t
    simp only [hn] at h
    split at h
    · cases h
    · rename_i hc
      split at h
      · cases h
      · rename_i hfull
        have hc1 : c'.getD 1 = 1 := by
          simp only [Bool.not_eq_eq_eq_not, Bool.not_true, decide_eq_false_iff_not,
            Decidable.not_not] at hc
          rcases hc with hc | hc <;> rw [hc] <;> rfl
        rw [DaskIx.sliceIndices_eq n a' b' c' 1 hc1 (by decide)] at h
        simp only [Except.ok.injEq, PIx.range.injEq] at h
        -- shape of a', b' from normalize_slice
        unfold DaskIx.normalizeSlice at hn
        cases hi : sliceIndices n a b c with
        | none => simp [hi] at hn
        | some t0 =>
          obtain ⟨s0, e0, st⟩ := t0
          simp only [hi] at hn
          obtain ⟨_, hp, _⟩ := sliceIndices_bounds hi
          by_cases hpos : st > 0
          · have ⟨h1, h2, h3, h4⟩ := hp hpos
            simp only [hpos, if_true, Option.some.injEq, Prod.mk.injEq] at hn
            obtain ⟨ha, hb, _⟩ := hn
            subst ha; subst hb
            obtain ⟨hs, he⟩ := h
            subst hs; subst he
            by_cases z1 : s0 = 0 <;> by_cases z2 : e0 ≥ (n : Int) <;> by_cases z3 : e0 < s0 <;>
              simp [z1, z2, z3] <;>
              (try split) <;> (try split) <;> (try split) <;> omega
          · simp only [hpos, if_false, Option.some.injEq, Prod.mk.injEq] at hn
            obtain ⟨_, _, hcc⟩ := hn
            rw [← hcc] at hc1
            simp at hc1
            omega

end ChunkStore
