import Driver.Common
open Drv

/-- stub driver for C10: replaced when the property's model lands -/
def step (_line : String) : String := "bad-op"

def main : IO Unit := Drv.loop step
