"""Exhaustive small-scope comparison of the Lean `Np` layer with CPython / numpy.

This is a TEST (labelled as such everywhere): it is the only support for the claim that
`Np.sliceIndices`, `Np.rangeList`, `Np.normInt`, `Np.nonzero` and `Np.searchsorted*` mean what
CPython's `slice.indices` / `range` and numpy's `nonzero` / `searchsorted` mean.
"""
import itertools

import numpy as np

from harness import common

VALS = [None] + list(range(-8, 9))


def cases(nmax=7):
    lines, want = [], []
    for n in range(0, nmax + 1):
        for a, b, c in itertools.product(VALS, VALS, [None, -3, -2, -1, 0, 1, 2, 3]):
            lines.append(f"np.slice {n} {'_' if a is None else a} {'_' if b is None else b} {'_' if c is None else c}")
            if c == 0:
                want.append('E:ValueError')
            else:
                want.append(','.join(str(i) for i in range(*slice(a, b, c).indices(n))))
        for i in range(-n - 2, n + 3):
            lines.append(f'np.normint {n} {i}')
            want.append(str(i % n) if -n <= i < n else 'E:IndexError')
    for n in range(0, 8):
        for bits in itertools.product([0, 1], repeat=n):
            lines.append('np.nonzero ' + ''.join(map(str, bits)))
            want.append(','.join(str(i) for i in np.nonzero(np.array(bits, dtype=bool))[0]))
    for n in range(0, 6):
        for l in itertools.combinations_with_replacement(range(5), n):
            for v in range(-1, 6):
                for side in ('left', 'right'):
                    lines.append(f"np.ss {side} {','.join(map(str, l))} {v}")
                    want.append(str(int(np.searchsorted(np.array(l, dtype=int), v, side=side))))
    return lines, want


def run():
    """returns (number of comparisons, list of mismatches)"""
    lines, want = cases()
    got = common.run_model('C04', lines)
    bad = [(l, w, g) for l, w, g in zip(lines, want, got) if w != g]
    return len(lines), bad


if __name__ == '__main__':
    n, bad = run()
    print(n, 'comparisons,', len(bad), 'mismatches')
    for b in bad[:10]:
        print(b)
