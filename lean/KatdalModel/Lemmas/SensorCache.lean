/-
  C12 lemmas about the cache machine (Sensor.getPlain / get / step / run): dictionaries, what a
  read can and cannot change.
-/
import KatdalModel.Model.Sensor
open Np Index Sensor

namespace Sensor

/-! ### association-list dictionaries -/

theorem lookup_dictSet_self {α} (k : String) (v : α) :
    ∀ l : List (String × α), (dictSet k v l).lookup k = some v := by
  intro l
  induction l with
  | nil => simp [dictSet]
  | cons kv t ih =>
    obtain ⟨k', v'⟩ := kv
    unfold dictSet
    split
    · simp [List.lookup]
    · rename_i hne
      have : (k == k') = false := by
        simp only [beq_eq_false_iff_ne, ne_eq]
        intro h; exact hne h.symm
      simp [List.lookup, this, ih]

theorem lookup_dictSet_ne {α} (k k' : String) (v : α) (h : k' ≠ k) :
    ∀ l : List (String × α), (dictSet k v l).lookup k' = l.lookup k' := by
  intro l
  induction l with
  | nil =>
    have : (k' == k) = false := by simp [h]
    simp [dictSet, List.lookup, this]
  | cons kv t ih =>
    obtain ⟨k2, v2⟩ := kv
    unfold dictSet
    split
    · rename_i heq
      subst heq
      have : (k' == k2) = false := by simp [h]
      simp [List.lookup, this]
    · by_cases h2 : k' = k2
      · subst h2; simp [List.lookup]
      · have : (k' == k2) = false := by simp [h2]
        simp [List.lookup, this, ih]

theorem lookup_dictDel_ne {α} (k k' : String) (h : k' ≠ k) :
    ∀ l : List (String × α), (dictDel k l).lookup k' = l.lookup k' := by
  intro l
  induction l with
  | nil => simp [dictDel]
  | cons kv t ih =>
    obtain ⟨k2, v2⟩ := kv
    unfold dictDel
    split
    · rename_i heq
      subst heq
      have : (k' == k2) = false := by simp [h]
      simp [List.lookup, this]
    · by_cases h2 : k' = k2
      · subst h2; simp [List.lookup]
      · have : (k' == k2) = false := by simp [h2]
        simp [List.lookup, this, ih]

/-! ### properties: a stuck entry of another, wildcard-free name is invisible -/

theorem foldl_dictSet_skip (f : Props → String × Props → Props) (a : String) (v : Props)
    (hf : ∀ acc v', f acc (a, v') = acc) :
    ∀ (pm : PropMap) (acc : Props), (dictSet a v pm).foldl f acc = pm.foldl f acc := by
  intro pm
  induction pm with
  | nil => intro acc; simp [dictSet, hf]
  | cons kv t ih =>
    intro acc
    obtain ⟨k', v'⟩ := kv
    unfold dictSet
    split
    · rename_i heq
      subst heq
      simp [List.foldl, hf]
    · simp [List.foldl, ih]

theorem effProps_stick_other (a b : String) (v : Props) (pm : PropMap) (kw : Props)
    (hab : b ≠ a) (hstar : a.toList.contains '*' = false) :
    effProps b (dictSet a v pm) kw = effProps b pm kw := by
  unfold effProps
  rw [lookup_dictSet_ne a b v hab]
  simp only []
  rw [foldl_dictSet_skip]
  intro acc v'
  simp only [hstar, Bool.false_and, Bool.false_eq_true, if_false]

/-! ### what a read leaves alone -/

/-- fields no read ever writes (when time offsets are not applied in place) -/
def Frame (s s' : Cache) : Prop :=
  s'.getters = s.getters ∧ s'.dumps = s.dumps ∧ s'.period = s.period ∧ s'.keep = s.keep ∧
  s'.virt = s.virt ∧ s'.inplace = s.inplace

theorem Frame.refl (s : Cache) : Frame s s := ⟨rfl, rfl, rfl, rfl, rfl, rfl⟩

theorem Frame.trans {a b c : Cache} (h1 : Frame a b) (h2 : Frame b c) : Frame a c := by
  obtain ⟨a1, a2, a3, a4, a5, a6⟩ := h1
  obtain ⟨b1, b2, b3, b4, b5, b6⟩ := h2
  exact ⟨b1.trans a1, b2.trans a2, b3.trans a3, b4.trans a4, b5.trans a5, b6.trans a6⟩

/-- a cached entry survives -/
def KeepsData (name : String) (c : Cached) (s s' : Cache) : Prop :=
  s.raw.lookup name = some (.data c) → s'.raw.lookup name = some (.data c)

theorem getPlain_spec (s : Cache) (n : String) (sel ext : Bool) (kw : Props) (hin : s.inplace = false) :
    Frame s (getPlain s n sel ext kw).2 ∧
    ∀ name c, KeepsData name c s (getPlain s n sel ext kw).2 := by
  unfold getPlain
  split
  · exact ⟨Frame.refl s, fun _ _ h => h⟩
  · split
    · exact ⟨Frame.refl s, fun _ _ h => h⟩
    · exact ⟨Frame.refl s, fun _ _ h => h⟩
    · rename_i id hlook
      split
      · exact ⟨Frame.refl s, fun _ _ h => h⟩
      · split
        · exact ⟨Frame.refl s, fun _ _ h => h⟩
        · rename_i g hg
          simp only [hin, Bool.false_eq_true, if_false]
          split
          · exact ⟨⟨rfl, rfl, rfl, rfl, rfl, by simp [hin]⟩, fun _ _ h => h⟩
          · rename_i c' hc'
            refine ⟨⟨rfl, rfl, rfl, rfl, rfl, by simp [hin]⟩, ?_⟩
            intro name c h
            have hne : name ≠ n := by
              intro heq
              subst heq
              rw [hlook] at h
              cases h
            simp only []
            rw [lookup_dictSet_ne n name _ hne]
            exact h

theorem fullArr_spec (s : Cache) (n : String) (hin : s.inplace = false) :
    ∀ r, fullArr s n = r → Frame s r.2 ∧ ∀ name c, KeepsData name c s r.2 := by
  intro r hr
  have h := getPlain_spec s n false true {} hin
  unfold fullArr at hr
  split at hr <;> (subst hr; simp_all)

theorem runVirt_spec (s : Cache) (n : String) (v : Virt) (hin : s.inplace = false) :
    ∀ r, runVirt s n v = some r → Frame s r.2 ∧ ∀ name c, KeepsData name c s r.2 := by
  intro r hr
  cases v with
  | mjd =>
    simp only [runVirt] at hr
    split at hr
    · cases hr; exact ⟨Frame.refl s, fun _ _ h => h⟩
    · cases hr
  | azel =>
    simp only [runVirt] at hr
    split at hr
    · split at hr
      · split at hr
        · rename_i heq
          cases hr
          have h := fullArr_spec s _ hin _ heq
          exact h
        · rename_i heq
          cases hr
          have h := fullArr_spec s _ hin _ heq
          exact h
      · cases hr
    · cases hr
  | sum =>
    simp only [runVirt] at hr
    split at hr
    · split at hr
      · split at hr
        · rename_i heq
          cases hr
          exact fullArr_spec s _ hin _ heq
        · rename_i va s' heq
          have h1 := fullArr_spec s _ hin _ heq
          have hin' : s'.inplace = false := by
            have := h1.1.2.2.2.2.2
            simp only [] at this
            rw [this]; exact hin
          split at hr
          · rename_i heq2
            cases hr
            have h2 := fullArr_spec s' _ hin' _ heq2
            exact ⟨h1.1.trans h2.1, fun name c h => h2.2 name c (h1.2 name c h)⟩
          · rename_i heq2
            cases hr
            have h2 := fullArr_spec s' _ hin' _ heq2
            exact ⟨h1.1.trans h2.1, fun name c h => h2.2 name c (h1.2 name c h)⟩
      · cases hr
    · cases hr

theorem firstVirt_spec (s : Cache) (n : String) (hin : s.inplace = false) :
    ∀ (vs : List Virt) r, firstVirt s n vs = some r →
      Frame s r.2 ∧ ∀ name c, KeepsData name c s r.2 := by
  intro vs
  induction vs with
  | nil => intro r hr; simp [firstVirt] at hr
  | cons v vs ih =>
    intro r hr
    cases hrv : runVirt s n v with
    | some r' =>
      simp only [firstVirt, hrv] at hr
      cases hr
      exact runVirt_spec s n v hin _ hrv
    | none =>
      simp only [firstVirt, hrv] at hr
      exact ih r hr

/-- a read (`get`) never changes the getters, the dump grid, the selection or an entry that is
    already cached -/
theorem get_spec (s : Cache) (n : String) (sel ext : Bool) (kw : Props) (hin : s.inplace = false) :
    Frame s (get s n sel ext kw).2 ∧ ∀ name c, KeepsData name c s (get s n sel ext kw).2 := by
  unfold get
  split
  · exact ⟨Frame.refl s, fun _ _ h => h⟩
  · split
    · exact getPlain_spec s n sel ext kw hin
    · rename_i hnone
      split
      · exact ⟨Frame.refl s, fun _ _ h => h⟩
      · rename_i e s' heq
        exact firstVirt_spec s n hin s.virt _ heq
      · rename_i vs s' heq
        have h := firstVirt_spec s n hin s.virt _ heq
        refine ⟨⟨h.1.1, h.1.2.1, h.1.2.2.1, h.1.2.2.2.1, h.1.2.2.2.2.1, h.1.2.2.2.2.2⟩, ?_⟩
        intro name c hd
        have hne : name ≠ n := by
          intro heq'
          subst heq'
          rw [hnone] at hd
          cases hd
        simp only []
        rw [lookup_dictSet_ne n name _ hne]
        exact h.2 name c hd

/-- a read of a name that is already cached: the cached value (restricted to the current
    selection if asked for), state untouched -/
theorem get_of_data (s : Cache) (n : String) (c : Cached) (sel ext : Bool) (kw : Props)
    (h : s.raw.lookup n = some (.data c)) (hse : (sel && !ext) = false) :
    get s n sel ext kw = (if sel then select c s.keep else .ok (.full c), s) := by
  unfold get
  simp only [hse, Bool.false_eq_true, if_false, h]
  unfold getPlain
  simp only [hse, Bool.false_eq_true, if_false, h]

/-- first read of a raw sensor: extract with the merged properties, store, answer -/
theorem get_of_getter (s : Cache) (n : String) (id : Nat) (g : Getter) (c : Cached) (sel : Bool)
    (kw : Props) (h : s.raw.lookup n = some (.getter id)) (hg : s.getters[id]? = some g)
    (hin : s.inplace = false)
    (hc : extract g s.dumps s.period (effProps n s.props kw) = .ok c) :
    get s n sel true kw =
      (if sel then select c s.keep else .ok (.full c),
       { s with props := stickProps n s.props kw, raw := dictSet n (.data c) s.raw }) := by
  unfold get
  simp only [Bool.not_true, Bool.and_false, Bool.false_eq_true, if_false, h]
  unfold getPlain
  simp only [Bool.not_true, Bool.and_false, Bool.false_eq_true, if_false, h, hg, hin, hc]

end Sensor
