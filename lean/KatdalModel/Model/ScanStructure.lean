/-
  C03 (structure part) model: how VisibilityDataV4 segments an observation into scans, compound
  scans and targets (visdatav4.py:417-485), written with the categorical-series model of C10/C11.
  Values are small integers (ids of states / labels / targets); `slew = 0`, `stop = 3`,
  the empty label and the empty target have id 0 in their own alphabets.
-/
import KatdalModel.Model.Categorical
open Np Categorical

namespace ScanStructure

def SLEW : Nat := 0
def STOP : Nat := 3
def EMPTY : Nat := 0

/-- `scan.events, scan.indices = scan.events[1:], scan.indices[1:]; scan.events[0] = 0`:
    if the antenna starts slewing on the second dump the first dump joins the slew -/
def mergeFirstDump (scan : Cat Nat) : Cat Nat :=
  match scan.ev, scan.idx with
  | _ :: e1 :: erest, _ :: i1 :: irest =>
    if scan.idx.length > 1 ∧ e1 = 1 ∧ scan.uniq[i1]? = some SLEW then
      { scan with ev := 0 :: erest, idx := i1 :: irest }
    else scan
  | _, _ => scan

/-- index sensor `CategoricalData(range(len(c)), c.events)` written out per dump -/
def indexPerDump (c : Cat Nat) : List Nat :=
  let rec go : List Nat → Nat → List Nat
    | a :: b :: t, i => List.replicate (b - a) i ++ go (b :: t) (i + 1)
    | _, _ => []
  go c.ev 0

/-- per-dump index into `unique_values` (what `target_index` exposes) -/
def uniqIndexPerDump (c : Cat Nat) : List Nat :=
  let rec go : List Nat → List Nat → List Nat
    | a :: b :: t, i :: is => List.replicate (b - a) i ++ go (b :: t) is
    | _, _ => []
  go c.ev c.idx

/-- segments of a series: (start dump, index of value) -/
def segments (c : Cat Nat) : List (Nat × Nat) := List.zip c.ev.dropLast c.idx

/-- "Remove initial target if antennas start in mode STOP": walk the scans; skip leading STOP
    scans that are still on the initial target; at the first other scan drop the initial target
    event if the target there differs from the initial one -/
def dropInitialTarget (scan target : Cat Nat) : Except Err (Cat Nat) := do
  let t0 ← target.lookup1 0
  let rec go : List (Nat × Nat) → Except Err (Cat Nat)
    | [] => pure target
    | (start, si) :: rest => do
      let ts ← target.lookup1 (start : Int)
      if scan.uniq[si]? = some STOP ∧ ts = t0 then go rest
      else if ts ≠ t0 then
        match target.ev, target.idx with
        | _ :: _ :: erest, _ :: irest =>
          let t' : Cat Nat := { target with ev := 0 :: erest, idx := irest }
          t'.align t'.ev
        | _, _ => .error .index
      else pure target
  go (segments scan)

structure Result where
  scan : Cat Nat
  label : Cat Nat
  target : Cat Nat
  deriving Repr

/-- discard empty labels unless every label is empty -/
def dropEmptyLabels (label : Cat Nat) : Except Err (Cat Nat) :=
  if label.uniq.length > 1 then label.remove EMPTY else pure label

/-- scans before the first label get the empty label -/
def addDefaultLabel (label : Cat Nat) : Except Err (Cat Nat) :=
  if label.ev.headD 0 > 0 then label.add 0 (some EMPTY) else pure label

/-- visdatav4.py:417-485 given the three categorical sensors already mapped onto dumps -/
def mkStructure (scan0 label0 target0 : Cat Nat) : Except Err Result := do
  let scan1 := mergeFirstDump scan0
  -- discard empty labels unless every label is empty
  let label1 ← dropEmptyLabels label0
  -- a label set during a scan starts a new scan
  let scan2 ← scan1.addUnmatched label1.ev 1
  -- labels move onto the nearest scan start; scans before the first label get the empty label
  let label2 ← label1.align scan2.ev
  let label3 ← addDefaultLabel label2
  -- targets move onto the nearest scan start, repeats introduced by that are removed
  let target1 ← target0.align scan2.ev
  let target2 ← target1.removeRepeats
  let target3 ← dropInitialTarget scan2 target2
  pure { scan := scan2, label := label3, target := target3 }

end ScanStructure
