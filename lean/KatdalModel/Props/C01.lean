import KatdalModel.Model.DataSetGlue
open Np Index Glue
namespace C01
theorem placeholder : (1 : Nat) = 1 := rfl
end C01
