/-
  C16 model: flag bits, selection of flags by name, derived flags, and the part of
  `DataSet.select` that decides which keyword touches which selection mask.

  Mirrors (katdal):
    dataset._selection_to_list                      -> `selectionToList`
    visdatav4 / h5datav3 `_flags_keep` setter       -> `flagMaskLSB`   (np.packbits(np.flipud(selection)))
    h5datav2 `_flags_keep` setter                   -> `flagMaskMSB`   (np.packbits(selection))
    `_flags_keep` getter (all formats)              -> `keepNames`
    visdatav4._set_keep flags indexer               -> `flagOfV4`      (bitwise_and skipped when mask = 255, view(bool))
    h5datav2/3 `extract_flags` transform            -> `flagOf`        (np.bool_(np.bitwise_and(select, flags)))
    vis_flags_weights / applycal                    -> `rawV4`         (stored | DATA_LOST where lost | POSTPROC where the
                                                                         correction is NaN; a missing flags chunk reads as
                                                                         the fill value DATA_LOST)
    dataset.DataSet.select / _set_keep              -> `step`, `run`   (reset rules, stored criteria, re-application)

  Strings are lists of characters (`Name`) so that every definition reduces under `decide`.
  Import-free apart from the Np layer and the generated tables (compiled into the driver).
-/
import KatdalModel.Np.Basic
import KatdalModel.Generated.Tables
open Np

namespace Flags

abbrev Name := List Char

/-! ### `_selection_to_list` -/

/-- Python `str.isspace` for one character (what `str.strip()` removes). -/
def isPyWs (c : Char) : Bool :=
  let n := c.toNat
  (9 ≤ n && n ≤ 13) || (28 ≤ n && n ≤ 32) || n == 0x85 || n == 0xA0 || n == 0x1680 ||
  (0x2000 ≤ n && n ≤ 0x200A) || n == 0x2028 || n == 0x2029 || n == 0x202F || n == 0x205F || n == 0x3000

def lstrip : Name → Name
  | [] => []
  | c :: t => if isPyWs c then lstrip t else c :: t

/-- `s.strip()` -/
def strip (s : Name) : Name := (lstrip (lstrip s).reverse).reverse

/-- `s.split(sep)` for a one-character separator (always at least one piece). -/
def splitOnChar (sep : Char) : Name → List Name
  | [] => [[]]
  | c :: t =>
    if c = sep then [] :: splitOnChar sep t
    else match splitOnChar sep t with
      | h :: r => (c :: h) :: r
      | [] => [[c]]

/-- The Python value handed to `select(flags=...)` / `select(weights=...)`:
    a string, or any other iterable of names (list, tuple, array, set in iteration order). -/
inductive Selection
  | str (s : Name)
  | seq (l : List Name)
  deriving DecidableEq, Repr

def allWord : Name := ['a', 'l', 'l']

/-- `_selection_to_list(names, all=allNames)`:  '' -> [], 'all' -> all names, other strings are split
    at commas and each piece is stripped; sequences are taken as they are (no stripping, no 'all'). -/
def selectionToList (allNames : List Name) : Selection → List Name
  | .str s =>
    if s = [] then []
    else if s = allWord then allNames
    else (splitOnChar ',' s).map strip
  | .seq l => l

/-! ### name -> bit packing -/

/-- `list.index(x)`; `none` is the ValueError that the setters catch (warning, name ignored). -/
def indexOf? (names : List Name) (n : Name) : Option Nat :=
  if names.contains n then some (names.idxOf n) else none

/-- one iteration of `for name in names: try: selection[known.index(name)] = 1 except ValueError: warn` -/
def mark (names : List Name) (sel : List Bool) (n : Name) : List Bool :=
  match indexOf? names n with
  | some i => sel.set i true
  | none => sel

/-- the whole loop, starting from `np.zeros(8, dtype=np.uint8)` -/
def markSelected (names chosen : List Name) : List Bool :=
  chosen.foldl (mark names) (List.replicate 8 false)

/-- `np.packbits` of at most 8 bits given MSB first -/
def packbits (bits : List Bool) : Nat := bits.foldl (fun a b => 2 * a + b.toNat) 0

/-- `np.unpackbits` of one uint8: 8 bits, MSB first -/
def unpackbits (m : Nat) : List Bool := (List.range 8).map fun j => m.testBit (7 - j)

/-- v3 / v4 mask without the length assertion -/
def maskLSB (names : List Name) (sel : Selection) : Nat :=
  packbits (markSelected names (selectionToList names sel)).reverse

/-- v2 mask without the length assertion (`np.packbits(selection)`, no flip) -/
def maskMSB (names : List Name) (sel : Selection) : Nat :=
  packbits (markSelected names (selectionToList names sel))

/-- v3 / v4 `_flags_keep` setter: AssertionError unless the table has 8 names. -/
def flagMaskLSB (names : List Name) (sel : Selection) : Except Err Nat :=
  if names.length ≠ 8 then .error .other else .ok (maskLSB names sel)

/-- v2 `_flags_keep` setter -/
def flagMaskMSB (names : List Name) (sel : Selection) : Except Err Nat :=
  if names.length ≠ 8 then .error .other else .ok (maskMSB names sel)

/-- `_flags_keep` getter: names whose bit is set (`lsb` = flipud applied, i.e. v3 / v4). -/
def keepNames (lsb : Bool) (names : List Name) (m : Nat) : List Name :=
  let bits := if lsb then (unpackbits m).reverse else unpackbits m
  (names.zip bits).filterMap fun (n, b) => if b then some n else none

/-! ### spec side: the documented meaning -/

/-- little-endian value of a bit list: `Σ bits[i] * 2^i` -/
def ofBitsLE : List Bool → Nat
  | [] => 0
  | b :: t => b.toNat + 2 * ofBitsLE t

/-- documented v3 / v4 mask: bit i is set iff the i-th name is among the chosen ones -/
def specMaskLSB (names chosen : List Name) : Nat := ofBitsLE (names.map fun n => chosen.contains n)

/-- documented v2 mask: the reverse bit order -/
def specMaskMSB (names chosen : List Name) : Nat := ofBitsLE (names.reverse.map fun n => chosen.contains n)

/-- the documented flag table of MVF v3 / v4 (katdal/flags.py DESCRIPTIONS, "bit 0" = reserved0 ...
    "postproc" = bit 7); frozen here, compared with the regenerated `Tables.flagNames` in Props/C16. -/
def documentedNames : List Name :=
  ["reserved0", "static", "cam", "data_lost", "ingest_rfi", "predicted_rfi", "cal_rfi", "postproc"].map String.toList

def tableNames : List Name := Tables.flagNames.map String.toList

/-! ### derived flags -/

/-- `np.bool_(np.bitwise_and(select, flags))` (v2 / v3 `extract_flags`) -/
def flagOf (mask raw : Nat) : Bool := (mask &&& raw) != 0

/-- v4 flags indexer: the `bitwise_and` transform is only installed when `~select != 0`,
    then the byte is viewed as bool. -/
def flagOfV4 (mask raw : Nat) : Bool :=
  if mask % 256 != 255 then (mask &&& raw) != 0 else raw != 0

/-- spec: some selected bit is set in the raw byte -/
def specFlag (mask raw : Nat) : Bool := (List.range 8).any fun i => mask.testBit i && raw.testBit i

/-- documented bit value of a flag name: `1 <<< position in the documented table` -/
def docBit (name : String) : Nat := 1 <<< documentedNames.idxOf name.toList

/-- v4 raw flag byte: the stored byte (`none` = the flags chunk itself is missing, which reads as the fill
    value DATA_LOST), data_lost added where a chunk of another array is missing, postproc added by applycal
    where the correction is NaN.  Uses the documented bit positions (the constants of flags.py are tied to
    them by `C16.tables_consistent`). -/
def rawV4 (stored : Option Nat) (lost postproc : Bool) : Nat :=
  let s := match stored with | some b => b | none => docBit "data_lost"
  (s ||| (if lost then docBit "data_lost" else 0)) ||| (if postproc then docBit "postproc" else 0)

/-! ### the select() state machine (dataset.py `DataSet.select`) -/

inductive Dim | T | F | B
  deriving DecidableEq, Repr

/-- the selector keywords of `select()` other than `flags`, `weights`, `reset`
    (`spw` / `subarray` are left out: the model covers data sets with one spectral window and one subarray) -/
inductive Key
  | dumps | timerange | scans | compscans | targets | target_tags
  | channels | freqrange
  | corrprods | ants | inputs | pol
  deriving DecidableEq, Repr

/-- membership in `time_selectors` / `freq_selectors` / `corrprod_selectors` -/
def Key.dim : Key → Dim
  | .dumps | .timerange | .scans | .compscans | .targets | .target_tags => .T
  | .channels | .freqrange => .F
  | .corrprods | .ants | .inputs | .pol => .B

/-- A stored criterion: keyword and the boolean mask its value evaluates to on this data set.
    (Every branch of the `for k, v in self._selection.items()` loop computes that mask from sensors,
    catalogue, spectral window and subarray only; none reads the flag or weight selection.) -/
abbrev Crit := Key × List Bool

structure Call where
  /-- `reset=` keyword; `none` = not given (`'auto'`) -/
  reset : Option (List Dim)
  /-- selector keywords in call order -/
  crits : List Crit
  flags : Option Selection
  weights : Option Selection
  deriving DecidableEq, Repr

structure St where
  tKeep : List Bool
  fKeep : List Bool
  bKeep : List Bool
  /-- the T/F/B part of the `_selection` dict, in insertion order -/
  selection : List Crit
  /-- the `flags` / `weights` entries of the `_selection` dict -/
  selFlags : Option Selection
  selWeights : Option Selection
  /-- `_flags_select` -/
  flagsSelect : Nat
  /-- `_weights_keep` as last assigned -/
  weightsKeep : Selection
  deriving DecidableEq, Repr

def andMask (a m : List Bool) : List Bool := List.zipWith (· && ·) a m

/-- `dict[k] = v`: replace in place or append -/
def dictSet (d : List Crit) (c : Crit) : List Crit :=
  if d.any (fun e => e.1 = c.1) then d.map (fun e => if e.1 = c.1 then c else e) else d ++ [c]

def dictUpdate (d : List Crit) (kw : List Crit) : List Crit := kw.foldl dictSet d

/-- `not kwargs` -/
def Call.noArgs (c : Call) : Bool :=
  c.reset.isNone && c.crits.isEmpty && c.flags.isNone && c.weights.isNone

/-- the dimensions that are reset by this call -/
def Call.resetDims (c : Call) : List Dim :=
  if c.noArgs then [.T, .F, .B]
  else match c.reset with
    | some r => r
    | none => [Dim.T, Dim.F, Dim.B].filter fun d => c.crits.any fun k => k.1.dim = d

def resetMask (ds : List Dim) (d : Dim) (m : List Bool) : List Bool :=
  if ds.contains d then List.replicate m.length true else m

/-- one pass of the `for k, v in self._selection.items()` loop body for a T/F/B criterion -/
def applyCrit (s : St) (c : Crit) : St :=
  match c.1.dim with
  | .T => { s with tKeep := andMask s.tKeep c.2 }
  | .F => { s with fKeep := andMask s.fKeep c.2 }
  | .B => { s with bKeep := andMask s.bKeep c.2 }

/-- Parameters of a data set as far as flags are concerned: its table of names and its bit order. -/
structure Fmt where
  names : List Name
  lsb : Bool

def Fmt.mask (f : Fmt) (sel : Selection) : Nat :=
  if f.lsb then maskLSB f.names sel else maskMSB f.names sel

/-- the table a data set was opened with passes the setters' assertion and has distinct names -/
def Fmt.Valid (f : Fmt) : Prop := f.names.Nodup ∧ f.names.length = 8

/-- loop branch `elif k == 'weights': self._weights_keep = v` -/
def setWeights (s : St) : St :=
  match s.selWeights with
  | some v => { s with weightsKeep := v }
  | none => s

/-- loop branch `elif k == 'flags': self._flags_keep = v` (property setter) -/
def setFlags (f : Fmt) (s : St) : St :=
  match s.selFlags with
  | some v => { s with flagsSelect := f.mask v }
  | none => s

/-- `self._set_keep(T, F, B, self._weights_keep, self._flags_keep)`: the flag names go through the getter
    and back through the setter -/
def setKeep (f : Fmt) (s : St) : St :=
  { s with flagsSelect := f.mask (.seq (keepNames f.lsb f.names s.flagsSelect)) }

/-- reset the selection flags on the appropriate dimensions, drop their stored criteria,
    then `self._selection.update(kwargs)` -/
def resetAndUpdate (s : St) (c : Call) : St :=
  let ds := c.resetDims
  let sel := dictUpdate (s.selection.filter fun k => !ds.contains k.1.dim) c.crits
  { s with
    tKeep := resetMask ds .T s.tKeep
    fKeep := resetMask ds .F s.fKeep
    bKeep := resetMask ds .B s.bKeep
    selection := sel
    selFlags := match c.flags with | some v => some v | none => s.selFlags
    selWeights := match c.weights with | some v => some v | none => s.selWeights }

/-- `DataSet.select(**kwargs)`: reset, update the stored selection, re-apply every stored criterion,
    hand the result to `_set_keep` -/
def step (f : Fmt) (s : St) (c : Call) : St :=
  let s2 := resetAndUpdate s c
  setKeep f (setFlags f (setWeights (s2.selection.foldl applyCrit s2)))

/-- state after `__init__` (which assigns `_flags_keep = 'all'`, `_weights_keep = 'all'`, all masks True) -/
def init (f : Fmt) (nT nF nB : Nat) : St :=
  { tKeep := List.replicate nT true, fKeep := List.replicate nF true, bKeep := List.replicate nB true
    selection := [], selFlags := none, selWeights := none
    flagsSelect := f.mask (.str allWord), weightsKeep := .str allWord }

def run (f : Fmt) (s : St) (h : List Call) : St := h.foldl (step f) s

/-- a call that only sets `flags=` and / or `weights=` -/
def Call.flagsOnly (c : Call) : Bool :=
  c.reset.isNone && c.crits.isEmpty && (c.flags.isSome || c.weights.isSome)

/-- the same call without its `flags` / `weights` keywords -/
def Call.clearFW (c : Call) : Call := { c with flags := none, weights := none }

/-- the same history with every flag / weight selection deleted -/
def eraseFW : List Call → List Call
  | [] => []
  | c :: t => if c.flagsOnly then eraseFW t else c.clearFW :: eraseFW t

/-- the last `flags=` value of a history -/
def lastFlags : List Call → Option Selection
  | [] => none
  | c :: t => match lastFlags t with
    | some v => some v
    | none => c.flags

/-! ### observables -/

/-- `a[mask]` on one axis -/
def compress {α} : List Bool → List α → List α
  | true :: m, x :: t => x :: compress m t
  | false :: m, _ :: t => compress m t
  | _, _ => []

/-- `a[T][:, F][:, :, B]` (outer indexing by the three masks) -/
def select3 {α} (s : St) (a : List (List (List α))) : List (List (List α)) :=
  (compress s.tKeep a).map fun row => (compress s.fKeep row).map fun col => compress s.bKeep col

structure Observed (α : Type) where
  dumps : List Nat
  channels : List Nat
  corrprods : List Nat
  vis : List (List (List α))
  rawFlags : List (List (List Nat))

/-- what the property lists as independent of the flag / weight selection -/
def observe {α} (s : St) (vis : List (List (List α))) (raw : List (List (List Nat))) : Observed α :=
  { dumps := nonzero s.tKeep, channels := nonzero s.fKeep, corrprods := nonzero s.bKeep
    vis := select3 s vis, rawFlags := select3 s raw }

/-- `d.flags[:]` -/
def flagsOut (v4 : Bool) (s : St) (raw : List (List (List Nat))) : List (List (List Bool)) :=
  (select3 s raw).map fun r => r.map fun c => c.map fun b =>
    if v4 then flagOfV4 s.flagsSelect b else flagOf s.flagsSelect b

end Flags
