import Driver.Common
import KatdalModel.Model.Chunks
open Np Drv Chunks

/-- requests:
    chunkmap <sizes> <n>         -> chunkOf for every position 0..n-1 (spec side)
    piecemap <c1> <c2> <n>       -> source chunk per position as the piece decomposition sees it (mirror)
    pieces <c1> <c2>             -> start:len:dst:src,...
    align <timechunks> <max>     -> padded time chunks
    prune <sizes> <start> <stop> -> kept sizes | offset | start | stop
    flagtable                    -> loadFlags of stored byte k/16 with lost bits k%16, k = 0..4095 -/
def step (line : String) : String :=
  match line.splitOn " " with
  | ["chunkmap", sizes, n] =>
    match parseNatList sizes, n.toNat? with
    | some sz, some n => showNatList ((List.range n).map (chunkOf sz))
    | _, _ => "bad-op"
  | ["piecemap", c1, c2, n] =>
    match parseNatList c1, parseNatList c2, n.toNat? with
    | some c1, some c2, some n =>
      let ps := pieces c1 c2
      ",".intercalate ((List.range n).map fun p => match srcOfPieces ps p with
        | some s => toString s | none => "-")
    | _, _, _ => "bad-op"
  | ["pieces", c1, c2] =>
    match parseNatList c1, parseNatList c2 with
    | some c1, some c2 =>
      ",".intercalate ((pieces c1 c2).map fun q => s!"{q.start}:{q.len}:{q.dst}:{q.src}")
    | _, _ => "bad-op"
  | ["align", tc, mx] =>
    match parseNatList tc, mx.toNat? with
    | some tc, some mx => showNatList (alignTime tc mx)
    | _, _ => "bad-op"
  | ["prune", sizes, a, b] =>
    match parseNatList sizes, a.toNat?, b.toNat? with
    | some sz, some a, some b =>
      let (k, off, st, sp) := pruneAxis sz a b
      s!"{showNatList k}|{off}|{st}|{sp}"
    | _, _, _ => "bad-op"
  | ["flagtable"] =>
    -- loadFlags for every stored byte and every combination of (vis, weights, weights_channel, flags) lost
    ",".intercalate ((List.range 4096).map fun k =>
      let b : Nat → Bool := fun i => (k / 2 ^ i) % 2 == 1
      toString (loadFlags (UInt8.ofNat (k / 16)) (b 0) (b 1) (b 2) (b 3)).toNat)
  | _ => "bad-op"

def main : IO Unit := Drv.loop step
