import Driver.Common
import KatdalModel.Model.ApplyCalFloat
open Np Drv ApplyCal

/-!
  requests (S-expression tokens, see ApplyCalFloat.lean):

  names ( str s ) | ( seq s .. )   ( stream .. )
      -> `ok ( mirror names ) skip ( spec names )` | `E:ValueError`
  stitch ( part .. )     part = ( ( t ( c .. ) ) .. )
      -> `ok ( ( t ( c .. ) ) .. ) ( spec, same form )` | `E:KeyError`
  cinterp h|i ( ( x c ) .. ) ( x .. )           -> `ok ( c .. )`
  gain ( ( start _|( c .. ) ) .. ) nDumps _|( target .. )
      -> `ok ( ( c .. ) .. ) ( spec, same form )`
  bandpass ( datafreq .. ) ( calfreq .. ) ( c .. )   -> `ok ( c .. )`
  delay _|f ( freq .. )                               -> `ok ( c .. )`
  flux ( ( start _|( c .. ) ( name .. ) ) .. ) ( ( name _|f ) .. )
      -> `ok ( ( start _|( c .. ) ) .. )`
  products ( ( name inp ) .. ) ( ( l1 l2 ) .. ) ( name .. ) ( stream .. ) skip
      -> `ok ( final product names )` | `E:KeyError` | `E:ValueError`
         which products `calc_correction` applies / skips / rejects when only the listed
         (product, input) correction sensors exist (`calcCorrectionIntended` on unit sensors)
  gflux ( measured ) _|( overrides ) ( segs as for flux ) nDumps
      -> `ok ( ( c .. ) .. )`    mergeFlux ∘ calibrateFlux ∘ gainCorrection (no targets), the "G" pipeline
-/

def A := floatAlg
def R := floatOps

def showRow (l : List CF) : String := showList showCF l
def showRows (l : List (List CF)) : String := showList showRow l

def parseReq (x : SX) : Option Req :=
  match x with
  | .list [.atom "str", s] => s.str?.map Req.str
  | .list (.atom "seq" :: l) => (l.mapM SX.str?).map Req.seq
  | _ => none

def doNames (args : List SX) : Option String :=
  match args with
  | [req, streams] => do
    let req ← parseReq req
    let streams ← streams.listOf? SX.str?
    let spec : Except Err (List String) := do
      let l ← (selectionToList req streams Tables.defaultCalProducts).mapM (expandName streams)
      pure l.flatten
    pure (match normaliseCalProducts req streams, spec with
      | .ok (l, skip), .ok sp => s!"ok {showList showStr l} {if skip then 1 else 0} {showList showStr sp}"
      | .ok (l, skip), .error e => s!"ok {showList showStr l} {if skip then 1 else 0} {showErr e}"
      | .error e, _ => showErr e)
  | _ => none

def parsePart (x : SX) : Option (Part (List CF)) :=
  x.listOf? fun e => match e with
    | .list [t, v] => do pure ((← t.int?), (← v.listOf? SX.cf?))
    | _ => none

def insertInt (a : Int) : List Int → List Int
  | [] => [a]
  | b :: t => if a < b then a :: b :: t else if a = b then b :: t else b :: insertInt a t

/-- spec of the stitched product: for every time in the union, the parts' values or invalid -/
def specStitch (parts : List (Part (List CF))) : List (Int × List CF) :=
  let times := parts.foldr (fun p acc => p.foldr (fun e acc => insertInt e.1 acc) acc) []
  times.map fun t => (t, fillPieces A (parts.map (lookupTime t)))

def showEvents (l : List (Int × List CF)) : String :=
  showList (fun e => s!"( {e.1} {showRow e.2} )") l

def doStitch (args : List SX) : Option String :=
  match args with
  | [parts] => do
    let parts ← parts.listOf? parsePart
    pure (match stitch A parts with
      | .ok evs => s!"ok {showEvents evs} {showEvents (specStitch parts)}"
      | .error e => showErr e)
  | _ => none

def parseEdge : SX → Option Edge
  | .atom "h" => some .hold
  | .atom "i" => some .invalid
  | _ => none

def doCinterp (args : List SX) : Option String :=
  match args with
  | [e, pts, xs] => do
    let e ← parseEdge e
    let pts ← pts.listOf? fun p => match p with
      | .list [x, c] => do pure ((← x.float?), (← c.cf?))
      | _ => none
    let xs ← xs.listOf? SX.float?
    pure s!"ok {showRow (xs.map (complexInterp A R e pts))}"
  | _ => none

def parseSegs (x : SX) : Option (List (Nat × Option (List CF))) :=
  x.listOf? fun e => match e with
    | .list (s :: v :: _) => do pure ((← s.nat?), (← SX.optOf? (·.listOf? SX.cf?) v))
    | _ => none

def doGain (args : List SX) : Option String :=
  match args with
  | [segs, n, tg] => do
    let segs ← parseSegs segs
    let n ← n.nat?
    let tg ← SX.optOf? (·.listOf? SX.nat?) tg
    let mirror := gainCorrection A R segs n tg
    let evs := segs.filterMap fun sg => sg.2.map fun g => (sg.1, g)
    let nChan := match evs with | [] => 1 | e :: _ => e.2.length
    let tgl := tg.getD (List.replicate n 0)
    let spec := (List.range n).map fun d => (List.range nChan).map fun c =>
      A.inv (match evs with | [] => A.nan | _ => specGain A R evs tgl d c)
    pure s!"ok {showRows mirror} {showRows spec}"
  | _ => none

def doBandpass (args : List SX) : Option String :=
  match args with
  | [df, cf, bp] => do
    let df ← df.listOf? SX.float?
    let cf ← cf.listOf? SX.float?
    let bp ← bp.listOf? SX.cf?
    pure s!"ok {showRow (bandpassCorrection A R df cf bp)}"
  | _ => none

def doDelay (args : List SX) : Option String :=
  match args with
  | [d, fr] => do
    let d ← d.optFloat?
    let fr ← fr.listOf? SX.float?
    pure s!"ok {showRow (delayCorrection A R d fr)}"
  | _ => none

def parseTable (x : SX) : Option (List (String × Option Float)) :=
  x.listOf? fun e => match e with
    | .list [n, v] => do pure ((← n.str?), (← v.optFloat?))
    | _ => none

def parseSegNames (x : SX) : Option (List (Nat × List String)) :=
  x.listOf? fun e => match e with
    | .list [s, _, names] => do pure ((← s.nat?), (← names.listOf? SX.str?))
    | _ => none

def showSegs (l : List (Nat × Option (List CF))) : String :=
  showList (fun e => s!"( {e.1} {match e.2 with | none => "_" | some v => showRow v} )") l

def namesFn (tab : List (Nat × List String)) (d : Nat) : List String :=
  match tab.find? (·.1 == d) with
  | some e => e.2
  | none => []

def doFlux (args : List SX) : Option String :=
  match args with
  | [segs, table] => do
    let names ← parseSegNames segs
    let segs ← parseSegs segs
    let table ← parseTable table
    pure s!"ok {showSegs (calibrateFlux A R segs (namesFn names) table)}"
  | _ => none

def doGflux (args : List SX) : Option String :=
  match args with
  | [measured, overrides, segs, n] => do
    let measured ← parseTable measured
    let overrides ← SX.optOf? parseTable overrides
    let names ← parseSegNames segs
    let segs ← parseSegs segs
    let n ← n.nat?
    let cal := calibrateFlux A R segs (namesFn names) (mergeFlux measured overrides)
    pure s!"ok {showRows (gainCorrection A R cal n none)}"
  | _ => none

def doProducts (args : List SX) : Option String :=
  match args with
  | [have_, cps, names, streams, skip] => do
    let have_ ← have_.listOf? fun e => match e with
      | .list [a, b] => do pure ((← a.str?), (← b.str?))
      | _ => none
    let cps ← cps.listOf? fun e => match e with
      | .list [a, b] => do pure ((← a.str?), (← b.str?))
      | _ => none
    let names ← names.listOf? SX.str?
    let streams ← streams.listOf? SX.str?
    let skip ← skip.bool?
    let sensors : String → String → Option (List (List CF)) := fun n i =>
      if have_.any (fun e => e.1 == n && e.2 == i) then some [[A.one]] else none
    let freqs : String → Option (List Float) := fun s => if streams.contains s then some [1.0] else none
    pure (match calcCorrectionIntended sensors cps names [1.0] freqs 1e-3 skip with
      | .ok P => s!"ok {showList showStr (P.prods.map (·.name))}"
      | .error e => showErr e)
  | _ => none

def step (line : String) : String :=
  match parseLine line with
  | some (.atom "names" :: args) => (doNames args).getD "bad-op"
  | some (.atom "stitch" :: args) => (doStitch args).getD "bad-op"
  | some (.atom "cinterp" :: args) => (doCinterp args).getD "bad-op"
  | some (.atom "gain" :: args) => (doGain args).getD "bad-op"
  | some (.atom "bandpass" :: args) => (doBandpass args).getD "bad-op"
  | some (.atom "delay" :: args) => (doDelay args).getD "bad-op"
  | some (.atom "flux" :: args) => (doFlux args).getD "bad-op"
  | some (.atom "gflux" :: args) => (doGflux args).getD "bad-op"
  | some (.atom "products" :: args) => (doProducts args).getD "bad-op"
  | _ => "bad-op"

def main : IO Unit := Drv.loop step
