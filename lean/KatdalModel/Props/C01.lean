/-
  C01 — Selected data are the stored samples at the selected coordinates (all formats).

  "For a data set of any supported format ... and any active selection, every element obtained by
   indexing vis, flags and weights is the stored sample, after the format's documented conversion,
   at the dump, channel and correlation product named by the data set's dumps, channels and
   corr_products, while timestamps, freqs and per-dump sensor arrays are the labels and values of
   those same dumps and channels.  The reported shape always equals (len(timestamps), len(freqs),
   len(corr_products)) and the shape advertised by each of the three arrays.  An indexer obtained
   from the data set keeps describing the selection that was in force when it was obtained."

  Model: KatdalModel/Model/DataSetGlue.lean on top of the index algebra; the first stage of every
  format is the triple of selection masks (C04 model for v4, C05 model for v2/v3/v1).
-/
import KatdalModel.Props.C04
import KatdalModel.Props.C05
import KatdalModel.Model.DataSetGlue
open Np Index Glue

namespace C01

theorem nonzeroFrom_append_false : ∀ (m : List Bool) (k : Nat),
    nonzeroFrom k (m ++ [false]) = nonzeroFrom k m := by
  intro m
  induction m with
  | nil => intro k; simp [nonzeroFrom]
  | cons b t ih => intro k; cases b <;> simp [nonzeroFrom, ih]

/-- **Duplicate final dump** (v2/v3): when the stored array has one more dump than the data set,
    the padded mask selects exactly the same dumps -/
theorem c01_dupdump (m : List Bool) : labelsOf (padTimeMask m (m.length + 1)) = labelsOf m := by
  simp [padTimeMask, labelsOf, nonzero, nonzeroFrom_append_false]

theorem c01_no_dup (m : List Bool) : labelsOf (padTimeMask m m.length) = labelsOf m := by
  simp [padTimeMask]

/-- the dumps / channels / corr_products attributes are strictly increasing valid positions -/
theorem c01_labels_valid (m : List Bool) :
    (labelsOf m).Pairwise (· < ·) ∧ ∀ k ∈ labelsOf m, k < m.length :=
  LazyIx.nonzero_spec m

/-- **v4 first stage**: handing a selection mask to the dask indexer selects exactly the positions
    named by the corresponding attribute (`dumps`, `channels`, `corr_products`) — masks are
    never in the dask known-finding family -/
theorem c01_v4_first_stage (m : List Bool) :
    DaskIx.getitem1 m.length (.mask m) = .ok (.many (labelsOf m)) := by
  rw [C04.c04_getitem_axis_partial m.length (.mask m) rfl]
  simp [Ix.resolve, labelsOf]

/-- **HDF5 first stage** (v1-v3): the LazyIndexer lookup built from a selection mask selects
    exactly the positions named by the corresponding attribute -/
theorem c01_h5_first_stage (m : List Bool) :
    Ix.resolve m.length (.mask m) = .ok (.many (labelsOf m)) ∧
    ∃ L : List Int, L.map Int.toNat = labelsOf m ∧
      ((LazyIx.mkLookup m.length (.mask m) = .ok none ∧ L = LazyIx.fullList m.length) ∨
        LazyIx.mkLookup m.length (.mask m) = .ok (some L)) := by
  refine ⟨by simp [Ix.resolve, labelsOf], ?_⟩
  obtain ⟨L, _, _, hres, hlk⟩ := C05.mkLookup_spec m.length (.mask m) (by simp [LazyIx.stage1InG])
  refine ⟨L, ?_, hlk⟩
  simp only [Ix.resolve, if_true] at hres
  simp only [Except.ok.injEq, Sel.many.injEq] at hres
  exact hres.symm

/-- **Elements**: whenever a second-stage read succeeds, its shape is the second stage's shape
    and element `js` of the result is the stored sample at
    `(dumps[j₀'], channels[j₁'], corr_products[j₂'])`, where `j'` are the coordinates the second
    stage alone would read — i.e. the coordinates named by the data set's own attributes. -/
theorem c01_elements (t f b : List Bool) (k2 : List Ix) (c : List Sel)
    (h : readSel t f b k2 = .ok c) :
    ∃ s2 : List Sel,
      resolveAll [(labelsOf t).length, (labelsOf f).length, (labelsOf b).length] (LazyIx.padTrunc 3 k2) = .ok s2 ∧
      selShape c = selShape s2 ∧
      ∀ js, inBounds (selShape s2) js →
        pickCoords c js =
          pickCoords [.many (labelsOf t), .many (labelsOf f), .many (labelsOf b)] (pickCoords s2 js) := by
  unfold readSel at h
  simp only [selShape, bind, Except.bind] at h
  cases hr : resolveAll [(labelsOf t).length, (labelsOf f).length, (labelsOf b).length] (LazyIx.padTrunc 3 k2) with
  | error e => simp [hr] at h
  | ok s2 =>
    simp only [hr] at h
    obtain ⟨hs, hp⟩ := composeAll_spec _ s2 c h
    exact ⟨s2, rfl, hs, hp⟩

/-- for a stored array `a` (any element type, any format conversion `conv` applied elementwise)
    the selected data set followed by a second-stage read is outer indexing of the converted
    stored array by the composed coordinates -/
theorem c01_elements_array {α β} (a : NDArr α) (conv : α → β) (t f b : List Bool) (k2 : List Ix) (c : List Sel)
    (h : readSel t f b k2 = .ok c) (js : List Nat) :
    (oindexSel (a.map conv) c).get js = conv (a.get (pickCoords c js)) := rfl

/-- **Labels never drift from the data**: position `i` of a label array restricted to the
    selection carries the label of source position `dumps[i]` — the same source position that
    `pickCoords` uses for the data on that axis -/
theorem c01_labels {α} (labels : List α) (ks : List Nat) (hk : ∀ k ∈ ks, k < labels.length) (i : Nat)
    (hi : i < ks.length) :
    (pickLabels labels ks)[i]? = labels[ks[i]]? := by
  unfold pickLabels
  induction ks generalizing i with
  | nil => simp at hi
  | cons k t ih =>
    have hkl : k < labels.length := hk k (List.mem_cons_self ..)
    simp only [List.filterMap_cons, List.getElem?_eq_getElem hkl]
    cases i with
    | zero => simp [List.getElem?_eq_getElem hkl]
    | succ i =>
      simp only [List.getElem?_cons_succ, List.getElem_cons_succ]
      exact ih (fun x hx => hk x (List.mem_cons_of_mem _ hx)) i (by simpa using hi)

theorem c01_labels_length {α} (labels : List α) (ks : List Nat) (hk : ∀ k ∈ ks, k < labels.length) :
    (pickLabels labels ks).length = ks.length := by
  unfold pickLabels
  induction ks with
  | nil => rfl
  | cons k t ih =>
    have hkl : k < labels.length := hk k (List.mem_cons_self ..)
    simp only [List.filterMap_cons, List.getElem?_eq_getElem hkl, List.length_cons]
    rw [ih (fun x hx => hk x (List.mem_cons_of_mem _ hx))]

/-- **Shape**: the shape of the selected data (before any second stage) is
    `(len(timestamps), len(freqs), len(corr_products))` -/
theorem c01_shape {α β γ} (ts : List α) (fr : List β) (cp : List γ) (t f b : List Bool)
    (ht : t.length = ts.length) (hf : f.length = fr.length) (hb : b.length = cp.length) :
    selShape [.many (labelsOf t), .many (labelsOf f), .many (labelsOf b)] =
      [(pickLabels ts (labelsOf t)).length, (pickLabels fr (labelsOf f)).length,
       (pickLabels cp (labelsOf b)).length] := by
  have h1 := c01_labels_length ts (labelsOf t) (fun k hk => by have := (c01_labels_valid t).2 k hk; omega)
  have h2 := c01_labels_length fr (labelsOf f) (fun k hk => by have := (c01_labels_valid f).2 k hk; omega)
  have h3 := c01_labels_length cp (labelsOf b) (fun k hk => by have := (c01_labels_valid b).2 k hk; omega)
  simp [selShape, h1, h2, h3]

/-- keepdims keeps scalar-indexed axes with length one and changes nothing else -/
theorem c01_keepdims (s : List Sel) : (keepdimsShape s).length = s.length ∧
    (keepdimsShape s).filter (fun x => x != 1) = (selShape s).filter (fun x => x != 1) := by
  induction s with
  | nil => simp [keepdimsShape, selShape]
  | cons a t ih =>
    cases a with
    | one k => simp [keepdimsShape, selShape, ih.1, ih.2]
    | many ks =>
      simp only [keepdimsShape, selShape, List.length_cons, ih.1, true_and]
      by_cases h : ks.length = 1 <;> simp [List.filter_cons, h, ih.2]

/-! Snapshot semantics: in the model an acquired indexer *is* the value `readSel t f b` for the
    masks in force at acquisition, so later `select` steps (which produce new states) cannot
    affect it.  That the code really copies (deep copy in DaskLazyIndexer, mask → index conversion
    in LazyIndexer.__init__) is what the correspondence run checks; HDF5 v1 does not (known
    finding C01-v1-snapshot). -/

example : readSel [true, false, true, true] [true, true, false] [true, true]
    [.slice none none (some 2), .int (-1)] = .ok [.many [0, 3], .one 1, .many [0, 1]] := by decide
example : labelsOf (padTimeMask [true, false, true] 4) = [0, 2] := by decide

end C01
