/-
  C17 model: v4 time and frequency axes, preselection, spectral windows.

  Mirrors
    katdal/datasources.py   TelstateDataSource.__init__  (preselect validation, timestamp synthesis,
                                                          preselect applied to timestamps and chunk index)
    katdal/visdatav4.py     VisibilityDataV4.__init__    (time_offset, one-CBF-dump workaround, start/end
                                                          time, spectral window + channel preselect)
    katdal/spectral_window.py  SpectralWindow            (channel_freqs, subrange, rechannelise)
    katdal/dataset.py       DataSet.select(dumps=, channels=)  (mask semantics only)

  Numbers are exact rationals (`Rat`, core Lean): the harness feeds dyadic parameters so that the
  float arithmetic of the implementation is exact and can be compared with `=`.
  Import-free apart from the Np / Index layers (compiled into the driver).
-/
import KatdalModel.Np.Basic
import KatdalModel.Model.Index
open Np Index

namespace TimeFreq

/-! ## The one-CBF-dump workaround rule (visdatav4.py:258-275) -/

/-- `_before(d1) or _before(d2) and not (cmc2 and cbf4k) or _before(d3) and not cmc2`
    with Python precedence (`not` > `and` > `or`). -/
def fixApplies (b1 b2 b3 cmc2 cbf4k : Bool) : Bool :=
  b1 || (b2 && !(cmc2 && cbf4k)) || (b3 && !cmc2)

/-- The documented table: "CMC2 aka cbf_dev_N 4k fixed since d1, CMC2 1k fixed since d2,
    CMC1 aka cbf_N fixed since d3". -/
def fixDate (d1 d2 d3 : Rat) (cmc2 cbf4k : Bool) : Rat :=
  if cmc2 then (if cbf4k then d1 else d2) else d3

/-! ## Spectral windows (spectral_window.py) -/

structure SpW where
  centre : Rat
  width : Rat
  bandwidth : Rat
  n : Nat
  sideband : Int
  deriving DecidableEq, Repr, Inhabited

/-- `SpectralWindow.__init__`: bandwidth given ⇒ channel width derived, else bandwidth derived. -/
def SpW.new (centre width : Rat) (n : Nat) (sideband : Int) (bandwidth : Option Rat) : SpW :=
  match bandwidth with
  | none => { centre, width, bandwidth := width * n, n, sideband }
  | some bw => { centre, width := bw / n, bandwidth := bw, n, sideband }

/-- element `k` of `channel_freqs`:
    `centre_freq + sideband * bandwidth * (k - num_chans // 2) / num_chans` -/
def SpW.freq (w : SpW) (k : Nat) : Rat :=
  w.centre + (w.sideband : Rat) * w.bandwidth * (((k : Int) - ((w.n / 2 : Nat) : Int) : Int) : Rat) / (w.n : Rat)

def SpW.channelFreqs (w : SpW) : List Rat := (List.range w.n).map w.freq

/-- `subrange(first, last)` -/
def SpW.subrange (w : SpW) (first last : Int) : Except Err SpW :=
  if ¬ (0 ≤ first ∧ first < last ∧ last ≤ (w.n : Int)) then .error .index
  else
    let shift : Int := (first + last) / 2 - ((w.n / 2 : Nat) : Int)
    let n' : Nat := (last - first).toNat
    let centre := w.centre + (shift : Rat) * w.bandwidth * (w.sideband : Rat) / (w.n : Rat)
    .ok (SpW.new centre w.width n' w.sideband (some (w.bandwidth * (n' : Rat) / (w.n : Rat))))

/-- `rechannelise(num_chans)` -/
def SpW.rechannelise (w : SpW) (m : Nat) : SpW :=
  if m = w.n then w
  else
    let c0 := w.centre
    let c1 := if w.n % 2 = 0 then c0 - (w.sideband : Rat) * (1 / 2) * w.width else c0
    let cw := w.bandwidth / (m : Rat)
    let c2 := if m % 2 = 0 then c1 + (w.sideband : Rat) * (1 / 2) * cw else c1
    SpW.new c2 cw m w.sideband (some w.bandwidth)

/-- frequency of the outer edge of channel 0 (spec notion: half a channel beyond its centre,
    away from channel 1) -/
def SpW.edgeFirst (w : SpW) : Rat := w.freq 0 - (w.sideband : Rat) * w.width / 2

/-- frequency of the outer edge of the last channel -/
def SpW.edgeLast (w : SpW) : Rat := w.freq (w.n - 1) + (w.sideband : Rat) * w.width / 2

/-- well-formedness that every constructor establishes over exact arithmetic -/
def SpW.wf (w : SpW) : Prop := 0 < w.n ∧ w.width * (w.n : Rat) = w.bandwidth

/-! ## Preselection (datasources.py:360-367) -/

/-- value stored under a preselect key: a slice or anything else (list, int, array …) -/
inductive PreVal
  | slice (a b c : Option Int)
  | other
  deriving DecidableEq, Repr, Inhabited

/-- the `preselect` dict: the two legal keys plus the list of other keys present -/
structure Preselect where
  dumps : Option PreVal := none
  channels : Option PreVal := none
  extra : List String := []
  deriving DecidableEq, Repr, Inhabited

def PreVal.unitSlice : PreVal → Bool
  | .slice _ _ c => c == none || c == some 1
  | .other => false

/-- the two checks at the top of `TelstateDataSource.__init__` (both raise IndexError) -/
def validatePreselect (p : Preselect) : Except Err Unit :=
  if ¬ p.extra.isEmpty then .error .index
  else if (p.dumps.map PreVal.unitSlice).getD true = false then .error .index
  else if (p.channels.map PreVal.unitSlice).getD true = false then .error .index
  else .ok ()

/-- numpy / dask positions of `x[v]` on an axis of length `n` -/
def PreVal.positions (n : Nat) : PreVal → Except Err (List Nat)
  | .slice a b c =>
    match sliceList n a b c with
    | none => .error .value
    | some l => .ok (l.map Int.toNat)
  | .other => .error .index

/-- `lst[v]` for a slice -/
def sliceOf {α} [Inhabited α] (l : List α) (v : PreVal) : Except Err (List α) := do
  let ps ← v.positions l.length
  pure (ps.map fun i => l.getD i default)

/-! ## Opening a v4 data set -/

structure Cfg where
  sync : Rat
  first : Rat
  intTime : Rat
  timeOffset : Rat
  T : Nat
  F : Nat
  cbf : Option Rat          -- CBF dump period, `none` when `_cbf_attrs` raises KeyError/IndexError
  cmc2 : Bool               -- 'cbf_dev' in sub_pool_resources
  cbf4k : Bool              -- 'c856M4k' in sub_product
  centre : Rat
  bandwidth : Rat
  d1 : Rat                  -- katpoint.Timestamp('2019-02-11').secs
  d2 : Rat                  -- … '2019-03-03'
  d3 : Rat                  -- … '2019-03-15'
  deriving Repr, Inhabited

structure Opened where
  ts : List Rat             -- source.timestamps after the in-place shifts == d.timestamps (no selection)
  timeOffset : Rat          -- d.time_offset
  startT : Rat
  endT : Rat
  spw : SpW
  dumpBase : List Nat       -- stored dump index behind each dump of the opened data set
  chanBase : List Nat       -- stored channel index behind each channel
  deriving DecidableEq, Repr, Inhabited

def fullSlice : PreVal := .slice none none none

/-- `t0 + np.arange(n_dumps) * int_time` -/
def rawTimestamps (c : Cfg) : List Rat :=
  (List.range c.T).map fun (i : Nat) => (c.sync + c.first) + (i : Rat) * c.intTime

/-- TelstateDataSource.__init__: validation, `preselect_index` on the chunk index, timestamps -/
def openSource (c : Cfg) (p : Preselect) : Except Err (List Nat × List Nat × List Rat) := do
  validatePreselect p
  let dumpBase ← (p.dumps.getD fullSlice).positions c.T       -- preselect_index[0] on the chunk index
  let chanBase ← (p.channels.getD fullSlice).positions c.F    -- preselect_index[1]
  let ts0 := rawTimestamps c
  let ts1 ← match p.dumps with
    | none => pure ts0
    | some v => sliceOf ts0 v
  pure (dumpBase, chanBase, ts1)

/-- VisibilityDataV4.__init__, "Extract timestamps": `+= time_offset`, the workaround, returns the
    shifted timestamps and the recorded `time_offset` -/
def shiftTimestamps (c : Cfg) (ts1 : List Rat) : Except Err (List Rat × Rat) := do
  let ts2 := ts1.map (· + c.timeOffset)
  let t0 ← getNat ts2 0                                        -- `source.timestamps[0]` in `_before`
  let apply := fixApplies (decide (t0 < c.d1)) (decide (t0 < c.d2)) (decide (t0 < c.d3)) c.cmc2 c.cbf4k
  match apply, c.cbf with
  | true, some q => pure (ts2.map (· - q), c.timeOffset - q)
  | _, _ => pure (ts2, c.timeOffset)

/-- VisibilityDataV4.__init__, "Extract spectral windows": sideband +1, channel preselect -/
def openSpw (c : Cfg) (p : Preselect) : Except Err SpW :=
  let width := c.bandwidth / (c.F : Rat)
  let spw0 := SpW.new c.centre width c.F 1 none
  match p.channels with
  | none => pure spw0
  | some (.slice a b cc) =>
    match sliceIndices c.F a b cc with
    | none => .error .value
    | some (s, e, _) => spw0.subrange s e
  | some .other => .error .index

def openV4 (c : Cfg) (p : Preselect) : Except Err Opened := do
  let (dumpBase, chanBase, ts1) ← openSource c p
  let (ts3, off) ← shiftTimestamps c ts1
  let half := (1 / 2 : Rat) * c.intTime
  let startT := ts3.headD 0 - half
  let endT := ts3.getD (ts3.length - 1) 0 + half             -- `source.timestamps[-1]`
  let spw ← openSpw c p
  pure { ts := ts3, timeOffset := off, startT, endT, spw, dumpBase, chanBase }

/-! ## Later selections (dataset.py: `dump_keep[v] = True`): a set of positions of the opened axis -/

/-- positions kept by `select(dumps=ix)` on an axis of length `n`, in increasing order -/
def keepPositions (n : Nat) : Option Ix → Except Err (List Nat)
  | none => .ok (List.range n)
  | some ix => do
    let s ← ix.resolve n
    let ks := match s with | .one k => [k] | .many ks => ks
    pure ((List.range n).filter fun i => ks.contains i)

structure Obs where
  ts : List Rat
  freqs : List Rat
  dumpPos : List Nat        -- which stored dumps the vis / flags / weights rows are
  chanPos : List Nat
  deriving DecidableEq, Repr, Inhabited

/-- what `d.timestamps, d.freqs, d.vis/flags/weights` show after `select(dumps=sd, channels=sc)` -/
def Opened.observe (o : Opened) (sd sc : Option Ix) : Except Err Obs := do
  let kd ← keepPositions o.ts.length sd
  let kc ← keepPositions o.spw.n sc
  pure { ts := kd.map fun i => o.ts.getD i 0,
         freqs := kc.map o.spw.freq,
         dumpPos := kd.map fun i => o.dumpBase.getD i 0,
         chanPos := kc.map fun k => o.chanBase.getD k 0 }

/-! ## Spec side: the closed forms the documentation promises -/

/-- centre of the whole band (spec): for an even channel count the centre frequency is the centre of
    channel `n/2`, half a channel beyond the middle of the band -/
def bandCentre (w : SpW) : Rat :=
  if w.n % 2 = 0 then w.centre - (w.sideband : Rat) * w.width / 2 else w.centre

/-- the range `[lo, hi)` picked by an optional unit-step preselect slice on an axis of length `n`
    (spec side: `slice.indices(n)`) -/
def selRange (n : Nat) : Option PreVal → Nat × Nat
  | none => (0, n)
  | some (.slice a b c) =>
    match sliceIndices n a b c with
    | some (s, e, _) => (s.toNat, e.toNat)
    | none => (0, 0)
  | some .other => (0, 0)

/-- mid-point of stored dump `i` before any shift -/
def rawT (c : Cfg) (i : Nat) : Rat := (c.sync + c.first) + (i : Rat) * c.intTime

/-- the whole-band spectral window of a v4 data set -/
def spwWhole (c : Cfg) : SpW := SpW.new c.centre (c.bandwidth / (c.F : Rat)) c.F 1 none

/-- a preselect value handed to `select` instead -/
def toIx : Option PreVal → Option Ix
  | some (.slice a b c) => some (.slice a b c)
  | _ => none

/-- what the property promises for "open with `p`, then `select(dumps=sd, channels=sc)`":
    open the *whole* data set (workaround decided on the first dump of the capture), select the
    same ranges, and interpret `sd`/`sc` relative to those ranges.  Returns the observables plus
    `(time_offset, start_time, end_time)` of the opened (preselected) data set. -/
def specObserve (c : Cfg) (p : Preselect) (sd sc : Option Ix) : Except Err (Obs × Rat × Rat × Rat) := do
  validatePreselect p
  let (lo, hi) := selRange c.T p.dumps
  let (clo, chi) := selRange c.F p.channels
  let kd ← keepPositions (hi - lo) sd
  let kc ← keepPositions (chi - clo) sc
  let before := decide (rawT c 0 + c.timeOffset < fixDate c.d1 c.d2 c.d3 c.cmc2 c.cbf4k)
  let off := c.timeOffset - (if before then c.cbf.getD 0 else 0)
  let obs : Obs :=
    { ts := kd.map fun i => rawT c (lo + i) + off,
      freqs := kc.map fun k => c.centre
        + (((clo + k : Nat) : Rat) - ((c.F / 2 : Nat) : Rat)) * c.bandwidth / (c.F : Rat),
      dumpPos := kd.map (lo + ·),
      chanPos := kc.map (clo + ·) }
  pure (obs, off, rawT c lo + off - c.intTime / 2, rawT c (hi - 1) + off + c.intTime / 2)

end TimeFreq
